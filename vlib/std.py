"""The standard check flow (Lean stage, harness build, known findings, corpus, generated cases, verdict)."""
import os

from . import core
from .corr import Engine, finalize_cov
from .core import Case


def run(ctx, pm, extra=None):
    ok, problem = core.lean_stage(ctx, getattr(pm, "EXTRA_MODULES", ()))
    ctx.log("lean stage:", "ok" if ok else "BROKEN", f"({ctx.cov.get('discharged')}/{ctx.cov.get('obligations')} theorems)")
    driver_ok = os.path.exists(core.DRIVER)
    binary, log = core.build_harness()
    if binary is None:
        ctx.violation("harness-build.txt",
                      "the correspondence harness does not build against the current tree, so the tie between model and code cannot be "
                      "checked and the property is not shown\n" + log[-4000:], no_input=True)
        finalize_cov(ctx, getattr(pm, "RULE", ""))
        return ctx.finish()
    if not driver_ok:
        ctx.violation("lean-build.txt", "the Lean driver does not build:\n" + problem, no_input=True)
        finalize_cov(ctx, getattr(pm, "RULE", ""))
        return ctx.finish()
    eng = Engine(ctx, pm, binary)
    eng.replay_known()
    corp = pm.corpus() if hasattr(pm, "corpus") else []
    if corp:
        eng.check(corp, "corpus")
    n = pm.SIZES[ctx.tier]
    batch = getattr(pm, "BATCH", 2000)
    done = 0
    # a broken correspondence on a known-finding replay or corpus case is not the end: keep looking for a
    # concrete failing input among the generated cases
    while done < n and not ctx.has_input():
        k = min(batch, n - done)
        eng.check(pm.gen(ctx, k), "generated")
        done += k
        ctx.log(f"{done}/{n} cases, {ctx.cov.get('evaluations', 0)} observations compared")
    if extra is not None and not ctx.has_input():
        extra(ctx, eng)
    if not ok and not ctx.violations:
        ctx.violation("proof-broken.txt",
                      f"proof obligations of Sentinel.Props.{ctx.prop} no longer check:\n{problem}\n"
                      "the correspondence run found no input on which the property fails\n", no_input=True)
    finalize_cov(ctx, getattr(pm, "RULE", ""))
    if ctx.tier == "thorough" and ok:
        rc, so, se = core.sh(["lake", "env", "leanchecker", f"Sentinel.Props.{ctx.prop}"], cwd=core.LEAN, timeout=3600)
        ctx.cov["leanchecker"] = "ok" if rc == 0 else ("failed: " + (so + se)[-500:])
        if rc != 0:
            ctx.violation("leanchecker.txt", so + se, no_input=True)
    return ctx.finish()


def replay(pm, path):
    """Re-run a replay file: prints implementation | model | spec side by side; exit 1 if the property fails or
    the correspondence differs."""
    ctx = core.Ctx(pm.PROP, "quick", 0, clean=False)
    binary, log = core.build_harness()
    if binary is None:
        print(log)
        return 2
    core.lake_build(["sentinel-driver"])
    eng = Engine(ctx, pm, binary)
    ops = [l.rstrip("\n") for l in open(path) if l.strip() and not l.startswith("#") and not l.startswith("case ")]
    impl, model, judge = eng.one(ops, "replay")
    i, hit = eng.spec_fail(impl, judge)
    d = core.compare(impl, model)
    print(eng.render(ops, impl, model, judge, i if i is not None else d, "replay of " + path))
    if i is not None:
        print(f"property {pm.PROP} FAILS on the implementation at line {i}")
        return 1
    if d is not None:
        print(f"implementation and model differ at line {d}")
        return 1
    print("implementation == model, property holds on this input")
    return 0
