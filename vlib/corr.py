"""Generic correspondence engine: implementation vs model (the tie) and implementation vs spec/oracle
(the property), with shrinking, neighbourhood search and known-finding attribution.  DESIGN.md 2.5/2.6.

A property module supplies:
  PROP            property id
  gen(ctx, n)     -> list[Case]            generated cases (every random choice from ctx.rng)
  corpus()        -> list[Case]            minimised past failures / hand-written regressions (run first)
  densify(ops, rng) -> ops                 (optional) add observations around every op: used by the search
  nontrivial(case, impl_lines) -> key|None (optional) distinctness key when the case is non-trivial
  SPEC_MODE       "spec" (compare impl output with the spec's output; `?` = no claim)
                  or "oracle" (the driver judges the impl's own trace: results `ok` / `bad …` / `?`)
"""
import collections
import os

from . import core
from .core import Case, compare, split_cases, split_res, cases_text


class Engine:
    def __init__(self, ctx, pm, binary):
        self.ctx, self.pm, self.binary = ctx, pm, binary
        self.prop = pm.PROP
        self.spec_mode = getattr(pm, "SPEC_MODE", "spec")
        self.known = {e["key"]: e for e in core.load_known(self.prop) if e.get("kind") == "known"}
        self.impl_args = tuple(getattr(pm, "IMPL_ARGS", ()))

    # --- running -------------------------------------------------------------------------
    def run3(self, cases):
        """Returns per-case (impl, model, judge) line lists, or raises RuntimeError."""
        text = cases_text(cases)
        impl, err = core.run_impl(self.binary, self.prop, text, args=self.impl_args)
        if impl is None:
            raise RuntimeError("impl: " + err)
        model, err = core.run_lean(self.prop, "model", text)
        if model is None:
            raise RuntimeError("model: " + err)
        if self.spec_mode == "spec":
            judge, err = core.run_lean(self.prop, "spec", text)
        else:
            judge, err = core.run_lean(self.prop, "oracle", "\n".join(impl) + "\n")
        if judge is None:
            raise RuntimeError("spec: " + err)
        ci, cm, cj = split_cases(impl), split_cases(model), split_cases(judge)
        if not (len(ci) == len(cm) == len(cj) == len(cases)):
            raise RuntimeError(f"case count mismatch impl={len(ci)} model={len(cm)} judge={len(cj)} want={len(cases)}")
        return list(zip(ci, cm, cj))

    def spec_fail(self, impl, judge):
        """Index of the first line where the implementation contradicts the property (None if none).
        Lines attributed by the spec to a *listed* known finding are skipped; returns (idx, known_keys_hit)."""
        hit = set()
        if any(l.endswith(" => bad-op") for l in judge):
            return None, hit          # not a well-formed op sequence (only arises while shrinking)
        n = max(len(impl), len(judge))
        for i in range(n):
            a = impl[i] if i < len(impl) else "<missing>"
            b = judge[i] if i < len(judge) else "<missing>"
            opa, ra = split_res(a)
            opb, rb = split_res(b)
            if self.spec_mode == "spec":
                if a == b or rb == "?":
                    continue
                if rb is not None and rb.startswith("?known:"):
                    _, _, rest = rb.partition("?known:")
                    key, _, val = rest.partition(":")
                    if key in self.known:
                        if ra != val:
                            hit.add(key)
                        continue
                    if ra == val:
                        continue
                return i, hit
            else:
                if rb is None or rb == "ok" or rb == "?":
                    continue
                if rb.startswith("known:"):
                    key = rb[6:].split()[0]
                    if key in self.known:
                        hit.add(key)
                        continue
                return i, hit
        return None, hit

    @staticmethod
    def model_diff(impl, model):
        if any(l.endswith(" => bad-op") for l in model):
            return None
        return compare(impl, model)

    def one(self, ops, cid="x"):
        (impl, model, judge), = self.run3([Case(cid, ops)])
        return impl, model, judge

    # --- the check ------------------------------------------------------------------------
    def check(self, cases, label="generated"):
        ctx = self.ctx
        try:
            res = self.run3(cases)
        except RuntimeError as e:
            ctx.violation(f"{label}-harness-error.txt",
                          f"correspondence could not be run ({e}); nothing is shown for {self.prop}\n", no_input=True)
            return
        stats = ctx.cov.setdefault("distribution", {"ops": collections.Counter(), "results": collections.Counter()})
        keys = ctx.cov.setdefault("_keys", set())
        nobs = 0
        model_diffs, spec_fails, known_hits = [], [], collections.Counter()
        for case, (impl, model, judge) in zip(cases, res):
            for l in impl:
                op, r = split_res(l)
                stats["ops"][op.split(" ", 1)[0]] += 1
                if r is not None:
                    nobs += 1
                    stats["results"][r.split(" ", 1)[0] if not r[:1].isdigit() and not r.startswith("f:") and not r.startswith("[") else "value"] += 1
            d = compare(impl, model)
            f, hit = self.spec_fail(impl, judge)
            for k in hit:
                known_hits[k] += 1
            if f is not None:
                spec_fails.append((case, f))
            elif d is not None:
                model_diffs.append((case, d))
            if hasattr(self.pm, "nontrivial"):
                k = self.pm.nontrivial(case, impl)
                if k is not None:
                    keys.add(k)
        ctx.cov["traces_validated_against_impl"] = ctx.cov.get("traces_validated_against_impl", 0) + len(cases)
        ctx.cov["evaluations"] = ctx.cov.get("evaluations", 0) + nobs
        ctx.cov["model_disagreements"] = ctx.cov.get("model_disagreements", 0) + len(model_diffs)
        ctx.cov["spec_failures"] = ctx.cov.get("spec_failures", 0) + len(spec_fails)
        kh = ctx.cov.setdefault("known_finding_region_hits", {})
        for k, v in known_hits.items():
            kh[k] = kh.get(k, 0) + v
        if len(ctx.cov["samples"]) < 3 and cases:
            c = cases[len(cases) // 2]
            i = cases.index(c)
            ctx.cov["samples"].append({"case": c.cid, "tags": list(c.tags), "impl_trace": res[i][0][:40]})

        # property contradicted on the implementation: shrink and report
        for case, f in spec_fails[:3]:
            ops = self.shrink(case.ops, lambda o: self.spec_fail(*self._ij(o))[0] is not None)
            impl, model, judge = self.one(ops)
            i, _ = self.spec_fail(impl, judge)
            body = self.render(ops, impl, model, judge, i, f"property {self.prop} fails on the implementation ({label} case {case.cid})")
            ctx.violation(f"{label}-{case.cid}.replay", body)
        if spec_fails:
            return
        # model and implementation disagree although no property failure was seen: search the neighbourhood
        for case, d in model_diffs[:3]:
            ops = self.shrink(case.ops, lambda o: self.model_diff(*self._im(o)) is not None)
            found = self.search(ops)
            if found is not None:
                fops, impl, model, judge, i = found
                body = self.render(fops, impl, model, judge, i,
                                   f"correspondence broke on {label} case {case.cid}; neighbourhood search found an input on which {self.prop} fails")
                ctx.violation(f"{label}-{case.cid}.replay", body)
            else:
                impl, model, judge = self.one(ops)
                i = compare(impl, model)
                body = self.render(ops, impl, model, judge, i,
                                   f"correspondence impl==model no longer checks for {self.prop} (theorems of Sentinel.Props.{self.prop} are about the model, "
                                   f"so the property is no longer shown for the code); no input violating the spec was found in the neighbourhood")
                ctx.violation(f"{label}-{case.cid}.corr", body, no_input=True)

    def _ij(self, ops):
        impl, model, judge = self.one(ops)
        return impl, judge

    def _im(self, ops):
        impl, model, judge = self.one(ops)
        return impl, model

    def shrink(self, ops, fails):
        try:
            if not fails(ops):
                return ops
            keep = getattr(self.pm, "KEEP_PREFIX", 1)
            return core.ddmin(ops, lambda o: self._safe(fails, o), keep_prefix=keep, budget=getattr(self.pm, "SHRINK_BUDGET", 300))
        except RuntimeError:
            return ops

    @staticmethod
    def _safe(f, o):
        try:
            return f(o)
        except RuntimeError:
            return False

    def search(self, ops):
        """Look for an input near `ops` on which the implementation contradicts the spec."""
        rng = self.ctx.rng
        cands = [ops]
        dens = getattr(self.pm, "densify", None)
        if dens:
            for _ in range(getattr(self.pm, "SEARCH_TRIES", 40)):
                cands.append(dens(ops, rng))
        # prefixes as well
        for k in range(1, len(ops)):
            cands.append(ops[:k])
        cases = [Case(f"s{i}", o) for i, o in enumerate(cands)]
        try:
            res = self.run3(cases)
        except RuntimeError:
            return None
        for c, (impl, model, judge) in zip(cases, res):
            i, _ = self.spec_fail(impl, judge)
            if i is not None:
                sops = self.shrink(c.ops, lambda o: self.spec_fail(*self._ij(o))[0] is not None)
                impl, model, judge = self.one(sops)
                i, _ = self.spec_fail(impl, judge)
                return sops, impl, model, judge, i
        return None

    def render(self, ops, impl, model, judge, idx, title):
        out = [f"# {title}", f"# replay: bin/check {self.prop} replay <this file>   (lines after '# ---' are commentary)", "case replay"]
        out += ops
        out.append("# --- implementation | model | " + self.spec_mode)
        n = max(len(impl), len(model), len(judge))
        for i in range(n):
            g = lambda xs: xs[i] if i < len(xs) else "<missing>"
            mark = ">>" if i == idx else "  "
            out.append(f"# {mark} {g(impl)}  |  {split_res(g(model))[1]}  |  {split_res(g(judge))[1]}")
        return "\n".join(out) + "\n"

    # --- known findings ----------------------------------------------------------------
    def replay_known(self):
        """Replay each listed known finding; print KNOWN-FINDING when it still reproduces.
        Returns the set of keys still present."""
        present = set()
        for e in core.load_known(self.prop):
            if e.get("kind") != "known" or not e.get("replay"):
                continue
            p = os.path.join(core.ROOT, e["replay"])
            ops = [l.rstrip("\n") for l in open(p) if l.strip() and not l.startswith("#") and not l.startswith("case ")]
            try:
                impl, model, judge = self.one(ops, "known-" + e["key"])
            except RuntimeError as ex:
                self.ctx.violation(f"known-{e['key']}-harness-error.txt", str(ex), no_input=True)
                continue
            # for a known replay the spec must mark the failing line with this key (or plainly differ)
            saved = self.known
            self.known = {}
            i, _ = self.spec_fail(impl, judge)
            self.known = saved
            if i is not None:
                present.add(e["key"])
                self.ctx.known(f"{e['key']}: {e['what']}")
                d = compare(impl, model)
                if d is not None:
                    body = self.render(ops, impl, model, judge, d, f"as-is model no longer matches the implementation on known finding {e['key']}")
                    self.ctx.violation(f"known-{e['key']}.corr", body, no_input=True)
        self.ctx.cov["known_findings_replayed"] = sorted(present)
        return present


def finalize_cov(ctx, rule):
    cov = ctx.cov
    keys = cov.pop("_keys", set())
    cov["distinct_nontrivial"] = len(keys)
    cov["rule"] = rule
    d = cov.get("distribution")
    if d:
        cov["distribution"] = {k: dict(v) for k, v in d.items()}
