"""Shared machinery of the /verif checks.

Everything a registered check needs: building the Go harness against the *current* working tree of the
repository, building the Lean project, auditing the axioms of every property theorem, running the
implementation / the model / the spec over op files, diffing, shrinking, known-finding handling and
evidence writing.  See DESIGN.md section 2.
"""
import hashlib
import json
import os
import random
import re
import subprocess
import sys
import time

ROOT = os.path.dirname(os.path.dirname(os.path.abspath(__file__)))
REPO = os.path.abspath(os.environ.get("VERIF_REPO", "/repo"))
LEAN = os.path.join(ROOT, "lean")
GO = os.path.join(ROOT, "go")
BUILD = os.path.join(ROOT, ".build", hashlib.sha1(REPO.encode()).hexdigest()[:10])
DRIVER = os.path.join(LEAN, ".lake", "build", "bin", "sentinel-driver")
ALLOWED_AXIOMS = {"propext", "Classical.choice", "Quot.sound"}
FORBIDDEN = re.compile(r"\b(sorry|admit|native_decide|bv_decide|implemented_by)\b|^\s*axiom\s|^\s*unsafe\s|maxHeartbeats\s+0\b")


def goenv():
    e = dict(os.environ)
    e.update(GOFLAGS="-mod=mod", GOPROXY="off", GOSUMDB="off", GOTOOLCHAIN="local", CGO_ENABLED=e.get("CGO_ENABLED", "1"))
    return e


def sh(cmd, cwd=None, env=None, timeout=None, inp=None):
    p = subprocess.run(cmd, cwd=cwd, env=env, input=inp, capture_output=True, text=True, timeout=timeout)
    return p.returncode, p.stdout, p.stderr


# ----------------------------------------------------------------------------------------------
# building
# ----------------------------------------------------------------------------------------------

def build_harness(cmd="corr", tags="verif", race=False):
    """(Re)build go/cmd/<cmd> against REPO's current working tree with the hooks on.
    Returns (binary_path or None, log)."""
    os.makedirs(BUILD, exist_ok=True)
    import fcntl
    with open(os.path.join(BUILD, ".lock"), "w") as lk:      # checks may run in parallel: one harness build at a time
        fcntl.flock(lk, fcntl.LOCK_EX)
        return _build_harness_locked(cmd, tags, race)


def _write_if_changed(path, content):
    if os.path.exists(path) and open(path).read() == content:
        return
    tmp = path + ".tmp%d" % os.getpid()
    with open(tmp, "w") as f:
        f.write(content)
    os.replace(tmp, path)


def _build_harness_locked(cmd, tags, race):
    modfile = os.path.join(BUILD, "go.mod")
    base = open(os.path.join(GO, "go.mod")).read()
    base = re.sub(r"replace github.com/alibaba/sentinel-golang => .*", "replace github.com/alibaba/sentinel-golang => " + REPO, base)
    if os.path.exists(modfile):
        # keep the requirements go has already resolved into the alternate go.mod (it rewrites it with -mod=mod)
        cur = open(modfile).read()
        if "replace github.com/alibaba/sentinel-golang => " + REPO in cur and "module verifharness" in cur:
            base = cur
    _write_if_changed(modfile, base)
    # go.sum next to the alternate go.mod
    sums = set()
    for p in (os.path.join(REPO, "go.sum"), os.path.join(GO, "go.sum")):
        if os.path.exists(p):
            sums.update(l for l in open(p).read().splitlines() if l.strip())
    sumfile = os.path.join(BUILD, "go.sum")
    if os.path.exists(sumfile):
        sums.update(l for l in open(sumfile).read().splitlines() if l.strip())
    _write_if_changed(sumfile, "\n".join(sorted(sums)) + "\n")
    cover = bool(os.environ.get("VERIF_COVER"))           # maintainer tool bin/coverage: statement coverage of /repo by a check's inputs
    out = os.path.join(BUILD, cmd + ("-race" if race else "") + ("-cover" if cover else ""))
    args = ["go", "build", "-modfile=" + modfile, "-tags", tags, "-o", out]
    if race:
        args.insert(2, "-race")
    if cover:
        args[2:2] = ["-cover", "-coverpkg=github.com/alibaba/sentinel-golang/...,verifharness/cmd/" + cmd]
    args.append("./cmd/" + cmd)
    rc, so, se = sh(args, cwd=GO, env=goenv(), timeout=900)
    if rc != 0:
        return None, so + se
    return out, so + se


_lake_done = set()


def lake_build(targets):
    """lake build <targets> (incremental). Returns (ok, log)."""
    key = tuple(targets)
    rc, so, se = sh(["lake", "build"] + list(targets), cwd=LEAN, timeout=3600)
    _lake_done.add(key)
    return rc == 0, so + se


def scan_forbidden(paths):
    """grep the Lean sources for sorry/admit/axiom/native_decide/... outside comments."""
    hits = []
    for p in paths:
        txt = open(p).read()
        # strip block comments (non-nested approximation is enough: we nest-count)
        out, depth, i = [], 0, 0
        while i < len(txt):
            if txt.startswith("/-", i):
                depth += 1
                i += 2
            elif txt.startswith("-/", i) and depth > 0:
                depth -= 1
                i += 2
            else:
                if depth == 0 or txt[i] == "\n":
                    out.append(txt[i])
                i += 1
        for n, line in enumerate("".join(out).splitlines(), 1):
            code = line.split("--", 1)[0]
            if FORBIDDEN.search(code):
                hits.append(f"{os.path.relpath(p, ROOT)}:{n}: {line.strip()}")
    return hits


def lean_sources():
    res = []
    for d, _, fs in os.walk(os.path.join(LEAN, "Sentinel")):
        for f in fs:
            if f.endswith(".lean"):
                res.append(os.path.join(d, f))
    res.append(os.path.join(LEAN, "Driver.lean"))
    return sorted(res)


AUDIT_TMPL = """import Lean
import {mod}
open Lean Elab Command in
run_cmd do
  let env ← getEnv
  let some idx := env.getModuleIdx? `{mod} | throwError "no module"
  let names := env.header.moduleData[idx.toNat]!.constNames
  for n in names do
    if let some (.thmInfo _) := env.find? n then
      if !n.isInternalDetail then
        let ax ← liftCoreM (collectAxioms n)
        logInfo m!"AUDIT {{n}} {{ax.toList}}"
"""


def audit(mod):
    """List every theorem of Lean module `mod` with the axioms it depends on.
    Result cached on the module's olean hash. Returns list of dicts or raises RuntimeError."""
    olean = os.path.join(LEAN, ".lake", "build", "lib", "lean", *mod.split(".")) + ".olean"
    if not os.path.exists(olean):
        raise RuntimeError("module not built: " + mod)
    h = hashlib.sha1(open(olean, "rb").read()).hexdigest()
    cdir = os.path.join(ROOT, ".build", "audit")
    os.makedirs(cdir, exist_ok=True)
    cfile = os.path.join(cdir, mod + ".json")
    if os.path.exists(cfile):
        c = json.load(open(cfile))
        if c.get("hash") == h:
            return c["theorems"]
    src = os.path.join(cdir, mod.replace(".", "_") + "_audit.lean")
    with open(src, "w") as f:
        f.write(AUDIT_TMPL.format(mod=mod))
    rc, so, se = sh(["lake", "env", "lean", src], cwd=LEAN, timeout=1800)
    if rc != 0:
        raise RuntimeError("audit failed: " + so + se)
    thms = []
    for m in re.finditer(r"AUDIT (\S+) \[(.*?)\]", so):
        ax = [a.strip() for a in m.group(2).split(",") if a.strip()]
        thms.append({"name": m.group(1), "axioms": ax, "ok": set(ax) <= ALLOWED_AXIOMS})
    json.dump({"hash": h, "theorems": thms}, open(cfile, "w"))
    return thms


# ----------------------------------------------------------------------------------------------
# running the three interpreters
# ----------------------------------------------------------------------------------------------

def run_impl(binary, prop, ops_text, timeout=600, extra_env=None, args=()):
    env = goenv()
    env.setdefault("GOMEMLIMIT", "4GiB")
    if extra_env:
        env.update(extra_env)
    if os.environ.get("VERIF_COVER"):
        env["GOCOVERDIR"] = os.environ["VERIF_COVER"]
    try:
        p = subprocess.run([binary, prop] + list(args), input=ops_text, capture_output=True, text=True, timeout=timeout, env=env)
    except subprocess.TimeoutExpired:
        return None, f"harness did not finish within {timeout}s (the implementation hangs or spins on this input)"
    if p.returncode != 0:
        return None, f"harness exited {p.returncode}: {p.stderr[-2000:]}"
    return p.stdout.splitlines(), None


def run_lean(prop, mode, ops_text, timeout=600):
    try:
        p = subprocess.run([DRIVER, prop, mode], input=ops_text, capture_output=True, text=True, timeout=timeout)
    except subprocess.TimeoutExpired:
        return None, f"driver did not finish within {timeout}s"
    if p.returncode != 0:
        return None, f"driver exited {p.returncode}: {p.stderr[-2000:]}"
    return p.stdout.splitlines(), None


def split_res(line):
    i = line.find(" => ")
    if i < 0:
        return line.strip(), None
    return line[:i].strip(), line[i + 4:].strip()


class Case:
    __slots__ = ("cid", "ops", "tags")

    def __init__(self, cid, ops, tags=()):
        self.cid, self.ops, self.tags = cid, list(ops), tuple(tags)

    def text(self):
        return "case %s\n" % self.cid + "\n".join(self.ops) + "\n"


def cases_text(cases):
    return "".join(c.text() for c in cases)


def split_cases(lines):
    """Split an output stream back into per-case lists of lines (without the `case` line)."""
    res, cur = [], None
    for l in lines:
        if l.startswith("case "):
            cur = []
            res.append(cur)
        elif cur is not None:
            cur.append(l)
    return res


def compare(a_lines, b_lines, ignore_q=False):
    """First index where two per-case outputs differ (None when equal). With ignore_q, a `?` result on
    the b side means 'no claim' and never differs."""
    n = max(len(a_lines), len(b_lines))
    for i in range(n):
        a = a_lines[i] if i < len(a_lines) else "<missing>"
        b = b_lines[i] if i < len(b_lines) else "<missing>"
        if a == b:
            continue
        if ignore_q:
            _, rb = split_res(b)
            if rb == "?":
                continue
        return i
    return None


# ----------------------------------------------------------------------------------------------
# shrinking (delta debugging on op lines)
# ----------------------------------------------------------------------------------------------

def ddmin(ops, fails, keep_prefix=1, budget=400):
    """Shrink `ops` (list of lines) while `fails(ops)` stays true. The first keep_prefix lines are kept."""
    head, body = ops[:keep_prefix], ops[keep_prefix:]
    n = 2
    calls = 0
    while len(body) >= 2 and calls < budget:
        chunk = max(1, len(body) // n)
        reduced = False
        for i in range(0, len(body), chunk):
            cand = body[:i] + body[i + chunk:]
            calls += 1
            if cand != body and fails(head + cand):
                body = cand
                n = max(n - 1, 2)
                reduced = True
                break
            if calls >= budget:
                break
        if not reduced:
            if chunk == 1:
                break
            n = min(len(body), n * 2)
    return head + body


# ----------------------------------------------------------------------------------------------
# known findings
# ----------------------------------------------------------------------------------------------

def load_known(prop):
    res = []
    # known/<prop>.jsonl is the per-property source; KNOWN_FINDINGS.jsonl is their concatenation
    # (bin/genmanifest). Both are committed, neither is ever written by a check.
    p = os.path.join(ROOT, "known", prop + ".jsonl")
    if not os.path.exists(p):
        p = os.path.join(ROOT, "KNOWN_FINDINGS.jsonl")
    if os.path.exists(p):
        for l in open(p):
            l = l.strip()
            if l:
                e = json.loads(l)
                if e.get("property") == prop:
                    res.append(e)
    return res


# ----------------------------------------------------------------------------------------------
# the run context: collects everything and writes evidence / verdict
# ----------------------------------------------------------------------------------------------

class Ctx:
    def __init__(self, prop, tier, seed, clean=True):
        self.prop, self.tier, self.seed = prop, tier, seed
        self.t0 = time.time()
        self.rng = random.Random(seed * 1000003 + sum(ord(c) for c in prop))
        self.violations = []          # (replay_path, text, no_input_found)
        self.known_lines = []
        self.cov = {"samples": []}
        self.assumptions = []
        self.level = "proof"
        self.report_as = prop          # an internal check (e.g. INT) reports under the property it serves
        os.makedirs(os.path.join(ROOT, "evidence"), exist_ok=True)
        os.makedirs(os.path.join(ROOT, "replays"), exist_ok=True)
        for f in os.listdir(os.path.join(ROOT, "replays")) if clean else []:   # stale replays of earlier runs
            if f.startswith(prop + "-"):
                os.remove(os.path.join(ROOT, "replays", f))

    def log(self, *a):
        print("[%s %s %.0fs]" % (self.prop, self.tier, time.time() - self.t0), *a, flush=True)

    def replay_path(self, name, content):
        p = os.path.join(ROOT, "replays", f"{self.prop}-{name}")
        with open(p, "w") as f:
            f.write(content)
        return p

    def violation(self, name, content, no_input=False):
        p = self.replay_path(name, content)
        self.violations.append((p, no_input))

    def known(self, what):
        self.known_lines.append(what)

    def has_input(self):
        """True when a violation with a concrete failing input has been recorded."""
        return any(not ni for _, ni in self.violations)

    def finish(self):
        if any(not ni for _, ni in self.violations):
            self.violations = [(p_, ni) for p_, ni in self.violations if not ni]
        ev = {
            "property_id": self.prop, "tier": self.tier, "seed": self.seed, "level": self.level,
            "coverage": self.cov, "assumptions": self.assumptions,
            "wall_s": round(time.time() - self.t0, 2), "violations": len(self.violations),
        }
        evdir = os.path.join(ROOT, "evidence")
        if REPO != "/repo":               # a run against a scratch tree (mutant testing) must not overwrite the evidence
            evdir = os.path.join(BUILD, "evidence")
            os.makedirs(evdir, exist_ok=True)
        with open(os.path.join(evdir, self.prop + ".json"), "w") as f:
            json.dump(ev, f, indent=1, sort_keys=True)
            f.write("\n")
        if any(not ni for _, ni in self.violations):
            self.violations = [(p_, ni) for p_, ni in self.violations if not ni]
        for w in self.known_lines:
            print(f"KNOWN-FINDING: property={self.report_as} {w}")
        for p, no_input in self.violations:
            print(f"VIOLATION property={self.report_as} replay={p}" + (" no-failing-input-found" if no_input else ""))
        sys.stdout.flush()
        return 1 if self.violations else 0


# ----------------------------------------------------------------------------------------------
# the Lean stage shared by every check
# ----------------------------------------------------------------------------------------------

def lean_stage(ctx, extra_modules=()):
    """Build the property's theorems and the driver; audit axioms; record obligations.
    Returns (ok, problem_text). On failure the caller still runs the failing-input search."""
    mod = f"Sentinel.Props.{ctx.prop}"
    mods = [mod] + list(extra_modules)
    t = time.time()
    ok, log = lake_build(mods + ["sentinel-driver"])
    ctx.cov["checker_cmd"] = f"cd lean && lake build {' '.join(mods)} sentinel-driver && lake env lean <audit of {mod}: collectAxioms on every theorem>"
    ctx.cov["trusted_base"] = [
        "Lean 4.33 kernel (lake build elaborates and kernel-checks every theorem)",
        "axioms allowed: propext, Classical.choice, Quot.sound (audited per theorem with collectAxioms)",
        "Lean compiler/runtime for the executable driver (same definitions the theorems are about)",
        "go/ correspondence harness + util.Clock virtualisation + canonical printing",
    ]
    if not ok:
        errs = [l for l in log.splitlines() if "error" in l][:20]
        ctx.cov["obligations"] = ctx.cov.get("obligations", 1)
        ctx.cov["discharged"] = 0
        return False, "lake build failed:\n" + "\n".join(errs)
    bad_tokens = scan_forbidden(lean_sources())
    try:
        thms = []
        for m in mods:
            thms += audit(m)
    except RuntimeError as e:
        return False, str(e)
    ctx.cov["obligations"] = len(thms)
    ctx.cov["discharged"] = sum(1 for t_ in thms if t_["ok"])
    ctx.cov["theorems"] = [{"name": t_["name"], "axioms": t_["axioms"]} for t_ in thms]
    ctx.cov["lean_build_s"] = round(time.time() - t, 1)
    problems = []
    if bad_tokens:
        problems.append("forbidden tokens: " + "; ".join(bad_tokens[:5]))
    for t_ in thms:
        if not t_["ok"]:
            problems.append(f"theorem {t_['name']} depends on axioms {t_['axioms']}")
    if not thms:
        problems.append("no theorems found in " + mod)
    if problems:
        return False, "\n".join(problems)
    return True, ""
