import Sentinel.Drv.Common
import Sentinel.Model.BreakerRace
/-!
Driver for C12.

* `model`  — runs the op file on the small-step model `Sentinel.BreakerRace` (the same `step`/`begin`
  the theorems of `Sentinel.Props.C12` are about) under the schedule, with the scheduler's conventions
  (initial advance in thread-id order, entries for finished threads skipped, round-robin drain) and
  prints one token per granted step: who stepped, from which yield point to which, the shared words
  afterwards, new listener calls, new TryPass results.
* `oracle` — reads the **implementation's** trace and judges it: every change of the state word is one
  won CAS on a legal edge; every won CAS is reported to the listeners exactly once, by the winner, with
  the right `prev` (the order in which different threads' listener calls arrive is not judged); `probeNum = 0`: a TryPass returns true only by reading Closed or by winning
  Open→HalfOpen; no Open→HalfOpen before `openedAt + timeout` — except inside the classified windows
  of the known findings (`known:<key>`).

Op lines:
  cb.new <ec|er|sr> <retryTimeoutMs> <minRequestAmount> <threshold: int for ec, f:<bits> for er/sr> <probeNum> <maxRtMs>
  thread <tid> <item>+         item = tp | tpb | c:<rt>:ok | c:<rt>:err | rd:<timeout>:<minReq>:<threshold>:<probeNum>:<maxRt>
                               (tids 0,1,2,… in order; `rd:` = LoadRules with that rule, one schedule step)
  sched <entry>*               entry = <tid> | tick:<ms>
  results | log | final
-/
namespace Sentinel.Drv.C12
open Sentinel.BreakerRace Sentinel.Drv

def stc : St → String
  | .closed => "C" | .halfOpen => "H" | .opened => "O"

def stOf? : String → Option St
  | "C" => some .closed | "H" => some .halfOpen | "O" => some .opened | _ => none

/-- short name of the yield point a thread is parked at -/
def point : Pc → String
  | .tpGet _ => "sg" | .tpRetry _ => "rl" | .tpLoad .. => "ck" | .tpCas .. => "sc" | .rbCas => "sc"
  | .ocGet .. => "sg" | .ocGet2 => "sg" | .coCas => "sc" | .coStore => "rs"
  | .hoCas => "sc" | .hoReset => "pr" | .hoStore => "rs" | .paAdd => "pa" | .plLoad => "pl"
  | .hcCas => "sc" | .hcReset => "pr" | .done => "done"

def tf (b : Bool) : String := if b then "t" else "f"
def dls (d : Nat) : String := if d = 0 then "-" else toString d
def noteS (n : Note) : String := s!"{stc n.prev}>{stc n.to}@{n.tid}"

/-- util.Float64Equals precision 0.00000001 -/
def eps : Float := Float.ofBits 0x3E45798EE2308C3A

def ratioTrip (thr : Float) (b t : Nat) : Bool :=
  let r := b.toFloat / t.toFloat
  r > thr || (r - thr).abs < eps

def parseEnt? (s : String) : Option Ent :=
  match s.splitOn ":" with
  | [n] => n.toNat?.map Ent.t
  | ["tick", ms] => ms.toNat?.bind fun m => if m ≤ 1000000 then some (Ent.tick m) else none
  | _ => none

/-- the parameters of a rule as they stand in the op file -/
structure RuleP where
  kind : String
  to : Nat
  mr : Nat
  pn : Nat
  mx : Nat
  thrN : Nat      -- ec: the threshold
  thrF : Float    -- er / sr: the threshold
  text : String   -- `<to>:<mr>:<thr>:<pn>:<mx>` (exact identity, what reflect.DeepEqual sees)

def RuleP.cfg (r : RuleP) : Cfg :=
  { timeout := r.to, minReq := r.mr, probeNum := r.pn, slowKind := r.kind == "sr", maxRt := r.mx,
    trip := if r.kind == "ec" then (fun b _ => decide (r.thrN ≤ b)) else ratioTrip r.thrF }

def parseRule? (kind : String) (ts : List String) : Option RuleP :=
  match ts with
  | [to, mr, thr, pn, mx] =>
    let text := ":".intercalate ts
    match to.toNat?, mr.toNat?, pn.toNat?, mx.toNat? with
    | some to, some mr, some pn, some mx =>
      if to = 0 ∨ to > 100000 then none else
      match kind with
      | "ec" => thr.toNat?.map fun k => ⟨kind, to, mr, pn, mx, k, 0.0, text⟩
      | "er" => (parseFbits? thr).map fun f => ⟨kind, to, mr, pn, mx, 0, f, text⟩
      | "sr" => (parseFbits? thr).map fun f => ⟨kind, to, mr, pn, mx, 0, f, text⟩
      | _ => none
    | _, _, _, _ => none
  | _ => none

def parseCfg? (ts : List String) : Option Cfg :=
  match ts with
  | kind :: rest => (parseRule? kind rest).map RuleP.cfg
  | _ => none

/-- `Rule.isEqualsTo` (same strategy): base fields, threshold up to `util.Float64Equals`, MaxAllowedRtMs only for sr -/
def ruleEq (a b : RuleP) : Bool :=
  a.kind == b.kind && a.to == b.to && a.mr == b.mr && a.pn == b.pn &&
  (if a.kind == "sr" then a.mx == b.mx else true) &&
  (if a.kind == "ec" then a.thrN == b.thrN else (a.thrF - b.thrF).abs < eps)

/-- rule identity: the index of the first rule seen in this case that is `isEqualsTo` it -/
def ridOf (rules : List RuleP) (r : RuleP) : Nat × List RuleP :=
  match (List.range rules.length).zip rules |>.find? fun p => ruleEq p.2 r with
  | some p => (p.1, rules)
  | none => (rules.length, rules ++ [r])

structure DS where
  kind : String := ""
  rules : List RuleP := []            -- rid = index (identity up to isEqualsTo)
  table : List RuleP := []            -- the rule table of the case: `cb.new` is rule 0, `rule <id> …` the others
  lastSpec : List String := []        -- the raw rule list of the last effective load (what DeepEqual compares with)
  w : World := {}                     -- the breaker objects and the published list: persist over the phases of a case
  glog : List Note := []              -- listener calls in call order, with the harness thread's id
  progs : List (List WCall) := []     -- threads declared for the next `sched`
  specs : List (List (List String)) := []   -- per declared thread: the raw rule lists of its load items, in order
  fin : Option (List WT) := none      -- threads of the last `sched` (all finished)

/-- a thread item; for a load item also its raw rule list (`x` = pass-through rule of the custom strategy) -/
def parseItem? (s : DS) (tok : String) : Option (WCall × Option (List String) × DS) :=
  match tok.splitOn ":" with
  | ["tp"] => some (.check false false, none, s)
  | ["tpb"] => some (.check true false, none, s)
  | ["tpn"] => some (.check false true, none, s)
  | ["c", rt, "ok"] => rt.toNat?.map fun r => (.complete r false, none, s)
  | ["c", rt, "err"] => rt.toNat?.map fun r => (.complete r true, none, s)
  | "rd" :: rest =>
    (parseRule? s.kind rest).map fun r =>
      let (rid, rules) := ridOf s.rules r
      (.load [⟨r.cfg, rid⟩] false 0, some [r.text], { s with rules := rules })
  | ["rl", spec] =>
    let es := spec.splitOn ","
    let step (acc : Option (List RuleE × List String × Nat × DS)) (e : String) :=
      acc.bind fun (rs, raw, nx, s) =>
        if e = "x" then some (rs, raw ++ ["x"], nx + 1, s) else
        (e.toNat?.bind fun i => s.table[i]?).map fun r =>
          let (rid, rules) := ridOf s.rules r
          (rs ++ [⟨r.cfg, rid⟩], raw ++ [r.text], nx, { s with rules := rules })
    (es.foldl step (some ([], [], 0, s))).bind fun (rs, raw, nx, s) =>
      if rs.isEmpty then none else some (.load rs false nx, some raw, s)
  | _ => none

def parseProg? (s : DS) : List String → Option (List WCall × List (List String) × DS)
  | [] => some ([], [], s)
  | t :: r =>
    match parseItem? s t with
    | none => none
    | some (c, sp, s') => (parseProg? s' r).map fun p => (c :: p.1, (match sp with | some x => [x] | none => []) ++ p.2.1, p.2.2)

def objSh (w : World) (k : Nat) : Sh := match w.objs[k]? with | some o => o.conf.sh | none => {}

def innerTh (w : World) (cur : Option (Nat × Nat)) : Option Th :=
  cur.bind fun p => (w.objs[p.1]?).bind fun o => o.conf.th[p.2]?

/-- the yield point a harness thread is parked at -/
def wtPoint (w : World) (t : WT) : String :=
  match t.phase with
  | .loading .. => "rd"
  | .rebuilding .. => "rb"
  | _ => match innerTh w t.cur with
    | some th => point th.pc
    | none => "done"

def listS (l : List Nat) : String := if l.isEmpty then "-" else ".".intercalate (l.map toString)

/-- the token of one granted step: who, from which yield point to which, the clock, the words of **every** breaker
    object the resource has had (`W`), the published list if it changed (`P`), the snapshots of it taken by checks /
    completions started in this step (`S`), objects created (`N`), listener calls (`L`), check results (`R`) -/
def token (i : Nat) (frm : String) (w w' : World) (t t' : WT) : String :=
  let ws := (List.range w'.objs.length).map fun k =>
    let s := objSh w' k
    s!":W{k},{stc s.st},{dls s.deadline},{s.probe}"
  let p := if w'.cur ≠ w.cur then s!":P{listS w'.cur}" else ""
  let started := (t.todo.take (t.todo.length - t'.todo.length)).filter fun c =>
    match c with | .check .. => true | .complete .. => true | _ => false
  let ss := started.map fun _ => s!":S{listS w'.cur}"
  let ns := (List.range (w'.objs.length - w.objs.length)).map fun d =>
    let k := w.objs.length + d
    match w'.objs[k]? with
    | some o => s!":N{k},{o.cfg.timeout},{o.cfg.probeNum}"
    | none => ""
  let ls := match t.cur with
    | some p => ((objSh w' p.1).log.drop (objSh w p.1).log.length).map fun n => s!":L{stc n.prev}{stc n.to}"
    | none => []
  let rs := (t'.res.drop t.res.length).map fun r => s!":R{tf r}"
  s!"{i}:{frm}>{wtPoint w' t'}:{w'.clock}{String.join ws}{p}{String.join ss}{String.join ns}{String.join ls}{String.join rs}"

/-- listener calls made in a step of harness thread `i` -/
def newCalls (i : Nat) (w w' : World) (t : WT) : List Note :=
  match t.cur with
  | some p => ((objSh w' p.1).log.drop (objSh w p.1).log.length).map fun n => ⟨n.prev, n.to, i⟩
  | none => []

structure RS where
  c : WConf
  glog : List Note
  toks : List String

/-- one schedule entry on the model, with its trace token (none: tick or skipped entry) -/
def execT (r : RS) (e : Ent) : RS :=
  match e with
  | .tick _ => { r with c := r.c.exec e }
  | .t i =>
    match r.c.ths[i]? with
    | none => r
    | some t =>
      if wtPoint r.c.w t = "done" then r else
      let c' := r.c.exec e
      match c'.ths[i]? with
      | some t' => { c := c', glog := r.glog ++ newCalls i r.c.w c'.w t,
                     toks := r.toks ++ [token i (wtPoint r.c.w t) r.c.w c'.w t t'] }
      | none => { r with c := c' }

def allDone (c : WConf) : Bool := c.ths.all fun t => wtPoint c.w t = "done"

/-- the scheduler's drain: one step each, round-robin, until everybody has finished -/
def drain : Nat → RS → RS
  | 0, r => r
  | fuel + 1, r =>
    if allDone r.c then r else
    drain fuel ((List.range r.c.ths.length).foldl (fun r i => execT r (.t i)) r)

/-- the initial advance (`wstart`), with tokens -/
def startT (w : World) (glog : List Note) (progs : List (List WCall)) : RS :=
  let c : WConf := { w := (wstart w progs).1, ths := (wstart w progs).2 }
  -- tokens: replay the same advances one by one to see the words after each thread's own prelude
  let (_, _, toks) := progs.foldl (fun (p : World × Nat × List String) prog =>
    let (w, i, acc) := p
    let r := advance w [] prog
    (r.1, i + 1, acc ++ [token i "start" w r.1 { todo := prog } r.2])) (w, 0, [])
  { c := c, glog := glog, toks := toks }

def runModel (w : World) (glog : List Note) (progs : List (List WCall)) (es : List Ent) : RS :=
  drain 10000 (es.foldl execT (startT w glog progs))

/-- `reflect.DeepEqual` with the current raw rules makes a load a no-op; the raw rule lists of the loads are consumed
    in execution order, which is only known while running: the driver therefore resolves `noop` lazily — a load item
    is marked no-op iff its raw list equals the raw list of the load executed last before it.  Loads of different
    threads interleave, so this is done on the fly in `execL` below. -/
structure LS where
  r : RS
  last : List String                       -- raw rule list of the last effective load
  pend : List (List (List String))         -- per thread: raw lists of its load items not yet executed

/-- mark the load item thread `i` is parked at (phase `loading`) as no-op or not, just before it executes -/
def resolveNoop (l : LS) (i : Nat) : LS :=
  match l.r.c.ths[i]?, l.pend[i]? with
  | some t, some (raw :: rest) =>
    match t.phase with
    | .loading rules _ nx =>
      let noop := raw == l.last
      let t' : WT := { t with phase := .loading rules noop nx }
      { r := { l.r with c := { l.r.c with ths := l.r.c.ths.set i t' } },
        last := if noop then l.last else raw, pend := l.pend.set i rest }
    | _ => l
  | _, _ => l

def execL (l : LS) (e : Ent) : LS :=
  match e with
  | .tick _ => { l with r := execT l.r e }
  | .t i => let l := resolveNoop l i; { l with r := execT l.r e }

def allDoneL (l : LS) : Bool := allDone l.r.c

def drainL : Nat → LS → LS
  | 0, l => l
  | fuel + 1, l =>
    if allDoneL l then l else
    drainL fuel ((List.range l.r.c.ths.length).foldl (fun l i => execL l (.t i)) l)

/-- reload items of ≥ 2 threads while one of them yields inside the rebuild would block on the rule manager's
    mutex with the holder parked: such a batch is rejected (by the Go side too) -/
def batchOk (progs : List (List WCall)) : Bool :=
  let loaders := progs.filter fun p => p.any fun c => match c with | .load .. => true | _ => false
  let yields := progs.any fun p => p.any fun c => match c with | .load _ _ nx => nx > 0 | _ => false
  !(yields && loaders.length ≥ 2)

def stepModel (s : DS) (ts : List String) (_ : String) : DS × Option String :=
  match ts with
  | "cb.new" :: kind :: rest =>
    match parseRule? kind rest with
    | some r => ({ kind := kind, rules := [r], table := [r], lastSpec := [r.text],
                   w := ({} : World).rebuild [⟨r.cfg, 0⟩] }, none)
    | none => (s, some "bad-op")
  | "rule" :: id :: rest =>
    match id.toNat?, parseRule? s.kind rest with
    | some i, some r => if s.kind ≠ "" ∧ i = s.table.length then ({ s with table := s.table ++ [r] }, none) else (s, some "bad-op")
    | _, _ => (s, some "bad-op")
  | "thread" :: tid :: calls =>
    match tid.toNat?, parseProg? s calls with
    | some i, some (cs, sp, s') =>
      if s.kind ≠ "" ∧ i = s.progs.length ∧ ¬ cs.isEmpty ∧ i < 8 then
        ({ s' with progs := s.progs ++ [cs], specs := s.specs ++ [sp] }, none)
      else (s, some "bad-op")
    | _, _ => (s, some "bad-op")
  | "sched" :: es =>
    match es.mapM parseEnt? with
    | some es =>
      if s.kind = "" ∨ es.length > 400 ∨ !batchOk s.progs then (s, some "bad-op") else
      let l0 : LS := { r := startT s.w s.glog s.progs, last := s.lastSpec, pend := s.specs }
      let l := drainL 10000 (es.foldl execL l0)
      ({ s with w := l.r.c.w, glog := l.r.glog, lastSpec := l.last, progs := [], specs := [], fin := some l.r.c.ths },
       some (if l.r.toks.isEmpty then "-" else " ".intercalate l.r.toks))
    | none => (s, some "bad-op")
  | ["results"] =>
    match s.fin with
    | some th => (s, some (if th.isEmpty then "-" else " ".intercalate ((List.range th.length).zip th |>.map fun (i, t) =>
        s!"{i}:{showList (t.res.map tf)}")))
    | none => (s, some "bad-op")
  | ["log"] =>
    match s.fin with
    | some _ => (s, some (showList (s.glog.map noteS)))
    | none => (s, some "bad-op")
  | ["final"] =>
    match s.fin with
    | some _ =>
      let ws := (List.range s.w.objs.length).map fun k =>
        let x := objSh s.w k
        s!" o{k}={stc x.st},{dls x.deadline},{x.probe}"
      (s, some s!"clk={s.w.clock} list={listS s.w.cur}{String.join ws}")
    | none => (s, some "bad-op")
  | _ => (s, some "bad-op")

/-! ## oracle: judge the implementation's trace -/

structure Rec where
  tid : Nat
  frm : String
  to : String
  clk : Nat
  ws : List (Nat × St × Nat × Nat)       -- every object: (k, state word, deadline, probe counter)
  pub : Option (List Nat)                -- the published list, when it changed in this step
  snaps : List (List Nat)                -- snapshots taken by checks / completions started in this step
  news : List (Nat × Nat × Nat)          -- objects created: (k, timeout, probeNum)
  logs : List (St × St)
  ress : List Bool

def parseList? (x : String) : Option (List Nat) :=
  if x = "-" then some [] else (x.splitOn ".").mapM String.toNat?

def parseRec? (tok : String) : Option Rec :=
  match tok.splitOn ":" with
  | tid :: ft :: clk :: extra =>
    match tid.toNat?, ft.splitOn ">", clk.toNat? with
    | some tid, [f, t], some clk =>
      let r0 : Rec := ⟨tid, f, t, clk, [], none, [], [], [], []⟩
      extra.foldl (fun (acc : Option Rec) x => acc.bind fun r =>
        let body := (x.drop 1).toString
        if x.startsWith "W" then
          match body.splitOn "," with
          | [k, st, dl, pr] =>
            match k.toNat?, stOf? st, (if dl = "-" then some 0 else dl.toNat?), pr.toNat? with
            | some k, some st, some dl, some pr => some { r with ws := r.ws ++ [(k, st, dl, pr)] }
            | _, _, _, _ => none
          | _ => none
        else if x.startsWith "P" then (parseList? body).map fun l => { r with pub := some l }
        else if x.startsWith "S" then (parseList? body).map fun l => { r with snaps := r.snaps ++ [l] }
        else if x.startsWith "N" then
          match body.splitOn "," with
          | [k, to, pn] =>
            match k.toNat?, to.toNat?, pn.toNat? with
            | some k, some to, some pn => some { r with news := r.news ++ [(k, to, pn)] }
            | _, _, _ => none
          | _ => none
        else if x = "Rt" then some { r with ress := r.ress ++ [true] }
        else if x = "Rf" then some { r with ress := r.ress ++ [false] }
        else match x.toList with
          | ['L', a, b] => match stOf? (String.singleton a), stOf? (String.singleton b) with
              | some a, some b => some { r with logs := r.logs ++ [(a, b)] }
              | _, _ => none
          | _ => none) (some r0)
    | _, _, _ => none
  | _ => none

/-- per breaker object -/
structure OO where
  st : St := .closed
  dl : Nat := 0
  openedAt : Nat := 0
  epoch : Nat := 0
  fresh : Bool := false

structure OS where
  objs : List OO := []
  rules : List (Nat × Nat × Nat) := []          -- object ↦ (timeout, probeNum) of the rule it was built from
  pub : List Nat := [0]                         -- the published breaker list
  snapOf : List (Nat × List Nat) := []          -- thread ↦ the snapshot its check under way walks over
  won : List (Nat × Nat) := []                  -- (thread, object): probes won by the thread's entry under way
  owed : List Note := []
  log : List Note := []
  ress : List (Nat × Bool) := []
  loads : List (Nat × List (Nat × Bool)) := []  -- thread ↦ (epoch, fresh) of every object at its last deadline load that passed
  clk : Nat := 0
  trBad : Option String := none      -- transition / list rules
  nfBad : Option String := none      -- notification rules
  prBad : Option String := none      -- probe exclusivity
  earlyNoDl : Bool := false
  earlyStale : Bool := false
  earlyOut : Bool := false

def orElse (a : Option String) (b : Option String) : Option String := match a with | some x => some x | none => b

def getOO (o : OS) (k : Nat) : OO := (o.objs[k]?).getD ({} : OO)

def setOO (o : OS) (k : Nat) (x : OO) : OS :=
  { o with objs := (o.objs ++ List.replicate (k + 1 - o.objs.length) ({} : OO)).set k x }

def ruleOf (o : OS) (k : Nat) : Nat × Nat := ((o.rules.find? fun p => p.1 = k).map (·.2)).getD (0, 0)

def flag (o : OS) (c : Bool) (msg : String) : OS := if c then { o with trBad := orElse o.trBad (some msg) } else o

/-- fold one step record of the implementation's trace into the monitors -/
def judgeRec (o : OS) (r : Rec) : OS :=
  -- the snapshot the call under way at the beginning of the step walks over (a result produced by that call comes
  -- first among the results of the step; later ones can only belong to checks over an empty list)
  let snapBefore := ((o.snapOf.find? fun p => p.1 = r.tid).map (·.2)).getD []
  let o := flag o (r.clk < o.clk) "clock went backwards"
  let o := { o with clk := r.clk }
  let loading := r.frm = "rd" ∨ r.frm = "rb"
  -- objects appear only in a rule load
  let o := r.news.foldl (fun (o : OS) n => { o with rules := n :: o.rules }) o
  let o := flag o (!r.news.isEmpty ∧ ¬ loading) "a breaker object appeared outside a rule load"
  -- the published list changes only in the step in which a rule load completes
  let o := match r.pub with
    | some l => flag { o with pub := l } (¬ loading ∨ r.to = "rb")
        s!"the resource's breaker list changed to {listS l} in a step that does not complete a rule load"
    | none => o
  -- a request walks over the published list as it stood when it looked it up: old or new, never a mixture
  let o := r.snaps.foldl (fun (o : OS) l =>
      flag { o with snapOf := (r.tid, l) :: o.snapOf.filter fun p => p.1 ≠ r.tid } (l ≠ o.pub)
        s!"a request saw the breaker list {listS l} while the published list is {listS o.pub}") o
  -- state words: at most one changes, at a CAS, along a legal edge
  let changed := r.ws.filter fun (k, st, _, _) => st ≠ (getOO o k).st
  let o := flag o (changed.length > 1) "the state words of several breaker objects changed in one step"
  let before : Option St := (changed.head?).map fun (k, _, _, _) => (getOO o k).st
  let o := changed.foldl (fun (o : OS) (k, st, _, _) =>
      let oo := getOO o k
      let (timeout, _) := ruleOf o k
      let n : Note := ⟨oo.st, st, r.tid⟩
      let o := flag o (r.frm ≠ "sc") s!"state word of breaker object {k} changed at {r.frm}, not at a CAS"
      let o := flag o (r.frm = "sc" ∧ !legal oo.st st) s!"illegal edge {stc oo.st}>{stc st}"
      let o := { o with owed := o.owed ++ [n] }
      -- the exit hook of an entry rolls back only a breaker that this entry itself probed (never another breaker)
      let rollback := oo.st = St.halfOpen ∧ st = St.opened ∧ r.frm = "sc" ∧ ¬ (r.to = "rs" ∨ r.to = "pr")
      let o := flag o (rollback ∧ !o.won.contains (r.tid, k))
        s!"breaker object {k} was rolled back HalfOpen>Open by thread {r.tid}, whose entry did not probe that breaker"
      let o := if oo.st = St.opened ∧ st = St.halfOpen then { o with won := (r.tid, k) :: o.won } else o
      let opening := st = St.opened ∧ (r.to = "rs" ∨ r.to = "pr")     -- fromClosedToOpen / fromHalfOpenToOpen (not the rollback)
      let oo' := if opening then { oo with st := st, openedAt := r.clk, epoch := oo.epoch + 1, fresh := false } else { oo with st := st }
      let o := setOO o k oo'
      if oo.st = St.opened ∧ st = St.halfOpen ∧ r.clk < oo'.openedAt + timeout then
        match ((o.loads.find? fun p => p.1 = r.tid).bind fun p => p.2[k]?) with
        | some (ep, fr) =>
          if ep ≠ oo'.epoch then { o with earlyStale := true }
          else if !fr then { o with earlyNoDl := true } else { o with earlyOut := true }
        | none => { o with earlyOut := true }
      else o) o
  -- deadlines: change only at a deadline store, to now + timeout of that object
  let dchanged := r.ws.filter fun (k, _, dl, _) => dl ≠ (getOO o k).dl
  let o := flag o (!dchanged.isEmpty ∧ r.frm ≠ "rs") s!"a retry deadline changed at {r.frm}, not at a deadline store"
  let o := flag o (dchanged.length > 1) "the deadlines of several breaker objects changed in one step"
  let o := dchanged.foldl (fun (o : OS) (k, _, dl, _) =>
      let o := flag o (r.frm = "rs" ∧ dl ≠ r.clk + (ruleOf o k).1) "deadline store is not now+timeout"
      setOO o k { getOO o k with dl := dl }) o
  -- a deadline store makes the deadline of the opening current (if the stored value equals the old one the object
  -- is not identifiable from the words: every object whose deadline reads now+timeout is in that situation — and a
  -- TryPass that loads such a deadline waits the full timeout from now anyway)
  let o := if r.frm = "rs" then
      r.ws.foldl (fun (o : OS) (k, _, dl, _) =>
        if (dchanged.any fun p => p.1 = k) ∨ dl = r.clk + (ruleOf o k).1 then
          setOO o k { getOO o k with fresh := true } else o) o
    else o
  let o := if r.frm = "ck" ∧ r.to = "sc" then
      { o with loads := (r.tid, (List.range o.objs.length).map fun k => ((getOO o k).epoch, (getOO o k).fresh))
                        :: o.loads.filter fun p => p.1 ≠ r.tid } else o
  -- listener calls of this step
  let o := r.logs.foldl (fun (o : OS) (p : St × St) =>
      let n : Note := ⟨p.1, p.2, r.tid⟩
      if o.owed.contains n then { o with owed := o.owed.erase n, log := o.log ++ [n] }
      else { o with log := o.log ++ [n],
                    nfBad := orElse o.nfBad (some s!"listener call {noteS n} without a CAS won by that thread with that prev") }) o
  -- results of checks: `true` is produced by the TryPass of the last breaker of the snapshot (or by an empty list)
  let o := if r.snaps.isEmpty then o else { o with won := o.won.filter fun p => p.1 ≠ r.tid }
  let inCall := !(r.frm == "start" || r.frm == "rd" || r.frm == "rb" || r.frm == "done")
  ((r.ress.foldl (fun (p : OS × Bool) (b : Bool) =>
      let (o, first) := p
      let okTrue : Bool := if !(first && inCall) then true else
        match snapBefore.getLast? with
        | none => true
        | some k =>
          let stNow := (getOO o k).st
          let stBefore := match changed.find? fun p => p.1 = k with | some _ => before.getD stNow | none => stNow
          (r.frm == "sg" && stBefore == St.closed) || (r.frm == "sc" && stBefore == St.opened && stNow == St.halfOpen)
            || ((ruleOf o k).2 > 0 && r.frm == "sg" && stBefore == St.halfOpen)
      ({ o with ress := o.ress ++ [(r.tid, b)],
                prBad := orElse o.prBad (if b && !okTrue then
                  some s!"thread {r.tid} admitted at {r.frm} by breaker object {listS (snapBefore.getLast?.toList)} which was neither Closed nor just probed" else none) },
       false)) (o, true)).1)

structure OD where
  timeout : Nat := 0
  probeNum : Nat := 0
  cfgOk : Bool := false
  nthreads : Nat := 0                -- threads declared since the last `sched`
  lastN : Nat := 0                   -- threads of the last `sched`
  os : Option OS := none

def verdict (x : Option String) : String := match x with | some w => "bad " ++ w | none => "ok"

def stepOracle (s : OD) (ts : List String) (line : String) : OD × Option String :=
  -- an op the implementation's interpreter rejected: the case is ill-formed (only arises while shrinking)
  if resPart line = some "bad-op" then (s, some "bad-op") else
  match ts with
  | "cb.new" :: rest =>
    match parseCfg? rest with
    | some cfg => ({ timeout := cfg.timeout, probeNum := cfg.probeNum, cfgOk := true }, none)
    | none => (s, some "bad-op")
  | "rule" :: _ => (s, none)
  | "thread" :: _ => ({ s with nthreads := s.nthreads + 1 }, none)
  | "sched" :: _ =>
    if !s.cfgOk then (s, some "bad-op") else
    match resPart line with
    | none => (s, some "bad-op")
    | some r =>
      match (if r = "-" then some [] else (toks r).mapM parseRec?) with
      | none => (s, some "bad unreadable trace")
      | some recs =>
        let o0 : OS := match s.os with
          | some o => { o with ress := [], loads := [], snapOf := [], won := [] }
          | none => { rules := [(0, s.timeout, s.probeNum)] }
        let o := recs.foldl judgeRec o0
        ({ s with os := some o, lastN := s.nthreads, nthreads := 0 }, some (verdict o.trBad))
  | ["results"] =>
    match s.os, resPart line with
    | some o, some r =>
      let want := if s.lastN = 0 then "-" else " ".intercalate ((List.range s.lastN).map fun i =>
        s!"{i}:{showList ((o.ress.filter fun p => p.1 = i).map fun p => tf p.2)}")
      if r ≠ want then (s, some "bad results differ from the trace") else (s, some (verdict o.prBad))
    | _, _ => (s, some "bad-op")
  | ["log"] =>
    match s.os, resPart line with
    | some o, some r =>
      if r ≠ showList (o.log.map noteS) then (s, some "bad listener log differs from the trace")
      else match o.nfBad with
      | some w => (s, some ("bad " ++ w))
      | none =>
        if ¬ o.owed.isEmpty then (s, some s!"bad transition {noteS (o.owed.headD ⟨.closed, .closed, 0⟩)} was never reported")
        -- the order in which different threads' calls arrive is not part of the property (exactly once, by the
        -- winner, with the right prev is): a log that is a reordering of the CAS history is fine
        else (s, some "ok")
    | _, _ => (s, some "bad-op")
  | ["final"] =>
    match s.os with
    | some o =>
      if o.objs.any (fun x => x.epoch > 0 && !x.fresh) then (s, some "bad a breaker was opened but no retry deadline was stored afterwards")
      else if o.earlyOut then (s, some "bad probe admitted before a full retry timeout since the breaker opened")
      else if o.earlyNoDl then (s, some "known:open-without-deadline")
      else if o.earlyStale then (s, some "known:stale-retry-check")
      else (s, some "ok")
    | none => (s, some "bad-op")
  | _ => (s, some "bad-op")

/-- `ghost` mode: the verdicts the oracle should give, computed from the model's monitor fields (the ones the
    theorems of `Sentinel.Props.C12` speak about) instead of from the trace: used by the check to validate the
    oracle's attribution of early admissions to the known findings -/
def stepGhost (s : DS) (ts : List String) (line : String) : DS × Option String :=
  let (s', r) := stepModel s ts line
  match ts, r with
  | _, some "bad-op" => (s', r)
  | "sched" :: _, some _ => (s', some "ok")
  | ["results"], some _ => (s', some "ok")
  | ["log"], some _ => (s', some "ok")
  | ["final"], some _ =>
      let any (f : Sh → Bool) : Bool := s'.w.objs.any fun o => f o.conf.sh
      (s', some (if any (·.earlyOut) then "bad earlyOut"
                 else if any (·.earlyNoDl) then "known:open-without-deadline"
                 else if any (·.earlyStale) then "known:stale-retry-check" else "ok"))
  | _, _ => (s', r)

def run (mode : String) : IO Unit :=
  match mode with
  | "model" => loop ({} : DS) stepModel
  | "ghost" => loop ({} : DS) stepGhost
  | "oracle" => loop ({} : OD) stepOracle
  | _ => IO.eprintln s!"C12: unknown mode {mode}"

end Sentinel.Drv.C12
