import Sentinel.Drv.Common
/-! Driver for C12 (stub: replaced by the property's real driver) -/
namespace Sentinel.Drv.C12
def run (_mode : String) : IO Unit := IO.eprintln "C12: driver not implemented"
end Sentinel.Drv.C12
