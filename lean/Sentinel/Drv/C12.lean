import Sentinel.Drv.Common
import Sentinel.Model.BreakerRace
/-!
Driver for C12.

* `model`  — runs the op file on the small-step model `Sentinel.BreakerRace` (the same `step`/`begin`
  the theorems of `Sentinel.Props.C12` are about) under the schedule, with the scheduler's conventions
  (initial advance in thread-id order, entries for finished threads skipped, round-robin drain) and
  prints one token per granted step: who stepped, from which yield point to which, the shared words
  afterwards, new listener calls, new TryPass results.
* `oracle` — reads the **implementation's** trace and judges it: every change of the state word is one
  won CAS on a legal edge; every won CAS is reported to the listeners exactly once, by the winner, with
  the right `prev` (the order in which different threads' listener calls arrive is not judged); `probeNum = 0`: a TryPass returns true only by reading Closed or by winning
  Open→HalfOpen; no Open→HalfOpen before `openedAt + timeout` — except inside the classified windows
  of the known findings (`known:<key>`).

Op lines:
  cb.new <ec|er|sr> <retryTimeoutMs> <minRequestAmount> <threshold: int for ec, f:<bits> for er/sr> <probeNum> <maxRtMs>
  thread <tid> <call>+         call = tp | tpb | c:<rt>:ok | c:<rt>:err      (tids 0,1,2,… in order)
  sched <entry>*               entry = <tid> | tick:<ms>
  results | log | final
-/
namespace Sentinel.Drv.C12
open Sentinel.BreakerRace Sentinel.Drv

def stc : St → String
  | .closed => "C" | .halfOpen => "H" | .opened => "O"

def stOf? : String → Option St
  | "C" => some .closed | "H" => some .halfOpen | "O" => some .opened | _ => none

/-- short name of the yield point a thread is parked at -/
def point : Pc → String
  | .tpGet _ => "sg" | .tpRetry _ => "rl" | .tpCas .. => "sc" | .rbCas => "sc"
  | .ocGet .. => "sg" | .ocGet2 => "sg" | .coCas => "sc" | .coStore => "rs"
  | .hoCas => "sc" | .hoReset => "pr" | .hoStore => "rs" | .paAdd => "pa" | .plLoad => "pl"
  | .hcCas => "sc" | .hcReset => "pr" | .done => "done"

def tf (b : Bool) : String := if b then "t" else "f"
def dls (d : Nat) : String := if d = 0 then "-" else toString d
def noteS (n : Note) : String := s!"{stc n.prev}>{stc n.to}@{n.tid}"

/-- util.Float64Equals precision 0.00000001 -/
def eps : Float := Float.ofBits 0x3E45798EE2308C3A

def ratioTrip (thr : Float) (b t : Nat) : Bool :=
  let r := b.toFloat / t.toFloat
  r > thr || (r - thr).abs < eps

def parseCall? (s : String) : Option Call :=
  match s.splitOn ":" with
  | ["tp"] => some (.tryPass false)
  | ["tpb"] => some (.tryPass true)
  | ["c", rt, "ok"] => rt.toNat?.map fun r => .complete r false
  | ["c", rt, "err"] => rt.toNat?.map fun r => .complete r true
  | _ => none

def parseEnt? (s : String) : Option Ent :=
  match s.splitOn ":" with
  | [n] => n.toNat?.map Ent.t
  | ["tick", ms] => ms.toNat?.bind fun m => if m ≤ 1000000 then some (Ent.tick m) else none
  | _ => none

def parseCfg? (ts : List String) : Option Cfg :=
  match ts with
  | [kind, to, mr, thr, pn, mx] =>
    match to.toNat?, mr.toNat?, pn.toNat?, mx.toNat? with
    | some to, some mr, some pn, some mx =>
      if to = 0 ∨ to > 100000 then none else
      match kind with
      | "ec" => thr.toNat?.map fun k =>
          { timeout := to, minReq := mr, probeNum := pn, slowKind := false, maxRt := mx, trip := fun b _ => decide (k ≤ b) }
      | "er" => (parseFbits? thr).map fun f =>
          { timeout := to, minReq := mr, probeNum := pn, slowKind := false, maxRt := mx, trip := ratioTrip f }
      | "sr" => (parseFbits? thr).map fun f =>
          { timeout := to, minReq := mr, probeNum := pn, slowKind := true, maxRt := mx, trip := ratioTrip f }
      | _ => none
    | _, _, _, _ => none
  | _ => none

structure DS where
  cfg : Option Cfg := none
  sh : Sh := {}                      -- shared words: persist over the phases of a case
  progs : List (List Call) := []     -- threads declared for the next `sched`
  fin : Option (List Th) := none     -- threads of the last `sched` (all finished)

/-- the token of one granted step -/
def token (i : Nat) (frm : String) (s s' : Sh) (t t' : Th) : String :=
  let ls := (s'.log.drop s.log.length).map fun n => s!":L{stc n.prev}{stc n.to}"
  let rs := (t'.res.drop t.res.length).map fun b => s!":R{tf b}"
  s!"{i}:{frm}>{point t'.pc}:{stc s'.st}:{dls s'.deadline}:{s'.probe}:{s'.clock}{String.join ls}{String.join rs}"

/-- one schedule entry on the model, with its trace token (none: tick or skipped entry) -/
def execT (cfg : Cfg) (c : Conf) (e : Ent) : Conf × Option String :=
  match e with
  | .tick _ => (c.exec cfg e, none)
  | .t i =>
    match c.th[i]? with
    | none => (c, none)
    | some t =>
      if t.pc = .done then (c, none) else
      let c' := c.exec cfg e
      match c'.th[i]? with
      | some t' => (c', some (token i (point t.pc) c.sh c'.sh t t'))
      | none => (c', none)

def allDone (c : Conf) : Bool := c.th.all fun t => t.pc = .done

/-- the scheduler's drain: one step each, round-robin, until everybody has finished -/
def drain (cfg : Cfg) : Nat → Conf → List String → Conf × List String
  | 0, c, acc => (c, acc)
  | fuel + 1, c, acc =>
    if allDone c then (c, acc) else
    let (c', acc') := (List.range c.th.length).foldl (fun (p : Conf × List String) i =>
      let (c2, tk) := execT cfg p.1 (.t i)
      (c2, match tk with | some s => p.2 ++ [s] | none => p.2)) (c, acc)
    drain cfg fuel c' acc'

/-- the initial advance, with tokens -/
def startT (cfg : Cfg) (s0 : Sh) (progs : List (List Call)) : Conf × List String :=
  let c := initFrom cfg s0 progs
  -- the tokens show the shared words after each thread's own prelude: recompute them incrementally
  let (_, _, toks) := progs.foldl (fun (p : Sh × Nat × List String) prog =>
    let (s, i, acc) := p
    let r := begin cfg s [] prog
    (r.1, i + 1, acc ++ [token i "start" s r.1 ⟨.done, [], []⟩ r.2])) (s0, 0, [])
  (c, toks)

def runModel (cfg : Cfg) (s0 : Sh) (progs : List (List Call)) (es : List Ent) : Conf × List String :=
  let (c0, tk0) := startT cfg s0 progs
  let (c1, tk1) := es.foldl (fun (p : Conf × List String) e =>
    let (c2, tk) := execT cfg p.1 e
    (c2, match tk with | some s => p.2 ++ [s] | none => p.2)) (c0, tk0)
  drain cfg 10000 c1 tk1

def stepModel (s : DS) (ts : List String) (_ : String) : DS × Option String :=
  match ts with
  | "cb.new" :: rest =>
    match parseCfg? rest with
    | some cfg => ({ cfg := some cfg }, none)
    | none => (s, some "bad-op")
  | "thread" :: tid :: calls =>
    match s.cfg, tid.toNat?, calls.mapM parseCall? with
    | some _, some i, some cs =>
      if i = s.progs.length ∧ ¬ cs.isEmpty ∧ i < 8 then ({ s with progs := s.progs ++ [cs] }, none)
      else (s, some "bad-op")
    | _, _, _ => (s, some "bad-op")
  | "sched" :: es =>
    match s.cfg, es.mapM parseEnt? with
    | some cfg, some es =>
      if es.length > 400 then (s, some "bad-op") else
      let (c, tks) := runModel cfg s.sh s.progs es
      ({ s with sh := c.sh, progs := [], fin := some c.th }, some (if tks.isEmpty then "-" else " ".intercalate tks))
    | _, _ => (s, some "bad-op")
  | ["results"] =>
    match s.fin with
    | some th => (s, some (if th.isEmpty then "-" else " ".intercalate ((List.range th.length).zip th |>.map fun (i, t) =>
        s!"{i}:{showList (t.res.map tf)}")))
    | none => (s, some "bad-op")
  | ["log"] =>
    match s.fin with
    | some _ => (s, some (showList (s.sh.log.map noteS)))
    | none => (s, some "bad-op")
  | ["final"] =>
    match s.fin with
    | some _ => (s, some s!"st={stc s.sh.st} dl={dls s.sh.deadline} probe={s.sh.probe} clk={s.sh.clock}")
    | none => (s, some "bad-op")
  | _ => (s, some "bad-op")

/-! ## oracle: judge the implementation's trace -/

structure Rec where
  tid : Nat
  frm : String
  to : String
  st : St
  dl : Nat
  probe : Nat
  clk : Nat
  logs : List (St × St)
  ress : List Bool

def parseRec? (tok : String) : Option Rec :=
  match tok.splitOn ":" with
  | tid :: ft :: st :: dl :: pr :: clk :: extra =>
    match tid.toNat?, ft.splitOn ">", stOf? st, (if dl = "-" then some 0 else dl.toNat?), pr.toNat?, clk.toNat? with
    | some tid, [f, t], some st, some dl, some pr, some clk =>
      let logs := extra.filterMap fun x =>
        match x.toList with
        | ['L', a, b] => match stOf? (String.singleton a), stOf? (String.singleton b) with
            | some a, some b => some (a, b) | _, _ => none
        | _ => none
      let ress := extra.filterMap fun x => if x = "Rt" then some true else if x = "Rf" then some false else none
      if logs.length + ress.length = extra.length then some ⟨tid, f, t, st, dl, pr, clk, logs, ress⟩ else none
    | _, _, _, _, _, _ => none
  | _ => none

structure OS where
  st : St := .closed
  hist : List Note := []
  owed : List Note := []
  log : List Note := []
  ress : List (Nat × Bool) := []
  openedAt : Nat := 0
  epoch : Nat := 0
  fresh : Bool := false
  loads : List (Nat × Nat × Bool) := []   -- tid ↦ (epoch, fresh) at its last deadline load that passed
  clk : Nat := 0
  trBad : Option String := none      -- transition rules
  nfBad : Option String := none      -- notification rules
  prBad : Option String := none      -- probe exclusivity
  earlyNoDl : Bool := false
  earlyStale : Bool := false
  earlyOut : Bool := false

def orElse (a : Option String) (b : Option String) : Option String := match a with | some x => some x | none => b

def lookupLoad (loads : List (Nat × Nat × Bool)) (tid : Nat) : Option (Nat × Bool) :=
  (loads.find? fun p => p.1 = tid).map (·.2)

/-- fold one step record of the implementation's trace into the monitors -/
def judgeRec (timeout probeNum : Nat) (o : OS) (r : Rec) : OS :=
  let before := o.st
  let changed := decide (r.st ≠ before)
  let o := { o with trBad := orElse o.trBad (if r.clk < o.clk then some "clock went backwards" else none), clk := r.clk }
  -- transitions
  let o :=
    if changed then
      let n : Note := ⟨before, r.st, r.tid⟩
      let bad := if r.frm ≠ "sc" then some s!"state word changed at {r.frm}, not at a CAS"
                 else if !legal before r.st then some s!"illegal edge {stc before}>{stc r.st}" else none
      let opening := r.st = .opened ∧ (r.to = "rs" ∨ r.to = "pr")     -- fromClosedToOpen / fromHalfOpenToOpen (not the rollback)
      let o := { o with st := r.st, hist := o.hist ++ [n], owed := o.owed ++ [n], trBad := orElse o.trBad bad }
      let o := if opening then { o with openedAt := r.clk, epoch := o.epoch + 1, fresh := false } else o
      if before = .opened ∧ r.st = .halfOpen ∧ r.clk < o.openedAt + timeout then
        match lookupLoad o.loads r.tid with
        | some (ep, fr) =>
          if ep ≠ o.epoch then { o with earlyStale := true }
          else if !fr then { o with earlyNoDl := true } else { o with earlyOut := true }
        | none => { o with earlyOut := true }
      else o
    else o
  -- deadline store / load bookkeeping
  let o := if r.frm = "rs" then
      { o with fresh := true,
               trBad := orElse o.trBad (if r.dl ≠ r.clk + timeout then some "deadline store is not now+timeout" else none) }
    else o
  let o := if r.frm = "rl" ∧ r.to = "sc" then
      { o with loads := (r.tid, o.epoch, o.fresh) :: o.loads.filter fun p => p.1 ≠ r.tid } else o
  -- listener calls of this step
  let o := r.logs.foldl (fun (o : OS) (p : St × St) =>
      let n : Note := ⟨p.1, p.2, r.tid⟩
      if o.owed.contains n then { o with owed := o.owed.erase n, log := o.log ++ [n] }
      else { o with log := o.log ++ [n],
                    nfBad := orElse o.nfBad (some s!"listener call {noteS n} without a CAS won by that thread with that prev") }) o
  -- TryPass results of this step
  r.ress.foldl (fun (o : OS) (b : Bool) =>
      let okTrue := (r.frm = "sg" ∧ before = .closed) ∨ (r.frm = "sc" ∧ before = .opened ∧ r.st = .halfOpen)
                    ∨ (probeNum > 0 ∧ r.frm = "sg" ∧ before = .halfOpen)
      { o with ress := o.ress ++ [(r.tid, b)],
               prBad := orElse o.prBad (if b ∧ ¬ okTrue then
                 some s!"thread {r.tid} admitted at {r.frm} while the state word was {stc before}" else none) }) o

structure OD where
  timeout : Nat := 0
  probeNum : Nat := 0
  cfgOk : Bool := false
  nthreads : Nat := 0                -- threads declared since the last `sched`
  lastN : Nat := 0                   -- threads of the last `sched`
  os : Option OS := none
  parseBad : Bool := false

def verdict (x : Option String) : String := match x with | some w => "bad " ++ w | none => "ok"

def stepOracle (s : OD) (ts : List String) (line : String) : OD × Option String :=
  -- an op the implementation's interpreter rejected: the case is ill-formed (only arises while shrinking)
  if resPart line = some "bad-op" then (s, some "bad-op") else
  match ts with
  | "cb.new" :: rest =>
    match parseCfg? rest with
    | some cfg => ({ timeout := cfg.timeout, probeNum := cfg.probeNum, cfgOk := true }, none)
    | none => (s, some "bad-op")
  | "thread" :: _ => ({ s with nthreads := s.nthreads + 1 }, none)
  | "sched" :: _ =>
    if !s.cfgOk then (s, some "bad-op") else
    match resPart line with
    | none => (s, some "bad-op")
    | some r =>
      if r = "bad-op" then (s, some "bad-op") else
      match (if r = "-" then some [] else (toks r).mapM parseRec?) with
      | none => ({ s with parseBad := true }, some "bad unreadable trace")
      | some recs =>
        let o0 : OS := match s.os with | some o => { o with ress := [], loads := [] } | none => {}
        let o := recs.foldl (judgeRec s.timeout s.probeNum) o0
        ({ s with os := some o, lastN := s.nthreads, nthreads := 0 }, some (verdict o.trBad))
  | ["results"] =>
    match s.os, resPart line with
    | some o, some r =>
      let want := if s.lastN = 0 then "-" else " ".intercalate ((List.range s.lastN).map fun i =>
        s!"{i}:{showList ((o.ress.filter fun p => p.1 = i).map fun p => tf p.2)}")
      if r ≠ want then (s, some "bad results differ from the trace") else (s, some (verdict o.prBad))
    | _, _ => (s, some "bad-op")
  | ["log"] =>
    match s.os, resPart line with
    | some o, some r =>
      if r ≠ showList (o.log.map noteS) then (s, some "bad listener log differs from the trace")
      else match o.nfBad with
      | some w => (s, some ("bad " ++ w))
      | none =>
        if ¬ o.owed.isEmpty then (s, some s!"bad transition {noteS (o.owed.headD ⟨.closed, .closed, 0⟩)} was never reported")
        -- the order in which different threads' calls arrive is not part of the property (exactly once, by the
        -- winner, with the right prev is): a log that is a reordering of the CAS history is fine
        else (s, some "ok")
    | _, _ => (s, some "bad-op")
  | ["final"] =>
    match s.os with
    | some o =>
      if o.epoch > 0 ∧ !o.fresh then (s, some "bad the breaker was opened but no retry deadline was stored afterwards")
      else if o.earlyOut then (s, some "bad probe admitted before a full retry timeout since the breaker opened")
      else if o.earlyNoDl then (s, some "known:open-without-deadline")
      else if o.earlyStale then (s, some "known:stale-retry-check")
      else (s, some "ok")
    | none => (s, some "bad-op")
  | _ => (s, some "bad-op")

/-- `ghost` mode: the verdicts the oracle should give, computed from the model's monitor fields (the ones the
    theorems of `Sentinel.Props.C12` speak about) instead of from the trace: used by the check to validate the
    oracle's attribution of early admissions to the known findings -/
def stepGhost (s : DS) (ts : List String) (line : String) : DS × Option String :=
  let (s', r) := stepModel s ts line
  match ts, r with
  | _, some "bad-op" => (s', r)
  | "sched" :: _, some _ => (s', some "ok")
  | ["results"], some _ => (s', some "ok")
  | ["log"], some _ => (s', some "ok")
  | ["final"], some _ =>
      (s', some (if s'.sh.earlyOut then "bad earlyOut"
                 else if s'.sh.earlyNoDl then "known:open-without-deadline"
                 else if s'.sh.earlyStale then "known:stale-retry-check" else "ok"))
  | _, _ => (s', r)

def run (mode : String) : IO Unit :=
  match mode with
  | "model" => loop ({} : DS) stepModel
  | "ghost" => loop ({} : DS) stepGhost
  | "oracle" => loop ({} : OD) stepOracle
  | _ => IO.eprintln s!"C12: unknown mode {mode}"

end Sentinel.Drv.C12
