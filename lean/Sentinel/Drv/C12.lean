import Sentinel.Drv.Common
import Sentinel.Model.BreakerRace
/-!
Driver for C12.

* `model`  — runs the op file on the small-step model `Sentinel.BreakerRace` (the same `step`/`begin`
  the theorems of `Sentinel.Props.C12` are about) under the schedule, with the scheduler's conventions
  (initial advance in thread-id order, entries for finished threads skipped, round-robin drain) and
  prints one token per granted step: who stepped, from which yield point to which, the shared words
  afterwards, new listener calls, new TryPass results.
* `oracle` — reads the **implementation's** trace and judges it: every change of the state word is one
  won CAS on a legal edge; every won CAS is reported to the listeners exactly once, by the winner, with
  the right `prev` (the order in which different threads' listener calls arrive is not judged); `probeNum = 0`: a TryPass returns true only by reading Closed or by winning
  Open→HalfOpen; no Open→HalfOpen before `openedAt + timeout` — except inside the classified windows
  of the known findings (`known:<key>`).

Op lines:
  cb.new <ec|er|sr> <retryTimeoutMs> <minRequestAmount> <threshold: int for ec, f:<bits> for er/sr> <probeNum> <maxRtMs>
  thread <tid> <item>+         item = tp | tpb | c:<rt>:ok | c:<rt>:err | rd:<timeout>:<minReq>:<threshold>:<probeNum>:<maxRt>
                               (tids 0,1,2,… in order; `rd:` = LoadRules with that rule, one schedule step)
  sched <entry>*               entry = <tid> | tick:<ms>
  results | log | final
-/
namespace Sentinel.Drv.C12
open Sentinel.BreakerRace Sentinel.Drv

def stc : St → String
  | .closed => "C" | .halfOpen => "H" | .opened => "O"

def stOf? : String → Option St
  | "C" => some .closed | "H" => some .halfOpen | "O" => some .opened | _ => none

/-- short name of the yield point a thread is parked at -/
def point : Pc → String
  | .tpGet _ => "sg" | .tpRetry _ => "rl" | .tpCas .. => "sc" | .rbCas => "sc"
  | .ocGet .. => "sg" | .ocGet2 => "sg" | .coCas => "sc" | .coStore => "rs"
  | .hoCas => "sc" | .hoReset => "pr" | .hoStore => "rs" | .paAdd => "pa" | .plLoad => "pl"
  | .hcCas => "sc" | .hcReset => "pr" | .done => "done"

def tf (b : Bool) : String := if b then "t" else "f"
def dls (d : Nat) : String := if d = 0 then "-" else toString d
def noteS (n : Note) : String := s!"{stc n.prev}>{stc n.to}@{n.tid}"

/-- util.Float64Equals precision 0.00000001 -/
def eps : Float := Float.ofBits 0x3E45798EE2308C3A

def ratioTrip (thr : Float) (b t : Nat) : Bool :=
  let r := b.toFloat / t.toFloat
  r > thr || (r - thr).abs < eps

def parseCall? (s : String) : Option Call :=
  match s.splitOn ":" with
  | ["tp"] => some (.tryPass false)
  | ["tpb"] => some (.tryPass true)
  | ["c", rt, "ok"] => rt.toNat?.map fun r => .complete r false
  | ["c", rt, "err"] => rt.toNat?.map fun r => .complete r true
  | _ => none

def parseEnt? (s : String) : Option Ent :=
  match s.splitOn ":" with
  | [n] => n.toNat?.map Ent.t
  | ["tick", ms] => ms.toNat?.bind fun m => if m ≤ 1000000 then some (Ent.tick m) else none
  | _ => none

/-- the parameters of a rule as they stand in the op file -/
structure RuleP where
  kind : String
  to : Nat
  mr : Nat
  pn : Nat
  mx : Nat
  thrN : Nat      -- ec: the threshold
  thrF : Float    -- er / sr: the threshold

def RuleP.cfg (r : RuleP) : Cfg :=
  { timeout := r.to, minReq := r.mr, probeNum := r.pn, slowKind := r.kind == "sr", maxRt := r.mx,
    trip := if r.kind == "ec" then (fun b _ => decide (r.thrN ≤ b)) else ratioTrip r.thrF }

def parseRule? (kind : String) (ts : List String) : Option RuleP :=
  match ts with
  | [to, mr, thr, pn, mx] =>
    match to.toNat?, mr.toNat?, pn.toNat?, mx.toNat? with
    | some to, some mr, some pn, some mx =>
      if to = 0 ∨ to > 100000 then none else
      match kind with
      | "ec" => thr.toNat?.map fun k => ⟨kind, to, mr, pn, mx, k, 0.0⟩
      | "er" => (parseFbits? thr).map fun f => ⟨kind, to, mr, pn, mx, 0, f⟩
      | "sr" => (parseFbits? thr).map fun f => ⟨kind, to, mr, pn, mx, 0, f⟩
      | _ => none
    | _, _, _, _ => none
  | _ => none

def parseCfg? (ts : List String) : Option Cfg :=
  match ts with
  | kind :: rest => (parseRule? kind rest).map RuleP.cfg
  | _ => none

/-- `Rule.isEqualsTo` (same strategy): base fields, threshold up to `util.Float64Equals`, MaxAllowedRtMs only for sr -/
def ruleEq (a b : RuleP) : Bool :=
  a.kind == b.kind && a.to == b.to && a.mr == b.mr && a.pn == b.pn &&
  (if a.kind == "sr" then a.mx == b.mx else true) &&
  (if a.kind == "ec" then a.thrN == b.thrN else (a.thrF - b.thrF).abs < eps)

/-- rule identity: the index of the first rule seen in this case that is `isEqualsTo` it -/
def ridOf (rules : List RuleP) (r : RuleP) : Nat × List RuleP :=
  match (List.range rules.length).zip rules |>.find? fun p => ruleEq p.2 r with
  | some p => (p.1, rules)
  | none => (rules.length, rules ++ [r])

structure DS where
  kind : String := ""
  rules : List RuleP := []            -- rid = index
  w : World := {}                     -- the breaker objects: persist over the phases of a case
  glog : List Note := []              -- listener calls in call order, with the harness thread's id
  progs : List (List WCall) := []     -- threads declared for the next `sched`
  fin : Option (List WT) := none      -- threads of the last `sched` (all finished)

def parseWCall? (s : DS) (tok : String) : Option (WCall × DS) :=
  match tok.splitOn ":" with
  | "rd" :: rest =>
    (parseRule? s.kind rest).map fun r =>
      let (rid, rules) := ridOf s.rules r
      (.reload r.cfg rid, { s with rules := rules })
  | _ => (parseCall? tok).map fun c => (.call c, s)

def parseProg? (s : DS) : List String → Option (List WCall × DS)
  | [] => some ([], s)
  | t :: r =>
    match parseWCall? s t with
    | none => none
    | some (c, s') => (parseProg? s' r).map fun p => (c :: p.1, p.2)

def objSh (w : World) (k : Nat) : Sh := match w.objs[k]? with | some o => o.conf.sh | none => {}

def innerTh (w : World) (cur : Option (Nat × Nat)) : Option Th :=
  cur.bind fun p => (w.objs[p.1]?).bind fun o => o.conf.th[p.2]?

/-- the yield point a harness thread is parked at -/
def wtPoint (w : World) (t : WT) : String :=
  match t.atReload with
  | some _ => "rd"
  | none => match innerTh w t.cur with
    | some th => point th.pc
    | none => "done"

/-- the token of one granted step: the words printed are those of the object the step acted on (the object the
    thread's call was bound to when the step began; for a step that only binds / reloads: the object bound
    afterwards, else the live one), followed by the live object's words when that is another one -/
def token (i : Nat) (frm : String) (w w' : World) (t t' : WT) : String :=
  let x := match t.cur with
    | some p => p.1
    | none => match t'.cur with | some p => p.1 | none => w'.live
  let s' := objSh w' x
  let v := if w'.live ≠ x then
      let l := objSh w' w'.live
      s!":V{w'.live},{stc l.st},{dls l.deadline},{l.probe}" else ""
  let nw := if w'.objs.length > w.objs.length then
      match w'.objs[w'.live]? with
      | some o => s!":N{w'.live},{o.cfg.timeout},{o.cfg.probeNum}"
      | none => ""
    else ""
  let ls := match t.cur with
    | some p => ((objSh w' p.1).log.drop (objSh w p.1).log.length).map fun n => s!":L{stc n.prev}{stc n.to}"
    | none => []
  let rs := match t.cur, innerTh w t.cur, innerTh w' t.cur with
    | some _, some a, some b => (b.res.drop a.res.length).map fun r => s!":R{tf r}"
    | _, _, _ => []
  s!"{i}:{frm}>{wtPoint w' t'}:o{x}:{stc s'.st}:{dls s'.deadline}:{s'.probe}:{s'.clock}{v}{nw}{String.join ls}{String.join rs}"

/-- listener calls made in a step of harness thread `i` -/
def newCalls (i : Nat) (w w' : World) (t : WT) : List Note :=
  match t.cur with
  | some p => ((objSh w' p.1).log.drop (objSh w p.1).log.length).map fun n => ⟨n.prev, n.to, i⟩
  | none => []

structure RS where
  c : WConf
  glog : List Note
  toks : List String

/-- one schedule entry on the model, with its trace token (none: tick or skipped entry) -/
def execT (r : RS) (e : Ent) : RS :=
  match e with
  | .tick _ => { r with c := r.c.exec e }
  | .t i =>
    match r.c.ths[i]? with
    | none => r
    | some t =>
      if wtPoint r.c.w t = "done" then r else
      let c' := r.c.exec e
      match c'.ths[i]? with
      | some t' => { c := c', glog := r.glog ++ newCalls i r.c.w c'.w t,
                     toks := r.toks ++ [token i (wtPoint r.c.w t) r.c.w c'.w t t'] }
      | none => { r with c := c' }

def allDone (c : WConf) : Bool := c.ths.all fun t => wtPoint c.w t = "done"

/-- the scheduler's drain: one step each, round-robin, until everybody has finished -/
def drain : Nat → RS → RS
  | 0, r => r
  | fuel + 1, r =>
    if allDone r.c then r else
    drain fuel ((List.range r.c.ths.length).foldl (fun r i => execT r (.t i)) r)

/-- the initial advance (`wstart`), with tokens -/
def startT (w : World) (glog : List Note) (progs : List (List WCall)) : RS :=
  let c : WConf := { w := (wstart w progs).1, ths := (wstart w progs).2 }
  -- tokens: replay the same advances one by one to see the words after each thread's own prelude
  let (_, _, toks) := progs.foldl (fun (p : World × Nat × List String) prog =>
    let (w, i, acc) := p
    let r := advance w { todo := prog }
    (r.1, i + 1, acc ++ [token i "start" w r.1 {} r.2])) (w, 0, [])
  { c := c, glog := glog, toks := toks }

def runModel (w : World) (glog : List Note) (progs : List (List WCall)) (es : List Ent) : RS :=
  drain 10000 (es.foldl execT (startT w glog progs))

def stepModel (s : DS) (ts : List String) (_ : String) : DS × Option String :=
  match ts with
  | "cb.new" :: kind :: rest =>
    match parseRule? kind rest with
    | some r => ({ kind := kind, rules := [r], w := ({} : World).reload r.cfg 0 false }, none)
    | none => (s, some "bad-op")
  | "thread" :: tid :: calls =>
    match tid.toNat?, parseProg? s calls with
    | some i, some (cs, s') =>
      if s.kind ≠ "" ∧ i = s.progs.length ∧ ¬ cs.isEmpty ∧ i < 8 then ({ s' with progs := s.progs ++ [cs] }, none)
      else (s, some "bad-op")
    | _, _ => (s, some "bad-op")
  | "sched" :: es =>
    match es.mapM parseEnt? with
    | some es =>
      if s.kind = "" ∨ es.length > 400 then (s, some "bad-op") else
      let r := runModel s.w s.glog s.progs es
      ({ s with w := r.c.w, glog := r.glog, progs := [], fin := some r.c.ths },
       some (if r.toks.isEmpty then "-" else " ".intercalate r.toks))
    | none => (s, some "bad-op")
  | ["results"] =>
    match s.fin with
    | some th => (s, some (if th.isEmpty then "-" else " ".intercalate ((List.range th.length).zip th |>.map fun (i, t) =>
        s!"{i}:{showList (t.res.map tf)}")))
    | none => (s, some "bad-op")
  | ["log"] =>
    match s.fin with
    | some _ => (s, some (showList (s.glog.map noteS)))
    | none => (s, some "bad-op")
  | ["final"] =>
    match s.fin with
    | some _ =>
      let l := objSh s.w s.w.live
      (s, some s!"st={stc l.st} dl={dls l.deadline} probe={l.probe} clk={l.clock} live={s.w.live}")
    | none => (s, some "bad-op")
  | _ => (s, some "bad-op")

/-! ## oracle: judge the implementation's trace -/

structure Rec where
  tid : Nat
  frm : String
  to : String
  obj : Nat                                   -- the object whose words follow
  st : St
  dl : Nat
  probe : Nat
  clk : Nat
  live : Option (Nat × St × Nat × Nat)        -- the live object's words when it is another one
  created : Option (Nat × Nat × Nat)          -- this step (a reload) created object k with (timeout, probeNum)
  logs : List (St × St)
  ress : List Bool

def parseV? (x : String) : Option (Nat × St × Nat × Nat) :=
  if x.startsWith "V" then
    match (x.drop 1).toString.splitOn "," with
    | [k, st, dl, pr] =>
      match k.toNat?, stOf? st, (if dl = "-" then some 0 else dl.toNat?), pr.toNat? with
      | some k, some st, some dl, some pr => some (k, st, dl, pr)
      | _, _, _, _ => none
    | _ => none
  else none

def parseN? (x : String) : Option (Nat × Nat × Nat) :=
  if x.startsWith "N" then
    match (x.drop 1).toString.splitOn "," with
    | [k, to, pn] =>
      match k.toNat?, to.toNat?, pn.toNat? with
      | some k, some to, some pn => some (k, to, pn)
      | _, _, _ => none
    | _ => none
  else none

def parseRec? (tok : String) : Option Rec :=
  match tok.splitOn ":" with
  | tid :: ft :: ob :: st :: dl :: pr :: clk :: extra =>
    match tid.toNat?, ft.splitOn ">", (if ob.startsWith "o" then (ob.drop 1).toString.toNat? else none), stOf? st,
          (if dl = "-" then some 0 else dl.toNat?), pr.toNat?, clk.toNat? with
    | some tid, [f, t], some ob, some st, some dl, some pr, some clk =>
      let vs := extra.filterMap parseV?
      let ns := extra.filterMap parseN?
      let logs := extra.filterMap fun x =>
        match x.toList with
        | ['L', a, b] => match stOf? (String.singleton a), stOf? (String.singleton b) with
            | some a, some b => some (a, b) | _, _ => none
        | _ => none
      let ress := extra.filterMap fun x => if x = "Rt" then some true else if x = "Rf" then some false else none
      if vs.length + ns.length + logs.length + ress.length = extra.length ∧ vs.length ≤ 1 ∧ ns.length ≤ 1 then
        some ⟨tid, f, t, ob, st, dl, pr, clk, vs.head?, ns.head?, logs, ress⟩
      else none
    | _, _, _, _, _, _, _ => none
  | _ => none

/-- per breaker object -/
structure OO where
  st : St := .closed
  dl : Nat := 0
  hist : List Note := []
  openedAt : Nat := 0
  epoch : Nat := 0
  fresh : Bool := false
  foreign : Bool := false    -- its words were seen to change without a step on it: nothing about it is attributed to a known finding

structure OS where
  objs : List OO := []
  rules : List (Nat × Nat × Nat) := []          -- object ↦ (timeout, probeNum) of the rule it was built from
  owed : List Note := []
  log : List Note := []
  ress : List (Nat × Bool) := []
  loads : List (Nat × Nat × Nat × Bool) := []   -- tid ↦ (object, epoch, fresh) at its last deadline load that passed
  clk : Nat := 0
  trBad : Option String := none      -- transition rules
  nfBad : Option String := none      -- notification rules
  prBad : Option String := none      -- probe exclusivity
  earlyNoDl : Bool := false
  earlyStale : Bool := false
  earlyOut : Bool := false

def orElse (a : Option String) (b : Option String) : Option String := match a with | some x => some x | none => b

def lookupLoad (loads : List (Nat × Nat × Nat × Bool)) (tid : Nat) : Option (Nat × Nat × Bool) :=
  (loads.find? fun p => p.1 = tid).map (·.2)

def getOO (o : OS) (k : Nat) : OO := (o.objs[k]?).getD ({} : OO)

def setOO (o : OS) (k : Nat) (x : OO) : OS :=
  { o with objs := (o.objs ++ List.replicate (k + 1 - o.objs.length) ({} : OO)).set k x }

/-- fold one step record of the implementation's trace into the monitors -/
def judgeRec (o : OS) (r : Rec) : OS :=
  let o := match r.created with
    | some n => { o with rules := n :: o.rules,
                         trBad := orElse o.trBad (if r.frm ≠ "rd" then some "a breaker object appeared outside a rule reload" else none) }
    | none => o
  let rule := ((o.rules.find? fun p => p.1 = r.obj).map (·.2)).getD (0, 0)
  let timeout := rule.1
  let probeNum := rule.2
  let oo := getOO o r.obj
  let before := oo.st
  let changed := decide (r.st ≠ before)
  let o := { o with trBad := orElse o.trBad (if r.clk < o.clk then some "clock went backwards" else none), clk := r.clk }
  -- a breaker object other than the one acted on must keep its words (a fresh object is Closed, no deadline)
  let o := match r.live with
    | some (k, st, dl, _) =>
      let l := getOO o k
      let o := { o with trBad := orElse o.trBad (
          if st ≠ l.st then some s!"state word of breaker object {k} is {stc st} without a CAS on that object (expected {stc l.st})"
          else if dl ≠ l.dl then some s!"deadline of breaker object {k} changed without a store on that object" else none) }
      if st ≠ l.st ∨ dl ≠ l.dl then
        setOO o k { l with st := st, dl := dl, foreign := true,
                           openedAt := if st = St.opened ∧ l.st ≠ St.opened then r.clk else l.openedAt }
      else o
    | none => o
  -- transitions
  let (o, oo) :=
    if changed then
      let n : Note := ⟨before, r.st, r.tid⟩
      let bad := if r.frm ≠ "sc" then some s!"state word changed at {r.frm}, not at a CAS"
                 else if !legal before r.st then some s!"illegal edge {stc before}>{stc r.st}" else none
      let opening := r.st = .opened ∧ (r.to = "rs" ∨ r.to = "pr")     -- fromClosedToOpen / fromHalfOpenToOpen (not the rollback)
      let o := { o with owed := o.owed ++ [n], trBad := orElse o.trBad bad }
      let oo := { oo with st := r.st, hist := oo.hist ++ [n] }
      let oo := if opening then { oo with openedAt := r.clk, epoch := oo.epoch + 1, fresh := false } else oo
      if before = .opened ∧ r.st = .halfOpen ∧ r.clk < oo.openedAt + timeout then
        match lookupLoad o.loads r.tid with
        | some (ob, ep, fr) =>
          if ob ≠ r.obj ∨ oo.foreign then ({ o with earlyOut := true }, oo)
          else if ep ≠ oo.epoch then ({ o with earlyStale := true }, oo)
          else if !fr then ({ o with earlyNoDl := true }, oo) else ({ o with earlyOut := true }, oo)
        | none => ({ o with earlyOut := true }, oo)
      else (o, oo)
    else (o, oo)
  -- deadline store / load bookkeeping
  let (o, oo) := if r.frm = "rs" then
      ({ o with trBad := orElse o.trBad (if r.dl ≠ r.clk + timeout then some "deadline store is not now+timeout" else none) },
       { oo with fresh := true, dl := r.dl })
    else ({ o with trBad := orElse o.trBad (if r.dl ≠ oo.dl then some s!"deadline changed at {r.frm}, not at a deadline store" else none) }, oo)
  let o := if r.frm = "rl" ∧ r.to = "sc" then
      { o with loads := (r.tid, r.obj, oo.epoch, oo.fresh) :: o.loads.filter fun p => p.1 ≠ r.tid } else o
  let o := setOO o r.obj oo
  -- listener calls of this step
  let o := r.logs.foldl (fun (o : OS) (p : St × St) =>
      let n : Note := ⟨p.1, p.2, r.tid⟩
      if o.owed.contains n then { o with owed := o.owed.erase n, log := o.log ++ [n] }
      else { o with log := o.log ++ [n],
                    nfBad := orElse o.nfBad (some s!"listener call {noteS n} without a CAS won by that thread with that prev") }) o
  -- TryPass results of this step
  r.ress.foldl (fun (o : OS) (b : Bool) =>
      let okTrue := (r.frm = "sg" ∧ before = St.closed) ∨ (r.frm = "sc" ∧ before = St.opened ∧ r.st = St.halfOpen)
                    ∨ (probeNum > 0 ∧ r.frm = "sg" ∧ before = St.halfOpen)
      { o with ress := o.ress ++ [(r.tid, b)],
               prBad := orElse o.prBad (if b ∧ ¬ okTrue then
                 some s!"thread {r.tid} admitted at {r.frm} while the state word was {stc before}" else none) }) o

structure OD where
  timeout : Nat := 0
  probeNum : Nat := 0
  cfgOk : Bool := false
  nthreads : Nat := 0                -- threads declared since the last `sched`
  lastN : Nat := 0                   -- threads of the last `sched`
  os : Option OS := none
  parseBad : Bool := false

def verdict (x : Option String) : String := match x with | some w => "bad " ++ w | none => "ok"

def stepOracle (s : OD) (ts : List String) (line : String) : OD × Option String :=
  -- an op the implementation's interpreter rejected: the case is ill-formed (only arises while shrinking)
  if resPart line = some "bad-op" then (s, some "bad-op") else
  match ts with
  | "cb.new" :: rest =>
    match parseCfg? rest with
    | some cfg => ({ timeout := cfg.timeout, probeNum := cfg.probeNum, cfgOk := true }, none)
    | none => (s, some "bad-op")
  | "thread" :: _ => ({ s with nthreads := s.nthreads + 1 }, none)
  | "sched" :: _ =>
    if !s.cfgOk then (s, some "bad-op") else
    match resPart line with
    | none => (s, some "bad-op")
    | some r =>
      if r = "bad-op" then (s, some "bad-op") else
      match (if r = "-" then some [] else (toks r).mapM parseRec?) with
      | none => ({ s with parseBad := true }, some "bad unreadable trace")
      | some recs =>
        let o0 : OS := match s.os with
          | some o => { o with ress := [], loads := [] }
          | none => { rules := [(0, s.timeout, s.probeNum)] }
        let o := recs.foldl judgeRec o0
        ({ s with os := some o, lastN := s.nthreads, nthreads := 0 }, some (verdict o.trBad))
  | ["results"] =>
    match s.os, resPart line with
    | some o, some r =>
      let want := if s.lastN = 0 then "-" else " ".intercalate ((List.range s.lastN).map fun i =>
        s!"{i}:{showList ((o.ress.filter fun p => p.1 = i).map fun p => tf p.2)}")
      if r ≠ want then (s, some "bad results differ from the trace") else (s, some (verdict o.prBad))
    | _, _ => (s, some "bad-op")
  | ["log"] =>
    match s.os, resPart line with
    | some o, some r =>
      if r ≠ showList (o.log.map noteS) then (s, some "bad listener log differs from the trace")
      else match o.nfBad with
      | some w => (s, some ("bad " ++ w))
      | none =>
        if ¬ o.owed.isEmpty then (s, some s!"bad transition {noteS (o.owed.headD ⟨.closed, .closed, 0⟩)} was never reported")
        -- the order in which different threads' calls arrive is not part of the property (exactly once, by the
        -- winner, with the right prev is): a log that is a reordering of the CAS history is fine
        else (s, some "ok")
    | _, _ => (s, some "bad-op")
  | ["final"] =>
    match s.os with
    | some o =>
      if o.objs.any (fun x => x.epoch > 0 && !x.fresh) then (s, some "bad a breaker was opened but no retry deadline was stored afterwards")
      else if o.earlyOut then (s, some "bad probe admitted before a full retry timeout since the breaker opened")
      else if o.earlyNoDl then (s, some "known:open-without-deadline")
      else if o.earlyStale then (s, some "known:stale-retry-check")
      else (s, some "ok")
    | none => (s, some "bad-op")
  | _ => (s, some "bad-op")

/-- `ghost` mode: the verdicts the oracle should give, computed from the model's monitor fields (the ones the
    theorems of `Sentinel.Props.C12` speak about) instead of from the trace: used by the check to validate the
    oracle's attribution of early admissions to the known findings -/
def stepGhost (s : DS) (ts : List String) (line : String) : DS × Option String :=
  let (s', r) := stepModel s ts line
  match ts, r with
  | _, some "bad-op" => (s', r)
  | "sched" :: _, some _ => (s', some "ok")
  | ["results"], some _ => (s', some "ok")
  | ["log"], some _ => (s', some "ok")
  | ["final"], some _ =>
      let any (f : Sh → Bool) : Bool := s'.w.objs.any fun o => f o.conf.sh
      (s', some (if any (·.earlyOut) then "bad earlyOut"
                 else if any (·.earlyNoDl) then "known:open-without-deadline"
                 else if any (·.earlyStale) then "known:stale-retry-check" else "ok"))
  | _, _ => (s', r)

def run (mode : String) : IO Unit :=
  match mode with
  | "model" => loop ({} : DS) stepModel
  | "ghost" => loop ({} : DS) stepGhost
  | "oracle" => loop ({} : OD) stepOracle
  | _ => IO.eprintln s!"C12: unknown mode {mode}"

end Sentinel.Drv.C12
