import Sentinel.Drv.Common
/-! Driver for C15 (stub: replaced by the property's real driver) -/
namespace Sentinel.Drv.C15
def run (_mode : String) : IO Unit := IO.eprintln "C15: driver not implemented"
end Sentinel.Drv.C15
