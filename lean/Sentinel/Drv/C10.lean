import Sentinel.Drv.Common
import Sentinel.Model.Throttle
/-!
Driver for C10.

Ops
* `load <f:bits threshold> <statIntervalMs> <maxQueueingTimeMs>` — a fresh throttling rule / checker (once per case)
* `clock <ns>`                                   — virtual time
* `req <batch>`            `=> pass | wait <ns> | block`   (a `wait` also lets the clock advance: the slot sleeps)
* `thread <tid> <clock-ns> req <batch>`          — declares worker `tid` (0,1,2,… in order) of the next `sched`
* `sched <tid|tick:<ns>> …` `=> [0:pass,1:wait:<ns>,2:block]` — runs the declared workers under the schedule
  (`go/internal/sched` semantics: skip finished, drain round-robin); a `clock` op must follow before the next `req`.

Modes: `model` (the definitions of `Sentinel.Model.Throttle`; the float expression `⌈b/T·I⌉` instantiated with
Lean `Float`), `oracle` (judges the implementation's trace: pass times are taken from the *trace*, the
interval is the **exact** `⌈b·I/T⌉` of the property's wording; the model is only run to evaluate the known-finding
classifiers `Cfg.rb` / `Cfg.stale` on the schedule).
-/
namespace Sentinel.Drv.C10
open Sentinel.Throttle Sentinel.Drv

structure St where
  loaded : Bool := false
  T : Float := 0.0
  tbits : Nat := 0
  statNs : Nat := 0
  maxQ : Int := 0
  last : Int := 0                       -- model: lastPassedTime
  now : Option Int := none
  decls : Array (Int × Nat) := #[]      -- declared workers: (clock, batch)
  prev : Int := 0                       -- oracle: latest pass time seen in the trace (the checker starts at 0)
  taint : Option String := none         -- oracle: a known-finding region entered earlier and not yet left

/-- the float part of `DoCheck` (same binary64 operations as the Go code) -/
def classify (T : Float) (statNs b : Nat) : Req :=
  if b = 0 then .zero
  else if T ≤ 0.0 then .excess
  else if b.toFloat > T then .excess
  else .norm (Float.ceil (b.toFloat / T * statNs.toFloat)).toUInt64.toNat

def ceilDiv (a b : Nat) : Nat := (a + b - 1) / b

/-- exact `⌈b·I/T⌉` for the positive float with bit pattern `bits` (`none`: T ≤ 0 or NaN) -/
def exactIv (bits b I : Nat) : Option Nat :=
  let e := (bits >>> 52) % 2048
  let m := bits % 2 ^ 52
  if bits >>> 63 = 1 then none
  else if e = 2047 then (if m = 0 then some 0 else none)
  else
    let M := if e = 0 then m else 2 ^ 52 + m
    let sh : Int := if e = 0 then -1074 else (e : Int) - 1075
    if M = 0 then none
    else if sh ≥ 0 then some (ceilDiv (b * I) (M * 2 ^ sh.toNat))
    else some (ceilDiv (b * I * 2 ^ (-sh).toNat) M)

def showRes : Res → String
  | .pass => "pass"
  | .wait w => s!"wait {w}"
  | .block => "block"

def showResT : Option Res → String
  | some .pass => "pass"
  | some (.wait w) => s!"wait:{w}"
  | some .block => "block"
  | none => "running"

def parseRes? (s : String) : Option Res :=
  match toks s with
  | ["pass"] => some .pass
  | ["block"] => some .block
  | ["wait", w] => w.toInt?.map .wait
  | _ => none

def parseResT? (s : String) : Option Res :=
  match s.splitOn ":" with
  | [_, "pass"] => some .pass
  | [_, "block"] => some .block
  | [_, "wait", w] => w.toInt?.map .wait
  | _ => none

/-- `[0:pass,1:wait:5]` → results in thread order -/
def parseResList? (s : String) : Option (List Res) :=
  if s.startsWith "[" && s.endsWith "]" then
    let body := ((s.drop 1).dropEnd 1).toString
    if body.isEmpty then some [] else (body.splitOn ",").mapM parseResT?
  else none

/-- thread ids of a schedule (ticks do not concern `DoCheck`: the clock is read before the first hook) -/
def parseSched? (ts : List String) : Option (List Nat) :=
  (ts.filter fun t => !t.startsWith "tick:").mapM String.toNat?

def validTicks (ts : List String) : Bool :=
  ts.all fun t => if t.startsWith "tick:" then (t.drop 5).toString.toNat?.isSome else true

def mkCfg (s : St) : Cfg :=
  Cfg.start s.maxQ s.last (s.decls.toList.map fun d => (d.1, classify s.T s.statNs d.2))

def knownOr (tainted : Option String) (why : String) : String :=
  match tainted with
  | some k => s!"known:{k}"
  | none => s!"bad {why}"

/-- judge one admitted/blocked request against the trace so far.
    `prevMax` = latest pass time admitted before (for a block inside a `sched`: incl. the other workers). -/
def judgeBlock (s : St) (tainted : Option String) (prevMax now : Int) (b : Nat) : String :=
  match classify s.T s.statNs b, exactIv s.tbits b s.statNs with
  | .zero, _ => "bad zero-batch-blocked"
  | .excess, _ => "ok"
  | .norm ivF, some ivX =>
    if prevMax + ivX - now > s.maxQ then "ok"
    else if prevMax + ivF - now > s.maxQ then "?"
    else knownOr tainted "unjustified-block"
  | .norm _, none => "?"

def step (oracle : Bool) (s : St) (ts : List String) (line : String) : St × Option String :=
  match ts with
  | ["load", tb, si, mq] =>
    match parseFbits? tb, parseHex? (tb.drop 2).toString, si.toNat?, mq.toNat? with
    | some T, some bits, some si, some mq =>
      if s.loaded || T.isNaN || si ≥ 2 ^ 32 || mq ≥ 2 ^ 32 then (s, some "bad-op") else
      ({ loaded := true, T := T, tbits := bits, statNs := (if si = 0 then 1000 else si) * 1000000,
         maxQ := (mq * 1000000 : Nat) }, none)
    | _, _, _, _ => (s, some "bad-op")
  | ["clock", t] =>
    match t.toNat? with
    | some t => if s.loaded then ({ s with now := some (t : Int) }, none) else (s, some "bad-op")
    | none => (s, some "bad-op")
  | ["req", b] =>
    match b.toNat?, s.now with
    | some b, some now =>
      if !s.loaded || b ≥ 2 ^ 32 || !s.decls.isEmpty then (s, some "bad-op") else
      let cls := classify s.T s.statNs b
      let (l', r) := doCheck s.maxQ s.last now cls
      if !oracle then
        let now' := match r with | .wait w => now + w | _ => now
        ({ s with last := l', now := some now' }, some (showRes r))
      else
        match (resPart line).bind parseRes? with
        | none => (s, some "bad unreadable-result")
        | some obs =>
          let tainted := if s.last ≠ s.prev then s.taint else none
          let w : Int := match obs with | .wait w => w | _ => 0
          let verdict : String :=
            match obs with
            | .block => judgeBlock s tainted s.prev now b
            | _ =>
              match cls, exactIv s.tbits b s.statNs with
              | .zero, _ => if obs = .pass then "ok" else "bad zero-batch-waits"
              | .excess, none => "bad admitted-with-threshold<=0"
              | cls, some ivX =>
                let ivF : Int := match cls with | .norm iv => iv | _ => ivX
                if (match obs with | .wait w => decide (w ≤ 0) | _ => false) then "bad nonpositive-wait"
                else if w > s.maxQ then "bad wait>max"
                else if s.prev + ivX ≤ now + w then "ok"
                else if s.prev + ivF ≤ now + w then "?"
                else knownOr tainted "spacing"
              | _, none => "?"
          let prev' := match obs, cls with
            | .block, _ => s.prev
            | _, .zero => s.prev
            | _, _ => max s.prev (now + w)
          let taint' := if l' = prev' then none else s.taint
          ({ s with last := l', prev := prev', taint := taint', now := some (now + w) }, some verdict)
    | _, _ => (s, some "bad-op")
  | ["thread", tid, clk, "req", b] =>
    match tid.toNat?, clk.toNat?, b.toNat? with
    | some tid, some clk, some b =>
      if !s.loaded || tid ≠ s.decls.size || b ≥ 2 ^ 32 || tid ≥ 8 then (s, some "bad-op")
      else ({ s with decls := s.decls.push ((clk : Int), b) }, none)
    | _, _, _ => (s, some "bad-op")
  | "sched" :: es =>
    match parseSched? es with
    | none => (s, some "bad-op")
    | some sch =>
      if !s.loaded || s.decls.isEmpty || !validTicks es then (s, some "bad-op") else
      let c := (mkCfg s).runSched sch
      let s' := { s with last := c.last, now := none, decls := #[] }
      if !oracle then
        (s', some (showList ((c.results.zipIdx).map fun (r, i) => s!"{i}:{showResT r}")))
      else
        match (resPart line).bind parseResList? with
        | none => (s', some "bad unreadable-result")
        | some obs =>
          if obs.length ≠ s.decls.size then (s', some "bad unreadable-result") else
          let here : Option String :=
            if c.rb then some "throttle-rollback-collision"
            else if c.stale then some "throttle-stale-add"
            else none
          let tainted := here.orElse fun _ => if s.last ≠ s.prev then s.taint else none
          let rows := (s.decls.toList.zip obs).map fun ((now, b), r) =>
            (now, b, r, classify s.T s.statNs b, exactIv s.tbits b s.statNs)
          -- per-thread checks that hold under every schedule
          let bad1 := rows.filterMap fun (_, _, r, cls, x) =>
            match r, cls, x with
            | .wait w, _, _ => if w ≤ 0 then some "bad nonpositive-wait" else if w > s.maxQ then some "bad wait>max" else
                (match cls with | .zero => some "bad zero-batch-waits" | _ => none)
            | .block, .zero, _ => some "bad zero-batch-blocked"
            | .pass, .excess, none => some "bad admitted-with-threshold<=0"
            | _, _, _ => none
          -- admitted requests sorted by pass time: (p, ivX, ivF)
          let adm := rows.filterMap fun (now, _, r, cls, x) =>
            match r.passAt now, cls, x with
            | some p, .norm ivF, some ivX => some (p, (ivX : Int), ivF)
            | some p, .excess, some ivX => some (p, (ivX : Int), (ivX : Int))
            | _, _, _ => none
          let adm := adm.mergeSort fun a b => a.1 ≤ b.1
          let (_, spX, spF) := adm.foldl (fun (acc : Int × Bool × Bool) e =>
            (e.1, acc.2.1 && decide (acc.1 + e.2.1 ≤ e.1), acc.2.2 && decide (acc.1 + e.2.2 ≤ e.1))) (s.prev, true, true)
          let top := adm.foldl (fun a e => max a e.1) s.prev
          let blocks := rows.filterMap fun (now, b, r, _, _) =>
            match r with | .block => some (judgeBlock s tainted top now b) | _ => none
          let verdict :=
            match bad1 with
            | w :: _ => w
            | [] =>
              if !spX && !spF then knownOr tainted "spacing"
              else match blocks.find? (fun v => v ≠ "ok" && v ≠ "?") with
                | some v => v
                | none => if !spX || blocks.contains "?" then "?" else "ok"
          let taint' := if c.last = top then none else tainted
          ({ s' with prev := top, taint := taint' }, some verdict)
  | _ => (s, some "bad-op")

def run (mode : String) : IO Unit :=
  loop ({} : St) (step (mode == "oracle"))

end Sentinel.Drv.C10
