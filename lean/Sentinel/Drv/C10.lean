import Sentinel.Drv.Common
import Sentinel.Model.Throttle
/-!
Driver for C10.

Ops
* `load (<f:bits threshold> <statIntervalMs> <maxQueueingTimeMs>)* [other=<n>]` — the complete list of throttling rules of the
  resource, in check order; also in the middle of a case (a reload: `Throttle.reload` with the code's rule equality).
  `other=<n>` (a rule for another resource, so that an otherwise identical list is a real reload) is ignored here.
* `loadres (<rule>)*` — the same list through `flow.LoadRulesOfResource(res, …)` (empty list = clear the resource); same rebuild code, same model
* `clear` / `clearres` — `flow.ClearRules()` / `flow.ClearRulesOfResource(res)`: no rule in force (as `load` with an empty list)
* `onsleep <load…|loadres…|clear|clearres>` — arms that (re)load: it is performed during the next sleep the slot asks for (the sleeping
  request goes on over the controllers it started with: `Throttle.chainReload`); a rule token `rj[:n]` is a never-blocking Reject rule
* `clock <ns>`                                   — virtual time
* `req <batch>`   `=> (L | S<ns>)* (pass|block)` — one request through all rules (`Throttle.chain`): `L` per checker that reached
  its timestamp (`th.load` hook), `S<ns>` per sleep, then the verdict; the clock advances by the sleeps
* `thread <tid> <clock-ns> req <batch>`          — declares worker `tid` (0,1,2,… in order) of the next `sched` (exactly one rule in force)
* `sched <tid|tick:<ns>> …` `=> [0:pass,1:wait:<ns>,2:block]` — runs the declared workers under the schedule
  (`go/internal/sched` semantics: skip finished, drain round-robin); a `clock` op must follow before the next `req`.

Modes: `model` (the definitions of `Sentinel.Model.Throttle`; the float expression `⌈b/T·I⌉` instantiated with
Lean `Float`), `oracle` (judges the implementation's trace: pass times are taken from the *trace*, the
interval is the **exact** `⌈b·I/T⌉` of the property's wording; the model is only run to evaluate the known-finding
classifiers `Cfg.rb` / `Cfg.stale` on the schedule).  With several rules every rule in force is judged on its own: arrival at the rule
= arrival + earlier sleeps, pass time = that + its own wait, reconstructed from the events and the rules' classes; limits, thresholds
and intervals are those of the rule list *in force* (the last `load`), not those of whatever controller the code kept.  A rule that
stays identical across a reload keeps its record; any other rule starts anew (no spacing claim against earlier traffic; a rejection must
be justified against the latest pass time seen so far).
-/
namespace Sentinel.Drv.C10
open Sentinel.Throttle Sentinel.Drv

/-- a throttling rule as loaded -/
structure RP where
  T : Float
  tbits : Nat
  statMs : Nat
  mq : Nat

def RP.statNs (r : RP) : Nat := (if r.statMs = 0 then 1000 else r.statMs) * 1000000
def RP.maxQ (r : RP) : Int := ((r.mq * 1000000 : Nat) : Int)

/-- `old.isEqualsTo(new)` restricted to the fields a Direct+Throttling rule of one resource can differ in:
    `StatIntervalInMs`, `MaxQueueingTimeMs` and `util.Float64Equals(Threshold)` (`|x − y| < 1e-8`, in binary64) -/
def ruleEq (old new : RP) : Bool :=
  old.statMs == new.statMs && Float.abs (old.T - new.T) < 0.00000001 && old.mq == new.mq

/-- the oracle's notion of "the same rule stays in force": all three fields identical.  (A `+Inf` threshold is never the
    same for the code — `Inf − Inf` is NaN — so such a rule is rebuilt on every real reload; its interval is 0, nothing is
    claimed across the reload for it.) -/
def sameRule (a b : RP) : Bool := a.tbits == b.tbits && a.statMs == b.statMs && a.mq == b.mq && ruleEq a b

/-- what the oracle remembers per rule in force: `prev` = latest pass time this rule assigned (spacing is claimed
    against it), `prevHi` = an upper bound of what its checker may legitimately remember (a rejection is justified
    against it; after a reload that changed the rule the checker may or may not have been rebuilt) -/
structure ORec where
  rp : RP
  prev : Int
  prevHi : Int

structure St where
  loaded : Bool := false
  ctls : List (Ctl RP) := []            -- model: controllers in check order (bound rule + lastPassedTime)
  orc : List ORec := []                 -- oracle: the rule list in force
  now : Option Int := none
  decls : Array (Int × Nat) := #[]      -- declared workers: (clock, batch)
  taint : Option String := none         -- oracle: a known-finding region entered earlier and not yet left
  curList : List String := []           -- the rule manager's cache of what was loaded last for the resource (skip test)
  next : Nat := 0                       -- first unused controller identity
  armed : Option (List String) := none  -- a (re)load that the next sleep of a request will be used for
  curOther : String := ""               -- … and for the other resource

/-- the float part of `DoCheck` (same binary64 operations as the Go code) -/
def classify (T : Float) (statNs b : Nat) : Req :=
  if b = 0 then .zero
  else if T ≤ 0.0 then .excess
  else if b.toFloat > T then .excess
  else .norm (Float.ceil (b.toFloat / T * statNs.toFloat)).toUInt64.toNat

def ceilDiv (a b : Nat) : Nat := (a + b - 1) / b

/-- exact `⌈b·I/T⌉` for the positive float with bit pattern `bits` (`none`: T ≤ 0 or NaN) -/
def exactIv (bits b I : Nat) : Option Nat :=
  let e := (bits >>> 52) % 2048
  let m := bits % 2 ^ 52
  if bits >>> 63 = 1 then none
  else if e = 2047 then (if m = 0 then some 0 else none)
  else
    let M := if e = 0 then m else 2 ^ 52 + m
    let sh : Int := if e = 0 then -1074 else (e : Int) - 1075
    if M = 0 then none
    else if sh ≥ 0 then some (ceilDiv (b * I) (M * 2 ^ sh.toNat))
    else some (ceilDiv (b * I * 2 ^ (-sh).toNat) M)

def showRes : Res → String
  | .pass => "pass"
  | .wait w => s!"wait {w}"
  | .block => "block"

def showResT : Option Res → String
  | some .pass => "pass"
  | some (.wait w) => s!"wait:{w}"
  | some .block => "block"
  | none => "running"

def parseRes? (s : String) : Option Res :=
  match toks s with
  | ["pass"] => some .pass
  | ["block"] => some .block
  | ["wait", w] => w.toInt?.map .wait
  | _ => none

def parseResT? (s : String) : Option Res :=
  match s.splitOn ":" with
  | [_, "pass"] => some .pass
  | [_, "block"] => some .block
  | [_, "wait", w] => w.toInt?.map .wait
  | _ => none

/-- `[0:pass,1:wait:5]` → results in thread order -/
def parseResList? (s : String) : Option (List Res) :=
  if s.startsWith "[" && s.endsWith "]" then
    let body := ((s.drop 1).dropEnd 1).toString
    if body.isEmpty then some [] else (body.splitOn ",").mapM parseResT?
  else none

/-- thread ids of a schedule (ticks do not concern `DoCheck`: the clock is read before the first hook) -/
def parseSched? (ts : List String) : Option (List Nat) :=
  (ts.filter fun t => !t.startsWith "tick:").mapM String.toNat?

def validTicks (ts : List String) : Bool :=
  ts.all fun t => if t.startsWith "tick:" then (t.drop 5).toString.toNat?.isSome else true

def mkCfg (s : St) (c : Ctl RP) : Cfg :=
  Cfg.start c.rule.maxQ c.last (s.decls.toList.map fun d => (d.1, classify c.rule.T c.rule.statNs d.2))

def knownOr (tainted : Option String) (why : String) : String :=
  match tainted with
  | some k => s!"known:{k}"
  | none => s!"bad {why}"

/-- is a rejection by rule `r` justified?  `prevMax` = upper bound of the latest pass time the rule accounts for -/
def judgeBlock (r : RP) (tainted : Option String) (prevMax now : Int) (b : Nat) : String :=
  match classify r.T r.statNs b, exactIv r.tbits b r.statNs with
  | .zero, _ => "bad zero-batch-blocked"
  | .excess, _ => "ok"
  | .norm ivF, some ivX =>
    if prevMax + ivX - now > r.maxQ then "ok"
    else if prevMax + ivF - now > r.maxQ then "?"
    else knownOr tainted "unjustified-block"
  | .norm _, none => "?"

/-- is an admission by rule `r` (arrival `now`, observed `obs` = pass / wait) within the property? -/
def judgeAdmit (r : RP) (tainted : Option String) (prev now : Int) (b : Nat) (obs : Res) : String :=
  let w : Int := match obs with | .wait w => w | _ => 0
  match classify r.T r.statNs b, exactIv r.tbits b r.statNs with
  | .zero, _ => if obs = .pass then "ok" else "bad zero-batch-waits"
  | .excess, none => "bad admitted-with-threshold<=0"
  | cls, some ivX =>
    let ivF : Int := match cls with | .norm iv => iv | _ => ivX
    if (match obs with | .wait w => decide (w ≤ 0) | _ => false) then "bad nonpositive-wait"
    else if w > r.maxQ then "bad wait>max"
    else if prev + ivX ≤ now + w then "ok"
    else if prev + ivF ≤ now + w then "?"
    else knownOr tainted "spacing"
  | _, none => "?"

/-! ### the event form of a sequential request

`req` prints what can be observed of the walk over the rules: `L` for every `th.load` hook (a checker that got as far as
its shared timestamp), `S<ns>` for every sleep the slot asked for, then the verdict `pass` / `block`. -/

inductive Ev where
  | L
  | S (ns : Int)
deriving DecidableEq

def showEvents (classes : List Req) (visited : List Res) : String :=
  let evs := (classes.zip visited).flatMap fun (c, r) =>
    match c, r with
    | .norm _, .wait w => ["L", s!"S{w}"]
    | .norm _, _ => ["L"]
    | _, _ => []
  let verdict := if visited.getLast? = some .block then "block" else "pass"
  " ".intercalate (evs ++ [verdict])

def parseEvents? (s : String) : Option (List Ev × Bool) :=
  let ts := toks s
  match ts.getLast? with
  | none => none
  | some v =>
    if v ≠ "pass" && v ≠ "block" then none else
    (ts.dropLast.mapM fun t =>
      if t = "L" then some Ev.L
      else if t.startsWith "S" then (t.drop 1).toString.toInt?.map Ev.S
      else none).map fun evs => (evs, v == "pass")

/-- per visited rule: arrival time and what it answered (`none` = cannot be told from the outside: the rule either
    rejected, or passed and the next — over-threshold — rule rejected).  `none` overall = the events do not have the
    shape of a walk over these rules. -/
def recon (pass : Bool) : Int → List Req → List Ev → Option (List (Int × Option Res))
  | _, [], evs => if evs.isEmpty && pass then some [] else none
  | cur, .zero :: cs, evs => (recon pass cur cs evs).map fun r => (cur, some .pass) :: r
  | cur, .excess :: _, evs => if evs.isEmpty && !pass then some [(cur, some .block)] else none
  | cur, .norm _ :: cs, .L :: .S w :: evs => (recon pass (cur + w) cs evs).map fun r => (cur, some (.wait w)) :: r
  | cur, .norm _ :: cs, .L :: evs =>
    if !evs.isEmpty || pass then (recon pass cur cs evs).map fun r => (cur, some .pass) :: r
    else match cs with
      | .excess :: _ => some [(cur, none)]
      | _ => some [(cur, some .block)]
  | _, .norm _ :: _, _ => none

/-- `rj` / `rj:<n>` is a Reject rule of the same resource with a threshold that is never reached (1e18 + n): it takes a place in
    the controller list of the code, never blocks, never sleeps, and is neither reused for nor confused with a throttling rule
    (`isEqualsTo` compares the control behaviour; a Direct+Throttling rule shares no statistics) — the model leaves it out. -/
def isRj (t : String) : Bool := t = "rj" || t.startsWith "rj:"

def parseRules? : List String → Option (List RP)
  | [] => some []
  | tb :: rest =>
    if isRj tb then parseRules? rest else
    match rest with
    | si :: mq :: rest =>
      match parseFbits? tb, parseHex? (tb.drop 2).toString, si.toNat?, mq.toNat?, parseRules? rest with
      | some T, some bits, some si, some mq, some rs =>
        if T.isNaN || T < 0.0 || si ≥ 2 ^ 32 || mq ≥ 2 ^ 32 then none else some ({ T := T, tbits := bits, statMs := si, mq := mq } :: rs)
      | _, _, _, _, _ => none
    | _ => none

/-- what `reflect.DeepEqual` compares when the rule manager decides whether a load is "the same as the current rules" -/
def cacheKey : List String → List String
  | [] => []
  | tb :: rest =>
    if isRj tb then tb :: cacheKey rest else
    match rest with
    | si :: mq :: rest =>
      let z := match parseFbits? tb with | some T => T == 0.0 | none => false      -- -0 == +0
      s!"{if z then "f:0000000000000000" else tb}/{si}/{mq}" :: cacheKey rest
    | _ => rest

/-- the oracle's records after a (re)load: a rule that stays identical keeps its record (first fit, in order); any other
    rule starts with the spacing record of a fresh checker and, for rejections, the latest pass time seen so far -/
def orcReload (old : List ORec) (hi : Int) : List RP → List ORec
  | [] => []
  | r :: rs =>
    match old.findIdx? fun o => sameRule o.rp r with
    | some i =>
      match old[i]? with
      | some o => { o with rp := r } :: orcReload (old.eraseIdx i) hi rs
      | none => { rp := r, prev := 0, prevHi := hi } :: orcReload old hi rs
    | none => { rp := r, prev := 0, prevHi := hi } :: orcReload old hi rs

def worst (vs : List String) : String :=
  match vs.find? fun v => v.startsWith "bad" with
  | some v => v
  | none =>
    match vs.find? fun v => v.startsWith "known:" with
    | some v => v
    | none => if vs.contains "?" then "?" else "ok"

/-- what a `load` / `loadres` / `clear` / `clearres` does to the rule manager: `none` = malformed; the rules to rebuild the
    resource's controllers from (`none` = the load is skipped as identical to the cache), the new cache -/
def loadPlan (s : St) : List String → Option (Option (List RP) × List String × String)
  | ["clear"] => some (some [], [], "")
  | ["clearres"] => some (some [], [], s.curOther)
  | op :: rest =>
    if op = "load" || op = "loadres" then
      let (rest, other) := match rest.getLast? with
        | some t => if t.startsWith "other=" then (rest.dropLast, t) else (rest, "")
        | none => (rest, "")
      match parseRules? rest with
      | some rules =>
        if rules.length > 4 || rest.length > 16 then none else
        let key := cacheKey rest
        let skip := if op = "load" then s.curList == key && s.curOther == other else !rest.isEmpty && s.curList == key
        some (if skip then none else some rules, key, if op = "load" then other else s.curOther)
      | none => none
    else none
  | [] => none

/-- the sequential effect of a load (both sides of the rebuild: the model's controllers and the oracle's records) -/
def applyLoad (s : St) (ts : List String) : Option St :=
  (loadPlan s ts).map fun (rules, key, other) =>
    match rules with
    | none => { s with loaded := true }
    | some rules =>
      let hi := s.orc.foldl (fun a o => max a o.prevHi) 0
      { s with loaded := true, ctls := reload ruleEq s.next s.ctls rules, next := s.next + rules.length,
               orc := orcReload s.orc hi rules, curList := key, curOther := other }

def stepRest (oracle : Bool) (s : St) (ts : List String) (line : String) : St × Option String :=
  match ts with
  | ["req", b] =>
    match b.toNat?, s.now with
    | some b, some now =>
      if !s.loaded || b ≥ 2 ^ 32 || !s.decls.isEmpty then (s, some "bad-op") else
      let classes := s.ctls.map fun c => classify c.rule.T c.rule.statNs b
      -- a reload armed with `onsleep` happens during the first sleep of this request (if it sleeps at all)
      let plan := s.armed.bind (loadPlan s)
      let fireRules : Option (List RP) := plan.bind (·.1)
      let (ctls', visited, fired) := chainReload ruleEq s.next now s.ctls (fun r => (r.maxQ, classify r.T r.statNs b)) fireRules
      let slept : Int := visited.foldl (fun a r => match r with | .wait w => a + w | _ => a) 0
      -- the cache / identity bookkeeping of a load that was performed (or skipped) during the sleep
      let after := fun (s1 : St) (didSleep : Bool) =>
        if !didSleep || s.armed.isNone then s1 else
        match plan with
        | some (some rules, key, other) =>
          let hi := s1.orc.foldl (fun a o => max a o.prevHi) 0
          { s1 with armed := none, next := s.next + rules.length, orc := orcReload s1.orc hi rules, curList := key, curOther := other }
        | _ => { s1 with armed := none }
      if !oracle then
        (after { s with ctls := ctls', now := some (now + slept) } (fired || (slept > 0 && s.armed.isSome)), some (showEvents classes visited))
      else
        match (resPart line).bind parseEvents? with
        | none => (s, some "bad unreadable-result")
        | some (evs, pass) =>
          let tainted := if s.ctls.map (·.last) ≠ s.orc.map (·.prev) then s.taint else none
          let oclasses := s.orc.map fun o => classify o.rp.T o.rp.statNs b
          let obsSlept := evs.foldl (fun a e => match e with | .S w => a + w | _ => a) 0
          match recon pass now oclasses evs with
          | none => (after { s with ctls := ctls', now := some (now + obsSlept) } (obsSlept > 0), some "bad walk-shape")
          | some per =>
            -- judge the visited rules, update their records; the rules after a rejection were not asked
            let judged := (s.orc.zip (per.map some ++ List.replicate (s.orc.length - per.length) none)).map fun (o, x) =>
              match x with
              | none => (o, "ok")
              | some (a, none) => ({ o with prevHi := max o.prevHi a }, "ok")
              | some (a, some .block) => (o, judgeBlock o.rp tainted o.prevHi a b)
              | some (a, some r) =>
                let v := judgeAdmit o.rp tainted o.prev a b r
                match classify o.rp.T o.rp.statNs b with
                | .zero => (o, v)
                | _ =>
                  let p := a + (match r with | .wait w => w | _ => 0)
                  ({ o with prev := max o.prev p, prevHi := max o.prev p }, v)
            let orc' := judged.map (·.1)
            let taint' := if ctls'.map (·.last) = orc'.map (·.prev) then none else s.taint
            (after { s with ctls := ctls', orc := orc', taint := taint', now := some (now + obsSlept) } (obsSlept > 0), some (worst (judged.map (·.2))))
    | _, _ => (s, some "bad-op")
  | ["thread", tid, clk, "req", b] =>
    match tid.toNat?, clk.toNat?, b.toNat? with
    | some tid, some clk, some b =>
      if !s.loaded || s.ctls.length ≠ 1 || tid ≠ s.decls.size || b ≥ 2 ^ 32 || tid ≥ 8 || s.armed.isSome then (s, some "bad-op")
      else ({ s with decls := s.decls.push ((clk : Int), b) }, none)
    | _, _, _ => (s, some "bad-op")
  | "sched" :: es =>
    match parseSched? es, s.ctls, s.orc with
    | some sch, [ctl], [o] =>
      if !s.loaded || s.decls.isEmpty || !validTicks es then (s, some "bad-op") else
      let c := (mkCfg s ctl).runSched sch
      let s' := { s with ctls := [{ ctl with last := c.last }], now := none, decls := #[] }
      if !oracle then
        (s', some (showList ((c.results.zipIdx).map fun (r, i) => s!"{i}:{showResT r}")))
      else
        match (resPart line).bind parseResList? with
        | none => (s', some "bad unreadable-result")
        | some obs =>
          if obs.length ≠ s.decls.size then (s', some "bad unreadable-result") else
          let rp := o.rp
          let here : Option String :=
            if c.rb then some "throttle-rollback-collision"
            else if c.stale then some "throttle-stale-add"
            else none
          let tainted := here.orElse fun _ => if ctl.last ≠ o.prev then s.taint else none
          let rows := (s.decls.toList.zip obs).map fun ((now, b), r) =>
            (now, b, r, classify rp.T rp.statNs b, exactIv rp.tbits b rp.statNs)
          -- per-thread checks that hold under every schedule
          let bad1 := rows.filterMap fun (_, _, r, cls, x) =>
            match r, cls, x with
            | .wait w, _, _ => if w ≤ 0 then some "bad nonpositive-wait" else if w > rp.maxQ then some "bad wait>max" else
                (match cls with | .zero => some "bad zero-batch-waits" | _ => none)
            | .block, .zero, _ => some "bad zero-batch-blocked"
            | .pass, .excess, none => some "bad admitted-with-threshold<=0"
            | _, _, _ => none
          -- admitted requests sorted by pass time: (p, ivX, ivF)
          let adm := rows.filterMap fun (now, _, r, cls, x) =>
            match r.passAt now, cls, x with
            | some p, .norm ivF, some ivX => some (p, (ivX : Int), ivF)
            | some p, .excess, some ivX => some (p, (ivX : Int), (ivX : Int))
            | _, _, _ => none
          let adm := adm.mergeSort fun a b => a.1 ≤ b.1
          let (_, spX, spF) := adm.foldl (fun (acc : Int × Bool × Bool) e =>
            (e.1, acc.2.1 && decide (acc.1 + e.2.1 ≤ e.1), acc.2.2 && decide (acc.1 + e.2.2 ≤ e.1))) (o.prev, true, true)
          let top := adm.foldl (fun a e => max a e.1) o.prev
          let blocks := rows.filterMap fun (now, b, r, _, _) =>
            match r with | .block => some (judgeBlock rp tainted (max top o.prevHi) now b) | _ => none
          let verdict :=
            match bad1 with
            | w :: _ => w
            | [] =>
              if !spX && !spF then knownOr tainted "spacing"
              else match blocks.find? (fun v => v ≠ "ok" && v ≠ "?") with
                | some v => v
                | none => if !spX || blocks.contains "?" then "?" else "ok"
          let taint' := if c.last = top then none else tainted
          ({ s' with orc := [{ o with prev := top, prevHi := max top (if adm.isEmpty then o.prevHi else top) }], taint := taint' }, some verdict)
    | _, _, _ => (s, some "bad-op")
  | _ => (s, some "bad-op")

def step (oracle : Bool) (s : St) (ts : List String) (line : String) : St × Option String :=
  match ts with
  | ["clock", t] =>
    match t.toNat? with
    | some t => if s.loaded then ({ s with now := some (t : Int) }, none) else (s, some "bad-op")
    | none => (s, some "bad-op")
  | "onsleep" :: op =>
    -- arm: the next sleep the slot asks for is used to perform `op` (a load / loadres / clear / clearres)
    if !s.loaded || !s.decls.isEmpty || s.armed.isSome || (loadPlan s op).isNone then (s, some "bad-op")
    else ({ s with armed := some op }, none)
  | op :: _ =>
    -- `load` = flow.LoadRules (whole rule set; `other=<n>` = the rule of another resource), `loadres` = flow.LoadRulesOfResource,
    -- `clear` / `clearres` = ClearRules / ClearRulesOfResource.  All skip a list that is DeepEqual to the cached one, and all
    -- rebuild with buildResourceTrafficShapingController on the resource's old controllers = `Throttle.reload`.
    if op = "load" || op = "loadres" || op = "clear" || op = "clearres" then
      if !s.decls.isEmpty || s.armed.isSome then (s, some "bad-op") else
      match applyLoad s ts with
      | some s' => (s', none)
      | none => (s, some "bad-op")
    else stepRest oracle s ts line
  | [] => (s, some "bad-op")

def run (mode : String) : IO Unit :=
  loop ({} : St) (step (mode == "oracle"))

end Sentinel.Drv.C10
