import Sentinel.Drv.Common
/-! Driver for C10 (stub: replaced by the property's real driver) -/
namespace Sentinel.Drv.C10
def run (_mode : String) : IO Unit := IO.eprintln "C10: driver not implemented"
end Sentinel.Drv.C10
