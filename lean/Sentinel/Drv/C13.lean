import Sentinel.Drv.Common
/-! Driver for C13 (stub: replaced by the property's real driver) -/
namespace Sentinel.Drv.C13
def run (_mode : String) : IO Unit := IO.eprintln "C13: driver not implemented"
end Sentinel.Drv.C13
