import Sentinel.Drv.Common
import Sentinel.Model.Rules
/-! Driver for C13: `model` = the rule managers of `Sentinel.Model.Rules`, `spec` = "filter valid of the latest
load per resource", recomputed from the op history (`latest`, `buildList`, the probe functions).

Ops (`<mod>` ∈ flow|iso|hot|cb|sys|out; a rule is `-` (nil) or comma-separated fields, `_` = empty string; the flow / breaker `Threshold` is the exact integer number of 2^-60 units, other floats are halves):
```
load <mod> <n> <rule>*n            => changed|unchanged|err|changed-err
loadres <mod> <res> <n> <rule>*n   => (same)          (`loadresx`: the same call, the harness reuses one slice per resource)
genmode flow|cb ok|fail|panic      the harness' own generator (flow strategy 7 / behaviour 9, breaker strategy 7) builds / errors / panics          (out: n ≤ 1, n = 0 is the nil rule)
clear <mod>                        => ok|err
clearres <mod> <res>               => ok|err
get <mod>                          => [rule,…] sorted
getord <mod>                       => GetRules grouped by resource (sorted), order within a resource kept (flow|iso|hot|cb|sys)
getres <mod> <res>                 => [rule,…] in order      (flow|iso|hot|cb)
ctrlhist <mod> <res>               => controller identities, stable over the case (per resource, first-shown order); spec: ?
ctrlids <mod> <res>                => identity classes of the controller objects in force, first-appearance order (flow|hot|cb)
probe flow|iso <res> <batch> | probe cb <res> | probe sys    => pass|block|?
probeseq flow <res> <batch>*       => one letter per request at one instant: p|b|w (w = had to sleep, sequence stops) or ?
```
-/
namespace Sentinel.Drv.C13
open Sentinel.Rules Sentinel.Drv

/-- `system_metric.TotalMemorySize` is host dependent; the generator only uses water marks ≤ 2^20 or ≥ 2^62 -/
def totalMem : Int := 2 ^ 50

def str (s : String) : String := if s = "_" then "" else s
def ustr (s : String) : String := if s = "" then "_" else s

def parseFlow (s : String) : Option FlowRule :=
  match s.splitOn "," with
  | [res, tcs, cb, th, rel, ref, maxQ, wp, cf, st, lm, hm, ml, mh, id] => do
    some { id := str id, res := str res, tcs := ← tcs.toInt?, cb := ← cb.toInt?, th := ← th.toInt?, rel := ← rel.toInt?, ref := str ref,
           maxQ := ← maxQ.toNat?, wuPeriod := ← wp.toNat?, wuCf := ← cf.toNat?, statMs := ← st.toNat?,
           lowMem := ← lm.toInt?, highMem := ← hm.toInt?, memLow := ← ml.toInt?, memHigh := ← mh.toInt? }
  | _ => none
def showFlow (r : FlowRule) : String :=
  s!"{ustr r.res},{r.tcs},{r.cb},{r.th},{r.rel},{ustr r.ref},{r.maxQ},{r.wuPeriod},{r.wuCf},{r.statMs},{r.lowMem},{r.highMem},{r.memLow},{r.memHigh},{ustr r.id}"

def parseIso (s : String) : Option IsoRule :=
  match s.splitOn "," with
  | [res, m, th, id] => do some { id := str id, res := str res, metric := ← m.toInt?, th := ← th.toNat? }
  | _ => none
def showIso (r : IsoRule) : String := s!"{ustr r.res},{r.metric},{r.th},{ustr r.id}"

def parseHot (s : String) : Option HotRule :=
  match s.splitOn "," with
  | [res, m, cb, pi, pk, th, mq, bc, du, cap, it, id] => do
    some { id := str id, res := str res, metric := ← m.toInt?, cb := ← cb.toInt?, pidx := ← pi.toInt?, pkey := str pk, th := ← th.toInt?,
           maxQ := ← mq.toInt?, burst := ← bc.toInt?, dur := ← du.toInt?, cap := ← cap.toInt?, items := ← it.toNat? }
  | _ => none
def showHot (r : HotRule) : String :=
  s!"{ustr r.res},{r.metric},{r.cb},{r.pidx},{ustr r.pkey},{r.th},{r.maxQ},{r.burst},{r.dur},{r.cap},{r.items},{ustr r.id}"

def parseCb (s : String) : Option CbRule :=
  match s.splitOn "," with
  | [res, st, rt, mr, si, bk, mx, th, pn, id] => do
    some { id := str id, res := str res, strategy := ← st.toNat?, retryMs := ← rt.toNat?, minReq := ← mr.toNat?, statMs := ← si.toNat?,
           buckets := ← bk.toNat?, maxRt := ← mx.toNat?, th := ← th.toInt?, probe := ← pn.toNat? }
  | _ => none
def showCb (r : CbRule) : String :=
  s!"{ustr r.res},{r.strategy},{r.retryMs},{r.minReq},{r.statMs},{r.buckets},{r.maxRt},{r.th},{r.probe},{ustr r.id}"

def parseSys (s : String) : Option SysRule :=
  match s.splitOn "," with
  | [m, th2, st, id] => do some { id := str id, metric := ← m.toNat?, th2 := ← th2.toInt?, strategy := ← st.toInt? }
  | _ => none
def showSys (r : SysRule) : String := s!"{r.metric},{r.th2},{r.strategy},{ustr r.id}"

/-- `<pct2>;<recMs>;<active 0|1>;<recycleS>;<maxAttempts>;<cb rule or ->` -/
def parseOut (s : String) : Option OutRule :=
  match s.splitOn ";" with
  | [p, rm, ac, rc, ma, c] => do
    let inner ← if c = "-" then some none else (parseCb c).map some
    some { pct2 := ← p.toInt?, recMs := ← rm.toNat?, active := ac == "1", recycleS := ← rc.toNat?, maxAtt := ← ma.toNat?, inner := inner }
  | _ => none
def showOut (r : OutRule) : String :=
  s!"{r.pct2};{r.recMs};{if r.active then 1 else 0};{r.recycleS};{r.maxAtt};" ++ (match r.inner with | some c => showCb c | none => "-")

/-- `<n> <rule>*n` → the list (nil = `-`) -/
def parseList {R : Type} (p : String → Option R) (ts : List String) : Option (List (Option R)) :=
  match ts with
  | n :: rest => do
    let n ← n.toNat?
    if rest.length ≠ n then none else
    rest.mapM fun t => if t = "-" then some none else (p t).map some
  | [] => none

def sortStrs (xs : List String) : List String := (xs.toArray.qsort (· < ·)).toList

structure Slot (R : Type) where
  M : RuleMod R
  parse : String → Option R
  shw : R → String
  st : MState R := MState.init
  c : CState R := CState.init                      -- model side: controller identities
  reg : List (String × Nat) := []                  -- model side: (resource, controller id) in the order `ctrlhist` first showed them
  L : String → List (Option R) := fun _ => []     -- spec side
  Lkeys : List String := []
  seen : List R := []                             -- spec side: every rule object handed over in this case
  custom : R → Bool := fun _ => false             -- rules built by the harness' own generator
  mode : GenMode := .ok                           -- what that generator currently does
  failTaint : List String := []                   -- spec side: keys whose latest load dropped a rule because the generator errored
  unknown : Bool := false                         -- spec side: a panicking load may or may not have reached the generator: no claims until `clear`

section
variable {R : Type} [DecidableEq R]

def Slot.specEnf (sl : Slot R) (k : String) : List R := buildList sl.M k (sl.L k)

/-- spec-side claim about the value reported by a load -/
def claimAll (sl : Slot R) (rules : List (Option R)) : String :=
  let M := sl.M
  let ks := sl.Lkeys ++ ruleKeys M rules
  if ks.all (fun k => sl.L k == proj M k rules) then
    if ks.all (fun k => (sl.L k).map (normIn M k) == sl.L k) then "unchanged" else "?known:normalised-rule-reload:unchanged"
  else if ks.all (fun k => (sl.L k).map (normIn M k) == proj M k rules) then "?" else "changed"

def claimRes (sl : Slot R) (res : String) (rules : List (Option R)) : String :=
  let M := sl.M
  if res = "" then "err"
  else if rules = [] then (if sl.L res = [] then "?known:empty-resource-reload:unchanged" else "changed")
  else if sl.L res == rules then
    if (sl.L res).map (normIn M res) == sl.L res then "unchanged" else "?known:normalised-rule-reload:unchanged"
  else if (sl.L res).map (normIn M res) == rules then "?" else "changed"

/-- inside the region of `stale-equal-rule`: a rule in force for `k` is equal, for the module's own equality, to a
    different rule object handed over earlier (whose controller may have been kept) -/
def stale (sl : Slot R) (k : String) : Bool :=
  (sl.specEnf k).any fun r => sl.seen.any fun o =>
    let o' := if built sl.M k o then sl.M.norm o else o
    sl.M.sim o' r && decide (o' ≠ r)

/-- inside the region of `cb-getter-reports-unbuilt`: some valid rule handed over for `k` got no breaker -/
def unbuilt (sl : Slot R) (k : String) : Bool :=
  sl.M.pubValid && (validList sl.M (sl.L k)).any fun r => !built sl.M k r

/-- could a custom rule of this load be equal to a rule object handed over earlier (and so be kept without calling the generator)? -/
def Slot.mayReuse (sl : Slot R) (_ks : List String) (rules : List (Option R)) : Bool :=
  (rules.filterMap id).any fun r => sl.custom r && sl.seen.any fun o => sl.M.sim o r

def wrapGet (sl : Slot R) (ks : List String) (v : String) : String :=
  if ks.any sl.failTaint.contains then "?known:generator-error-swallowed:" ++ v
  else if ks.any (unbuilt sl) then "?known:cb-getter-reports-unbuilt:" ++ v
  else if !sl.M.pubValid && ks.any (stale sl) then "?known:stale-equal-rule:" ++ v else v

def okOrErr (o : Outcome) : String := if o == .err || o == .changedErr || o == .panic then "err" else "ok"

/-- the ops shared by the four map-shaped managers; `none` = not one of them -/
partial def Slot.handle (sl : Slot R) (spec : Bool) (ts : List String) : Option (Slot R × Option String) :=
  let M := sl.M
  if spec && sl.unknown && ts.head? != some "clear" && ts.head? != some "genmode" then
    (if ["load", "loadres", "loadresx", "clearres", "get", "getres", "ctrlids", "ctrlhist"].contains (ts.headD "") then some (sl, some "?") else none)
  else
  match ts with
  | ["genmode", _, g] => some <|
    match g with
    | "ok" => ({ sl with mode := .ok }, none)
    | "fail" => ({ sl with mode := .fail }, none)
    | "panic" => ({ sl with mode := .panic }, none)
    | _ => (sl, some "bad-op")
  | "load" :: _ :: rest => some <|
    match parseList sl.parse rest with
    | none => (sl, some "bad-op")
    | some rules =>
      if spec then
        let c := claimAll sl rules
        let hitKeys := (ruleKeys M rules).eraseDups.filter fun k => (validList M (proj M k rules)).any fun r => sl.custom r && built M k r
        if sl.mode == .panic && c != "unchanged" && !hitKeys.isEmpty then
          if c.startsWith "?" || sl.mayReuse hitKeys rules then ({ sl with unknown := true }, some "?")
          else (sl, some "changed-err")
        else
          let taint := if c == "unchanged" then sl.failTaint else if sl.mode == .fail then hitKeys else []
          let c := if sl.failTaint.isEmpty && taint.isEmpty then c else "?known:generator-error-swallowed:" ++ (c.replace "?known:" "")
          ({ sl with L := latestStep M sl.L (.loadAll rules), Lkeys := ruleKeys M rules, seen := sl.seen ++ rules.filterMap id,
                     failTaint := taint }, some c)
      else
        let (s', o) := loadAllG M sl.custom sl.mode sl.st rules
        let c' := if o == .changedErr then sl.c else cstep (withGen M sl.custom sl.mode) sl.st sl.c (.loadAll rules)
        ({ sl with st := s', c := c' }, some o.toString)
  | "loadresx" :: m :: res :: rest => Slot.handle sl spec ("loadres" :: m :: res :: rest)   -- same call, the harness reuses its slice
  | "loadres" :: _ :: res :: rest => some <|
    match parseList sl.parse rest with
    | none => (sl, some "bad-op")
    | some rules =>
      let res := str res
      if spec then
        let c := claimRes sl res rules
        let hit := (validList M rules).any fun r => sl.custom r && built M res r
        if sl.mode == .panic && c != "unchanged" && c != "err" && hit then
          if c.startsWith "?" || sl.mayReuse [res] rules then ({ sl with unknown := true }, some "?")
          else (sl, some "changed-err")
        else
          let taint := if res = "" || c == "unchanged" then sl.failTaint
                       else if sl.mode == .fail && hit then res :: sl.failTaint else sl.failTaint.filter (· ≠ res)
          let c := if (sl.failTaint.contains res || taint.contains res) && c != "err"
                   then "?known:generator-error-swallowed:" ++ (c.replace "?known:" "") else c
          ({ sl with L := latestStep M sl.L (.loadRes res rules), Lkeys := res :: sl.Lkeys, seen := sl.seen ++ rules.filterMap id,
                     failTaint := taint }, some c)
      else
        let (s', o) := loadResG M sl.custom sl.mode sl.st res rules
        let c' := if o == .changedErr then sl.c else cstep (withGen M sl.custom sl.mode) sl.st sl.c (.loadRes res rules)
        ({ sl with st := s', c := c' }, some o.toString)
  | ["clear", _] => some <|
    if spec then ({ sl with L := fun _ => [], Lkeys := [], failTaint := [], unknown := false }, some "ok")
    else let (s', o) := loadAll M sl.st []; ({ sl with st := s', c := cstep M sl.st sl.c .clearAll }, some (okOrErr o))
  | ["clearres", _, res] => some <|
    let res := str res
    if spec then ({ sl with L := latestStep M sl.L (.clearRes res), failTaint := sl.failTaint.filter (· ≠ res) },
                  some (if res = "" then "err" else "ok"))
    else let (s', o) := loadRes M sl.st res []; ({ sl with st := s', c := cstep M sl.st sl.c (.clearRes res) }, some (okOrErr o))
  | ["get", _] => some <|
    if spec then
      let ks := sl.Lkeys.eraseDups
      let v := showList (sortStrs ((ks.flatMap sl.specEnf).map sl.shw))
      (sl, some (wrapGet sl ks v))
    else (sl, some (showList (sortStrs ((getAll sl.st).map sl.shw))))
  | ["ctrlids", _, res] => some <|
    let res := str res
    let ids := if spec then List.range (sl.specEnf res).length else canonIds ((sl.c.ctrl res).map Prod.snd)
    let v := showList (ids.map toString)
    (sl, some (if spec && sl.failTaint.contains res then "?known:generator-error-swallowed:" ++ v else v))
  | ["ctrlhist", _, res] => some <|
    -- identities that are stable over the whole case (first-shown order): tells a kept controller from a rebuilt one.
    -- Which controllers are kept is C14's property: the spec makes no claim, the line ties model and code.
    if spec then (sl, some "?") else
    let res := str res
    let ids := (sl.c.ctrl res).map Prod.snd
    let reg := ids.foldl (fun r i => if r.contains (res, i) then r else r ++ [(res, i)]) sl.reg
    let mine := (reg.filter (·.1 == res)).map Prod.snd
    ({ sl with reg := reg }, some (showList (ids.map fun i => toString (mine.idxOf i))))
  | ["getord", _] => some <|
    -- GetRules grouped by resource (sorted), the order within a resource kept: only issued right after a whole-set load
    if spec then
      let ks := sortStrs sl.Lkeys.eraseDups
      (sl, some (wrapGet sl ks (showList ((groupStable sl.M.res ks (ks.flatMap sl.specEnf)).map sl.shw))))
    else
      let all := getAll sl.st
      let ks := sortStrs (all.map sl.M.res).eraseDups
      (sl, some (showList ((groupStable sl.M.res ks all).map sl.shw)))
  | ["getres", _, res] => some <|
    let res := str res
    if spec then
      let v := showList ((sl.specEnf res).map sl.shw)
      (sl, some (wrapGet sl [res] v))
    else (sl, some (showList ((getRes sl.st res).map sl.shw)))
  | _ => none

/-- the rules a probe on `res` meets: the rule objects the controllers in force are bound to -/
def Slot.enfOf (sl : Slot R) (spec : Bool) (res : String) : List R := if spec then sl.specEnf res else sl.st.bound res

/-- a probe result, flagged when the resource is inside the region of `stale-equal-rule` (a kept controller may enforce
    the old threshold) -/
def Slot.wrapProbe (sl : Slot R) (spec : Bool) (res : String) (v : String) : String :=
  if spec && sl.unknown then "?"
  else if spec && sl.failTaint.contains res then "?known:generator-error-swallowed:" ++ v
  else if spec && stale sl res then "?known:stale-equal-rule:" ++ v else v

end

structure St where
  flow : Slot FlowRule := { M := flowMod totalMem, parse := parseFlow, shw := showFlow, custom := flowCustom }
  iso : Slot IsoRule := { M := isoMod, parse := parseIso, shw := showIso }
  hot : Slot HotRule := { M := hotMod, parse := parseHot, shw := showHot }
  cb : Slot CbRule := { M := cbMod, parse := parseCb, shw := showCb, custom := cbCustom }
  sys : SysState := SysState.init
  sysL : List (Option SysRule) := []        -- spec side: latest list handed over
  sysSeen : Bool := false                   -- spec side: some load/clear of system happened in this case
  out : OState := OState.init
  outL : String → Option OutRule := fun _ => none
  outKeysL : List String := []
  outTaint : List String := []              -- spec side: keys whose latest rule came through the per-resource path and was refused

def pb (b : Bool) : String := if b then "block" else "pass"

def stepSys (spec : Bool) (s : St) (ts : List String) : St × Option String :=
  match ts with
  | "load" :: _ :: rest =>
    match parseList parseSys rest with
    | none => (s, some "bad-op")
    | some rules =>
      if spec then
        let c := if s.sysL == rules then (if rules.isEmpty && !s.sysSeen then "?" else "unchanged") else "changed"
        ({ s with sysL := rules, sysSeen := true }, some c)
      else let (s', o) := loadSys s.sys rules; ({ s with sys := s' }, some o.toString)
  | ["clear", _] =>
    if spec then ({ s with sysL := [], sysSeen := true }, some "ok")
    else let (s', o) := loadSys s.sys []; ({ s with sys := s' }, some (okOrErr o))
  | ["get", _] =>
    let enf := if spec then sysBuild s.sysL else s.sys.enf
    (s, some (showList (sortStrs (enf.map showSys))))
  | ["getord", _] =>
    let enf := if spec then sysBuild s.sysL else s.sys.enf
    let ks := ["0", "1", "2", "3", "4"]
    (s, some (showList ((groupStable (fun r : SysRule => toString r.metric) ks enf).map showSys)))
  | ["probe", _] =>
    let enf := if spec then sysBuild s.sysL else s.sys.enf
    (s, some (pb (sysProbe enf)))
  | _ => (s, some "bad-op")

def parseOne (ts : List String) : Option (Option OutRule) :=
  match parseList parseOut ts with
  | some [] => some none
  | some [o] => some o
  | _ => none

def stepOutM (spec : Bool) (s : St) (ts : List String) : St × Option String :=
  match ts with
  | "load" :: _ :: rest =>
    match parseList parseOut rest with
    | none => (s, some "bad-op")
    | some rules =>
      if spec then
        let ks := s.outKeysL ++ outKeys rules
        let c := if ks.all (fun k => s.outL k == outProj k rules) then "unchanged" else "changed"
        let c := if s.outTaint.isEmpty then c else "?known:outlier-invalid-keeps-old:" ++ c
        ({ s with outL := latestOutStep s.outL (.loadAll rules), outKeysL := outKeys rules, outTaint := taintStep s.outTaint (.loadAll rules) }, some c)
      else let (s', o) := loadAllOut s.out rules; ({ s with out := s' }, some o.toString)
  | "loadres" :: _ :: res :: rest =>
    match parseOne rest with
    | none => (s, some "bad-op")
    | some rule =>
      let res := str res
      if spec then
        let refused := outRefused rule
        let k := fun (c : String) => if refused || s.outTaint.contains res then "?known:outlier-invalid-keeps-old:" ++ c else c
        let c := if res = "" then "err"
                 else if rule.isNone then (if (s.outL res).isNone then "?known:empty-resource-reload:unchanged" else "changed")
                 else if s.outL res == rule then k "unchanged" else k "changed"
        if res = "" then (s, some c) else
        ({ s with outL := upd s.outL res rule, outKeysL := res :: s.outKeysL,
                  outTaint := taintStep s.outTaint (.loadRes res rule) }, some c)
      else let (s', o) := loadResOut s.out res rule; ({ s with out := s' }, some o.toString)
  | ["clear", _] =>
    if spec then ({ s with outL := fun _ => none, outKeysL := [], outTaint := [] }, some "ok")
    else let (s', o) := loadAllOut s.out []; ({ s with out := s' }, some (okOrErr o))
  | ["clearres", _, res] =>
    let res := str res
    if spec then
      if res = "" then (s, some "err") else
      ({ s with outL := upd s.outL res none, outTaint := taintStep s.outTaint (.loadRes res none) }, some "ok")
    else let (s', o) := loadResOut s.out res none; ({ s with out := s' }, some (okOrErr o))
  | ["get", _] =>
    if spec then
      let v := showList (sortStrs ((s.outKeysL.eraseDups.filterMap fun k => outAccept (s.outL k)).map showOut))
      (s, some (if s.outTaint.isEmpty then v else "?known:outlier-invalid-keeps-old:" ++ v))
    else (s, some (showList (sortStrs ((getAllOut s.out).map showOut))))
  | _ => (s, some "bad-op")

def step (spec : Bool) (s : St) (ts : List String) (_ : String) : St × Option String :=
  match ts with
  | ["probe", "flow", res, b] =>
    match b.toNat? with
    | some b => (s, some (s.flow.wrapProbe spec (str res) (match flowProbe (s.flow.enfOf spec (str res)) b with | some x => pb x | none => "?")))
    | none => (s, some "bad-op")
  | "probeseq" :: "flow" :: res :: bs =>
    match bs.mapM String.toNat? with
    | some bs => (s, some (s.flow.wrapProbe spec (str res) (match flowSeq (s.flow.enfOf spec (str res)) bs with | some x => x | none => "?")))
    | none => (s, some "bad-op")
  | ["probe", "iso", res, b] =>
    match b.toNat? with
    | some b => (s, some (pb (isoProbe (s.iso.enfOf spec (str res)) b)))
    | none => (s, some "bad-op")
  | ["probe", "cb", res] =>
    -- the harness answers `?` when a rule the getter reports has a window longer than the idle gap
    let shown := if spec then validList cbMod (s.cb.L (str res)) else getRes s.cb.st (str res)
    if shown.any (fun r => decide (r.statMs > 90000)) then (s, some "?") else
    (s, some (s.cb.wrapProbe spec (str res) (match cbProbe (s.cb.enfOf spec (str res)) with | some x => pb x | none => "?")))
  | _ :: "flow" :: _ => match s.flow.handle spec ts with
      | some (sl, r) => ({ s with flow := sl }, r) | none => (s, some "bad-op")
  | _ :: "iso" :: _ => match s.iso.handle spec ts with
      | some (sl, r) => ({ s with iso := sl }, r) | none => (s, some "bad-op")
  | _ :: "hot" :: _ => match s.hot.handle spec ts with
      | some (sl, r) => ({ s with hot := sl }, r) | none => (s, some "bad-op")
  | _ :: "cb" :: _ => match s.cb.handle spec ts with
      | some (sl, r) => ({ s with cb := sl }, r) | none => (s, some "bad-op")
  | _ :: "sys" :: _ => stepSys spec s ts
  | _ :: "out" :: _ => stepOutM spec s ts
  | _ => (s, some "bad-op")

def run (mode : String) : IO Unit :=
  loop ({} : St) (step (mode == "spec"))

end Sentinel.Drv.C13
