import Sentinel.Drv.Common
/-! Driver for C01 (stub: replaced by the property's real driver) -/
namespace Sentinel.Drv.C01
def run (_mode : String) : IO Unit := IO.eprintln "C01: driver not implemented"
end Sentinel.Drv.C01
