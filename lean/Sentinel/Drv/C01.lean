import Sentinel.Drv.Common
import Sentinel.Model.EntryPool
/-!
Driver for C01.  `model` = the code-shaped entry lifecycle with pooled contexts (`Sentinel.EntryPool.step`, pool = LIFO,
as-is variant `fix = false`; `pooled_refines_pool_free` ties it to `Sentinel.Entry.step`), `spec` = the ledger recomputed from the op history (`Sentinel.Entry.info / gauge /
contrib / recContrib / nodeExists`), evaluated for `fix = true` (what the property demands) and for
`fix = false` (the as-is account); where the two differ the observation lies in the region of known
finding `panic-pass-gauge` and the answer is `?known:panic-pass-gauge:<demanded value>`.

Op lines (times are milliseconds relative to the case start; both sides add the same base):
  clock <ms> | rule iso <res> <T> | rule hot <res>
  entry <id> <res> in|out|- [type=<t>] [flag=<n>] <batch|-> <chain> <nargs> <arg>* [| <k=v>* [| <k=v>*]]
      (`-` = the option is not passed; first k=v group = the caller's map given to WithAttachments, second = WithAttachment pairs)
      chain = default | c/<pre>/<rules>/<stats>
  whenexit <id> ok|err|panic | attmut <id> <k> <v> | attmap <id> | ctx <id> att|flag|batch | read <res> type | rule hotc <res>
  racexit <id> [<err>]
  trace <id> <err|nil> | exit <id> [<err>]
  read <res|__inbound__> sum|sum10 <ev> | read <res|__inbound__> conc|maxconc|minrt
  ctx <id> err|args | reclog | soak <G> <N> <R> <seed>
The spec keeps the per-key event lists incrementally (`evs (x :: r) k = evs r k ++ contrib r x k` is the
definition), so that a read does not recompute the whole history.
-/
namespace Sentinel.Drv.C01
open Sentinel.LA Sentinel.Entry Sentinel.Drv

def base : Nat := 1900000000000

structure Cache where
  keys : List Key := [none]
  ev : List (Key × List (Nat × Bucket)) := []
  g : List (Key × Int) := []
  log : List RecEv := []

/-- the event lists are kept newest first (appending to the end of a long list per op would be quadratic) -/
def Cache.evRev (c : Cache) (k : Key) : List (Nat × Bucket) := (c.ev.lookup k).getD []
def Cache.evOf (c : Cache) (k : Key) : List (Nat × Bucket) := (c.evRev k).reverse
def Cache.gOf (c : Cache) (k : Key) : Int := (c.g.lookup k).getD 0

/-- extend the cache by op `x` whose addressed id has the account `i` so far: the ledger's own `contribI` /
    `gaugeDeltaI` / `recContribI`, i.e. `evs (x :: r) k = evs r k ++ contribI fix (info r x.2.addr) (gauge fix r k) x k` etc. -/
def Cache.push (c : Cache) (fix : Bool) (i : Option Info) (x : TOp) : Cache :=
  let keys := match x.2 with
    | .entry e => if c.keys.contains (some e.res) then c.keys else c.keys ++ [some e.res]
    | _ => c.keys
  { keys := keys,
    ev := keys.map fun k => (k, (contribI fix i (c.gOf k) x k).reverse ++ c.evRev k),
    g := keys.map fun k => (k, c.gOf k + gaugeDeltaI fix i x k),
    log := c.log ++ recContribI fix i x }

structure D where
  fix : Bool := false        -- `VERIF_C01_FIX=1`: the known finding no longer reproduces, use the repaired variant
  now : Nat := base
  mono : Bool := true
  h : List TOp := []
  pst : EntryPool.PSt := EntryPool.init base     -- model: the pooled lifecycle, pool = LIFO (oracle 0)
  iso : List (String × Nat) := []
  hot : List String := []
  drained : Nat := 0
  soaks : Nat := 0
  soakAt : Option Nat := none      -- time of the last soak: the peak concurrency inside it is schedule dependent
  drT : Nat := 0
  drF : Nat := 0
  cT : Cache := {}
  cF : Cache := {}
  infos : List (Nat × Info) := []      -- spec: `info d.h id`, kept incrementally with `infoStep` (newest binding first)
  created : List String := []           -- spec: the resources `r` with `nodeExists d.h r`
  ntype : List (String × String) := []  -- the resource type each node was created with (type of the creating entry)
  cmaps : List (Nat × List (String × String)) := []   -- the caller's own attachment map per entry id (WithAttachments argument)
  manyDone : Bool := false              -- a `many` op ran: the node list is not compared any more
  panicH : List Nat := []               -- live entries with a panicking exit handler registered
  abandoned : List Nat := []            -- … whose Exit was cut short by that handler (see `exitOp`)

def parseChain? (s : String) : Option Chain :=
  match s.splitOn "/" with
  | ["c", p, r, st] =>
    let pre := (if p = "-" then [] else p.toList).mapM fun c =>
      if c = 'N' then some Pre.node else if c = 'o' then some Pre.noop else if c = 'x' then some Pre.panic else none
    let rules := (if r = "-" then [] else r.toList).mapM fun c =>
      if c = 'n' then some Rule.nil else if c = 'p' then some Rule.pass else if c = 'b' then some Rule.block
      else if c = 'x' then some Rule.panic else none
    -- `w` = the harness's rendezvous slot (a user stat slot that does nothing to the account): not part of the table
    let sl := (if st = "-" then [] else st.toList).filter (· ≠ 'w')
    let std := sl.head? = some 'S'
    let recs := (if std then sl.drop 1 else sl).mapM fun c => if c.isDigit then some (c.toNat - 48) else none
    match pre, rules, recs with
    | some pre, some rules, some recs => some { pre := pre, rules := rules, std := std, recs := recs }
    | _, _, _ => none
  | _ => none

def showErr : Option String → String
  | none => "nil"
  | some e => e

def showRec : RecEv → String
  | .passed k res b args => s!"P/{k}/{res}/{b}/{"+".intercalate args}"
  | .blocked k res b => s!"B/{k}/{res}/{b}"
  | .completed k res b err rt => s!"C/{k}/{res}/{b}/{showErr err}/{rt}"

def parseKey (s : String) : Key := if s = "__inbound__" then none else some s

def windowLo (Iv now : Nat) : Nat := cbs bucketLen now + bucketLen - Iv

/-- spec-side window payload from the cached event list (`ledWindow` with the cache in place of `evs`) -/
def specWindow (d : D) (c : Cache) (k : Key) (Iv : Nat) : Option Bucket :=
  let present := match k with | none => true | some r => d.created.contains r
  if present then some (refW bucketLen (c.evOf k) (windowLo Iv d.now) (cbs bucketLen d.now)) else none

def specConc (d : D) (c : Cache) (k : Key) : Option Int :=
  let present := match k with | none => true | some r => d.created.contains r
  if present then some (c.gOf k) else none

/-- answer of the spec: the demanded value, flagged when the as-is account differs from it -/
def twoSided (fix : Bool) (vT vF : String) : String :=
  if vT = vF || fix then vT else "?known:panic-pass-gauge:" ++ vT

def showOptNat (f : Bucket → Nat) : Option Bucket → String
  | none => "nil"
  | some b => toString (f b)

def showOptInt : Option Int → String
  | none => "nil"
  | some b => toString b

/-- the built-in rule slots of the default chain, reduced to what the case's rules can make them do:
    an isolation rule (threshold `T`) blocks iff `max(gauge,0) + batch > T` (it reads `CurrentConcurrency()`
    of the attached node); otherwise a hotspot rule on argument 0 panics on an unhashable value -/
def defaultChain (d : D) (spec : Bool) (res : String) (batch : Nat) (args : List String) : Chain :=
  let conc : Int :=
    if spec then (if d.fix then d.cT else d.cF).gOf (some res)
    else match findN d.pst.nodes res with
      | some n => n.conc
      | none => 0
  { pre := [.node], rules := [defaultRule (d.iso.lookup res) (d.hot.contains res) conc batch args], std := true, recs := [] }

def apply (d : D) (spec : Bool) (op : Op) : D :=
  let x : TOp := (d.now, op)
  if spec then
    let i := d.infos.lookup op.addr
    { d with cT := d.cT.push true i x, cF := d.cF.push false i x, h := x :: d.h,
             infos := (match infoStep x i with | some j => (op.addr, j) :: d.infos | none => d.infos),
             created := (match nodeNewI i x with | some r => if d.created.contains r then d.created else r :: d.created | none => d.created) }
  else { d with pst := EntryPool.step d.fix d.pst x 0, h := x :: d.h }

/-- the soak's pseudo-random choices (same generator on the Go side) -/
def lcg (x : Nat) : Nat := (x * 1103515245 + 12345) % 2147483648

/-- `soak G N R seed`: `G` goroutines, each `N` times Entry → (TraceError) → Exit on resources `s0..s(R-1)`, all at one
    clock instant.  The final account does not depend on the interleaving, so the model runs the goroutines one after
    the other. -/
def soakOps (d : D) (spec : Bool) (G N R seed idBase : Nat) : D := Id.run do
  let mut d := d
  for g in [0:G] do
    let mut x := lcg (seed + g * 7919)
    for i in [0:N] do
      let x1 := lcg x
      let x2 := lcg x1
      let x3 := lcg x2
      let x4 := lcg x3
      x := x4
      -- the first three rounds of every goroutine enter a resource nobody has entered before (`f<soak>_<round>`)
      let res := if i < 3 then s!"f{d.soaks + 1}_{i}" else "s" ++ toString (x1 % R)
      let id := idBase + g * N + i
      let ch : Chain := if g % 2 = 0 then defaultChain d spec res (x3 % 3 + 1) [] else { pre := [.node], rules := [.pass], std := true, recs := [] }
      let e : EntryOp := { id := id, res := res, inbound := x2 % 2 = 0, batch := x3 % 3 + 1, args := [], chain := ch }
      d := apply d spec (.entry e)
      if x4 % 3 = 1 then d := apply d spec (.trace id (some "t"))
      d := apply d spec (.exit id (if x4 % 3 = 2 then some "x" else none))
  return d

def known (d : D) (spec : Bool) (id : Nat) : Bool :=
  if spec then (d.infos.lookup id).isSome else (EntryPool.findP d.pst.ents id).isSome

def resTypes : List String := ["common", "web", "rpc", "api_gateway", "db_sql", "cache", "mq"]

/-- the optional tokens of an entry op (after the traffic type): `type=<t>`, `flag=<n>`, and two that only tell the
    harness HOW to pass the options — `argsplit=<k>` (two `WithArgs`, the list is their concatenation) and `dup=<letters>`
    (batch / traffic type / flag / resource type / chain passed twice, a decoy value first: the last one counts; `a`: a
    decoy map `{decoy: 1}` is passed to a first `WithAttachments`, which merges) -/
def stripOpts : List String → String → Int → Bool → List String × String × Int × Bool
  | t :: rest, rty, fl, dec =>
    if t.startsWith "type=" then stripOpts rest (t.drop 5).toString fl dec
    else if t.startsWith "flag=" then
      match (t.drop 5).toString.toInt? with
      | some n => stripOpts rest rty n dec
      | none => (t :: rest, "bad", fl, dec)
    else if t.startsWith "argsplit=" then stripOpts rest rty fl dec
    else if t.startsWith "dup=" then stripOpts rest rty fl (dec || (t.drop 4).toString.contains 'a')
    else (t :: rest, rty, fl, dec)
  | [], rty, fl, dec => ([], rty, fl, dec)

def splitOpts (ts : List String) : List String × String × Int × Bool :=
  match ts with
  | "entry" :: id :: res :: dir :: rest =>
    let r := stripOpts rest "common" 0 false
    ("entry" :: id :: res :: dir :: r.1, r.2.1, r.2.2.1, r.2.2.2)
  | _ => (ts, "common", 0, false)

def parsePairs (ts : List String) : Option (List (String × String)) :=
  ts.mapM fun t => match t.splitOn "=" with
    | [k, v] => some (k, v)
    | _ => none

def putKV (l : List (String × String)) (kv : String × String) : List (String × String) :=
  if l.any (·.1 = kv.1) then l.map (fun x => if x.1 = kv.1 then kv else x) else l ++ [kv]

def sortKV (l : List (String × String)) : List (String × String) := (l.toArray.qsort fun a b => a.1 < b.1).toList

def showKV (l : List (String × String)) : String := showList ((sortKV l).map fun kv => kv.1 ++ "=" ++ kv.2)

/-- `… | k=v … | k=v …` after the args: the map handed to `WithAttachments`, then the pairs of `WithAttachment` -/
def parseAtts (tail : List String) : Option (Option (List (String × String)) × List (String × String)) :=
  match tail with
  | [] => some (none, [])
  | "|" :: rest =>
    let m := rest.takeWhile (· ≠ "|")
    let r := rest.dropWhile (· ≠ "|")
    match parsePairs m, (match r with | "|" :: r' => parsePairs r' | [] => some [] | _ => none) with
    | some m, some sgl => some (some m, sgl)
    | _, _ => none
  | _ => none

/-- is `id` a live entry (entered, not blocked, not exited)? -/
def isLive (d : D) (spec : Bool) (id : Nat) : Bool :=
  if spec then (match d.infos.lookup id with | some i => !i.done | none => false)
  else (match EntryPool.findP d.pst.ents id with | some pe => !pe.exited | none => false)

/-- one `Exit` call.  A panicking exit handler (outside the property's domain) unwinds to `Exit`'s recover before
    `SlotChain.exit` runs: the statistic slots never see the completion, exactly as if the caller had never exited; the
    entry object is finished all the same (`exited`, context recycled).  Both modes treat such an `Exit` as not having
    happened for the account and remember the id as finished for the caller. -/
def exitOp (d : D) (spec : Bool) (id : Nat) (err : Option String) : D :=
  if d.abandoned.contains id then d
  else if isLive d spec id && d.panicH.contains id then { d with abandoned := id :: d.abandoned }
  else apply d spec (.exit id err)

def step (spec : Bool) (d : D) (ts0 : List String) (_ : String) : D × Option String :=
  let (ts, rty, flag, decoy) := splitOpts ts0
  if !resTypes.contains rty then (d, some "bad-op") else
  match ts with
  | ["clock", t] => match t.toNat? with
      | some t => ({ d with now := base + t, mono := d.mono && decide (d.now ≤ base + t) }, none)
      | none => (d, some "bad-op")
  -- an absolute clock reading (0, tiny values: far behind the epoch): the clock steps backwards
  | ["clock", "abs", t] => match t.toNat? with
      | some t => ({ d with now := t, mono := d.mono && decide (d.now ≤ t) }, none)
      | none => (d, some "bad-op")
  -- `stat.ResetResourceNodeMap()` while entries may be in flight (`resetNodes`; the ledger restarts for the resource
  -- nodes and the entries in flight no longer account on a resource node; the inbound account goes on)
  | ["resetnodes"] =>
      if spec then
        let detach (i : Info) : Info :=
          { i with e := { i.e with chain := { i.e.chain with pre := i.e.chain.pre.map fun p => if p = .node then .noop else p } } }
        let drop (c : Cache) : Cache := { c with ev := c.ev.filter (·.1 = none), g := c.g.filter (·.1 = none) }
        ({ d with created := [], ntype := [], infos := d.infos.map (fun x => (x.1, detach x.2)), cT := drop d.cT, cF := drop d.cF }, none)
      else ({ d with pst := EntryPool.resetNodes d.pst, ntype := [] }, none)
  -- `stat.ResourceNodeList()`
  | ["nodes"] =>
      if d.manyDone then (d, some "?") else
      let names := if spec then d.created else (d.pst.nodes.map (·.1)).eraseDups
      (d, some (showList ((names.toArray.qsort (· < ·)).toList)))
  | ["rule", "iso", res, T] => match T.toNat? with
      | some T => ({ d with iso := (res, T) :: d.iso }, none)
      | none => (d, some "bad-op")
  | ["rule", "hot", res] => ({ d with hot := res :: d.hot }, none)
  -- a hotspot rule with MetricType Concurrency: the same as far as C01 can tell (huge threshold; panics on an unhashable arg 0)
  | ["rule", "hotc", res] => ({ d with hot := res :: d.hot }, none)
  | "entry" :: id :: res :: dir :: batch :: chain :: nargs :: rest =>
      match id.toNat?, (if batch = "-" then some 1 else batch.toNat?), nargs.toNat? with
      | some id, some batch, some nargs =>
        let args := rest.take nargs
        if nargs ≠ args.length || (dir ≠ "in" && dir ≠ "out" && dir ≠ "-") || known d spec id || res = "__inbound__" then (d, some "bad-op") else
        match parseAtts (rest.drop nargs) with
        | none => (d, some "bad-op")
        | some (cmap, singles) =>
        let ch := if chain = "default" then some (defaultChain d spec res batch args) else parseChain? chain
        match ch with
        | none => (d, some "bad-op")
        | some ch =>
          let atts := sortKV (singles.foldl putKV ((cmap.getD []).foldl putKV (if decoy then [("decoy", "1")] else [])))
          let e : EntryOp := { id := id, res := res, inbound := dir = "in", batch := batch, args := args, chain := ch, rtype := rty,
                               flag := flag, atts := atts }
          let before := if spec then d.created.contains res else (findN d.pst.nodes res).isSome
          let d' := apply d spec (.entry e)
          let after := if spec then d'.created.contains res else (findN d'.pst.nodes res).isSome
          let d' := if !before && after then { d' with ntype := (res, rty) :: d'.ntype } else d'
          let d' := match cmap with | some m => { d' with cmaps := (id, m.foldl putKV []) :: d'.cmaps } | none => d'
          let r := if spec then (d'.infos.lookup id).map (fun i => decide (outcome i.e.chain ≠ .block)) else EntryPool.obsEntered d'.pst id
          (d', some (match r with | some true => "pass" | some false => "block" | none => "bad-op"))
      | _, _, _ => (d, some "bad-op")
  | ["whenexit", id, kind] => match id.toNat? with
      | some id =>
        if !known d spec id || (kind ≠ "ok" && kind ≠ "err" && kind ≠ "panic") then (d, some "bad-op") else
        -- handlers returning nil or an error do not change the account; a panicking one is remembered (see `exitOp`)
        if kind = "panic" && isLive d spec id && !d.abandoned.contains id && !d.panicH.contains id
        then ({ d with panicH := id :: d.panicH }, none) else (d, none)
      | none => (d, some "bad-op")
  | ["attmut", id, k, v] => match id.toNat? with
      | some id => match d.cmaps.lookup id with
        | some m => ({ d with cmaps := (id, putKV m (k, v)) :: d.cmaps }, none)
        | none => (d, some "bad-op")
      | none => (d, some "bad-op")
  | ["attmap", id] => match id.toNat? with
      | some id => match d.cmaps.lookup id with
        | some m => (d, some (showKV m))
        | none => (d, some "bad-op")
      | none => (d, some "bad-op")
  -- `many <n>`: n never-seen resources `many-<k>`, each entered (outbound, default chain) and exited at once: they account
  -- on their own nodes only (never read) and on nothing else; what matters is that the node map has grown
  | ["many", n] => match n.toNat? with
      | some _ => ({ d with manyDone := true }, none)
      | none => (d, some "bad-op")
  -- `entry.SetError(err)` called directly (non-nil error): the same as `api.TraceError`
  | ["seterr", id, err] => match id.toNat? with
      | some id =>
        if !known d spec id || err = "nil" then (d, some "bad-op") else
        if d.abandoned.contains id then (d, none) else
        (apply d spec (.trace id (some err)), none)
      | none => (d, some "bad-op")
  | ["trace", id, err] => match id.toNat? with
      | some id =>
        if !known d spec id then (d, some "bad-op") else
        if d.abandoned.contains id then (d, none) else
        (apply d spec (.trace id (if err = "nil" then none else some err)), none)
      | none => (d, some "bad-op")
  | ["exit", id] => match id.toNat? with
      | some id => if known d spec id then (exitOp d spec id none, none) else (d, some "bad-op")
      | none => (d, some "bad-op")
  | ["exit", id, err] => match id.toNat? with
      | some id => if known d spec id then (exitOp d spec id (if err = "nil" then none else some err), none) else (d, some "bad-op")
      | none => (d, some "bad-op")
  | "racexit" :: id :: errs => match id.toNat? with
      -- two goroutines call Exit (same options) on the same entry at the same time: whatever the overlap, that is two
      -- `exit` ops in the history
      | some id =>
        if !known d spec id || errs.length > 1 then (d, some "bad-op") else
        let err := match errs with | [e] => if e = "nil" then none else some e | _ => none
        (exitOp (exitOp d spec id err) spec id err, none)
      | none => (d, some "bad-op")
  | ["read", key, what, ev] => match Ev.ofString? ev with
      | none => (d, some "bad-op")
      | some ev =>
        let Iv := if what = "sum10" then 10000 else 1000
        if what ≠ "sum" && what ≠ "sum10" then (d, some "bad-op") else
        let k := parseKey key
        -- once the clock has stepped backwards the code's `uint64` response times wrap: no RT figure is compared
        if !d.mono && ev = .rt then (d, some "?") else
        if spec then
          if !d.mono then (d, some "?") else
          (d, some (twoSided d.fix (showOptNat (·.get ev) (specWindow d d.cT k Iv)) (showOptNat (·.get ev) (specWindow d d.cF k Iv))))
        else (d, some (showOptNat (·.get ev) (EntryPool.obsWindow d.pst k Iv d.now)))
  | ["read", key, what] =>
      let k := parseKey key
      if what = "type" then
        -- `ResourceNode.ResourceType()`: the type of the entry that created the node
        (d, some (match k with | none => "common" | some r => (d.ntype.lookup r).getD "nil"))
      else
      if what = "conc" then
        if spec then (d, some (twoSided d.fix (showOptInt (specConc d d.cT k)) (showOptInt (specConc d d.cF k))))
        else (d, some (showOptInt (EntryPool.obsConc d.pst k)))
      else
        let f : Bucket → Nat := if what = "maxconc" then (·.mc) else fun b => max 1 b.minRt
        if what ≠ "maxconc" && what ≠ "minrt" then (d, some "bad-op") else
        if what = "maxconc" && (match d.soakAt with | some t => decide (d.now < t + 1000) | none => false) then (d, some "?") else
        if what = "minrt" && !d.mono then (d, some "?") else
        if spec then
          if !d.mono then (d, some "?") else
          (d, some (twoSided d.fix (showOptNat f (specWindow d d.cT k 1000)) (showOptNat f (specWindow d d.cF k 1000))))
        else (d, some (showOptNat f (EntryPool.obsWindow d.pst k 1000 d.now)))
  | ["ctx", id, what] => match id.toNat? with
      | none => (d, some "bad-op")
      | some id =>
        if !["err", "args", "att", "flag", "batch"].contains what then (d, some "bad-op") else
        let sh (v : Option String × EntryOp) : String :=
          if what = "err" then showErr v.1 else if what = "args" then showList v.2.args
          else if what = "att" then showKV v.2.atts else if what = "flag" then toString v.2.flag else toString v.2.batch
        if spec then
          match d.infos.lookup id with
          | none => (d, some "bad-op")
          | some i =>
            if outcome i.e.chain = .block then (d, some "nil") else
            if i.done || d.abandoned.contains id then (d, some "exited") else (d, some (sh (i.err, i.e)))
        else
          match EntryPool.findP d.pst.ents id with
          | none => (d, some "bad-op")
          | some pe =>
            if pe.isNil then (d, some "nil") else
            if d.abandoned.contains id then (d, some "exited") else
            match EntryPool.obsCtx d.pst id with
            | none => (d, some "exited")
            | some v => (d, some (sh v))
  | ["soak", G, N, R, seed] => match G.toNat?, N.toNat?, R.toNat?, seed.toNat? with
      | some G, some N, some R, some seed =>
        if R = 0 then (d, some "bad-op") else
        let d' := soakOps d spec G N R seed (1000000 + d.soaks * 100000)
        ({ d' with soaks := d.soaks + 1, soakAt := some d.now }, some "ok")
      | _, _, _, _ => (d, some "bad-op")
  | ["reclog"] =>
      if spec then
        let a := showList ((d.cT.log.drop d.drT).map showRec)
        let b := showList ((d.cF.log.drop d.drF).map showRec)
        ({ d with drT := d.cT.log.length, drF := d.cF.log.length }, some (twoSided d.fix a b))
      else
        ({ d with drained := d.pst.log.length }, some (showList ((d.pst.log.drop d.drained).map showRec)))
  | _ => (d, some "bad-op")

def run (mode : String) : IO Unit := do
  let fix := (← IO.getEnv "VERIF_C01_FIX") == some "1"
  loop ({ fix := fix } : D) (step (mode == "spec"))

end Sentinel.Drv.C01
