import Sentinel.Drv.Common
/-! Driver for C05 (stub: replaced by the property's real driver) -/
namespace Sentinel.Drv.C05
def run (_mode : String) : IO Unit := IO.eprintln "C05: driver not implemented"
end Sentinel.Drv.C05
