import Sentinel.Drv.Common
import Sentinel.Model.Hot
/-!
Driver for C05.

Ops
```
clock <ms>                                        set the virtual clock
tick <ms>                                         advance the virtual clock
onsleep <n> <rule>*n                              arm: while the next queued request sleeps, another goroutine loads these rules
                                                  (the entry during which it happens reports ` reload:<rules in force>`)
load <n> <rule>*n                                 hotspot.LoadRules on a cleared module  => number of rules in force
      rule = res=<name>,cb=<0|1|k>,idx=<int>,key=<name|->,T=<int>,burst=<int>,D=<int>,mq=<int>,cap=<int>,items=<-|val@int;val@int…>
attmap <name> <n> <key=val>*n                     a caller-owned attachments map, reused (the same map object) by later entries
entry <res> <batch> <nargs> <val|+>*nargs <natt> <att>*natt     (`+` starts another WithArgs option)
      att = key=val (a run of them = one WithAttachments of a map built for the call) | @<name> (WithAttachments of the
            caller-owned map) | !key=val (a single WithAttachment option); options apply left to right
sweep <res> <batch> <prefix> <lo> <hi>            one entry per k in [lo,hi) with the single argument <prefix>k (e.g. v:i:)
      => run-length encoded results `<n>x<result>;…` (spaces as `_`)
      => pass | block <rule#> | spin, optionally followed by ` w:<ns>,<ns>…` (sleeps asked of the clock, in order)
```
`model`  = the code-shaped model (`Sentinel.Hot.slotCheck`).
`oracle` = judges an implementation trace against the literal claims of the property (envelope, two-max,
idle-grant, pacing, wait<max, no-arg, independence), from the history alone.
-/
namespace Sentinel.Drv.C05
open Sentinel.Hot Sentinel.Drv

/-! ### parsing -/

def splitFirst (s : String) (sep : String) : String × String :=
  match s.splitOn sep with
  | a :: rest => (a, sep.intercalate rest)
  | [] => (s, "")

def parseItems (s : String) : Option (List (Val × Int)) :=
  if s = "-" || s = "" then some [] else
  (s.splitOn ";").mapM fun it =>
    match it.splitOn "@" with
    | [v, t] => t.toInt?.map fun t => (v, t)
    | _ => none

def parseRule (s : String) : Option Rule :=
  if s = "-" then some {} else     -- a nil *Rule: skipped by LoadRules (here: invalid, empty resource), its position counts
  (s.splitOn ",").foldlM (fun (r : Rule) kv =>
    let (k, v) := splitFirst kv "="
    match k with
    | "res" => some { r with res := if v = "-" then "" else v }
    | "key" => some { r with key := if v = "-" then "" else v }
    | "items" => (parseItems v).map fun it => { r with items := it }
    | _ => match v.toInt? with
      | none => none
      | some n => match k with
        | "cb" => some { r with cb := n }
        | "idx" => some { r with idx := n }
        | "T" => some { r with T := n }
        | "burst" => some { r with burst := n }
        | "D" => some { r with D := n }
        | "mq" => some { r with mq := n }
        | "cap" => some { r with cap := n }
        | _ => none) ({} : Rule)

structure Entry where
  res : String
  b : Int
  args : List Val
  atts : List (String × Val)

/-- caller-owned attachment maps (`attmap`): what the caller put into them — an `Entry` call never changes them -/
abbrev Maps := List (String × List (String × Val))

/-- the attachments one call passes: the option tokens left to right, a later option overriding an earlier one for
    the same key.  `@m` = `WithAttachments(<caller's map m>)`, `!k=v` = `WithAttachment(k, v)`, a run of plain `k=v` =
    one `WithAttachments` of a map built for this call. -/
def resolveAtts (maps : Maps) (toksA : List String) : Option (List (String × Val)) :=
  toksA.foldlM (fun (acc : List (String × Val)) tok =>
    let put (acc : List (String × Val)) (kv : String × Val) := kv :: acc.filter (·.1 ≠ kv.1)
    if tok.startsWith "@" then
      (maps.lookup (tok.drop 1).toString).map fun m => m.foldl put acc
    else if tok.startsWith "!" then some (put acc (splitFirst (tok.drop 1).toString "="))
    else some (put acc (splitFirst tok "="))) []

def parseEntry (maps : Maps) (ts : List String) : Option Entry :=
  match ts with
  | "entry" :: res :: b :: na :: rest =>
    match b.toNat?, na.toNat? with
    | some b, some na =>
      let args := (rest.take na).filter (· ≠ "+")     -- `+` starts another WithArgs option: the options' arguments are appended
      match rest.drop na with
      | nt :: rest2 =>
        match nt.toNat?, resolveAtts maps rest2 with
        | some nt, some atts =>
          if (rest.take na).length = na ∧ rest2.length = nt then
            some { res := res, b := b, args := args, atts := atts }
          else none
        | _, _ => none
      | [] => none
    | _, _ => none
  | _ => none

def parseAttmap (ts : List String) : Option (String × List (String × Val)) :=
  match ts with
  | "attmap" :: name :: n :: kvs => match n.toNat? with
    | some n => if kvs.length = n then some (name, kvs.foldl (fun acc kv =>
        let p := splitFirst kv "="; p :: acc.filter (·.1 ≠ p.1)) []) else none
    | none => none
  | _ => none

def showSleeps (sl : List Int) : String :=
  if sl.isEmpty then "" else " w:" ++ ",".intercalate (sl.map toString)

/-! ### model mode -/

structure St where
  ctls : List Ctl := []
  nowNs : Int := 0
  gen : Nat := 0              -- number of loads so far; a controller created by load `g` at position `i` is rule# g*1000+i
  maps : Maps := []
  armed : Option (List Rule) := none   -- `onsleep`: the reload another goroutine performs while the next queued request sleeps

def entryModel (s : St) (e : Entry) : St × String :=
  let (cs, now, o, fired) := entryArmed (s.gen * 1000) s.armed e.res e.args e.atts e.b s.ctls s.nowNs
  let r := if o.spin then "spin" else match o.blocked with
    | some g => s!"block {g}"
    | none => "pass"
  if fired then
    ({ s with ctls := cs, nowNs := now, gen := s.gen + 1, armed := none }, r ++ showSleeps o.sleeps ++ s!" reload:{cs.length}")
  else ({ s with ctls := cs, nowNs := now }, r ++ showSleeps o.sleeps)

/-- run-length encoding of a list of results: `<n>x<result with '_' for ' '>` joined by `;` -/
def rle (rs : List String) : String :=
  let groups := rs.foldl (fun (acc : List (String × Nat)) r =>
    match acc with
    | (r', n) :: rest => if r' = r then (r', n + 1) :: rest else (r, 1) :: acc
    | [] => [(r, 1)]) []
  ";".intercalate (groups.reverse.map fun (r, n) => toString n ++ "x" ++ r.replace " " "_")

def unrle (s : String) : Option (List String) :=
  (s.splitOn ";").foldlM (fun acc g =>
    match g.splitOn "x" with
    | n :: rest => match n.toNat? with
      | some n => some (acc ++ List.replicate n (("x".intercalate rest).replace "_" " "))
      | none => none
    | [] => none) []

def stepModel (s : St) (ts : List String) (_ : String) : St × Option String :=
  match ts with
  | ["clock", t] => match t.toNat? with
      | some t => ({ s with nowNs := (t : Int) * 1000000 }, none)
      | none => (s, some "bad-op")
  | ["tick", d] => match d.toNat? with
      | some d => ({ s with nowNs := s.nowNs + (d : Int) * 1000000 }, none)
      | none => (s, some "bad-op")
  | "load" :: n :: rules => match n.toNat?, rules.mapM parseRule with
      | some n, some rs =>
        if rs.length ≠ n then (s, some "bad-op") else
        let cs := reload (s.gen * 1000) s.ctls rs
        ({ s with ctls := cs, gen := s.gen + 1 }, some (toString cs.length))
      | _, _ => (s, some "bad-op")
  | "onsleep" :: n :: rules => match n.toNat?, rules.mapM parseRule with
      | some n, some rs => if rs.length ≠ n then (s, some "bad-op") else ({ s with armed := some rs }, none)
      | _, _ => (s, some "bad-op")
  | "attmap" :: _ => match parseAttmap ts with
      | some (name, m) => ({ s with maps := (name, m) :: s.maps.filter (·.1 ≠ name) }, none)
      | none => (s, some "bad-op")
  | "entry" :: _ => match parseEntry s.maps ts with
      | none => (s, some "bad-op")
      | some e => let (s', r) := entryModel s e; (s', some r)
  | ["sweep", res, b, pre, lo, hi] => match b.toNat?, lo.toNat?, hi.toNat? with
      | some b, some lo, some hi =>
        let (s', rs) := (List.range (hi - lo)).foldl (fun (acc : St × List String) k =>
          let (s', r) := entryModel acc.1 { res := res, b := b, args := [pre ++ toString (lo + k)], atts := [] }
          (s', r :: acc.2)) (s, [])
        (s', some (rle rs.reverse))
      | _, _, _ => (s, some "bad-op")
  | _ => (s, some "bad-op")

/-! ### oracle mode -/

/-- what the oracle remembers about one value under one rule -/
structure VRec where
  svR : Option (Int × Int) := none       -- one-value reference machine (own sub-history only; reject)
  svT : Option Int := none               -- … (throttling)
  lastReq : Option Int := none           -- time of the latest request for this value that reached the rule
  resident : Bool := false               -- inside a residency episode (per the recency spec)
  first : Int := 0                       -- episode: first-seen time
  admits : List (Int × Int) := []        -- episode: (time, tokens) admitted, latest first
  lastSched : Int := 0                   -- episode: scheduled pass time of the latest admitted request

structure ORule where
  gid : Nat
  rule : Rule
  recency : List Val := []               -- spec of the LRU: the `cap` most recently metered values
  distinct : List Val := []              -- every value metered so far
  vals : List (Val × VRec) := []
  lit : Bool := true                     -- false once the statistic was inherited by a *changed* rule: the literal bounds
                                         -- (stated for one threshold) are not claimed, independence still is
  tainted : Bool := false                -- some earlier request left the int64 range: no further claims for this rule

structure OSt where
  rules : List ORule := []
  gen : Nat := 0
  maps : Maps := []
  armed : Option (List Rule) := none
  nowNs : Int := 0
  t0 : Option Int := none
  mono : Bool := true

def getRec (o : ORule) (v : Val) : VRec := (o.vals.lookup v).getD {}

def putRec (o : ORule) (v : Val) (r : VRec) : ORule :=
  { o with vals := (v, r) :: o.vals.filter fun p => p.1 != v }

/-- recency spec: `v` becomes the most recent; whoever falls out of the `cap` most recent ends its episode -/
def touchSpec (o : ORule) (v : Val) : ORule :=
  let rec' := v :: o.recency.filter (· != v)
  let cap := capOf o.rule
  let (keep, drop) := (rec'.take cap, rec'.drop cap)
  let o := { o with recency := keep, distinct := if o.distinct.contains v then o.distinct else v :: o.distinct }
  drop.foldl (fun o u => putRec o u { getRec o u with resident := false, admits := [] }) o

inductive Verdict where
  | ok | na | known (k : String) | bad (why : String)

def Verdict.rank : Verdict → Nat
  | .bad _ => 3 | .known _ => 2 | .ok => 1 | .na => 0

def Verdict.join (a b : Verdict) : Verdict :=
  match a, b with
  | .bad x, .bad y => .bad (x ++ "+" ++ y)
  | _, _ => if b.rank > a.rank then b else a

def Verdict.show : Verdict → String
  | .ok => "ok" | .na => "?" | .known k => "known:" ++ k | .bad y => "bad " ++ y

def big : Int := 4611686018427387904   -- 2^62

/-- arithmetic of this request stays inside int64 (then every `w` in the model is the identity) -/
def fits (r : Rule) (Tv b now t0 : Int) : Bool :=
  decide (0 ≤ Tv ∧ 0 ≤ b ∧ 0 ≤ r.burst ∧ 0 ≤ r.mq ∧ 0 < r.D ∧ Tv + r.burst < big ∧ r.D * 1000 < big
    ∧ b * r.D * 1000 < 9007199254740992 ∧ (now - t0 + 1) * (Tv + 1) < big ∧ r.mq < 1000000000000
    ∧ 0 ≤ t0 ∧ t0 ≤ now ∧ now < 100000000000000)

/-- judge one request that reached rule `o` at time `t` (ms): `adm = some wait` or `none` = blocked here -/
def judgeOne (o : ORule) (v : Val) (t b : Int) (adm : Option Int) (t0 : Int) : ORule × Verdict :=
  let r := o.rule
  let Tv := tokenCount r v
  if o.tainted || !fits r Tv b t t0 then ({ o with tainted := true }, .na) else
  let dms := r.D * 1000
  let rec0 := getRec o v
  if r.cb = 0 then
    let maxC := Tv + r.burst
    -- independence: the one-value machine on this value's own history
    let (sv', d) := svReject Tv maxC dms rec0.svR t b
    let meters := decide (0 < Tv ∧ b ≤ maxC)        -- the request is metered (touches the caches)
    let o1 := if meters then touchSpec o v else o
    let rec1 := getRec o1 v
    let underCap := decide (o1.distinct.length ≤ capOf r)
    let vInd : Verdict :=
      if !underCap then .na
      else if (d == .pass) == adm.isSome then .ok else .bad "independence"
    let vWait : Verdict := match adm with
      | some wt => if wt = 0 then .ok else .bad "reject-rule-waits"
      | none => .ok
    -- literal claims, per residency episode
    let fresh := !rec1.resident
    let first := if fresh then t else rec1.first
    let admits := if fresh then [] else rec1.admits
    let vLit : Verdict := match adm with
      | some _ =>
        let tot := (admits.map (·.2)).foldl (· + ·) 0 + b
        let win := ((admits.filter fun p => decide (t - dms ≤ p.1)).map (·.2)).foldl (· + ·) 0 + b
        if !(decide (tot * dms ≤ maxC * dms + Tv * (t - first))) then .bad "envelope"
        else if !(decide (win ≤ 2 * maxC)) then .bad "two-max"
        else .ok
      | none =>
        let idle := match rec0.lastReq with
          | none => true
          | some l => decide (t - l > dms)
        if idle && decide (0 < Tv ∧ b ≤ Tv) then .bad "idle-grant" else .ok
    let rec2 : VRec := { rec1 with
      svR := sv', lastReq := some t,
      resident := if meters then true else rec1.resident,
      first := if meters then first else rec1.first,
      admits := if meters then (match adm with | some _ => (t, b) :: admits | none => admits) else rec1.admits }
    (putRec o1 v rec2, (vInd.join vWait).join (if o.lit then vLit else .ok))
  else
    let ivReal := b * dms                      -- real spacing b·D/T ms  ⇔  gap·T ≥ b·D·1000
    let iv := ivReal / Tv                      -- the code's spacing (floor, whole ms); Tv > 0 whenever used
    let (sv', d) := svThrottle Tv (if Tv > 0 then iv else 0) r.mq rec0.svT t
    let meters := decide (0 < Tv)
    let o1 := if meters then touchSpec o v else o
    let rec1 := getRec o1 v
    let underCap := decide (o1.distinct.length ≤ capOf r)
    let dAdmit : Option Int := match d with
      | .pass => some 0
      | .wait ms => some ms
      | _ => none
    let vInd : Verdict :=
      if !underCap then .na else if dAdmit == adm then .ok else .bad "independence"
    let fresh := !rec1.resident
    let vLit : Verdict := match adm with
      | some wt =>
        if decide (wt > 0 ∧ wt ≥ r.mq) then .bad "wait-ge-max"
        else if wt < 0 then .bad "negative-wait"
        else if fresh then .ok
        else
          let gap := t + wt - rec1.lastSched
          if gap < iv then .bad "pacing"
          else if gap * Tv < ivReal then .known "hot-throttle-floor"
          else .ok
      | none => .ok
    let rec2 : VRec := { rec1 with
      svT := sv', lastReq := some t,
      resident := if meters then true else rec1.resident,
      lastSched := match adm with | some wt => t + wt | none => rec1.lastSched }
    (putRec o1 v rec2, vInd.join vLit)

def parseResult (r : String) : Option (Option Nat × List Int × Option Nat) :=
  let ts := toks r
  -- optional ` w:<ns,…>` then optional ` reload:<rules in force>`
  let tail (rest : List String) : Option (List Int × Option Nat) :=
    let (ws, rest) : Option (List Int) × List String := match rest with
      | wl :: more =>
        if wl.startsWith "w:" then (((wl.drop 2).toString.splitOn ",").mapM String.toInt?, more) else (some [], rest)
      | [] => (some [], [])
    match ws, rest with
    | some sl, [] => some (sl, none)
    | some sl, [rl] => if rl.startsWith "reload:" then ((rl.drop 7).toString.toNat?).map fun n => (sl, some n) else none
    | _, _ => none
  match ts with
  | "pass" :: rest => (tail rest).map fun (sl, rl) => (none, sl, rl)
  | "block" :: g :: rest => match g.toNat? with
    | some g => (tail rest).map fun (sl, rl) => (some g, sl, rl)
    | none => none
  | _ => none

/-- walk the rules of the resource in order, as the slot does, attributing the (single) sleep to the throttling rule -/
def judgeEntry (s : OSt) (e : Entry) (blocked : Option Nat) (sleeps : List Int) : OSt × Verdict :=
  let mine := s.rules.filter fun o => o.rule.res = e.res
  let nThr := (mine.filter fun o => o.rule.cb ≠ 0).length
  let sleepNs := sleeps.foldl (· + ·) 0
  let s1 := { s with nowNs := (s.nowNs + sleepNs) % two64, mono := s.mono && decide (s.nowNs + sleepNs < two64) }
  if !s.mono || nThr ≥ 2 then
    -- no claim, and the rules of this resource saw traffic the oracle did not follow: no further claims for them
    -- (nor for whoever inherits their statistics on a reload)
    ({ s1 with rules := s1.rules.map fun o => if o.rule.res = e.res then { o with tainted := true } else o }, .na) else
  if sleeps.length > 1 || sleeps.any (fun x => x ≤ 0 || x % 1000000 ≠ 0) then
    -- a wait beyond the int64 nanosecond range (absurd MaxQueueingTimeMs) is outside the guarded region
    (s1, if mine.any (fun o => o.tainted || decide (o.rule.mq ≥ 1000000000000)) then .na else .bad "sleeps") else
  match blocked with
  | some g => if !(mine.any fun o => o.gid = g) then (s1, .bad "blocked-by-foreign-rule") else go s1 mine
  | none => go s1 mine
where
  go (s1 : OSt) (_mine : List ORule) : OSt × Verdict :=
    let t0 := s.t0.getD 0
    let waitMs := (sleeps.foldl (· + ·) 0) / 1000000
    -- fold over all rules (keeps order), tracking time, whether we are past the blocker, and whether the sleep was used
    let init : List ORule × Int × Bool × Bool × Verdict := ([], s.nowNs / 1000000, false, false, Verdict.ok)
    let (rs, _, _, used, vd) := s.rules.foldl (fun (acc : List ORule × Int × Bool × Bool × Verdict) o =>
      let (out, t, stopped, used, vd) := acc
      if stopped || o.rule.res ≠ e.res then (out ++ [o], t, stopped, used, vd) else
      match extract o.rule e.args e.atts with
      | none =>
        if blocked = some o.gid then (out ++ [o], t, true, used, vd.join (.bad "blocked-without-argument"))
        else (out ++ [o], t, stopped, used, vd)
      | some v =>
        if blocked = some o.gid then
          let (o', x) := judgeOne o v t e.b none t0
          (out ++ [o'], t, true, used, vd.join x)
        else
          let wt := if o.rule.cb ≠ 0 then waitMs else 0
          let (o', x) := judgeOne o v t e.b (some wt) t0
          (out ++ [o'], t + wt, stopped, used || (o.rule.cb ≠ 0), vd.join x)) init
    let vd := if waitMs > 0 && !used then vd.join (.bad "sleep-without-throttling-rule") else vd
    ({ s1 with rules := rs }, vd)

/-- the reuse plan decides which rule of the new generation continues which old rule's per-value history -/
def applyLoad (s : OSt) (rs : List Rule) : OSt :=
  let plan := planFrom (s.gen * 1000) (s.rules.map fun o => (o.gid, o.rule)) 0 rs
  let os := plan.map fun (g, r, o) =>
    match o with
    | .fresh => ({ gid := g, rule := r } : ORule)
    | .same og => (s.rules.find? (fun x => x.gid == og)).getD { gid := g, rule := r }
    | .stat og => match s.rules.find? (fun x => x.gid == og) with
      | some x =>
        let keep := x.lit && x.rule.T == r.T && x.rule.burst == r.burst && x.rule.mq == r.mq
                      && sameItems x.rule.items r.items
        { x with gid := g, rule := r, lit := keep }
      | none => { gid := g, rule := r }
  { s with rules := os, gen := s.gen + 1 }

/-- one entry result: judged against the rules the request started with; a reload that happened while it slept
    (`reload:<n>`) is applied afterwards -/
def judgeResult (s : OSt) (e : Entry) (r : String) : OSt × Verdict :=
  match parseResult r with
  | none => (s, .bad "unparsable-result")
  | some (blocked, sleeps, rl) =>
    let (s', v) := judgeEntry s e blocked sleeps
    match rl, s.armed with
    | none, some _ => (s', if sleeps.isEmpty then v else v.join (.bad "armed-reload-not-performed"))
    | none, none => (s', v)
    | some _, none => (s', v.join (.bad "reload-not-armed"))
    | some n, some rs =>
      let s'' := applyLoad { s' with armed := none } rs
      (s'', if sleeps.isEmpty then v.join (.bad "reload-without-sleep")
            else if s''.rules.length = n then v else v.join (.bad "rules-in-force"))

def stepOracle (s : OSt) (ts : List String) (line : String) : OSt × Option String :=
  match ts with
  | ["clock", t] => match t.toNat? with
      | some t =>
        let ns := (t : Int) * 1000000
        ({ s with nowNs := ns, mono := s.mono && decide (s.nowNs ≤ ns), t0 := some (s.t0.getD (t : Int)) }, none)
      | none => (s, some "bad-op")
  | ["tick", d] => match d.toNat? with
      | some d => ({ s with nowNs := s.nowNs + (d : Int) * 1000000 }, none)
      | none => (s, some "bad-op")
  | "load" :: n :: rules => match n.toNat?, rules.mapM parseRule with
      | some n, some rs =>
        if rs.length ≠ n then (s, some "bad-op") else
        let s' := applyLoad s rs
        let want := toString s'.rules.length
        (s', some (if resPart line = some want then "ok" else "bad rules-in-force"))
      | _, _ => (s, some "bad-op")
  | "onsleep" :: n :: rules => match n.toNat?, rules.mapM parseRule with
      | some n, some rs => if rs.length ≠ n then (s, some "bad-op") else ({ s with armed := some rs }, none)
      | _, _ => (s, some "bad-op")
  | "attmap" :: _ => match parseAttmap ts with
      | some (name, m) => ({ s with maps := (name, m) :: s.maps.filter (·.1 ≠ name) }, none)
      | none => (s, some "bad-op")
  | "entry" :: _ => match parseEntry s.maps ts, resPart line with
      | some e, some r => let (s', v) := judgeResult s e r; (s', some v.show)
      | some _, none => (s, some "bad unparsable-result")
      | none, _ => (s, some "bad-op")
  | ["sweep", res, b, pre, lo, hi] => match b.toNat?, lo.toNat?, hi.toNat? with
      | some b, some lo, some hi =>
        match (resPart line).bind unrle with
        | none => (s, some "bad unparsable-result")
        | some rs =>
          if rs.length ≠ hi - lo then (s, some "bad sweep-length") else
          -- every entry of the sweep is judged like a single `entry`; the line gets the worst verdict (first reason)
          let (s', v) := (List.range (hi - lo)).zip rs |>.foldl (fun (acc : OSt × Verdict) (k, r) =>
            let (s', x) := judgeResult acc.1 { res := res, b := b, args := [pre ++ toString (lo + k)], atts := [] } r
            (s', if x.rank > acc.2.rank then x else acc.2)) (s, Verdict.na)
          (s', some v.show)
      | _, _, _ => (s, some "bad-op")
  | _ => (s, some "bad-op")

def run (mode : String) : IO Unit :=
  if mode == "oracle" then loop ({} : OSt) stepOracle else loop ({} : St) stepModel

end Sentinel.Drv.C05
