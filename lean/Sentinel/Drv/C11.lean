import Sentinel.Drv.Common
import Sentinel.Model.WarmUp
/-!
Driver for C11.

* `model`  — the code-shaped model `Sentinel.WU` with the `Float` carrier (bit-exact with Go);
* `exact`  — the same definitions with the `Rat` carrier (what the theorems are about); used by the
             check to measure how often a rounding could flip a decision;
* `oracle` — judges an implementation trace against the envelope claims of the property, using the
             exact carrier for the calculator's fields and the known-finding classifiers.

Ops: `clock <ms>` · `load wu <f:T> <periodSec> <coldFactor> <statIntervalMs>` ·
`load ma <lowThr> <highThr> <lowMark> <highMark> <statIntervalMs>` · `mem <bytes|-1>` ·
`req <n> <batch>` (n sequential `Entry`+`Exit` at this instant ⇒ number admitted) · `sum` (pass sum of the
resource's default 1 s view).
-/
namespace Sentinel.Drv.C11
open Sentinel.LA Sentinel.WU Sentinel.Drv

/-- exact value of a finite float64 bit pattern -/
def ratOfBits (n : Nat) : Option Rat :=
  let neg : Bool := n / 2^63 % 2 = 1
  let e : Nat := n / 2^52 % 2048
  let m : Nat := n % 2^52
  let mag : Option Rat :=
    if e = 2047 then none
    else if e = 0 then some ((m : Rat) / ((2^1074 : Nat) : Rat))
    else
      let sig : Nat := 2^52 + m
      if 1075 ≤ e then some ((sig * 2^(e - 1075) : Nat) : Rat)
      else some ((sig : Rat) / ((2^(1075 - e) : Nat) : Rat))
  mag.map fun q => if neg then -q else q

def parseRat? (s : String) : Option Rat :=
  if s.startsWith "f:" then (parseHex? (s.drop 2).toString).bind ratOfBits else none

/-- the machine's total memory is not modelled: generated water marks stay far below it -/
def totalMem : Int := 2^62

/-- `generateStatFor`: the read view of a rule with `StatIntervalInMs = iv` over the default node geometry;
    `none` = a standalone statistic would be created (not modelled: never generated) or the parameters are illegal -/
def viewOf (iv : Nat) : Option (Nat × Nat) :=
  if iv = 0 ∨ iv = 1000 then some (2, 1000)
  else
    let sc := if iv > nodeN * nodeL then 1 else if iv < nodeL then 1 else if iv % nodeL = 0 then iv / nodeL else 1
    if validView sc iv nodeN (nodeN * nodeL) = 0 then some (sc, iv) else none

structure St (α : Type) where
  sys : Sys α := {}
  now : Nat := 0
  loaded : Bool := false

def step {α} [Carrier α] (parseT : String → Option α) (neg : α → Bool)
    (s : St α) (ts : List String) (_ : String) : St α × Option String :=
  match ts with
  | ["clock", t] => match t.toNat? with
      | some t => if s.now ≤ t then ({ s with now := t }, none) else (s, some "bad-op")
      | none => (s, some "bad-op")
  | ["load", "wu", T, p, cf, iv] => match parseT T, p.toNat?, cf.toNat?, iv.toNat? with
      | some T, some p, some cf, some iv =>
        if s.loaded then (s, some "bad-op") else
        match viewOf iv with
        | none => (s, some "bad-op")
        | some (sc, Iv) =>
          -- `IsValidRule`: negative threshold, zero period, cold factor 1 are rejected (the rule is dropped)
          if neg T || p = 0 || cf = 1 then ({ s with loaded := true }, some "ok 0")
          else ({ s with sys := loadWarmUp s.sys s.now T p cf sc Iv, loaded := true }, some "ok 1")
      | _, _, _, _ => (s, some "bad-op")
  | ["load", "ma", lt, ht, lm, hm, iv] => match lt.toInt?, ht.toInt?, lm.toInt?, hm.toInt?, iv.toNat? with
      | some lt, some ht, some lm, some hm, some iv =>
        if s.loaded then (s, some "bad-op") else
        match viewOf iv with
        | none => (s, some "bad-op")
        | some (sc, Iv) =>
          let m : MemCfg := { lowT := lt, highT := ht, lowM := lm, highM := hm }
          if !m.valid totalMem then ({ s with loaded := true }, some "ok 0")
          else ({ s with sys := loadAdaptive s.sys s.now m sc Iv, loaded := true }, some "ok 1")
      | _, _, _, _, _ => (s, some "bad-op")
  | ["mem", x] => match x.toInt? with
      | some x => ({ s with sys := { s.sys with mem := x } }, none)
      | none => (s, some "bad-op")
  | ["req", n, b] => match n.toNat?, b.toNat? with
      | some n, some b =>
        let (sys', k) := reqs s.sys s.now b n
        ({ s with sys := sys' }, some (toString k))
      | _, _ => (s, some "bad-op")
  | ["sum"] => match s.sys.arr with
      | none => (s, some "-")
      | some a => (s, some (toString (vSum a 1000 s.now .pass)))
  | _ => (s, some "bad-op")

def run (mode : String) : IO Unit :=
  if mode == "exact" then
    loop ({} : St Rat) (step parseRat? (fun q => decide (q < 0)))
  else
    loop ({} : St Float) (step parseFbits? (fun x => decide (x < 0)))

end Sentinel.Drv.C11
