import Sentinel.Drv.Common
import Sentinel.Model.WarmUp
/-!
Driver for C11.

* `model`  — the code-shaped model `Sentinel.WU` with the `Float` carrier (bit-exact with Go);
* `exact`  — the same definitions with the `Rat` carrier (what the theorems are about); used by the
             check to measure how often a rounding could flip a decision;
* `oracle` — judges an implementation trace against the envelope claims of the property, using the
             exact carrier for the calculator's fields and the known-finding classifiers.

Ops: `clock <ms>` · `load wu <f:T> <periodSec> <coldFactor> <statIntervalMs>` ·
`load ma <lowThr> <highThr> <lowMark> <highMark> <statIntervalMs>` (a later `load` in the same case *re*loads the
resource's rule) · `mem <bytes|-1>` ·
`req <n> <batch>` (n sequential `Entry`+`Exit` at this instant ⇒ number admitted) · a trailing `q=<maxQueueingMs>` on a `load`
selects ControlBehavior Throttling, exercised with `probe <batch>` ⇒ `pass` / `wait <ns>` / `block` · `soak <lowT> <highT> <lowMark>
<highMark> <requests> <flippers>` ⇒ `cap=ok` (concurrent memory-gauge updates; verdict only) · `sum` (pass sum of the
resource's default 1 s view).
-/
namespace Sentinel.Drv.C11
open Sentinel.LA Sentinel.WU Sentinel.Drv

/-- exact value of a finite float64 bit pattern -/
def ratOfBits (n : Nat) : Option Rat :=
  let neg : Bool := n / 2^63 % 2 = 1
  let e : Nat := n / 2^52 % 2048
  let m : Nat := n % 2^52
  let mag : Option Rat :=
    if e = 2047 then none
    else if e = 0 then some ((m : Rat) / ((2^1074 : Nat) : Rat))
    else
      let sig : Nat := 2^52 + m
      if 1075 ≤ e then some ((sig * 2^(e - 1075) : Nat) : Rat)
      else some ((sig : Rat) / ((2^(1075 - e) : Nat) : Rat))
  mag.map fun q => if neg then -q else q

def parseRat? (s : String) : Option Rat :=
  if s.startsWith "f:" then (parseHex? (s.drop 2).toString).bind ratOfBits else none

/-- the machine's total memory is not modelled: generated water marks stay far below it -/
def totalMem : Int := 2^62

/-- `generateStatFor`: the read view of a rule with `StatIntervalInMs = iv` over the default node geometry;
    the flag says that a standalone statistic is created; `none` = illegal parameters -/
def viewOf (iv : Nat) : Option (Nat × Nat × Bool) :=
  if iv = 0 ∨ iv = 1000 then some (2, 1000, false)
  else
    let sc := if iv > nodeN * nodeL then 1 else if iv < nodeL then 1 else if iv % nodeL = 0 then iv / nodeL else 1
    match validView sc iv nodeN (nodeN * nodeL) with
    | 0 => some (sc, iv, false)      -- a view of the resource's global statistic
    | 3 => some (sc, iv, true)       -- not reusable: the rule gets a `BucketLeapArray(sc, iv)` of its own
    | _ => none

structure St (α : Type) where
  sys : Sys α := {}
  now : Nat := 0          -- clock in ms (= ns / 10^6)
  ns : Nat := 0           -- clock in ns (a throttled entry sleeps, i.e. advances it by its wait)
  loaded : Bool := false

/-- a trailing `q=<maxQueueingTimeMs>` on a `load` op selects `ControlBehavior = Throttling` -/
def splitQ (ts : List String) : Option (List String × Option Nat) :=
  match ts.getLast? with
  | some l => if l.startsWith "q=" then (l.drop 2).toString.toNat?.map fun q => (ts.dropLast, some q) else some (ts, none)
  | none => some (ts, none)

def showRes : Throttle.Res → String
  | .pass => "pass" | .wait w => s!"wait {w}" | .block => "block"

def step {α} [Carrier α] (parseT : String → Option α) (neg : α → Bool)
    (s : St α) (ts0 : List String) (_ : String) : St α × Option String :=
  match splitQ ts0 with
  | none => (s, some "bad-op")
  | some (ts, q) =>
  match ts with
  | ["clock", t] => match t.toNat? with
      | some t => if s.ns ≤ t * 1000000 then ({ s with now := t, ns := t * 1000000 }, none) else (s, some "bad-op")
      | none => (s, some "bad-op")
  | ["probe", b] => match b.toNat? with
      | some b =>
        if s.sys.behav.isNone || s.sys.rule.isNone then (s, some "bad-op") else
        let (sys', r, after) := probe s.sys s.ns b
        ({ s with sys := sys', ns := after, now := after / 1000000 }, some (showRes r))
      | none => (s, some "bad-op")
  | ["soak", _, _, _, _, _, _] => (s, some "cap=ok")
  | ["companion", _] => (s, none)     -- a generous Direct+Reject rule listed before/after the adaptive one: never decides
  | ["load", "wu", T, p, cf, iv] => match parseT T, p.toNat?, cf.toNat?, iv.toNat? with
      | some T, some p, some cf, some iv =>
        match viewOf iv with
        | none => (s, some "bad-op")
        | some (sc, Iv, sa) =>
          -- `IsValidRule`: negative threshold, zero period, cold factor 1 are rejected (the rule is dropped)
          let valid := !(neg T || p = 0 || cf = 1)
          ({ s with sys := loadRuleG s.sys s.now (.wu T p cf iv) q valid sc Iv sa, loaded := true }, some (if valid then "ok 1" else "ok 0"))
      | _, _, _, _ => (s, some "bad-op")
  | ["load", "ma", lt, ht, lm, hm, iv] => match lt.toInt?, ht.toInt?, lm.toInt?, hm.toInt?, iv.toNat? with
      | some lt, some ht, some lm, some hm, some iv =>
        match viewOf iv with
        | none => (s, some "bad-op")
        | some (sc, Iv, sa) =>
          let m : MemCfg := { lowT := lt, highT := ht, lowM := lm, highM := hm }
          let valid := m.valid totalMem
          ({ s with sys := loadRuleG s.sys s.now (.ma m iv) q valid sc Iv sa, loaded := true }, some (if valid then "ok 1" else "ok 0"))
      | _, _, _, _, _ => (s, some "bad-op")
  | ["mem", x] => match x.toInt? with
      | some x => ({ s with sys := { s.sys with mem := x } }, none)
      | none => (s, some "bad-op")
  | ["req", n, b] => match n.toNat?, b.toNat? with
      | some n, some b =>
        if s.sys.behav.isSome && s.sys.rule.isSome then (s, some "bad-op") else    -- throttled rules are exercised with `probe`
        let (sys', k) := reqsG s.sys s.now b n
        ({ s with sys := sys' }, some (toString k))
      | _, _ => (s, some "bad-op")
  | ["sum"] => match s.sys.arr with
      | none => (s, some "-")
      | some a => (s, some (toString (vSum a 1000 s.now .pass)))
  | _ => (s, some "bad-op")

/-! ## oracle: judge an implementation trace against the envelope claims -/

structure OSt where
  sys : Sys Rat := {}
  now : Nat := 0
  ns : Nat := 0
  lastAdm : Int := 0                    -- latest scheduled pass time (ns) of a throttled request admitted under the rule in force
  loaded : Bool := false
  period : Nat := 0
  lastPass : Option Nat := none        -- time of the last admitted request
  sat : Option (Nat × Bool) := none     -- (first second, all requests so far in first half-second buckets) of the current run of demand-saturated seconds
  dsec : Nat := 0                       -- the second the demand counter belongs to
  dcnt : Nat := 0                       -- single-token requests seen in that second
  dfh : Bool := true                    -- … all of them at offsets < 500 ms
  dok : Bool := true                    -- … and no other batch size

/-- guard band around decision boundaries where a last-ulp rounding of the float expression could flip a decision -/
def eps : Rat := 1 / 1000000000

/-- number of `batch`-sized requests that fit under `thr` on top of `cur` (at most `n`) -/
def fit (thr : Rat) (cur batch n : Nat) : Nat :=
  if batch = 0 then (if (cur : Rat) ≤ thr then n else 0)
  else if thr < (cur : Rat) then 0 else min n ((thr - cur).floor.toNat / batch)

/-- whole seconds without any admitted request after which an idle bucket has been refilled to `maxToken`
    (refill is `⌊T⌋` tokens per polled second at least) -/
def idleSecs (c : Cfg Rat) : Nat := c.max / (c.T.floor.toNat) + 3

def oracleReq (s : OSt) (n b k : Nat) : OSt × String :=
  let sys0 := s.sys.touch s.now
  match sys0.arr with
  | none => (s, "?")
  | some a =>
    let ra := sys0.own.getD a        -- the statistic the rule reads
    let commit (tk : Tok) : OSt :=
      let a1 := if k > 0 then (addAt a s.now (evBucket .pass (k * b))).1 else a
      let a2 := if k < n then (addAt a1 s.now (evBucket .block ((n - k) * b))).1 else a1
      -- the rule's own statistic (if any) is fed with the passes only
      let own' := if k > 0 then sys0.own.map fun o => (addAt o s.now (evBucket .pass (k * b))).1 else sys0.own
      { s with sys := { sys0 with arr := some a2, tok := tk, own := own' }, lastPass := if k > 0 then some s.now else s.lastPass }
    if k > n then (commit sys0.tok, "bad admitted-more-than-requested") else
    match sys0.rule with
    | none => (commit sys0.tok, if k = n then "ok" else "bad blocked-without-rule")
    | some (.adaptive m, _, Iv) =>
      let W := vSum ra Iv s.now .pass
      let thr : Rat := memAllowed m sys0.mem
      let lo := fit (thr * (1 - eps)) W b n
      let hi := fit (thr * (1 + eps)) W b n
      -- envelope first (these hold whatever the interpolation does), then the exact value
      let r :=
        if k > 0 ∧ (m.lowT : Rat) < ((W + k * b : Nat) : Rat) then "bad above-low-memory-threshold"
        else if k < n ∧ ((W + (k + 1) * b : Nat) : Rat) ≤ (m.highT : Rat) then "bad below-high-memory-threshold"
        else if lo ≤ k ∧ k ≤ hi then "ok"
        else "bad adaptive-threshold"
      (commit sys0.tok, r)
    | some (.warmup c, sc, Iv) =>
      let W := vSum ra Iv s.now .pass
      let tk := sync c sys0.tok s.now (prevQps ra sc Iv s.now)
      let nan := Known.degenerateNaN c
      let total : Rat := ((W + k * b : Nat) : Rat)
      let idle : Bool := match s.lastPass with
        | none => true
        -- idle = nothing admitted for the refill time and for everything the previous-window read can still see (window + one view bucket)
        | some t => decide (t + (max (idleSecs c) ((Iv + Iv / sc) / 1000 + 2)) * 1000 ≤ s.now)
      -- the threshold in force is observably below T: a request was refused although it would have fitted under T
      let notFull : Bool := decide (k < n) && decide (((W + (k + 1) * b : Nat) : Rat) ≤ c.T)
      -- sustained demand: run of consecutive seconds each bringing more than T single-token requests (any offsets); the run is
      -- known once a second is over, i.e. at the first request of the next second
      let sec := s.now / 1000
      let newSec := sec != s.dsec
      let prevSat : Bool := decide (s.dsec + 1 = sec) && s.dok && decide (c.T < (s.dcnt : Rat)) && decide (Iv = 1000)
      let sat : Option (Nat × Bool) :=
        if !newSec then s.sat
        else if prevSat then (match s.sat with | some (s0, f) => some (s0, f && s.dfh) | none => some (s.dsec, s.dfh))
        else none
      let dcnt' := (if newSec then 0 else s.dcnt) + (if b = 1 then n else 0)
      let dfh' := (if newSec then true else s.dfh) && decide (s.now % 1000 < 500)
      let dok' := (if newSec then true else s.dok) && decide (b = 1)
      let elapsed : Nat := match sat with | some (s0, _) => sec - s0 | none => 0
      let firstHalf : Bool := (match sat with | some (_, f) => f | none => true) && dfh'
      let r :=
        -- (a) the admitted rate never exceeds the configured threshold
        if k > 0 ∧ c.T < total then (if nan then "known:warmup-nan" else "bad above-threshold")
        -- (b) after the resource has been idle the first window admits no more than T/cf
        else if k > 0 ∧ idle ∧ c.T / c.cf * (1 + eps) < total then
          (if nan then "known:warmup-nan"
           else if Known.stuckAtWarning c tk then "known:warmup-stuck-at-warning"
           else if Known.starves c then "known:warmup-starvation"
           else "bad cold-start-above-T/cf")
        -- (c) a single-token demand is not starved when the threshold is at least one
        else if k = 0 ∧ n > 0 ∧ b = 1 ∧ W = 0 ∧ 1 ≤ c.T then
          (if Known.starves c then "known:warmup-starvation"
           else if nan then "bad starved"
           else if (c.cf : Rat) * (1 + eps) ≤ c.T ∨ c.warn = 0 then "bad starved"
           else "?")
        -- (d) after sustained demand (more than T single-token requests in every second) for the warm-up period the threshold is the full T
        else if notFull ∧ sat.isSome ∧ dok' ∧ s.period ≤ elapsed ∧ !nan ∧ (c.cf : Rat) ≤ c.T then
          -- demand confined to the first half-second buckets: the bound of `saturating_demand_drains`; otherwise the
          -- phase of the demand can stall the warm-up for ever (`phase_stall_witness`)
          (if !firstHalf then "known:warmup-phase-stall"
           else if Known.lateRamp c s.period elapsed then "known:warmup-late-ramp" else "bad full-threshold-not-reached")
        else "ok"
      ({ commit tk with sat := sat, dsec := sec, dcnt := dcnt', dfh := dfh', dok := dok' }, r)

/-- a throttled probe judged against the exact threshold of the rule in force: `threshold ≤ 0` or `batch > threshold`
    must block; `batch ≤ threshold` after an idle time longer than the pacing interval must pass at once; a wait never
    exceeds the queueing limit -/
def oracleProbe (s : OSt) (b : Nat) (res : String) : OSt × String :=
  let sys0 := s.sys.touch s.now
  match sys0.arr, sys0.rule, sys0.behav with
  | some a, some (cl, _, Iv), some maxQ =>
    let (tk, thr) := threshold sys0 (sys0.own.getD a) s.now
    let rt := toks res
    let w : Option Nat := match rt with
      | ["pass"] => some 0
      | ["wait", w] => w.toNat?
      | _ => none
    let wellFormed := w.isSome || res = "block"
    let after := s.ns + w.getD 0
    let a' := (addAt a (after / 1000000) (if w.isSome then evBucket .pass b else evBucket .block b)).1
    let own' := if w.isSome then sys0.own.map fun o => (addAt o (after / 1000000) (evBucket .pass b)).1 else sys0.own
    let s' := { s with sys := { sys0 with arr := some a', tok := tk, own := own' }, ns := after, now := after / 1000000,
                       lastAdm := if w.isSome then ((s.ns : Int) + (w.getD 0 : Nat)) else s.lastAdm }
    let nanRegion := match cl with | .warmup c => Known.degenerateNaN c | _ => false
    let verdict :=
      if !wellFormed then "bad not-an-outcome " ++ res
      else if nanRegion then "?"
      else match thr.getD none with
      | none => "?"
      | some t =>
        if t ≤ 0 then (if res = "block" then "ok" else "bad admitted-with-nonpositive-threshold")
        else if t * (1 + eps) < (b : Rat) then (if res = "block" then "ok" else "bad batch-above-threshold-admitted")
        else if (b : Rat) ≤ t * (1 - eps) then
          let ivmax : Int := ((b : Rat) / (t * (1 - eps)) * ((Iv * 1000000 : Nat) : Rat)).ceil + 1
          if s.lastAdm + ivmax ≤ (s.ns : Int) then
            (if res = "pass" then "ok" else "bad not-passed-after-idle " ++ res)
          else match w with
            | some w => if w ≤ maxQ * 1000000 then "ok" else "bad wait-above-queueing-limit"
            | none => "ok"
        else "?"
    (s', verdict)
  | _, _, _ => (s, "?")

def ostep (s : OSt) (ts0 : List String) (line : String) : OSt × Option String :=
  let res := (resPart line).getD ""
  match splitQ ts0 with
  | none => (s, some "bad-op")
  | some (ts, q) =>
  match ts with
  | ["clock", t] => match t.toNat? with
      | some t => if s.ns ≤ t * 1000000 then ({ s with now := t, ns := t * 1000000 }, none) else (s, some "bad-op")
      | none => (s, some "bad-op")
  | ["probe", b] => match b.toNat? with
      | some b =>
        if s.sys.behav.isNone || s.sys.rule.isNone then (s, some "bad-op") else
        let (s', r) := oracleProbe s b res; (s', some r)
      | none => (s, some "bad-op")
  | ["companion", _] => (s, none)
  | ["soak", _, _, _, _, _, _] =>
      -- concurrent memory-gauge updates against sequential requests: every threshold the calculator can return lies in
      -- [highT, lowT] (`finite_nonneg`), so one window never admits more than `LowMemUsageThreshold` (`adaptive_admission_under_cap`)
      (s, some (if res = "cap=ok" then "ok" else "bad soak " ++ res))
  | ["load", "wu", T, p, cf, iv] => match parseRat? T, p.toNat?, cf.toNat?, iv.toNat? with
      | some T, some p, some cf, some iv =>
        match viewOf iv with
        | none => (s, some "bad-op")
        | some (sc, Iv, sa) =>
          let valid := !(decide (T < 0) || p = 0 || cf = 1)
          -- the claims are judged against the latest loaded rule
          let sys' := loadRuleG s.sys s.now (.wu T p cf iv) q valid sc Iv sa
          let kept := valid && (match s.sys.bound with | some b => b.same (.wu T p cf iv) && s.sys.behav == q | none => false)
          let s' := { s with sys := sys', loaded := true, period := p, sat := none, dsec := 0, dcnt := 0, lastAdm := if kept then s.lastAdm else 0 }
          (s', some (if res = (if valid then "ok 1" else "ok 0") then "ok" else "bad rule-validity"))
      | _, _, _, _ => (s, some "bad-op")
  | ["load", "ma", lt, ht, lm, hm, iv] => match lt.toInt?, ht.toInt?, lm.toInt?, hm.toInt?, iv.toNat? with
      | some lt, some ht, some lm, some hm, some iv =>
        match viewOf iv with
        | none => (s, some "bad-op")
        | some (sc, Iv, sa) =>
          let m : MemCfg := { lowT := lt, highT := ht, lowM := lm, highM := hm }
          let valid := m.valid totalMem
          let sys' := loadRuleG s.sys s.now (.ma m iv) q valid sc Iv sa
          let kept := valid && (match s.sys.bound with | some b => b.same (.ma m iv) && s.sys.behav == q | none => false)
          let s' := { s with sys := sys', loaded := true, sat := none, dsec := 0, dcnt := 0, lastAdm := if kept then s.lastAdm else 0 }
          (s', some (if res = (if valid then "ok 1" else "ok 0") then "ok" else "bad rule-validity"))
      | _, _, _, _, _ => (s, some "bad-op")
  | ["mem", x] => match x.toInt? with
      | some x => ({ s with sys := { s.sys with mem := x } }, none)
      | none => (s, some "bad-op")
  | ["req", n, b] => match n.toNat?, b.toNat? with
      | some n, some b =>
        if s.sys.behav.isSome && s.sys.rule.isSome then (s, some "bad-op") else
        match res.toNat? with
        | some k => let (s', r) := oracleReq s n b k; (s', some r)
        | none => (s, some ("bad not-a-count " ++ res))
      | _, _ => (s, some "bad-op")
  | ["sum"] => match s.sys.arr with
      | none => (s, some (if res = "-" then "ok" else "bad sum"))
      | some a => (s, some (if res = toString (vSum a 1000 s.now .pass) then "ok" else "bad sum"))
  | _ => (s, some "bad-op")

def run (mode : String) : IO Unit :=
  if mode == "oracle" then loop ({} : OSt) ostep
  else if mode == "exact" then
    loop ({} : St Rat) (step parseRat? (fun q => decide (q < 0)))
  else
    loop ({} : St Float) (step parseFbits? (fun x => decide (x < 0)))

end Sentinel.Drv.C11
