import Sentinel.Drv.Common
/-! Driver for C11 (stub: replaced by the property's real driver) -/
namespace Sentinel.Drv.C11
def run (_mode : String) : IO Unit := IO.eprintln "C11: driver not implemented"
end Sentinel.Drv.C11
