import Sentinel.Drv.Common
import Sentinel.Drv.C17
import Sentinel.Model.Aggregator
/-! Driver for the metric-aggregator bridge (internal check `AGG`, an extra phase of C17).

`model` = `Sentinel.Agg` (node arrays of C08 + `doAggregate` + the writer / searcher of C17);
`spec`  = the reference recomputed from the **recording history alone**: per resource and second the sum of the
recorded events of that second, active ones only, each second handed over exactly once in ascending order; the
log queries are answered by C17's reference over the items the reference says were handed over (with C17's
known-finding regions marked).  Where the hypotheses of the theorems fail (an aggregate arrives so late that the
array has already recycled buckets of the window; bucket length not a divisor of 1000 ms; clock going backwards)
the spec answers `?` for that aggregate and continues with the exact retained content. -/
namespace Sentinel.Drv.AGG
open Sentinel.LA Sentinel.MetricLog Sentinel.Agg Sentinel.Drv
open Sentinel.Drv.C17 (strBytes resOfTok showItem showItems fileName getCache setCache specAnswer insertSorted)

/-- spec side: a resource as the reference sees it -/
structure SNode where
  res : Bytes
  cls : Int
  t0 : Nat                               -- creation time of the node
  evs : List (Nat × Bucket) := []       -- recordings, in order

structure St where
  now : Nat := 0
  m : Option Agg.St := none              -- model side (and the writer of the spec side)
  snodes : List SNode := []
  mono : Bool := true
  t0 : Nat := 0
  caches : List (String × Cache) := []

def bytesLt : Bytes → Bytes → Bool
  | [], [] => false
  | [], _ :: _ => true
  | _ :: _, [] => false
  | a :: r, b :: s => if a < b then true else if b < a then false else bytesLt r s

def itemLe (a b : Item) : Bool := a.ts < b.ts || (a.ts == b.ts && !bytesLt b.res a.res)

def insertItem (x : Item) : List Item → List Item
  | [] => [x]
  | y :: r => if itemLe y x then y :: insertItem x r else x :: y :: r

/-- canonical order of an answer: by time stamp, then resource name (the order of the nodes inside one second is the
    iteration order of a Go map) -/
def canon (xs : List Item) : List Item := xs.foldl (fun acc x => insertItem x acc) []

def showBatches (bs : List (Nat × List Item)) : String :=
  showList (bs.map fun b => s!"{b.1}=" ++ "+".intercalate ((canon b.2).map showItem))

def resTok (r : String) : Bytes := if r == "IN" then inboundName else resOfTok r

/-! ### spec side -/

def supd (res : Bytes) (cls : Int) (t : Nat) (x : Bucket) : List SNode → List SNode
  | [] => [{ res := res, cls := cls, t0 := t, evs := [(t, x)] }]
  | nd :: r => if nd.res = res then { nd with evs := nd.evs ++ [(t, x)] } :: r else nd :: supd res cls t x r

/-- the property-level claim for one node: for every second of `[lo, cur)` with a recording, the sum of the
    recordings of that second -/
def claimNode (nd : SNode) (lo cur : Nat) : List Item :=
  let secs := ((nd.evs.map fun e => secOf e.1).filter fun s => decide (lo ≤ s ∧ s < cur)).eraseDups
  ((secs.map fun s => (s, secRef nd.evs s)).filter fun p => active p.2).map (toItem nd.res nd.cls)

/-- the exact content of the array for one node (C08 `secondItems_eq_ref_partial` / `secondItems_boundary_eq`):
    recordings grouped by the second of their *bucket*, only buckets among the last `cnt` ones -/
def exactNode (n L : Nat) (nd : SNode) (now lo cur : Nat) : List Item :=
  let e := cbs L now
  let touched := cbs L nd.t0 == e || nd.evs.any fun ev => cbs L ev.1 == e
  let cnt := if now % L = 0 && !touched then n + 1 else n
  let evs := nd.evs.filter fun ev => decide (lo ≤ cbs L ev.1 ∧ cbs L ev.1 < cur ∧ e < cbs L ev.1 + cnt * L)
  let secs := (evs.map fun ev => secOf (cbs L ev.1)).eraseDups
  ((secs.map fun s => (s, ((evs.filter fun ev => secOf (cbs L ev.1) = s).map (·.2)).sum)).filter fun p => active p.2).map
    (toItem nd.res nd.cls)

/-- the hypotheses of the theorems for this aggregate and node: the window is still wholly inside the array -/
def boundOk (n L : Nat) (nd : SNode) (now lo : Nat) : Bool := decide (now < max lo (secOf nd.t0) + n * L)

/-! ### the interpreter -/

def parseRec (s : St) (res cls : String) : Option (Bytes × Int) :=
  match s.m, cls.toInt? with
  | some _, some c => some (resTok res, c)
  | _, _ => none

def doRecord (spec : Bool) (s : St) (res : Bytes) (cls : Int) (x : Bucket) : St :=
  match s.m with
  | none => s
  | some m =>
    if spec then { s with snodes := supd res cls s.now x s.snodes }
    else { s with m := some (record m s.now res cls x) }

def step (spec : Bool) (s : St) (ts : List String) (_ : String) : St × Option String :=
  match ts with
  | ["clock", t] => match t.toNat? with
      | some t => ({ s with now := t, mono := s.mono && decide (s.now ≤ t) }, none)
      | none => (s, some "bad-op")
  | ["agg.new", a, b, n, I] => match a.toNat?, b.toNat?, n.toNat?, I.toNat? with
      | some a, some b, some n, some I =>
        if a = 0 ∨ b = 0 ∨ n = 0 ∨ I = 0 ∨ I % n ≠ 0 ∨ s.now = 0 then (s, some "bad-op")
        else
          let m := Agg.St.new n (I / n) s.now a b
          ({ now := s.now, t0 := s.now, m := some (if spec then { m with nodes := [] } else m),
             snodes := [{ res := inboundName, cls := 0, t0 := s.now }] }, some "ok")
      | _, _, _, _ => (s, some "bad-op")
  | ["record", res, cls, ev, amt] => match parseRec s res cls, Ev.ofString? ev, amt.toNat? with
      | some (r, c), some ev, some amt => (doRecord spec s r c (evBucket ev amt), none)
      | _, _, _ => (s, some "bad-op")
  | ["conc", res, cls, c] => match parseRec s res cls, c.toInt? with
      | some (r, cl), some c => (doRecord spec s r cl (concBucket c), none)
      | _, _ => (s, some "bad-op")
  | ["aggregate"] => match s.m with
      | none => (s, some "bad-op")
      | some m =>
        if !spec then
          let (m', bs) := aggregate m s.now
          ({ s with m := some m' }, some (showBatches bs))
        else
          let cur := secOf s.now
          if skips m.lastFetch cur then (s, some (if s.mono then "[]" else "?")) else
          let lo := m.lastFetch.getD 0
          let claim := batches (s.snodes.flatMap fun nd => claimNode nd lo cur)
          let exact := batches (s.snodes.flatMap fun nd => exactNode m.n m.L nd s.now lo cur)
          let ok := s.mono && decide (1000 % m.L = 0) && s.snodes.all fun nd => boundOk m.n m.L nd s.now lo
          let m' := { m with lastFetch := some cur, w := runWrites m.w exact, written := m.written ++ exact }
          ({ s with m := some m' }, some (if ok then showBatches claim else "?"))
  | ["log.files"] => match s.m with
      | some m =>
        let xs := m.w.files.foldl (fun acc f =>
          insertSorted (fileName f.name, f.data.length) (insertSorted (fileName f.name ++ ".idx", f.idx.length) acc)) []
        (s, some (showList (xs.map fun p => s!"{p.1}:{p.2}")))
      | none => (s, some "bad-op")
  | ["log.find", sid, b, e, r] => match s.m, b.toNat?, e.toNat? with
      | some m, some b, some e =>
        let res := if r == "*" then [] else resTok r
        let cs : C17.St := { now := s.now, w := some m.w, caches := s.caches, createds := [s.t0 / 1000] }
        let c := getCache cs sid
        let (c', xs) := find m.w.files c b e res
        let s' := { s with caches := (setCache cs sid c').caches }
        if spec then
          (s', some (if !s.mono then "?" else
            specAnswer cs m.w c b (fun v => canon (specFind v.perFile.flatten b e res))
              (fun it => inRange b e it && resMatch res it)))
        else (s', some (showItems (canon xs)))
      | _, _, _ => (s, some "bad-op")
  | ["log.from", sid, b, mx] => match s.m, b.toNat?, mx.toNat? with
      | some m, some b, some mx =>
        let cs : C17.St := { now := s.now, w := some m.w, caches := s.caches, createds := [s.t0 / 1000] }
        let c := getCache cs sid
        let (c', xs) := findFrom m.w.files c b mx
        let s' := { s with caches := (setCache cs sid c').caches }
        if spec then
          (s', some (if !s.mono then "?" else
            specAnswer cs m.w c b (fun v => canon (specFrom v.perFile b mx))
              (fun it => decide (b / 1000 ≤ it.ts / 1000))))
        else (s', some (showItems (canon xs)))
      | _, _, _ => (s, some "bad-op")
  | _ => (s, some "bad-op")

def run (mode : String) : IO Unit :=
  loop ({} : St) (step (mode == "spec"))

end Sentinel.Drv.AGG
