import Sentinel.Drv.Common
/-! Driver for the metric aggregator bridge (stub: replaced by the real driver) -/
namespace Sentinel.Drv.AGG
def run (_mode : String) : IO Unit := IO.eprintln "AGG: driver not implemented"
end Sentinel.Drv.AGG
