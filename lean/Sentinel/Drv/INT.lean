import Sentinel.Drv.Common
import Sentinel.Model.Pipeline
/-!
Driver for the integrated default-chain check `INT` (an internal check, run as an extra phase of C16 and C01).

`model` = `Sentinel.Pipe.step` (the product of the module models on the built-in chain),
`spec`  = `Sentinel.Pipe.specStep` (the product of the module *references*; decision = first block in the built-in order).

The driver is **self-contained**: it imports only `Drv.Common` and the pipeline model, has its own parsers for INT's fixed rule
syntax (the syntax the module drivers had when INT was built; they may extend theirs freely) and its own instantiation of the
`float64` expressions (`fA` = the system slot's arithmetic, `reachedF` / `cbValid` = the breakers' trip predicate and
`IsValidRule`, mirrored from `Drv/C07.lean` / `Drv/C03.lean` and checked against the code by the correspondence run).

Ops (resources are numbers `k`, the resource name is `r<k>`):

* `clock <ms>`                                   first op of a case; never decreases
* `load sys <metric>/<strategy>/<f:bits> …`      `system.LoadRules`            (C07 syntax)
* `load flow <k,f:thr,iv,ref|-> …`               `flow.LoadRules`, Direct/Reject (C02 syntax), once per case
* `load iso <k>:<thr> …`                         `isolation.LoadRules`         (C04 syntax with numeric resources)
* `load hot <r<k>;c;idx;key;thr;pmc;items> …`    `hotspot.LoadRules`           (C06 syntax, concurrency rules)
* `load cb <r<k>,kind,retry,minReq,statI,buckets,maxRt,f:thr,probe> …`  => number of valid rules (C03 syntax), once per case
* `sysmetric load|cpu <f:bits>`
* `entry <id> <k> in|out <batch> <val>… @key=val…`  => `pass | block sys | block flow <i> | block iso <i> <tv> | block hot | block cb <i>`
* `trace <id>` (`api.TraceError(entry, biz)`), `exit <id> [err]`
* `stat <k>|inb`  => `[p= b= c= e= rt= conc= p10= b10= c10=]` (`GetSum` of the default metric, the gauge, `GenerateReadStat(20,10000)`) or `nil`
* `cbstate <k>` => `[C,O,H…]`, `log` => listener callbacks since the last `log`
* `order` => the rule-check slots in chain order
-/
namespace Sentinel.Drv.INT
open Sentinel.Pipe Sentinel.Drv
open Sentinel.LA (Bucket)

/-- the system slot's float expressions exactly as the Go code evaluates them (left to right, binary64) -/
def fA : Sentinel.System.Arith Float :=
  { zero := 0.0, one := 1.0,
    qps := fun s => s.toFloat / (Sentinel.System.vI.toFloat / 1000.0),
    conc := fun c => Float.ofInt c,
    avgRt := fun n => n.toFloat,
    cap := fun m r => m.toFloat * Sentinel.System.vS.toFloat / Sentinel.System.vI.toFloat * 1000.0 * r.toFloat / 1000.0,
    isNaN := fun x => x.isNaN }

/-! ### rule syntaxes -/

def u32? (s : String) : Option UInt32 :=
  match s.toNat? with
  | some n => if n < 4294967296 then some (UInt32.ofNat n) else none
  | none => none

/-- `<metric>/<strategy>/<f:bits>` -/
def sysRule? (t : String) : Option (Sentinel.System.Rule Float) :=
  match t.splitOn "/" with
  | [m, s, f] => match m.toNat?, s.toInt?, parseFbits? f with
      | some m, some s, some f => some { metric := m, strategy := s, trigger := f }
      | _, _, _ => none
  | _ => none

/-- `<k>,<f:thr bits>,<statIntervalMs>,<ref k|->` — a Direct/Reject rule -/
def flowRule? (s : String) : Option Sentinel.FlowReject.Rule :=
  match s.splitOn "," with
  | [res, thr, iv, ref] =>
    match res.toNat?, (if thr.startsWith "f:" then parseHex? (thr.drop 2).toString else none), iv.toNat? with
    | some res, some bits, some iv =>
      if ref = "-" then some { res := res, thr := Sentinel.FlowReject.Thr.ofBits bits, iv := iv }
      else match ref.toNat? with
        | some r => some { res := res, thr := Sentinel.FlowReject.Thr.ofBits bits, iv := iv, ref := some r }
        | none => none
    | _, _, _ => none
  | _ => none

def val? (s : String) : Option Sentinel.HotConc.Val :=
  if s == "nil" then some .nil
  else if s.startsWith "i:" then (s.drop 2).toString.toInt?.map .int
  else if s.startsWith "l:" then (s.drop 2).toString.toInt?.map .long
  else if s.startsWith "s:" then some (.str (s.drop 2).toString)
  else if s == "b:1" then some (.bool true)
  else if s == "b:0" then some (.bool false)
  else none

def items? (s : String) : Option (List (Sentinel.HotConc.Val × Int)) :=
  if s.isEmpty then some [] else
  (s.splitOn ",").foldl (fun acc it => acc.bind fun xs =>
    match it.splitOn "=" with
    | [v, t] => match val? v, t.toInt? with
      | some v, some t => some (xs.filter (fun p => p.1 ≠ v) ++ [(v, t)])
      | _, _ => none
    | _ => none) (some [])

/-- `r<k>;c;<paramIndex>;<paramKey>;<threshold>;<paramsMaxCapacity>;<v=thr,…>` — a concurrency rule -/
def hotRule? (s : String) : Option Sentinel.HotConc.Rule :=
  match s.splitOn ";" with
  | [res, kind, idx, key, thr, pmc, items] =>
    match idx.toInt?, thr.toInt?, pmc.toInt?, items? items with
    | some idx, some thr, some pmc, some items =>
      if kind == "c" then some { res := res, conc := true, idx := idx, key := key, thr := thr, pmc := pmc, items := items }
      else none
    | _, _, _, _ => none
  | _ => none

/-- entry arguments: plain values are `WithArgs`, `@key=val` are attachments (a later key replaces an earlier one) -/
def entryArgs? (ts : List String) : Option (List Sentinel.HotConc.Val × List (String × Sentinel.HotConc.Val)) :=
  ts.foldl (fun acc t => acc.bind fun (as, ats) =>
    if t.startsWith "@" then
      match (t.drop 1).toString.splitOn "=" with
      | [k, v] => (val? v).map fun v => (as, ats.filter (fun p => p.1 ≠ k) ++ [(k, v)])
      | _ => none
    else (val? t).map fun v => (as ++ [v], ats)) (some ([], []))

/-- `util.precision = 0.00000001` as a float64 -/
def eps : Float := Float.ofBits 0x3E45798EE2308C3A

/-- the breakers' trip predicate exactly as the code evaluates it (binary64):
    `ratio > T || math.Abs(ratio-T) < 1e-8`, resp. `errorCount >= uint64(T)` -/
def reachedF (kind : Sentinel.CB.Kind) (thr : Float) (bad total : Nat) : Bool :=
  match kind with
  | .count => decide (thr.toUInt64.toNat ≤ bad)
  | _ =>
    let ratio := bad.toFloat / total.toFloat
    ratio > thr || Float.abs (ratio - thr) < eps

/-- `circuitbreaker.IsValidRule` (resource name non-empty is checked by the parser) -/
def cbValid (kind : Sentinel.CB.Kind) (retry statI : Nat) (thr : Float) : Bool :=
  decide (0 < statI) && decide (0 < retry) && !(thr < 0.0) && (kind == .count || !(thr > 1.0))

/-- `r<k>,<kind 0|1|2>,<retryMs>,<minReq>,<statIntervalMs>,<buckets>,<maxRtMs>,<f:thr bits>,<probeNum>` ⇒ (rule, valid) -/
def cbRule? (s : String) : Option (Sentinel.CB.Rule × Bool) :=
  match s.splitOn "," with
  | [res, k, retry, minReq, statI, buckets, maxRt, thr, probe] =>
    match k.toNat?, retry.toNat?, minReq.toNat?, statI.toNat?, buckets.toNat?, maxRt.toNat?, parseFbits? thr, probe.toNat? with
    | some k, some retry, some minReq, some statI, some buckets, some maxRt, some thr, some probe =>
      let kind? : Option Sentinel.CB.Kind := match k with | 0 => some .slow | 1 => some .ratio | 2 => some .count | _ => none
      if res.isEmpty then none else
      kind?.map fun kind =>
        ({ res := res, kind := kind, retryMs := retry, minReq := minReq, statI := statI, buckets := buckets,
           maxRt := maxRt, probeNum := probe, reached := reachedF kind thr }, cbValid kind retry statI thr)
    | _, _, _, _, _, _, _, _ => none
  | _ => none

/-- number the rules by their position in the load list, keep the valid ones -/
def cbNumbered (rs : List (Sentinel.CB.Rule × Bool)) : List (Nat × Sentinel.CB.Rule) :=
  ((List.range rs.length).zip rs).filterMap fun p => if p.2.2 then some (p.1, p.2.1) else none

def stCh : Sentinel.CB.St → String | .closed => "C" | .halfOpen => "H" | .opened => "O"

/-- a listener callback as the Go listener prints it (`snapshot`: ratio bits, `u<count>`, `i1` / 1.0 for a failed probe) -/
def showEv (kinds : List (Nat × Sentinel.CB.Kind)) (e : Sentinel.CB.Ev) : String :=
  let kind := (kinds.find? (·.1 = e.id)).map (·.2) |>.getD .slow
  let one := "f:3ff0000000000000"
  match e.tr with
  | .toHalfOpen => s!"{e.id}:OH"
  | .toClosed => s!"{e.id}:HC"
  | .toOpen prev snap =>
    let sn := match snap, kind with
      | .stat bad _, .count => s!"u{bad}"
      | .stat bad total, _ => fbits (bad.toFloat / total.toFloat)
      | .probe, .count => "i1"
      | .probe, _ => one
      | .rollback, _ => one
    s!"{e.id}:{stCh prev}O:{sn}"

def showBlk : Option Blk → String
  | none => "pass"
  | some .sys => "block sys"
  | some (.flow i) => s!"block flow {i}"
  | some (.iso i tv) => s!"block iso {i} {tv.toNat}"
  | some .hot => "block hot"
  | some (.cb k) => s!"block cb {k}"

def slotName : Slot → String
  | .sys => "system" | .flow => "flow" | .iso => "isolation" | .hot => "hotspot" | .cb => "circuitbreaker"

def parseKey? (s : String) : Option Sentinel.Entry.Key :=
  if s = "inb" then some none else s.toNat?.map fun k => some (rname k)

def isoRule? (s : String) : Option (String × UInt32) :=
  match s.splitOn ":" with
  | [r, t] => match r.toNat?, u32? t with
    | some k, some t => some (rname k, t)
    | _, _ => none
  | _ => none

def parseOp? : List String → Option (Op Float)
  | ["clock", t] => t.toNat?.map .clock
  | "load" :: "sys" :: rs => (rs.mapM sysRule?).map .loadSys
  | "load" :: "flow" :: rs => (rs.mapM flowRule?).map .loadFlow
  | "load" :: "iso" :: rs => (rs.mapM isoRule?).map .loadIso
  | "load" :: "hot" :: rs => (rs.mapM hotRule?).map .loadHot
  | "load" :: "cb" :: rs => (rs.mapM cbRule?).map fun prs => .loadCb (cbNumbered prs)
  | ["sysmetric", "load", f] => (parseFbits? f).map .sysLoad
  | ["sysmetric", "cpu", f] => (parseFbits? f).map .sysCpu
  | "entry" :: id :: k :: dir :: b :: rest =>
      match id.toNat?, k.toNat?, b.toNat?, entryArgs? rest with
      | some id, some k, some b, some (as, ats) =>
        if (dir ≠ "in" && dir ≠ "out") || b ≥ 4294967296 then none
        else some (.entry { id := id, res := k, inbound := dir = "in", batch := b, args := as, atts := ats })
      | _, _, _, _ => none
  | ["trace", id] => id.toNat?.map .trace
  | ["exit", id] => id.toNat?.map fun id => .exit id false
  | ["exit", id, "err"] => id.toNat?.map fun id => .exit id true
  | ["log"] => some .log
  | _ => none

def showStat (w1 w10 : Option Bucket) (c : Option Int) : String :=
  match w1, w10, c with
  | some a, some b, some c =>
    s!"[p={a.pass} b={a.block} c={a.complete} e={a.error} rt={a.rt} conc={c} p10={b.pass} b10={b.block} c10={b.complete}]"
  | _, _, _ => "nil"

def showOut (kinds : List (Nat × Sentinel.CB.Kind)) : Out → Option String
  | .none => none
  | .bad => some "bad-op"
  | .dec d => some (showBlk d)
  | .num n => some (toString n)
  | .log evs => some (showList (evs.map (showEv kinds)))

def orderLine : String := showList (ruleSlots.map slotName)

def stepModel (s : St Float) (ts : List String) (_ : String) : St Float × Option String :=
  match ts with
  | ["order"] => (s, some orderLine)
  | ["stat", k] => match parseKey? k with
    | some k => if s.started then (s, some (showStat (obsStat s k 1000) (obsStat s k 10000) (obsConc s k))) else (s, some "bad-op")
    | none => (s, some "bad-op")
  | ["cbstate", k] => match k.toNat? with
    | some k => (s, some (showList ((obsCb s (rname k)).map stCh)))
    | none => (s, some "bad-op")
  | _ =>
    match parseOp? ts with
    | none => (s, some "bad-op")
    | some op =>
      let r := step fA s op
      (r.1, showOut (s.cb.brs.map fun b => (b.id, b.rule.kind)) r.2)

def stepSpec (s : SpecSt Float) (ts : List String) (_ : String) : SpecSt Float × Option String :=
  match ts with
  | ["order"] => (s, some (showList ([Slot.sys, .flow, .iso, .hot, .cb].map slotName)))
  | ["stat", k] => match parseKey? k with
    | some k => if s.started then (s, some (showStat (specStat s k 1000) (specStat s k 10000) (specConc s k))) else (s, some "bad-op")
    | none => (s, some "bad-op")
  | ["cbstate", k] => match k.toNat? with
    | some k => (s, some (showList ((specCb s (rname k)).map stCh)))
    | none => (s, some "bad-op")
  | _ =>
    match parseOp? ts with
    | none => (s, some "bad-op")
    | some op =>
      let r := specStep fA s op
      (r.1, showOut (s.cb.brs.map fun b => (b.id, b.rule.kind)) r.2)

def run (mode : String) : IO Unit :=
  if mode == "spec" then loop ({ sys := { load := -1.0, cpu := -1.0 } } : SpecSt Float) stepSpec
  else loop ({ load := -1.0, cpu := -1.0 } : St Float) stepModel

end Sentinel.Drv.INT
