import Sentinel.Drv.Common
import Sentinel.Drv.C02
import Sentinel.Drv.C03
import Sentinel.Drv.C04
import Sentinel.Drv.C06
import Sentinel.Drv.C07
import Sentinel.Model.Pipeline
/-!
Driver for the integrated default-chain check `INT` (an internal check, run as an extra phase of C16 and C01).

`model` = `Sentinel.Pipe.step` (the product of the module models on the built-in chain),
`spec`  = `Sentinel.Pipe.specStep` (the product of the module *references*; decision = first block in the built-in order).

Ops (resources are numbers `k`, the resource name is `r<k>`; the rule syntaxes are those of the module drivers):

* `clock <ms>`                                   first op of a case; never decreases
* `load sys <metric>/<strategy>/<f:bits> …`      `system.LoadRules`            (C07 syntax)
* `load flow <k,f:thr,iv,ref|-> …`               `flow.LoadRules`, Direct/Reject (C02 syntax), once per case
* `load iso <k>:<thr> …`                         `isolation.LoadRules`         (C04 syntax with numeric resources)
* `load hot <r<k>;c;idx;key;thr;pmc;items> …`    `hotspot.LoadRules`           (C06 syntax, concurrency rules)
* `load cb <r<k>,kind,retry,minReq,statI,buckets,maxRt,f:thr,probe> …`  => number of valid rules (C03 syntax), once per case
* `sysmetric load|cpu <f:bits>`
* `entry <id> <k> in|out <batch> <val>… @key=val…`  => `pass | block sys | block flow <i> | block iso <i> <tv> | block hot | block cb <i>`
* `trace <id>` (`api.TraceError(entry, biz)`), `exit <id> [err]`
* `stat <k>|inb`  => `[p= b= c= e= rt= conc= p10= b10= c10=]` (`GetSum` of the default metric, the gauge, `GenerateReadStat(20,10000)`) or `nil`
* `cbstate <k>` => `[C,O,H…]`, `log` => listener callbacks since the last `log`
* `order` => the rule-check slots in chain order
-/
namespace Sentinel.Drv.INT
open Sentinel.Pipe Sentinel.Drv
open Sentinel.LA (Bucket)

abbrev fA : Sentinel.System.Arith Float := Sentinel.Drv.C07.fA

def showBlk : Option Blk → String
  | none => "pass"
  | some .sys => "block sys"
  | some (.flow i) => s!"block flow {i}"
  | some (.iso i tv) => s!"block iso {i} {tv.toNat}"
  | some .hot => "block hot"
  | some (.cb k) => s!"block cb {k}"

def slotName : Slot → String
  | .sys => "system" | .flow => "flow" | .iso => "isolation" | .hot => "hotspot" | .cb => "circuitbreaker"

def parseKey? (s : String) : Option Sentinel.Entry.Key :=
  if s = "inb" then some none else s.toNat?.map fun k => some (rname k)

def isoRule? (s : String) : Option (String × UInt32) :=
  match s.splitOn ":" with
  | [r, t] => match r.toNat?, Sentinel.Drv.C04.u32? t with
    | some k, some t => some (rname k, t)
    | _, _ => none
  | _ => none

def parseOp? : List String → Option (Op Float)
  | ["clock", t] => t.toNat?.map .clock
  | "load" :: "sys" :: rs => (Sentinel.Drv.C07.parseRules? rs).map .loadSys
  | "load" :: "flow" :: rs => (Sentinel.Drv.C02.parseRules rs).map .loadFlow
  | "load" :: "iso" :: rs => (rs.mapM isoRule?).map .loadIso
  | "load" :: "hot" :: rs => (Sentinel.Drv.C06.parseRules? rs).bind fun l => if l.all (·.conc) then some (.loadHot l) else none
  | "load" :: "cb" :: rs => (Sentinel.Drv.C03.parseRules? rs).map fun prs =>
      .loadCb ((Sentinel.Drv.C03.numbered prs).map fun p => (p.1, p.2.rule))
  | ["sysmetric", "load", f] => (parseFbits? f).map .sysLoad
  | ["sysmetric", "cpu", f] => (parseFbits? f).map .sysCpu
  | "entry" :: id :: k :: dir :: b :: rest =>
      match id.toNat?, k.toNat?, b.toNat?, Sentinel.Drv.C06.parseEntryArgs? rest with
      | some id, some k, some b, some (as, ats) =>
        if (dir ≠ "in" && dir ≠ "out") || b ≥ 4294967296 || rest.any (·.startsWith "#") then none
        else some (.entry { id := id, res := k, inbound := dir = "in", batch := b, args := as, atts := ats })
      | _, _, _, _ => none
  | ["trace", id] => id.toNat?.map .trace
  | ["exit", id] => id.toNat?.map fun id => .exit id false
  | ["exit", id, "err"] => id.toNat?.map fun id => .exit id true
  | ["log"] => some .log
  | _ => none

def showStat (w1 w10 : Option Bucket) (c : Option Int) : String :=
  match w1, w10, c with
  | some a, some b, some c =>
    s!"[p={a.pass} b={a.block} c={a.complete} e={a.error} rt={a.rt} conc={c} p10={b.pass} b10={b.block} c10={b.complete}]"
  | _, _, _ => "nil"

def showOut (kinds : List (Nat × Sentinel.CB.Kind)) : Out → Option String
  | .none => none
  | .bad => some "bad-op"
  | .dec d => some (showBlk d)
  | .num n => some (toString n)
  | .log evs => some (showList (evs.map (Sentinel.Drv.C03.showEv kinds)))

def orderLine : String := showList (ruleSlots.map slotName)

def stepModel (s : St Float) (ts : List String) (_ : String) : St Float × Option String :=
  match ts with
  | ["order"] => (s, some orderLine)
  | ["stat", k] => match parseKey? k with
    | some k => if s.started then (s, some (showStat (obsStat s k 1000) (obsStat s k 10000) (obsConc s k))) else (s, some "bad-op")
    | none => (s, some "bad-op")
  | ["cbstate", k] => match k.toNat? with
    | some k => (s, some (showList ((obsCb s (rname k)).map Sentinel.Drv.C03.stCh)))
    | none => (s, some "bad-op")
  | _ =>
    match parseOp? ts with
    | none => (s, some "bad-op")
    | some op =>
      let r := step fA s op
      (r.1, showOut (s.cb.brs.map fun b => (b.id, b.rule.kind)) r.2)

def stepSpec (s : SpecSt Float) (ts : List String) (_ : String) : SpecSt Float × Option String :=
  match ts with
  | ["order"] => (s, some (showList ([Slot.sys, .flow, .iso, .hot, .cb].map slotName)))
  | ["stat", k] => match parseKey? k with
    | some k => if s.started then (s, some (showStat (specStat s k 1000) (specStat s k 10000) (specConc s k))) else (s, some "bad-op")
    | none => (s, some "bad-op")
  | ["cbstate", k] => match k.toNat? with
    | some k => (s, some (showList ((specCb s (rname k)).map Sentinel.Drv.C03.stCh)))
    | none => (s, some "bad-op")
  | _ =>
    match parseOp? ts with
    | none => (s, some "bad-op")
    | some op =>
      let r := specStep fA s op
      (r.1, showOut (s.cb.brs.map fun b => (b.id, b.rule.kind)) r.2)

def run (mode : String) : IO Unit :=
  if mode == "spec" then loop ({ sys := { load := -1.0, cpu := -1.0 } } : SpecSt Float) stepSpec
  else loop ({ load := -1.0, cpu := -1.0 } : St Float) stepModel

end Sentinel.Drv.INT
