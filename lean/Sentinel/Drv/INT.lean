import Sentinel.Drv.Common
/-! Driver for the integrated default-chain pipeline (stub: replaced by the real driver) -/
namespace Sentinel.Drv.INT
def run (_mode : String) : IO Unit := IO.eprintln "INT: driver not implemented"
end Sentinel.Drv.INT
