import Sentinel.Drv.Common
import Sentinel.Model.System
/-!
Driver for C07.  `model` = the code-shaped slot over the leap-array inbound node, `spec` = the
property's predicate (`violated`) over the inbound aggregates recomputed from the op history.

Ops (one case = one run of the state machine `Sentinel.System.step`):

* `clock <ms>`                               first op of a case creates the inbound array at that time
* `load <metric>/<strategy>/<f:bits> …`      `system.LoadRules` (metric 0 load 1 avgRT 2 concurrency 3 qps 4 cpu; strategy -1 none, 1 BBR)
* `sys load|cpu <f:bits>`                    `system_metric.SetSystemLoad / SetSystemCpuUsage`
* `entry <id> <res> in|out|default <batch|->`  => `pass` | `block sys`   (`default`: no WithTrafficType option = outbound; `-`: no WithBatchCount option = 1)
* `exit <id> [err]`                         `Exit()` / `Exit(WithError(…))`
* `sys mem <int>`                            `SetSystemMemoryUsage` (not an input of any system rule)
* `many <n>`                                 n fresh resource names entered (default type) and exited at once
* `config <sampleCount> <intervalMs>`        the configured metric statistic shape is changed (valid shapes only)
* `rules`  => `system.GetRules()` sorted; a `nil` token in `load` is a nil pointer in the slice
* `remod <i> <metric>/<strategy>/<f:bits>`    element `i` of the slice loaded last is changed in place and the same slice is loaded again
* `stat`  => the inbound aggregates the slot reads
-/
namespace Sentinel.Drv.C07
open Sentinel.System Sentinel.Drv
open Sentinel.LA (refW cbs vSum)

/-- the float expressions exactly as the Go code evaluates them (left to right, binary64) -/
def fA : Arith Float :=
  { zero := 0.0, one := 1.0,
    qps := fun s => s.toFloat / (vI.toFloat / 1000.0),
    conc := fun c => Float.ofInt c,
    avgRt := fun n => n.toFloat,
    cap := fun m r => m.toFloat * vS.toFloat / vI.toFloat * 1000.0 * r.toFloat / 1000.0,
    isNaN := fun x => x.isNaN }

def init : St Float := { load := -1.0, cpu := -1.0 }

def parseRule? (t : String) : Option (Rule Float) :=
  -- a nil pointer in the slice handed to `LoadRules`: invalid ("nil Rule"), never in force
  if t == "nil" then some { metric := 4294967295, strategy := 0, trigger := 0.0 } else
  match t.splitOn "/" with
  | [m, s, f] => match m.toNat?, s.toInt?, parseFbits? f with
      | some m, some s, some f => some { metric := m, strategy := s, trigger := f }
      | _, _, _ => none
  | _ => none

def parseRules? : List String → Option (List (Rule Float))
  | [] => some []
  | t :: r => match parseRule? t, parseRules? r with
      | some x, some xs => some (x :: xs)
      | _, _ => none

def parseOp? : List String → Option (Op Float)
  | "load" :: rs => (parseRules? rs).map .load
  | ["sys", "load", f] => (parseFbits? f).map .sysLoad
  | ["sys", "cpu", f] => (parseFbits? f).map .sysCpu
  | ["clock", t] => t.toNat?.map .clock
  | ["entry", id, _res, dir, b] =>
      -- `default` = no `WithTrafficType` option (documented default: outbound); batch `-` = no `WithBatchCount` option (default 1)
      let b := if b == "-" then some 1 else b.toNat?
      match dir, b with
      | "in", some b => some (.entry id true b)
      | "out", some b => some (.entry id false b)
      | "default", some b => some (.entry id false b)
      | _, _ => none
  | ["exit", id] => some (.exit id)
  | ["exit", id, "err"] => some (.exitErr id)
  | ["sys", "mem", x] => x.toInt?.map .sysMem
  | ["config", sc, iv] => match sc.toNat?, iv.toNat? with
      | some sc, some iv => if Sentinel.LA.validView sc iv gN (gN * gL) == 0 then some (.config sc iv) else none
      | _, _ => none
  | _ => none

def showRes : Res → Option String
  | .none => none
  | .pass => some "pass"
  | .blockSys => some "block sys"
  | .bad => some "bad-op"

def statLine (spec : Bool) (s : St Float) : String :=
  let v : View Float := viewOf spec s
  let blk := if spec then (refW gL s.hist (cbs gL s.now + gL - vI) (cbs gL s.now)).block else vSum s.arr vI s.now .block
  let maxavg := v.maxComplete.toFloat * vS.toFloat / vI.toFloat * 1000.0
  let errs := if spec then (refW gL s.hist (cbs gL s.now + gL - vI) (cbs gL s.now)).error else vSum s.arr vI s.now .error
  s!"[p={v.pass} b={blk} c={v.complete} e={errs} conc={v.conc} avgrt={fbits (fA.avgRt (avgRtOf v))} minrt={fbits v.minRt.toFloat} qps={fbits (fA.qps v.pass)} maxavg={fbits maxavg}]"

/-- driver state: the machine state plus the caller's last rule slice (for `remod`) -/
structure DSt where
  s : St Float := init
  raw : List (Rule Float) := []

/-- `remod <i> <rule>`: the caller changes element `i` of the slice it loaded last **in place** and calls
    `LoadRules` with the same slice again — for the property this is a load of the changed list -/
def stepLine (spec : Bool) (d : DSt) (ts : List String) (_ : String) : DSt × Option String :=
  let s := d.s
  match ts with
  | ["stat"] => if s.started then (d, some (statLine spec s)) else (d, some "bad-op")
  | ["many", n] =>
    -- `n` fresh resource names, each entered (default traffic type = outbound) and exited at once: run as `n`
    -- entry/exit pairs of the model (theorem `outbound_roundtrip`: each pair leaves the state unchanged)
    match n.toNat? with
    | none => (d, some "bad-op")
    | some n =>
      if !s.started then (d, some "bad-op") else
      let s' := (List.range n).foldl (fun st k =>
        let id := "many-" ++ toString k
        (step fA spec (step fA spec st (.entry id false 1)).1 (.exit id)).1) s
      ({ d with s := s' }, none)
  | ["rules"] =>
    -- `system.GetRules()`: the rules in force, as a sorted multiset
    let show1 (r : Rule Float) : String := s!"{r.metric}/{r.strategy}/{fbits r.trigger}"
    (d, some (showList ((s.rules.map show1).toArray.qsort (· < ·)).toList))
  | ["remod", i, r] =>
    match i.toNat?, parseRule? r with
    | some i, some r =>
      -- only defined where it is a plain reload for the property: the object was in force and stays valid
      -- (`LoadRules` compares with the caller's own slice, so an object that was dropped as invalid, or becomes
      -- invalid, is not revalidated by such a reload — rule-manager territory, C13, not C07)
      if (d.raw[i]?.map (validRule fA)) == some true && validRule fA r then
        let raw := d.raw.set i r
        ({ s := (step fA spec s (.load raw)).1, raw := raw }, none)
      else (d, some "bad-op")
    | _, _ => (d, some "bad-op")
  | _ =>
    match parseOp? ts with
    | none => (d, some "bad-op")
    | some op =>
      let (s', r) := step fA spec s op
      let raw := match op with | .load rs => rs | _ => d.raw
      ({ s := s', raw := raw }, showRes r)

/-- `explain` mode (measurement only, never compared): the code-shaped run, each inbound decision annotated
    with the metric types of the violated loaded rules and with the role of the BBR capacity term
    (`over`/`under` when some BBR load/cpu rule has its reading above the trigger, `na` otherwise) -/
def explainLine (d : DSt) (ts : List String) (ln : String) : DSt × Option String :=
  let s := d.s
  let (s', r) := stepLine false d ts ln
  match parseOp? ts, r with
  | some (.entry _ true _), some r =>
    if !s.started then (s', some r) else
    let v : View Float := viewOf false s
    let viol := (s.rules.filter fun x => decide (violated fA v x)).map fun x => toString x.metric
    let armed := s.rules.any fun x => x.strategy == 1 &&
      ((x.metric == 0 && decide (x.trigger < v.load)) || (x.metric == 4 && decide (x.trigger < v.cpu)))
    let bbr := if !armed then "na" else if decide (overCapacity fA v) then "over" else "under"
    -- the capacity comparison in exact rational arithmetic (conc > m·2·minRt/1000) next to the binary64 one
    let exactOver := decide (1 < v.conc) && decide ((v.maxComplete * vS * v.minRt : Int) < v.conc * 1000)
    let fx := if exactOver == decide (overCapacity fA v) then "same" else "diff"
    (s', some (r ++ " ; viol=" ++ ",".intercalate viol ++ " ; bbr=" ++ bbr ++ " ; conc=" ++ toString v.conc ++ " ; fx=" ++ fx))
  | _, _ => (s', r)

def run (mode : String) : IO Unit :=
  if mode == "explain" then loop ({} : DSt) explainLine
  else loop ({} : DSt) (stepLine (mode == "spec"))

end Sentinel.Drv.C07
