import Sentinel.Drv.Common
/-! Driver for C07 (stub: replaced by the property's real driver) -/
namespace Sentinel.Drv.C07
def run (_mode : String) : IO Unit := IO.eprintln "C07: driver not implemented"
end Sentinel.Drv.C07
