import Sentinel.Drv.Common
import Sentinel.Model.HotConc
/-!
Driver for C06.

Op language (one op per line):

* `load <rule>…` — `hotspot.ClearRules(); hotspot.LoadRules(rules)`; a rule is one token
  `res;c|ct|q|t;paramIndex;paramKey;threshold;paramsMaxCapacity;v=thr,v=thr…` — `c` a Concurrency rule (`ct`: the same with
  ControlBehavior Throttling, which the concurrency check ignores); `q` a QPS/Reject
  rule and `t` a QPS/Throttling rule, loaded by the harness with parameters under which they never block (`q`: threshold
  10^9 per second; `t`: threshold 1 per second, so that every request closer than `batch` seconds to the previous one for
  the value is *queued* — the slot sleeps on the virtual clock and goes on to the next rule — with MaxQueueingTimeMs 10^9);
  the model carries them as inert controllers, the generator keeps batch counts ≤ 5 in their presence (C05 is about them) (values: `i:<int>` an `int`,
  `l:<int>` an `int64`, `s:<text>`, `b:0|1`, `nil`)
* `reload <rule>…` — `hotspot.LoadRules(rules)` on top of the rules in force (controllers of equal rules are kept, a
  stat-reusable old rule lends its cells, a used old controller is not lent twice)
* `reloadres <res> <rule>…` — `hotspot.LoadRulesOfResource(res, rules)` (empty list: the resource loses its rules)
* `trace <id>` — `api.TraceError(entry, err)`; `exit <id> err` — `entry.Exit(base.WithError(err))`: a business error must
  not change anything about the unit the entry occupies or its release
* `storm <res> <i|s> <G> <rounds>` ⇒ `lo=<a> hi=<b>` — real parallelism (the harness raises GOMAXPROCS for this op): per round a
  fresh value, `G` goroutines call `api.Entry(res, value)` at once, after all have decided the admitted ones exit; then a
  sequential probe admits entries for the value until the first refusal (at most `G + 8`) and exits them; `a`/`b` are the
  least / greatest number the probe admitted over all rounds.  Whatever the schedule, the cells are back at 0 after the exits
  (`cell_eq_live`, `returns_to_zero` hold for every interleaving), so the probe admits exactly what one sequential round
  admits: the model runs one round sequentially and prints that number twice.  How many goroutines pass *during* a round is
  not reported (the known check-then-act overshoot makes it schedule-dependent).  With a trailing `x2` every admitted entry is
  exited by two goroutines at the same moment: `Exit` is idempotent (`exit_twice`), so the line is the same.  Must be the last op of its case; the
  resource must carry concurrency rules only (a throttling rule would sleep on the single-threaded virtual clock).
* `flowblock <res>` — a flow rule with threshold 0 on `res` (every entry there is blocked by the flow slot)
* `entry <id> <res> [#batch] <val>… [+ <val>…]… @key=val…` ⇒ `pass | block hot | block flow` (`+` starts another `WithArgs`
  option of the same call: `Input.Args` is the concatenation)
* `exit <id>`
* `args <id>` ⇒ the live entry's `Input.Args` (`none` if the entry is not live)
* `pentry <id> <res> <val>… @key=val…` — the same `api.Entry` call made by another goroutine, which is parked at the
  yield point `chain.between-check-and-stat` (rule-check slots done, statistic slots not yet run)
* `resume <id>` ⇒ lets that goroutine finish: `pass | block hot | block flow` (`none`: no such parked entry)

Modes: `model` — the code-shaped model `Sentinel.HotConc` (LRU cells, re-extraction at exit);
`oracle` — judges the implementation's own trace against the property: the ledger `live_k(v)` is
recomputed from the trace (entries answered `pass` with value `v` under rule `k`, not yet exited) and every
`entry` answer must be `pass ⇔ ∀ concurrency rule k of the resource selecting a value v: live_k(v) < thr_k(v)`.
-/
namespace Sentinel.Drv.C06
open Sentinel.HotConc Sentinel.Drv

def parseVal? (s : String) : Option Val :=
  if s == "nil" then some Val.nil
  else if s.startsWith "i:" then (s.drop 2).toString.toInt?.map Val.int
  else if s.startsWith "l:" then (s.drop 2).toString.toInt?.map Val.long
  else if s.startsWith "s:" then some (Val.str (s.drop 2).toString)
  else if s == "b:1" then some (Val.bool true)
  else if s == "b:0" then some (Val.bool false)
  else none

def showVal : Val → String
  | .nil => "nil"
  | .int i => s!"i:{i}"
  | .long i => s!"l:{i}"
  | .str s => "s:" ++ s
  | .bool b => if b then "b:1" else "b:0"

def parseItems? (s : String) : Option (List (Val × Int)) :=
  if s.isEmpty then some [] else
  (s.splitOn ",").foldl (fun acc it => acc.bind fun xs =>
    match it.splitOn "=" with
    | [v, t] => match parseVal? v, t.toInt? with
      | some v, some t => some (xs.filter (fun p => p.1 ≠ v) ++ [(v, t)])
      | _, _ => none
    | _ => none) (some [])

def parseRule? (s : String) : Option Rule :=
  match s.splitOn ";" with
  | [res, kind, idx, key, thr, pmc, items] =>
    match idx.toInt?, thr.toInt?, pmc.toInt?, parseItems? items with
    | some idx, some thr, some pmc, some items =>
      -- the harness loads QPS rules with fixed threshold / capacity / no items whatever the token says
      if kind == "c" then some { res := res, conc := true, cb := 0, idx := idx, key := key, thr := thr, pmc := pmc, items := items }
      else if kind == "ct" then some { res := res, conc := true, cb := 1, idx := idx, key := key, thr := thr, pmc := pmc, items := items }
      else if kind == "q" then some { res := res, conc := false, cb := 0, idx := idx, key := key, thr := 1000000000, pmc := 0, items := [] }
      else if kind == "t" then some { res := res, conc := false, cb := 1, idx := idx, key := key, thr := 1, pmc := 0, items := [] }
      else none
    | _, _, _, _ => none
  | _ => none

def parseRules? (ts : List String) : Option (List Rule) :=
  ts.foldr (fun t acc => match parseRule? t, acc with
    | some r, some rs => some (r :: rs)
    | _, _ => none) (some [])

/-- entry arguments: plain values are `WithArgs`, `@key=val` are attachments (a later key replaces an earlier one) -/
def parseEntryArgs? (ts : List String) : Option (List Val × List (String × Val)) :=
  ts.foldl (fun acc t => acc.bind fun (as, ats) =>
    if t == "+" then some (as, ats)     -- `+` starts another `WithArgs` option: the options' arguments are appended
    else if t.startsWith "#" then (if (t.drop 1).toString.toNat?.isSome then some (as, ats) else none)
    else if t.startsWith "@" then
      match (t.drop 1).toString.splitOn "=" with
      | [k, v] => (parseVal? v).map fun v => (as, ats.filter (fun p => p.1 ≠ k) ++ [(k, v)])
      | _ => none
    else (parseVal? t).map fun v => (as ++ [v], ats)) (some ([], []))

/-- `#n` = `WithBatchCount(n)` (default 1).  No modelled step reads the batch count: a concurrency cell moves by one unit
    per admitted entry whatever the batch.  The only place where it matters for the op language is the auxiliary flow
    rule with threshold 0, which lets a batch of 0 through: such an op is not well-formed. -/
def batchOf (ts : List String) : Nat :=
  ts.foldl (fun acc t => if t.startsWith "#" then ((t.drop 1).toString.toNat?).getD acc else acc) 1

def showRes : Res → String
  | .pass => "pass"
  | .blockFlow => "block flow"
  | .blockHot => "block hot"

/-! ### model mode -/

def stepModel (s : St) (ts : List String) (_ : String) : St × Option String :=
  match ts with
  | "load" :: rs => match parseRules? rs with
    | some rules => (load s rules, none)
    | none => (s, some "bad-op")
  | "reload" :: rs => match parseRules? rs with
    | some rules => (reload s rules, none)
    | none => (s, some "bad-op")
  | "reloadres" :: res :: rs => match parseRules? rs with
    | some rules => (reloadRes s res rules, none)
    | none => (s, some "bad-op")
  | ["trace", _] => (s, none)
  | ["exit", id, "err"] => (exit s id, none)
  | ["flowblock", res] => (step s (.flowBlock res), none)
  | "entry" :: id :: res :: rest => match parseEntryArgs? rest with
    | some (as, ats) =>
      if s.used id || (batchOf rest == 0 && s.fb.contains res) then (s, some "bad-op") else
      let r := entry s id res as ats
      (r.1, some (showRes r.2))
    | none => (s, some "bad-op")
  | "pentry" :: id :: res :: rest => match parseEntryArgs? rest with
    | some (as, ats) =>
      if s.used id || (batchOf rest == 0 && s.fb.contains res) then (s, some "bad-op") else (check s id res as ats, none)
    | none => (s, some "bad-op")
  | ["resume", id] =>
    let r := commit s id
    (r.1, some (match r.2 with | some v => showRes v | none => "none"))
  | ["exit", id] => (exit s id, none)
  | ["args", id] => match s.live.find? (fun e => e.id == id) with
    | some e => (s, some (showList (e.args.map showVal)))
    | none => (s, some "none")
  | _ => (s, some "bad-op")

/-! ### oracle mode -/

/-- one rule as the oracle sees it: the values it has been consulted for (`touched`) -/
structure ORule where
  rule : Rule
  touched : List Val := []
  fresh : Bool := true      -- set by a reload: the rule got new (empty) cells
  compat : Bool := true     -- set by a reload: its cells were kept / inherited from a rule selecting the same argument

def ORule.inherit (r : Rule) : Option ORule → ORule
  | some o => { rule := r, touched := o.touched, fresh := false,
                compat := o.rule.idx == r.idx && o.rule.key == r.key && o.rule.conc == r.conc }
  | none => { rule := r, touched := [], fresh := true, compat := false }

structure OLive where
  id : String
  res : String
  args : List Val
  atts : List (String × Val)

/-- an entry parked between its check and its statistic slots, as the oracle tracks it -/
structure OPend where
  id : String
  res : String
  args : List Val
  atts : List (String × Val)
  fbAtCheck : Bool        -- blocked by the flow rule
  noClaim : Bool          -- resource was stale at check time
  overAtCheck : Bool
  claimBlock : Bool       -- the property's verdict on the ledger at check time
  seenBlock : Bool        -- the property's verdict was "block" at some state since the check
  raced : Bool            -- another admission on the resource completed since the check
  reloaded : Bool := false -- rules were (re)loaded since the check: its verdict was fixed under the earlier rules

structure OSt where
  rules : List ORule := []
  live : List OLive := []
  pend : List OPend := []
  fb : List String := []
  over : List String := []      -- resources one of whose rules has seen more distinct values than its capacity
  stale : List String := []     -- resources that had live entries when the rules were (re)loaded: no claim
  peak : Nat := 1               -- most goroutines ever inside `api.Entry` at once (parked ones + the one entering)

/-- the ledger: live entries on the rule's resource whose selected value is `v` -/
def liveCount (s : OSt) (r : Rule) (v : Val) : Nat :=
  (s.live.filter fun e => r.sel e.res e.args e.atts == v).length

/-- the property's verdict on the present ledger: some concurrency rule of the resource selects a value whose
    in-flight count is not below its threshold -/
def viols (s : OSt) (res : String) (as : List Val) (ats : List (String × Val)) : Bool :=
  s.rules.any fun o =>
    let v := o.rule.sel res as ats
    v != Val.nil && !decide ((liveCount s o.rule v : Int) < o.rule.thrOf v)

/-- walks the concurrency rules of `res` in order, as `hotspot.Slot.Check` does (the first violated rule ends the
    loop).  Returns (claimed verdict is "block", rules updated with the values the code consults, resource overflowed) -/
def judgeRules (s : OSt) (res : String) (as : List Val) (ats : List (String × Val)) :
    List ORule → Bool → Bool × List ORule × Bool
  | [], _ => (false, [], false)
  | o :: os, stopped =>
    let v := o.rule.sel res as ats
    if v = Val.nil then
      let r := judgeRules s res as ats os stopped
      (r.1, o :: r.2.1, r.2.2)
    else
      let viol := !decide ((liveCount s o.rule v : Int) < o.rule.thrOf v)
      -- the code consults this rule (and creates the value's cell) unless an earlier one has already blocked
      let o' : ORule := if stopped || o.touched.contains v then o else { o with touched := v :: o.touched }
      let overflow := !stopped && decide (o.rule.cap < o'.touched.length)
      let r := judgeRules s res as ats os (stopped || viol)
      (viol || r.1, o' :: r.2.1, overflow || r.2.2)

/-- `capped_sched`: with at most `peak` goroutines inside `api.Entry` at once, admitting this request must leave
    every selected value within `threshold + peak - 1` -/
def withinBound (s : OSt) (res : String) (as : List Val) (ats : List (String × Val)) : Bool :=
  s.rules.all fun o =>
    let v := o.rule.sel res as ats
    v == Val.nil || decide ((liveCount s o.rule v : Int) + 1 ≤ o.rule.thrOf v + s.peak - 1)

/-- after the ledger changed: refresh what the parked entries have seen -/
def refreshPend (s : OSt) (committedOn : Option String) : OSt :=
  { s with pend := s.pend.map fun p =>
      { p with seenBlock := p.seenBlock || viols s p.res p.args p.atts,
               raced := p.raced || committedOn == some p.res } }

def addLive (s : OSt) (id res : String) (as : List Val) (ats : List (String × Val)) : OSt :=
  refreshPend { s with live := { id := id, res := res, args := as, atts := ats } :: s.live } (some res)

/-- the part of a check shared by `entry` and `pentry`: verdict claimed by the property, regions, rule bookkeeping -/
def checkPhase (s : OSt) (res : String) (as : List Val) (ats : List (String × Val)) : OSt × Bool × Bool :=
  let j := judgeRules s res as ats s.rules false
  let wasOver := s.over.contains res
  let s1 : OSt := { s with rules := if wasOver then s.rules else j.2.1,
                           over := if j.2.2 && !wasOver then res :: s.over else s.over }
  (s1, j.1, wasOver)

/-- a (re)load on top of the rules in force, as the oracle follows it -/
def oracleReload (s : OSt) (rules : List Rule) : OSt :=
  let old := s.rules.map fun o => { o with fresh := false, compat := true }
  let new := reuseBuild (fun o => o.rule) ORule.inherit (rules.filter Rule.valid) old
  let ress := (new.map (·.rule.res) ++ s.stale ++ s.over).eraseDups
  let hasLive (res : String) : Bool := s.live.any (fun e => e.res == res) || s.pend.any (fun p => p.res == res)
  let concOf (res : String) : List ORule := new.filter fun o => o.rule.res == res && o.rule.conc
  -- a claim needs cells that mean what the ledger means: with entries alive, every concurrency rule of the resource
  -- must have kept / inherited its cells from a rule selecting the same argument; damaged cells stay damaged while inherited
  let stale := ress.filter fun res =>
    (hasLive res && (concOf res).any (fun o => !o.compat)) || (s.stale.contains res && (concOf res).any (fun o => !o.fresh))
  let over := ress.filter fun res => s.over.contains res && (concOf res).any (fun o => !o.fresh)
  { s with rules := new, stale := stale, over := over, pend := s.pend.map fun p => { p with reloaded := true } }

def stepOracle (s : OSt) (ts : List String) (line : String) : OSt × Option String :=
  let res? := resPart line
  let used (id : String) : Bool := s.live.any (fun e => e.id == id) || s.pend.any (fun p => p.id == id)
  match ts with
  | "load" :: rs => match parseRules? rs with
    | some rules =>
      ({ s with rules := (rules.filter Rule.valid).map fun r => { rule := r },
                over := [], stale := (s.live.map (·.res) ++ s.pend.map (·.res)).eraseDups }, none)
    | none => (s, some "bad-op")
  | "reload" :: rs => match parseRules? rs with
    | some rules => (oracleReload s rules, none)
    | none => (s, some "bad-op")
  | "reloadres" :: res :: rs => match parseRules? rs with
    | some rules =>
      -- the rules of the other resources are re-loaded as they are (their controllers are kept: equal rules)
      (oracleReload s ((s.rules.filter fun o => !(o.rule.res == res)).map (·.rule) ++ rules.filter fun r => r.res == res), none)
    | none => (s, some "bad-op")
  | ["trace", _] => (s, none)
  | ["exit", id, "err"] =>
    (refreshPend { s with live := s.live.filter fun e => !(e.id == id) } none, none)
  | ["flowblock", res] => ({ s with fb := res :: s.fb }, none)
  | "entry" :: id :: res :: rest => match parseEntryArgs? rest, res? with
    | some (as, ats), some got =>
      if used id || (batchOf rest == 0 && s.fb.contains res) then (s, some "bad-op") else
      let s := { s with peak := max s.peak (s.pend.length + 1) }
      let fin (s : OSt) : OSt := if got == "pass" then addLive s id res as ats else s
      if s.fb.contains res then
        (fin s, some (if got == "block flow" then "ok" else "bad expected block flow"))
      else
        let (s1, claimBlock, wasOver) := checkPhase s res as ats
        let claim := if claimBlock then "block hot" else "pass"
        let s2 := fin s1
        if got != "pass" && got != "block hot" then (s2, some ("bad unexpected result, claimed " ++ claim))
        else if s.stale.contains res then (s2, some "?")
        else if got == claim then (s2, some "ok")
        else if wasOver then (s2, some "known:cell-evicted")
        else (s2, some ("bad claimed " ++ claim))
    | _, _ => (s, some "bad-op")
  | "pentry" :: id :: res :: rest => match parseEntryArgs? rest with
    | some (as, ats) =>
      if used id || (batchOf rest == 0 && s.fb.contains res) then (s, some "bad-op") else
      let s := { s with peak := max s.peak (s.pend.length + 1) }
      let p0 : OPend := { id := id, res := res, args := as, atts := ats, fbAtCheck := false,
                          noClaim := s.stale.contains res, overAtCheck := false, claimBlock := false,
                          seenBlock := false, raced := false }
      if s.fb.contains res then ({ s with pend := { p0 with fbAtCheck := true } :: s.pend }, none)
      else
        let (s1, claimBlock, wasOver) := checkPhase s res as ats
        ({ s1 with pend := { p0 with overAtCheck := wasOver, claimBlock := claimBlock,
                                     seenBlock := claimBlock } :: s1.pend }, none)
    | none => (s, some "bad-op")
  | ["resume", id] => match res? with
    | none => (s, some "bad-op")
    | some got => match s.pend.find? (fun p => p.id == id) with
      | none => (s, some (if got == "none" then "ok" else "bad expected none"))
      | some p =>
        let s0 : OSt := { s with pend := s.pend.filter fun q => !(q.id == id) }
        let violNow := viols s0 p.res p.args p.atts
        let over := p.overAtCheck || s0.over.contains p.res
        let s1 := if got == "pass" then addLive s0 p.id p.res p.args p.atts else s0
        if p.fbAtCheck then (s1, some (if got == "block flow" then "ok" else "bad expected block flow"))
        else if got != "pass" && got != "block hot" then (s1, some "bad unexpected result")
        else if p.noClaim || s0.stale.contains p.res then (s1, some "?")
        else if got == "pass" then
          if !violNow || (!p.claimBlock && !p.raced) then (s1, some "ok")
          else if p.reloaded then (s1, some "?")
          else if over then (s1, some "known:cell-evicted")
          else if p.raced && !p.claimBlock then
            if withinBound s0 p.res p.args p.atts then (s1, some "known:check-then-act-overshoot")
            else (s1, some "bad overshoot beyond threshold + P - 1")
          else (s1, some "bad claimed block hot")
        else
          if p.seenBlock then (s1, some "ok")
          else if p.reloaded then (s1, some "?")
          else if over then (s1, some "known:cell-evicted")
          else (s1, some "bad claimed pass")
  | ["exit", id] =>
    (refreshPend { s with live := s.live.filter fun e => !(e.id == id) } none, none)
  | ["args", id] => match res? with
    | some got =>
      let want := match s.live.find? (fun e => e.id == id) with
        | some e => showList (e.args.map showVal)
        | none => "none"
      (s, some (if got == want then "ok" else "bad expected " ++ want))
    | none => (s, some "bad-op")
  | _ => (s, some "bad-op")

/-! ### `storm`: what the sequential probe of a round admits -/

def stormVal (kind : String) : Val := if kind == "s" then Val.str "w0" else Val.int 1000000

def stormOk (tcs : List Tc) (res : String) (fb : List String) : Bool :=
  !fb.contains res && tcs.all fun t => !(t.rule.res == res) || t.rule.conc

/-- sequential entries for `v` until the first refusal, at most `n` -/
def probe (s : St) (res : String) (v : Val) : Nat → Nat → St × Nat
  | 0, k => (s, k)
  | n + 1, k =>
    let r := entry s s!"probe{k}" res [v] []
    if r.2 == Res.pass then probe r.1 res v n (k + 1) else (r.1, k)

/-- one round run sequentially on the model: `g` entries, the admitted ones exit, then the probe -/
def stormModel (s : St) (res : String) (v : Val) (g : Nat) : Nat :=
  let s1 := (List.range g).foldl (fun s i => (entry s s!"storm{i}" res [v] []).1) s
  let s2 := (List.range g).foldl (fun s i => exit s s!"storm{i}") s1
  (probe s2 res v (g + 8) 0).2

def stepModelW (s : St × Bool) (ts : List String) (line : String) : (St × Bool) × Option String :=
  if s.2 then (s, some "bad-op") else
  match ts with
  | "storm" :: res :: kind :: g :: rounds :: x2 => match g.toNat?, rounds.toNat? with
    | some g, some _ =>
      if !(x2 == [] || x2 == ["x2"]) then (s, some "bad-op") else
      if !stormOk s.1.tcs res s.1.fb || !s.1.live.isEmpty || !s.1.pend.isEmpty then (s, some "bad-op") else
      let a := stormModel s.1 res (stormVal kind) g
      ((s.1, true), some s!"lo={a} hi={a}")
    | _, _ => (s, some "bad-op")
  | _ => let r := stepModel s.1 ts line; ((r.1, false), r.2)

/-- the property's own expectation for the probe: every cell of the value is back at 0, so each concurrency rule that
    selects the value admits exactly its threshold (0 if negative); the probe stops at the smallest, or at its cap -/
def stormClaim (s : OSt) (res : String) (v : Val) (g : Nat) : Nat :=
  s.rules.foldl (fun acc o =>
    let w := o.rule.sel res [v] []
    if w = Val.nil then acc else min acc (o.rule.thrOf w).toNat) (g + 8)

def stepOracleW (s : OSt × Bool) (ts : List String) (line : String) : (OSt × Bool) × Option String :=
  if s.2 then (s, some "bad-op") else
  match ts with
  | "storm" :: res :: kind :: g :: rounds :: x2 => match g.toNat?, rounds.toNat?, resPart line with
    | some g, some _, some got =>
      if !(x2 == [] || x2 == ["x2"]) then (s, some "bad-op") else
      if !stormOk (s.1.rules.map fun o => { rule := o.rule }) res s.1.fb || !s.1.live.isEmpty || !s.1.pend.isEmpty
      then (s, some "bad-op") else
      let a := stormClaim s.1 res (stormVal kind) g
      ((s.1, true), some (if got == s!"lo={a} hi={a}" then "ok" else s!"bad expected lo={a} hi={a}"))
    | _, _, _ => (s, some "bad-op")
  | _ => let r := stepOracle s.1 ts line; ((r.1, false), r.2)

def run (mode : String) : IO Unit :=
  match mode with
  | "model" => loop (({} : St), false) stepModelW
  | "oracle" => loop (({} : OSt), false) stepOracleW
  | _ => IO.eprintln s!"C06: unknown mode {mode}"

end Sentinel.Drv.C06
