import Sentinel.Drv.Common
/-! Driver for C06 (stub: replaced by the property's real driver) -/
namespace Sentinel.Drv.C06
def run (_mode : String) : IO Unit := IO.eprintln "C06: driver not implemented"
end Sentinel.Drv.C06
