import Sentinel.Drv.Common
import Sentinel.Model.Breaker
/-! Driver for C03: `model` = the breaker machine over the code-shaped leap array (`laOps`),
    `spec` = the same machine over the bare history of completions (`histOps`).

Ops: `clock <ms>`, `load <rule>…` / `loadres <res> <rule>…` (any number of times: `LoadRules` / `LoadRulesOfResource`; valid
rules are numbered consecutively over all loads; result = number of valid rules), rule syntax: `load <rule>…` (rule = `res,kind,retry,minReq,statI,buckets,maxRt,f:<thr bits>,probeNum`,
`kind` 0 slow-ratio / 1 error-ratio / 2 error-count) `=> <number of valid rules>`, `entry <id> <res> [#<batch>]`
`=> pass | block <rule index>`, `exit <id> [err[:<type>:<how>]]`, `clearres <res>`, `state <res>` `=> [<id><C|O|H>…]` (every identity ever handed out for the resource), `log` `=> [events since the last log]`. -/
namespace Sentinel.Drv.C03
open Sentinel.LA Sentinel.CB Sentinel.Drv

/-- `util.precision = 0.00000001` as a float64 -/
def eps : Float := Float.ofBits 0x3E45798EE2308C3A

/-- the trip predicate exactly as the code evaluates it (binary64):
    `ratio > T || math.Abs(ratio-T) < 1e-8`, resp. `errorCount >= uint64(T)` -/
def reachedF (kind : Kind) (thr : Float) (bad total : Nat) : Bool :=
  match kind with
  | .count => decide (thr.toUInt64.toNat ≤ bad)
  | _ =>
    let ratio := bad.toFloat / total.toFloat
    ratio > thr || Float.abs (ratio - thr) < eps

/-- `IsValidRule` (resource name non-empty is guaranteed by the tokeniser) -/
def validRule (kind : Kind) (retry statI : Nat) (thr : Float) : Bool :=
  decide (0 < statI) && decide (0 < retry) && !(thr < 0.0) && (kind == .count || !(thr > 1.0))

structure PRule where
  rule : Rule
  thr : Float
  valid : Bool

def parseRule? (s : String) : Option PRule :=
  match s.splitOn "," with
  | [res, k, retry, minReq, statI, buckets, maxRt, thr, probe] =>
    match k.toNat?, retry.toNat?, minReq.toNat?, statI.toNat?, buckets.toNat?, maxRt.toNat?, parseFbits? thr, probe.toNat? with
    | some k, some retry, some minReq, some statI, some buckets, some maxRt, some thr, some probe =>
      let kind? : Option Kind := match k with | 0 => some .slow | 1 => some .ratio | 2 => some .count | _ => none
      if res.isEmpty then none else
      kind?.map fun kind =>
        { rule := { res := res, kind := kind, retryMs := retry, minReq := minReq, statI := statI, buckets := buckets,
                    maxRt := maxRt, probeNum := probe, thrBits := thr.toBits.toNat, reached := reachedF kind thr },
          thr := thr, valid := validRule kind retry statI thr }
    | _, _, _, _, _, _, _, _ => none
  | _ => none

def parseRules? : List String → Option (List PRule)
  | [] => some []
  | s :: r => match parseRule? s, parseRules? r with
    | some a, some b => some (a :: b)
    | _, _ => none

def stCh : St → String | .closed => "C" | .halfOpen => "H" | .opened => "O"

def one : String := "f:3ff0000000000000"

def showEv (kinds : List (Nat × Kind)) (e : Ev) : String :=
  let kind := (kinds.find? (·.1 = e.id)).map (·.2) |>.getD .slow
  match e.tr with
  | .toHalfOpen => s!"{e.id}:OH"
  | .toClosed => s!"{e.id}:HC"
  | .toOpen prev snap =>
    let sn := match snap, kind with
      | .stat bad _, .count => s!"u{bad}"
      | .stat bad total, _ => fbits (bad.toFloat / total.toFloat)
      | .probe, .count => "i1"
      | .probe, _ => one
      | .rollback, _ => one
    s!"{e.id}:{stCh prev}O:{sn}"

structure DSt (W : Type) where
  s : Sys W := {}
  pending : List String := []              -- listener callbacks not yet shown by `log` (rendered when emitted)
  ids : List (Nat × String) := []          -- every identity handed out so far (valid rules of all loads) with its resource
  last : List (Nat × St) := []             -- last known state of every breaker that ever existed

def kindsOf {W} (s : Sys W) : List (Nat × Kind) := s.brs.map fun b => (b.id, b.rule.kind)

/-- remember the state of every live breaker (dead ones keep the state they had when they were dropped) -/
def remember {W} (last : List (Nat × St)) (s : Sys W) : List (Nat × St) :=
  s.brs.map (fun b => (b.id, b.st)) ++ last.filter fun p => !(s.brs.any fun b => b.id == p.1)

/-- run one op, render its callbacks with the strategies of the breakers that emitted them -/
def exec {W} (ops : Rule → WinOps W) (d : DSt W) (o : Op) : DSt W × Out :=
  let r := step ops d.s o
  let kinds := kindsOf d.s ++ kindsOf r.1
  ({ d with s := r.1, pending := d.pending ++ r.2.evs.map (showEv kinds), last := remember d.last r.1 }, r.2)

def stepD {W} (ops : Rule → WinOps W) (d : DSt W) (ts : List String) (_ : String) :
    DSt W × Option String :=
  match ts with
  | ["clock", t] => match t.toNat? with
      | some t => if t < d.s.now ∨ t = 0 then (d, some "bad-op") else ((exec ops d (.clock t)).1, none)
      | none => (d, some "bad-op")
  | "load" :: rs =>
      -- `LoadRules`: the valid rules get the identities `next, next+1, …` in list order
      if d.s.now = 0 then (d, some "bad-op") else
      match parseRules? rs with
      | none => (d, some "bad-op")
      | some prs =>
        let vs := (prs.filter (·.valid)).map (·.rule)
        let ids := (List.range vs.length).zip vs |>.map fun p => (d.s.next + p.1, p.2.res)
        let d' := (exec ops d (.load vs)).1
        ({ d' with ids := d.ids ++ ids }, some (toString vs.length))
  | "loadres" :: res :: rs =>
      -- `LoadRulesOfResource(res, …)`; rules naming another resource are not part of the op language
      if d.s.now = 0 ∨ res.isEmpty then (d, some "bad-op") else
      match parseRules? rs with
      | none => (d, some "bad-op")
      | some prs =>
        if prs.any (fun p => p.rule.res != res) then (d, some "bad-op") else
        let vs := (prs.filter (·.valid)).map (·.rule)
        let ids := (List.range vs.length).zip vs |>.map fun p => (d.s.next + p.1, p.2.res)
        let d' := (exec ops d (.loadRes res vs)).1
        ({ d' with ids := d.ids ++ ids }, some (toString vs.length))
  | ["clearres", res] =>
      -- `ClearRulesOfResource(res)` = `LoadRulesOfResource(res, nil)`
      if d.s.now = 0 ∨ res.isEmpty then (d, some "bad-op") else ((exec ops d (.loadRes res [])).1, none)
  | "entry" :: id :: res :: rest =>
      -- optional `#<n>` = `WithBatchCount(n)`; the machine ignores it
      let batch? : Option Nat := match rest with
        | [] => some 1
        | [b] => if b.startsWith "#" then (b.drop 1).toString.toNat? else none
        | _ => none
      match id.toNat?, batch? with
      | some id, some batch =>
        let r := exec ops d (.entry id res batch)
        let txt := match r.2.dec with
          | some (some k) => s!"block {k}"
          | _ => "pass"
        (r.1, some txt)
      | _, _ => (d, some "bad-op")
  | "exit" :: id :: rest => match id.toNat? with
      | some id =>
        -- `err[:<type>:<how>]`: whatever the error's dynamic type (plain | wrapped | block | niltyped) and however
        -- it is reported (trace | exitopt | seterr), a non-nil error makes this an error completion
        let err? : Option Bool := match rest with
          | [] => some false
          | [e] => match e.splitOn ":" with
            | ["err"] => some true
            | ["err", ty, how] =>
              if ["plain", "wrapped", "block", "niltyped"].contains ty ∧ ["trace", "exitopt", "seterr"].contains how
              then some true else none
            | _ => none
          | _ => none
        match err? with
        | none => (d, some "bad-op")
        | some err => ((exec ops d (.exit id err)).1, none)
      | none => (d, some "bad-op")
  | ["state", res] =>
      -- every identity ever handed out for this resource, in order, with its last known state
      -- (never bound to a breaker — the old equal breaker was kept — or never moved: Closed)
      (d, some (showList ((d.ids.filter (·.2 = res)).map fun p =>
        s!"{p.1}{stCh (((d.last.find? (·.1 = p.1)).map (·.2)).getD .closed)}")))
  | ["log"] => ({ d with pending := [] }, some (showList d.pending))
  | _ => (d, some "bad-op")

def run (mode : String) : IO Unit :=
  if mode == "spec" then
    loop ({} : DSt (List (Nat × Cnt))) (stepD histOps)
  else
    loop ({} : DSt (Arr Cnt)) (stepD laOps)

end Sentinel.Drv.C03
