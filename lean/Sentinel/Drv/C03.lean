import Sentinel.Drv.Common
import Sentinel.Model.Breaker
/-! Driver for C03: `model` = the breaker machine over the code-shaped leap array (`laOps`),
    `spec` = the same machine over the bare history of completions (`histOps`).

Ops: `clock <ms>`, `load <rule>…` (rule = `res,kind,retry,minReq,statI,buckets,maxRt,f:<thr bits>,probeNum`,
`kind` 0 slow-ratio / 1 error-ratio / 2 error-count) `=> <number of valid rules>`, `entry <id> <res> [#<batch>]`
`=> pass | block <rule index>`, `exit <id> [err]`, `state <res>` `=> [C,O,H…]`, `log` `=> [events since the last log]`. -/
namespace Sentinel.Drv.C03
open Sentinel.LA Sentinel.CB Sentinel.Drv

/-- `util.precision = 0.00000001` as a float64 -/
def eps : Float := Float.ofBits 0x3E45798EE2308C3A

/-- the trip predicate exactly as the code evaluates it (binary64):
    `ratio > T || math.Abs(ratio-T) < 1e-8`, resp. `errorCount >= uint64(T)` -/
def reachedF (kind : Kind) (thr : Float) (bad total : Nat) : Bool :=
  match kind with
  | .count => decide (thr.toUInt64.toNat ≤ bad)
  | _ =>
    let ratio := bad.toFloat / total.toFloat
    ratio > thr || Float.abs (ratio - thr) < eps

/-- `IsValidRule` (resource name non-empty is guaranteed by the tokeniser) -/
def validRule (kind : Kind) (retry statI : Nat) (thr : Float) : Bool :=
  decide (0 < statI) && decide (0 < retry) && !(thr < 0.0) && (kind == .count || !(thr > 1.0))

structure PRule where
  rule : Rule
  thr : Float
  valid : Bool

def parseRule? (s : String) : Option PRule :=
  match s.splitOn "," with
  | [res, k, retry, minReq, statI, buckets, maxRt, thr, probe] =>
    match k.toNat?, retry.toNat?, minReq.toNat?, statI.toNat?, buckets.toNat?, maxRt.toNat?, parseFbits? thr, probe.toNat? with
    | some k, some retry, some minReq, some statI, some buckets, some maxRt, some thr, some probe =>
      let kind? : Option Kind := match k with | 0 => some .slow | 1 => some .ratio | 2 => some .count | _ => none
      if res.isEmpty then none else
      kind?.map fun kind =>
        { rule := { res := res, kind := kind, retryMs := retry, minReq := minReq, statI := statI, buckets := buckets,
                    maxRt := maxRt, probeNum := probe, reached := reachedF kind thr },
          thr := thr, valid := validRule kind retry statI thr }
    | _, _, _, _, _, _, _, _ => none
  | _ => none

def parseRules? : List String → Option (List PRule)
  | [] => some []
  | s :: r => match parseRule? s, parseRules? r with
    | some a, some b => some (a :: b)
    | _, _ => none

def stCh : St → String | .closed => "C" | .halfOpen => "H" | .opened => "O"

def one : String := "f:3ff0000000000000"

def showEv (kinds : List (Nat × Kind)) (e : Ev) : String :=
  let kind := (kinds.find? (·.1 = e.id)).map (·.2) |>.getD .slow
  match e.tr with
  | .toHalfOpen => s!"{e.id}:OH"
  | .toClosed => s!"{e.id}:HC"
  | .toOpen prev snap =>
    let sn := match snap, kind with
      | .stat bad _, .count => s!"u{bad}"
      | .stat bad total, _ => fbits (bad.toFloat / total.toFloat)
      | .probe, .count => "i1"
      | .probe, _ => one
      | .rollback, _ => one
    s!"{e.id}:{stCh prev}O:{sn}"

structure DSt (W : Type) where
  s : Sys W := {}
  loaded : Bool := false
  pending : List Ev := []         -- listener callbacks not yet shown by `log`

def kindsOf {W} (s : Sys W) : List (Nat × Kind) := s.brs.map fun b => (b.id, b.rule.kind)

/-- number the rules by their position in the load list, keep the valid ones -/
def numbered (rs : List PRule) : List (Nat × PRule) := (List.range rs.length).zip rs |>.filter (·.2.valid)

def stepD {W} (ops : Rule → WinOps W) (mkB : Nat → Rule → Nat → Brk W) (d : DSt W) (ts : List String) (_ : String) :
    DSt W × Option String :=
  match ts with
  | ["clock", t] => match t.toNat? with
      | some t => if t < d.s.now ∨ t = 0 then (d, some "bad-op") else ({ d with s := (step ops d.s (.clock t)).1 }, none)
      | none => (d, some "bad-op")
  | "load" :: rs =>
      if d.loaded ∨ d.s.now = 0 then (d, some "bad-op") else
      match parseRules? rs with
      | none => (d, some "bad-op")
      | some prs =>
        let brs := (numbered prs).map fun p => mkB p.1 p.2.rule d.s.now
        ({ d with s := { d.s with brs := brs }, loaded := true }, some (toString brs.length))
  | "entry" :: id :: res :: rest =>
      -- optional `#<n>` = `WithBatchCount(n)`; the machine ignores it
      let batch? : Option Nat := match rest with
        | [] => some 1
        | [b] => if b.startsWith "#" then (b.drop 1).toString.toNat? else none
        | _ => none
      match id.toNat?, batch? with
      | some id, some batch =>
        let r := step ops d.s (.entry id res batch)
        let txt := match r.2.dec with
          | some (some k) => s!"block {k}"
          | _ => "pass"
        ({ d with s := r.1, pending := d.pending ++ r.2.evs }, some txt)
      | _, _ => (d, some "bad-op")
  | "exit" :: id :: rest => match id.toNat? with
      | some id =>
        if rest ≠ [] ∧ rest ≠ ["err"] then (d, some "bad-op") else
        let r := step ops d.s (.exit id (rest == ["err"]))
        ({ d with s := r.1, pending := d.pending ++ r.2.evs }, none)
      | none => (d, some "bad-op")
  | ["state", res] =>
      (d, some (showList ((d.s.brs.filter (·.rule.res = res)).map fun b => stCh b.st)))
  | ["log"] => ({ d with pending := [] }, some (showList (d.pending.map (showEv (kindsOf d.s)))))
  | _ => (d, some "bad-op")

def run (mode : String) : IO Unit :=
  if mode == "spec" then
    loop ({} : DSt (List (Nat × Cnt))) (stepD histOps fun id r _ => Brk.newAbs id r)
  else
    loop ({} : DSt (Arr Cnt)) (stepD laOps Brk.new)

end Sentinel.Drv.C03
