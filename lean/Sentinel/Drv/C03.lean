import Sentinel.Drv.Common
/-! Driver for C03 (stub: replaced by the property's real driver) -/
namespace Sentinel.Drv.C03
def run (_mode : String) : IO Unit := IO.eprintln "C03: driver not implemented"
end Sentinel.Drv.C03
