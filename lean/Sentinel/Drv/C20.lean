import Sentinel.Drv.Common
import Sentinel.Model.Outlier
/-! Driver for C20: `model` = code-shaped outlier slot over per-node breakers; `oracle` = judges an
implementation trace (filter ⊆ rejecting, |filter| ≤ ⌊n·p⌋ exactly, |filter| = min cap #rejecting,
half-open set exact, a node that succeeded since it was scheduled is not recycled). -/
namespace Sentinel.Drv.C20
open Sentinel.Outlier Sentinel.Drv

/-- a loaded rule as written in the `load` op (kept to recognise an identical breaker part on reload) -/
structure RuleText where
  cbPart : List String
  m : Nat            -- MaxEjectionPercent = m / 2^E
  E : Nat
  loaded : Bool := true   -- false after `clearres` (no rule in force; the recycler object and its map survive)
  peBits : String := ""   -- MaxEjectionPercent as written
  active : Bool := false

structure St where
  now : Nat := 1900000000000   -- every case starts here (the Go harness resets its virtual clock to it)
  res : List (String × Res × RuleText) := []

/-- binary64 bit pattern of a finite non-negative float ↦ `(m, E)` with value `m / 2^E` -/
def decodeF (bits : Nat) : Option (Nat × Nat) :=
  let sign := bits / 2 ^ 63
  let e := (bits / 2 ^ 52) % 2048
  let f := bits % 2 ^ 52
  if sign ≠ 0 ∨ e = 2047 then none
  else if e = 0 then some (f, 1074)
  else if e ≤ 1075 then some (2 ^ 52 + f, 1075 - e)
  else some ((2 ^ 52 + f) * 2 ^ (e - 1075), 0)

def parseF? (s : String) : Option (Nat × Nat) :=
  if s.startsWith "f:" then (parseHex? (s.drop 2).toString).bind decodeF else none

def stName : CbState → String
  | .closed => "C" | .halfOpen => "H" | .opened => "O"

def sortS (xs : List String) : List String := (xs.toArray.qsort (· < ·)).toList

def showStates (ns : Nodes) : String :=
  showList (sortS (ns.map fun p => p.1 ++ ":" ++ stName p.2.state))

def sortNodes (ns : Nodes) : Nodes := (ns.toArray.qsort (fun a b => a.1 < b.1)).toList

def getRes (s : St) (name : String) : Option (Res × RuleText) := (s.res.find? (·.1 == name)).map (·.2)

def setRes (s : St) (name : String) (r : Res) (t : RuleText) : St :=
  if s.res.any (·.1 == name) then { s with res := s.res.map fun p => if p.1 == name then (name, r, t) else p }
  else { s with res := s.res ++ [(name, r, t)] }

/-- `Float64Equals` precision -/
def precision : Float := 0.00000001

def mkCbRule (strategy retry minReq interval bc maxRt probe : Nat) (thr : Float) : CbRule :=
  let n := if bc = 0 ∨ interval % bc ≠ 0 then 1 else bc
  { retryTimeoutMs := retry, probeNum := probe, minReq := minReq, n := n, L := interval / n,
    isBad := fun rt err => if strategy = 0 then decide (maxRt < rt) else err,
    trip := fun bad total =>
      if strategy = 2 then decide (thr.toUInt64.toNat ≤ bad)
      else
        let ratio := bad.toFloat / total.toFloat
        ratio > thr || (ratio - thr).abs < precision }

/-- what a request (`Entry`) observes, in canonical form; `raw` = print the chosen filter set even when
    the choice depends on the iteration order -/
def showCheck (n : Nat) (out : CheckOut) (post : Nodes) : String :=
  let rej := sortS out.outliers
  let f := if out.filters.length < rej.length then "*" else showList (sortS out.filters)
  s!"n={n} nf={out.filters.length} rej={showList rej} filter={f} halfopen={showList (sortS out.halfs)} post={showStates post}"

/-- `load` (bulk `outlier.LoadRules` of all rules of the case) and `loadres` (`outlier.LoadRuleOfResource`): both end in
    `BuildResourceCircuitBreaker(res, [rule], [old breaker])` per node.  An invalid rule on the per-resource path returns an
    error and leaves the previous rule in force (C13 finding `outlier-invalid-keeps-old`); on the bulk path it is not generated. -/
def loadStep (s : St) (perRes : Bool) (args : List String) : St × Option String :=
  match args with
  | [name, strat, retry, minReq, interval, bc, maxRt, thr, probe, maxEj, active] =>
    match strat.toNat?, retry.toNat?, minReq.toNat?, interval.toNat?, bc.toNat?, maxRt.toNat?, parseFbits? thr,
          probe.toNat?, parseF? maxEj, active.toNat? with
    | some strat, some retry, some minReq, some interval, some bc, some maxRt, some thrF, some probe, some (m, E), some act =>
      let cbPart := [strat.repr, retry.repr, minReq.repr, interval.repr, bc.repr, maxRt.repr, thr, probe.repr]
      -- IsValidRule of both packages
      if strat > 2 then (s, some "bad-op") else
      if interval = 0 ∨ retry = 0 ∨ thrF < 0.0 ∨ thrF.isNaN ∨ (strat ≤ 1 ∧ thrF > 1.0) ∨ m > 2 ^ E then
        -- per-resource path: error, the old rule stays; bulk path: the invalid rule is ignored, so the resource has
        -- no rule any more and `updateAllBreakers` drops its node breakers
        (if perRes then (s, some "err") else
          match getRes s name with
          | some (r, t) => (setRes s name r.clear { t with loaded := false }, some "invalid")
          | none => (s, some "invalid")) else
      let rule : Rule := { cb := mkCbRule strat retry minReq interval bc maxRt probe thrF, active := act ≠ 0,
                           cap := fun n => capF64 n m E }
      let nt : RuleText := { cbPart := cbPart, m := m, E := E, peBits := maxEj, active := act ≠ 0 }
      match getRes s name with
      | none => (setRes s name { rule := rule } nt, some "ok")
      | some (r, t) =>
        -- after a clear there are no node breakers to carry over
        if !t.loaded ∨ r.nodes.isEmpty then (setRes s name { r with rule := rule } nt, some "ok") else
        -- an equal breaker rule keeps every node breaker (`BuildResourceCircuitBreaker` reuses equal ones)
        if t.cbPart = cbPart then (setRes s name { r with rule := rule } nt, some "ok") else
        -- `Rule.isEqualsTo` (base fields; MaxAllowedRtMs only for the slow-request strategy; thresholds by `Float64Equals`)
        let nth (l : List String) (i : Nat) : String := l.getD i ""
        let same (i : Nat) : Bool := nth t.cbPart i == nth cbPart i
        let baseEq := same 0 && same 1 && same 2 && same 3 && same 4 && same 7
        let thrOld := ((parseFbits? (nth t.cbPart 6)).getD 0.0)
        let equalTo := baseEq && (strat ≠ 0 || same 5) && ((thrOld - thrF).abs < precision)
        if equalTo then
          -- the old breakers stay bound to the old rule; only claimed when that is indistinguishable (same threshold bits)
          if same 6 then (setRes s name { r with rule := rule } nt, some "ok") else (s, some "bad-op")
        else
          -- `isStatReusable`: strategy, interval and (raw) bucket count unchanged
          (setRes s name (r.rebuild rule s.now (same 0 && same 3 && same 4)) nt, some "ok")
    | _, _, _, _, _, _, _, _, _, _ => (s, some "bad-op")
  | _ => (s, some "bad-op")

def modelStep (s : St) (ts : List String) : St × Option String :=
  match ts with
  | "load" :: args => loadStep s false args
  | "loadres" :: args => loadStep s true args
  | ["clearres", name] => match getRes s name with
    -- `LoadRuleOfResource(res, nil)`: rule and node breakers of the resource are dropped
    | some (r, t) => (setRes s name r.clear { t with loaded := false }, some "ok")
    | none => (s, some "ok")
  | ["recovery", _, ma, ims] =>
    -- MaxRecoveryAttempts / RecoveryIntervalMs of the rules loaded from now on: only the retryer's real-time timers read
    -- them; neither the check nor the recycler does (in particular `MaxRecoveryAttempts = 0` does not switch to passive mode)
    if ma.toNat?.isSome ∧ ims.toNat?.isSome then (s, none) else (s, some "bad-op")
  | ["rules"] =>
    -- `outlier.GetRules()`: the rules in force, as (resource, MaxEjectionPercent, EnableActiveRecovery)
    (s, some (showList (sortS ((s.res.filter fun p => p.2.2.loaded).map fun p =>
      p.1 ++ ":" ++ p.2.2.peBits ++ ":" ++ (if p.2.2.active then "1" else "0")))))
  | ["unload", name] => match getRes s name with
    -- bulk `LoadRules` of a rule set that omits the resource: `updateAllBreakers` keeps node breakers only for
    -- resources that still have a rule
    | some (r, t) => (setRes s name r.clear { t with loaded := false }, some "ok")
    | none => (s, some "ok")
  | ["check", name, addr, oc] => match getRes s name with
    -- `Retryer.connectNode` with a scripted `RecoveryCheckFunc`: success = `onConnected(node, 0)`,
    -- failure = `onDisconnected(node)` (re-arms a timer, touches nothing else)
    | some (r, t) =>
      if !t.loaded ∨ (oc ≠ "ok" ∧ oc ≠ "fail") then (s, some "bad-op") else
      let r1 := if oc == "ok" then r.retryOk s.now addr 0 else r.retryFail addr
      (setRes s name r1 t, some s!"nodes={showStates r1.nodes}")
    | none => (s, some "bad-op")
  | ["clock", t] => match t.toNat? with
    | some t => if s.now ≤ t then ({ s with now := t }, none) else (s, some "bad-op")
    | none => (s, some "bad-op")
  | ["call", name, addr, oc, rt] => match getRes s name, rt.toNat? with
    | some (r, t), some rt =>
      if addr = "" ∨ (oc ≠ "ok" ∧ oc ≠ "err") ∨ !t.loaded then (s, some "bad-op") else
      let (r1, out) := r.check s.now (sortNodes r.nodes)
      let now := s.now + rt
      -- addresses are percent-encoded tokens (injective), `%E` is the empty address: `TraceCallee` ignores it
      let r2 := r1.completed now (if addr = "%E" then "" else addr) rt (oc == "err")
      (setRes { s with now := now } name r2 t, some (showCheck r.nodes.length out r1.nodes ++ s!" end={showStates r2.nodes}"))
    | _, _ => (s, some "bad-op")
  | ["probe", name] => match getRes s name with
    | some (r, t) =>
      let (r1, out) := r.check s.now (sortNodes r.nodes)
      (setRes s name r1 t, some (showCheck r.nodes.length out r1.nodes ++ s!" end={showStates r1.nodes}"))
    | none => (s, some "bad-op")
  | ["recycle", name, addr] => match getRes s name with
    | some (r, t) =>
      let r1 := r.recycle addr
      (setRes s name r1 t, some s!"n={r1.nodes.length} nodes={showStates r1.nodes}")
    | none => (s, some "bad-op")
  | ["retry", name, addr, rt] => match getRes s name, rt.toNat? with
    | some (r, t), some rt =>
      if !t.loaded then (s, some "bad-op") else
      let r1 := r.retryOk s.now addr rt
      (setRes s name r1 t, some s!"nodes={showStates r1.nodes}")
    | _, _ => (s, some "bad-op")
  | ["cap", n, p] => match n.toNat?, parseF? p with
    | some n, some (m, E) => (s, some (capF64 n m E).repr)
    | _, _ => (s, some "bad-op")
  | ["capdec", n, k] => match n.toNat?, k.toNat? with
    | some n, some k =>
      let p := k.toFloat / 100.0
      match decodeF p.toBits.toNat with
      | some (m, E) => (s, some s!"cap={capF64 n m E} p={fbits p}")
      | none => (s, some "bad-op")
    | _, _ => (s, some "bad-op")
  | _ => (s, some "bad-op")

/-! ## oracle

The oracle judges the **implementation's own trace**: the node count, the set of nodes whose real breaker
answers `TryPass = false` (`rej=`, asked by the harness right after the check), the real breaker states
after the check (`post=`), against the reported filter / half-open lists.  From the op history it only
takes the rule (`MaxEjectionPercent` as the exact rational `m / 2^E`, `EnableActiveRecovery`) and the
recycler bookkeeping (`stSchedule` / `stRecover` / `stRecycle` of the model, fed with the observed outliers). -/

structure ORes where
  m : Nat
  E : Nat
  active : Bool
  status : Status := []
  loaded : Bool := true
  /-- node addresses last observed for the resource (`end=` / `nodes=`), emptied by `clearres` -/
  known : List String := []

structure OSt where
  res : List (String × ORes) := []

def oGet (s : OSt) (name : String) : Option ORes := (s.res.find? (·.1 == name)).map (·.2)

def oSet (s : OSt) (name : String) (r : ORes) : OSt :=
  if s.res.any (·.1 == name) then { s with res := s.res.map fun p => if p.1 == name then (name, r) else p }
  else { s with res := s.res ++ [(name, r)] }

def field (res : String) (key : String) : Option String :=
  ((res.splitOn " ").find? (·.startsWith (key ++ "="))).map fun f => (f.drop (key.length + 1)).toString

def parseList (s : String) : Option (List String) :=
  if s.startsWith "[" && s.endsWith "]" then
    let inner := ((s.drop 1).dropEnd 1).toString
    some (if inner.isEmpty then [] else inner.splitOn ",")
  else none

def subset (xs ys : List String) : Bool := xs.all fun x => ys.contains x

/-- addresses of an observed `key=[a:C,b:O,…]` list (the previous knowledge when the field is missing) -/
def addrsOf (res key : String) (dflt : List String) : List String :=
  match (field res key).bind parseList with
  | some l => l.filterMap fun x => (x.splitOn ":").head?
  | none => dflt

/-- judge one observed request; returns the verdict and the observed rejecting set -/
def judgeCheck (r : ORes) (res : String) : String × List String :=
  match (field res "n").bind String.toNat?, (field res "nf").bind String.toNat?, field res "filter",
        (field res "halfopen").bind parseList, (field res "rej").bind parseList, (field res "post").bind parseList with
  | some n, some nf, some fl, some halfs, some rej, some post =>
    let flist := if fl = "*" then some none else (parseList fl).map some
    match flist with
    | none => ("bad unparsable-filter", rej)
    | some fo =>
      let subOk := match fo with
        | none => true      -- the harness printed `*`: it found the chosen set to be a proper subset of `rej`
        | some l => subset l rej && l.length == nf && l.eraseDups.length == l.length
      -- passively probed: passive mode, let through (not rejecting), half-open after the check
      let halfExp := if r.active then [] else
        sortS (post.filterMap fun x => match x.splitOn ":" with
          | [a, "H"] => if rej.contains a then none else some a
          | _ => none)
      let capC := capF64 n r.m r.E
      let floorE := capExact n r.m r.E
      let postAddrs := post.filterMap fun x => (x.splitOn ":").head?
      if post.length ≠ n then ("bad node-count", rej)
      -- the known nodes are those seen completing since the rule was (re)loaded, minus the recycled ones: nothing else
      -- may add or remove a node between two observations
      else if sortS postAddrs ≠ sortS r.known then ("bad known-node-set-changed-without-event", rej)
      else if !subOk then ("bad filter-not-subset-of-rejecting", rej)
      else if sortS halfs ≠ halfExp then ("bad halfopen-set", rej)
      else if nf > floorE + 1 ∨ nf > capC then ("bad filter-exceeds-floor", rej)
      else if nf ≠ min capC rej.length then ("bad filter-size-not-min-cap-rejecting", rej)
      else if nf ≤ floorE then ("ok", rej)
      else ("known:cap-float-roundup", rej)
  | _, _, _, _, _, _ => ("bad unparsable", [])

def oracleStep (s : OSt) (ts : List String) (line : String) : OSt × Option String :=
  let res := (resPart line).getD ""
  match ts with
  -- the rule in force is the one of the latest load (either path) that reported success
  | [op, name, _, _, _, _, _, _, _, _, maxEj, active] =>
    if op ≠ "load" ∧ op ≠ "loadres" then (s, some "bad-op") else
    match parseF? maxEj, active.toNat? with
    | some (m, E), some act =>
      if res = "invalid" ∧ op = "load" then
        -- bulk load of an invalid rule: the resource is left without a rule, its nodes are dropped
        match oGet s name with
        | some r => (oSet s name { r with m := 0, E := 0, active := false, loaded := false, known := [] }, some "?")
        | none => (s, some "?")
      else
      if res ≠ "ok" then (s, some "?") else
      let st := ((oGet s name).map (·.status)).getD []
      let kn := ((oGet s name).map (·.known)).getD []
      (oSet s name { m := m, E := E, active := act ≠ 0, status := st, known := kn }, some "?")
    | _, _ => (s, some (if op = "loadres" ∧ res = "err" then "?" else "bad-op"))
  | ["recovery", _, _, _] => (s, none)
  | ["rules"] => (s, some "?")
  | ["unload", name] => match oGet s name with
    | some r => (oSet s name { r with m := 0, E := 0, active := false, loaded := false, known := [] }, some "?")
    | none => (s, some "?")
  | ["check", name, addr, oc] => match oGet s name with
    | some r =>
      if !r.loaded then (s, some "bad-op") else
      let st := if oc == "ok" then stRecover r.status addr else r.status     -- a failed check changes nothing
      (oSet s name { r with status := st, known := addrsOf res "nodes" r.known }, some "?")
    | none => (s, some "bad-op")
  | ["clearres", name] => match oGet s name with
    -- no rule in force: nothing may be filtered (cap 0); the recycler map survives
    | some r => (oSet s name { r with m := 0, E := 0, active := false, loaded := false, known := [] }, some "?")
    | none => (s, some "?")
  | ["clock", t] => if t.toNat?.isSome then (s, none) else (s, some "bad-op")
  | ["call", name, addr, oc, _] => match oGet s name with
    | some r =>
      if !r.loaded then (s, some "bad-op") else
      let (v, rej) := judgeCheck r res
      let st := if rej.isEmpty then r.status else stSchedule r.status rej
      let st := if oc == "ok" ∧ addr ≠ "%E" then stRecover st addr else st
      let known := addrsOf res "end" r.known
      -- a callee that completed a request is a known node afterwards, under the address it was traced with
      let v := if v.startsWith "bad" ∨ addr = "%E" ∨ known.contains addr then v else "bad completed-node-not-known"
      (oSet s name { r with status := st, known := known }, some v)
    | none => (s, some "bad-op")
  | ["probe", name] => match oGet s name with
    | some r =>
      let (v, rej) := judgeCheck r res
      (oSet s name { r with status := if rej.isEmpty then r.status else stSchedule r.status rej,
                            known := addrsOf res "end" r.known }, some v)
    | none => (s, some "bad-op")
  | ["retry", name, addr, _] => match oGet s name with
    | some r =>
      if !r.loaded then (s, some "bad-op") else
      (oSet s name { r with status := stRecover r.status addr, known := addrsOf res "nodes" r.known }, some "?")
    | none => (s, some "bad-op")
  | ["recycle", name, addr] => match oGet s name with
    | some r =>
      -- a node marked recovered (successful completion since it was scheduled) must survive the timer;
      -- judged only for a node that was known just before (a `clearres` drops every node by itself)
      let safe := (r.status.any fun p => p.1 == addr && p.2) && r.known.contains addr
      let after := addrsOf res "nodes" r.known
      let s' := oSet s name { r with status := (stRecycle r.status addr).1, known := after }
      match (field res "nodes").bind parseList with
      | some _ =>
        if safe then (s', some (if after.contains addr then "ok" else "bad recycled-after-success")) else (s', some "?")
      | none => (s', some "bad unparsable")
    | none => (s, some "bad-op")
  | ["cap", n, p] => match n.toNat?, parseF? p, res.toNat? with
    | some n, some (m, E), some c =>
      let fl := capExact n m E
      (s, some (if c ≤ fl then "ok" else if c = fl + 1 then "known:cap-float-roundup" else "bad cap-exceeds-floor"))
    | _, _, _ => (s, some "bad unparsable")
  | ["capdec", n, k] => match n.toNat?, k.toNat?, (field res "cap").bind String.toNat? with
    | some n, some k, some c =>
      -- decimal percentage k/100: the code's cap is ⌊n·k/100⌋ or one lower, never higher
      let fl := n * k / 100
      (s, some (if c ≤ fl ∧ fl ≤ c + 1 then "ok" else "bad decimal-cap"))
    | _, _, _ => (s, some "bad unparsable")
  | _ => (s, some "bad-op")

def run (mode : String) : IO Unit :=
  match mode with
  | "model" => loop ({} : St) fun s ts _ => modelStep s ts
  | "oracle" => loop ({} : OSt) fun s ts line => oracleStep s ts line
  | _ => IO.eprintln s!"C20: unknown mode {mode}"

end Sentinel.Drv.C20
