import Sentinel.Drv.Common
/-! Driver for C20 (stub: replaced by the property's real driver) -/
namespace Sentinel.Drv.C20
def run (_mode : String) : IO Unit := IO.eprintln "C20: driver not implemented"
end Sentinel.Drv.C20
