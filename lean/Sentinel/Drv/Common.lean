/-!
# Line-protocol plumbing shared by all drivers (core Lean only)

Input: one op per line, optionally followed by ` => <result>` (ignored: the same file the Go
harness produced can be fed back).  A line `case <id>` starts a fresh case (state reset).
Output: the op text, followed by ` => <result>` when the op is an observation.
-/
namespace Sentinel.Drv

def hexDigit (n : Nat) : Char := if n < 10 then Char.ofNat (48 + n) else Char.ofNat (87 + n)

def hex16 (x : UInt64) : String :=
  String.ofList ((List.range 16).map fun i => hexDigit ((x.toNat >>> ((15 - i) * 4)) % 16))

/-- a float64 printed as its IEEE-754 bit pattern (never as decimal text) -/
def fbits (f : Float) : String := if f.isNaN then "f:nan" else "f:" ++ hex16 f.toBits

def parseHex? (s : String) : Option Nat :=
  s.toList.foldl (fun acc c => acc.bind fun a =>
    if '0' ≤ c ∧ c ≤ '9' then some (a * 16 + (c.toNat - 48))
    else if 'a' ≤ c ∧ c ≤ 'f' then some (a * 16 + (c.toNat - 87)) else none) (some 0)

/-- `f:<hex16>` → Float -/
def parseFbits? (s : String) : Option Float :=
  if s.startsWith "f:" then (parseHex? (s.drop 2).toString).map fun n => Float.ofBits n.toUInt64 else none

def opPart (line : String) : String :=
  match line.splitOn " => " with
  | a :: _ => a.trimAscii.toString
  | [] => ""

def resPart (line : String) : Option String :=
  match line.splitOn " => " with
  | _ :: b :: _ => some b.trimAscii.toString
  | _ => none

def toks (s : String) : List String := (s.splitOn " ").filter (· ≠ "")

def showList (xs : List String) : String := "[" ++ ",".intercalate xs ++ "]"

/-- generic loop: `step st tokens fullLine` returns the new state and an optional result text -/
partial def loop {σ : Type} (init : σ) (step : σ → List String → String → σ × Option String) : IO Unit := do
  let stdin ← IO.getStdin
  let stdout ← IO.getStdout
  let rec go (st : σ) : IO Unit := do
    let line ← stdin.getLine
    if line.isEmpty then return ()
    let op := opPart line
    if op.isEmpty || op.startsWith "#" then
      stdout.putStrLn op
      go st
    else
      let ts := toks op
      match ts with
      | "case" :: _ =>
        stdout.putStrLn op
        go init
      | _ =>
        let (st', r) := step st ts line
        match r with
        | some r => stdout.putStrLn (op ++ " => " ++ r)
        | none => stdout.putStrLn op
        go st'
  go init
  stdout.flush

end Sentinel.Drv
