import Sentinel.Drv.Common
/-! Driver for C18 (stub: replaced by the property's real driver) -/
namespace Sentinel.Drv.C18
def run (_mode : String) : IO Unit := IO.eprintln "C18: driver not implemented"
end Sentinel.Drv.C18
