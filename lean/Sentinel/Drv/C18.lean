import Sentinel.Drv.Common
import Sentinel.Model.DatasourceRules
/-!
# Driver for C18

`model` runs `Sentinel.Datasource.deliver` (the handler state machine the theorems are about) with, as the `conv`
parameter, a small hand-written JSON **text** parser for the generator's payload alphabet followed by the table-driven
tree codec; `spec` folds the payload history with the property as stated (decodable ⇒ exactly the valid rules of the
list, undecodable ⇒ error and unchanged; no memory of the last payload at all).  Text-level JSON is trusted to
`encoding/json`: anything outside the alphabet prints `?`.
-/
namespace Sentinel.Drv.C18
open Sentinel.Datasource Sentinel.Drv

/-! ## bytes -/

def hexVal (c : Char) : Option Nat :=
  if '0' ≤ c ∧ c ≤ '9' then some (c.toNat - 48)
  else if 'a' ≤ c ∧ c ≤ 'f' then some (c.toNat - 87) else none

def hexBytes : List Char → Option (List Nat)
  | [] => some []
  | a :: b :: rest => do
    let x ← hexVal a
    let y ← hexVal b
    let r ← hexBytes rest
    pure ((x * 16 + y) :: r)
  | _ => none

def payloadBytes (tok : String) : Option (List Nat) := if tok = "-" then some [] else hexBytes tok.toList

def hexOfString (s : String) : String :=
  String.ofList (s.toUTF8.toList.flatMap fun b => [hexDigit (b.toNat / 16), hexDigit (b.toNat % 16)])

/-! ## JSON text (RFC 8259 as `encoding/json` checks it), for ASCII payloads -/

inductive PR (α : Type) where
  | ok (a : α) (rest : List Char)
  | bad                 -- syntax error
  | outside             -- not in the alphabet this parser handles

def isWs (c : Char) : Bool := c = ' ' || c = '\t' || c = '\n' || c = '\r'
def skipWs : List Char → List Char
  | c :: cs => if isWs c then skipWs cs else c :: cs
  | [] => []

def isDigit (c : Char) : Bool := '0' ≤ c && c ≤ '9'

def takeDigits : List Char → List Char × List Char
  | c :: cs => if isDigit c then let (d, r) := takeDigits cs; (c :: d, r) else ([], c :: cs)
  | [] => ([], [])

def digitsVal (ds : List Char) : Nat := ds.foldl (fun a c => a * 10 + (c.toNat - 48)) 0

/-- the binary64 nearest to `±mant · 10^e10` (Lean's `Float.ofScientific`) -/
def mkFloat (neg : Bool) (mant : Nat) (e10 : Int) : Float :=
  let f := if e10 ≥ 0 then Float.ofScientific mant false e10.toNat else Float.ofScientific mant true (-e10).toNat
  if neg then -f else f

/-- after the body of a string literal's opening quote -/
def parseStr : List Char → List Char → PR String
  | _, [] => .bad
  | acc, '"' :: rest => .ok (String.ofList acc.reverse) rest
  | acc, '\\' :: c :: rest =>
    if c = '"' || c = '\\' || c = '/' then parseStr (c :: acc) rest
    else if c = 'n' then parseStr ('\n' :: acc) rest
    else if c = 't' then parseStr ('\t' :: acc) rest
    else if c = 'r' then parseStr ('\r' :: acc) rest
    else if c = 'b' then parseStr (Char.ofNat 8 :: acc) rest
    else if c = 'f' then parseStr (Char.ofNat 12 :: acc) rest
    else if c = 'u' then .outside
    else .bad
  | _, ['\\'] => .bad
  | acc, c :: rest =>
    if c.toNat < 32 then .bad else if c.toNat ≥ 127 then .outside else parseStr (c :: acc) rest

/-- a number literal starting at `cs` (first char is `-` or a digit) -/
def parseNum (cs : List Char) : PR JNum :=
  let (neg, cs) := match cs with
    | '-' :: r => (true, r)
    | r => (false, r)
  let (ip, r1) := takeDigits cs
  if ip.isEmpty then .bad
  else if ip.length > 1 && ip.head? = some '0' then .bad        -- leading zero
  else
    let (fp, r2, okf) := match r1 with
      | '.' :: r => let (d, r') := takeDigits r; (d, r', !d.isEmpty)
      | r => ([], r, true)
    if !okf then .bad else
    let (hasE, eneg, ep, r3, oke) := match r2 with
      | 'e' :: r | 'E' :: r =>
        let (sg, r') := match r with
          | '-' :: q => (true, q)
          | '+' :: q => (false, q)
          | q => (false, q)
        let (d, r'') := takeDigits r'
        (true, sg, d, r'', !d.isEmpty)
      | r => (false, false, [], r, true)
    if !oke then .bad else
    if fp.isEmpty && !hasE then
      let v := digitsVal ip
      if neg && v = 0 && !r3.isEmpty then .outside               -- "-0": int vs uint fields disagree (at the very end: a truncation or a bare `-0`, no field involved)
      else .ok (.int (if neg then -(Int.ofNat v) else Int.ofNat v)) r3
    else
      if ep.length > 4 || ip.length + fp.length > 400 then .outside else
      let e := (if eneg then -(Int.ofNat (digitsVal ep)) else Int.ofNat (digitsVal ep)) - Int.ofNat fp.length
      .ok (.flt (mkFloat neg (digitsVal (ip ++ fp)) e).toBits) r3

def startsWith (cs : List Char) (p : String) : Option (List Char) :=
  if p.toList.isPrefixOf cs then some (cs.drop p.length) else none

mutual
  def parseValue : Nat → List Char → PR Json
    | 0, _ => .outside
    | fuel + 1, cs =>
      match skipWs cs with
      | [] => .bad
      | '"' :: rest => match parseStr [] rest with
        | .ok s r => .ok (.str s) r
        | .bad => .bad
        | .outside => .outside
      | '[' :: rest =>
        (match skipWs rest with
         | ']' :: r => .ok (.arr []) r
         | r => match parseElems fuel r with
           | .ok xs r' => .ok (.arr xs) r'
           | .bad => .bad
           | .outside => .outside)
      | '{' :: rest =>
        (match skipWs rest with
         | '}' :: r => .ok (.obj []) r
         | r => match parseMembers fuel r with
           | .ok kvs r' => .ok (.obj kvs) r'
           | .bad => .bad
           | .outside => .outside)
      | c :: rest =>
        if c = '-' || isDigit c then
          match parseNum (c :: rest) with
          | .ok n r => .ok (.num n) r
          | .bad => .bad
          | .outside => .outside
        else match startsWith (c :: rest) "true" with
          | some r => .ok (.bool true) r
          | none => match startsWith (c :: rest) "false" with
            | some r => .ok (.bool false) r
            | none => match startsWith (c :: rest) "null" with
              | some r => .ok .null r
              | none => if c.toNat ≥ 127 then .outside else .bad
  /-- `value (',' value)* ']'` -/
  def parseElems : Nat → List Char → PR (List Json)
    | 0, _ => .outside
    | fuel + 1, cs =>
      match parseValue fuel cs with
      | .bad => .bad
      | .outside => .outside
      | .ok v r =>
        match skipWs r with
        | ']' :: r' => .ok [v] r'
        | ',' :: r' => (match parseElems fuel r' with
          | .ok vs r'' => .ok (v :: vs) r''
          | .bad => .bad
          | .outside => .outside)
        | c :: _ => if c.toNat ≥ 127 then .outside else .bad
        | [] => .bad
  /-- `string ':' value (',' string ':' value)* '}'` -/
  def parseMembers : Nat → List Char → PR (List (String × Json))
    | 0, _ => .outside
    | fuel + 1, cs =>
      match skipWs cs with
      | '"' :: rest =>
        (match parseStr [] rest with
         | .bad => .bad
         | .outside => .outside
         | .ok k r =>
           match skipWs r with
           | ':' :: r1 =>
             (match parseValue fuel r1 with
              | .bad => .bad
              | .outside => .outside
              | .ok v r2 =>
                match skipWs r2 with
                | '}' :: r3 => .ok [(k, v)] r3
                | ',' :: r3 => (match parseMembers fuel r3 with
                  | .ok kvs r4 => .ok ((k, v) :: kvs) r4
                  | .bad => .bad
                  | .outside => .outside)
                | c :: _ => if c.toNat ≥ 127 then .outside else .bad
                | [] => .bad)
           | c :: _ => if c.toNat ≥ 127 then .outside else .bad
           | [] => .bad)
      | c :: _ => if c.toNat ≥ 127 then .outside else .bad
      | [] => .bad
end

/-- whole document: `some none` = syntax error, `none` = outside the alphabet -/
def parseDoc (bytes : List Nat) : Option (Option Json) :=
  if bytes.any (· ≥ 127) then none else
  let cs := bytes.map Char.ofNat
  match parseValue (2 * cs.length + 4) cs with
  | .outside => none
  | .bad => some none
  | .ok v rest => if (skipWs rest).isEmpty then some (some v) else
      (if rest.any (fun c => c.toNat ≥ 127) then none else some none)

/-! ## Go's strconv on the generator's alphabet -/

def atoiGo (s : String) : Option Int :=
  let cs := s.toList
  let (neg, ds) := match cs with
    | '-' :: r => (true, r)
    | '+' :: r => (false, r)
    | r => (false, r)
  if ds.isEmpty || !ds.all isDigit then none else
  let v : Int := if neg then -(Int.ofNat (digitsVal ds)) else Int.ofNat (digitsVal ds)
  if Kind.i64.inRange v then some v else none

def pboolGo (s : String) : Option Bool :=
  if ["1", "t", "T", "TRUE", "true", "True"].contains s then some true
  else if ["0", "f", "F", "FALSE", "false", "False"].contains s then some false else none

def pow2 (n : Nat) : Nat := 2 ^ n

/-- `ParseFloat(fmt.Sprintf("%.5f", x), 64)`: exact decimal rounding (half-even) to five places, then the nearest binary64 -/
def norm5 (x : Float) : Float :=
  if x.isNaN || x.isInf then x else
  let b := x.toBits
  let neg := (b >>> 63) != 0
  let e := ((b >>> 52) &&& 0x7ff).toNat
  let f := (b &&& 0xfffffffffffff).toNat
  let (m, ex) : Nat × Int := if e = 0 then (f, -1074) else (f + pow2 52, Int.ofNat e - 1075)
  let q : Nat :=
    if ex ≥ 0 then m * pow2 ex.toNat * 100000
    else
      let num := m * 100000
      let den := pow2 (-ex).toNat
      let fl := num / den
      let rem2 := 2 * (num % den)
      if rem2 > den then fl + 1 else if rem2 < den then fl else (if fl % 2 = 0 then fl else fl + 1)
  mkFloat neg q (-5)

/-- `strconv.ParseFloat` on the alphabet `[+-]?d+(.d+)?([eE][+-]?d+)?` and a few special words;
    `none` = outside, `some none` = error -/
def pfloatRaw (s : String) : Option (Option Float) :=
  if s = "NaN" || s = "nan" then some (some (0.0 / 0.0))
  else if s = "Inf" || s = "+Inf" || s = "inf" || s = "Infinity" then some (some (1.0 / 0.0))
  else if s = "-Inf" || s = "-inf" then some (some (-1.0 / 0.0))
  else
  let cs := s.toList
  match cs with
  | [] => some none
  | c0 :: _ =>
    if cs.any (· = ' ') then some none
    else if c0.isAlpha && !(c0 = 'i' || c0 = 'I' || c0 = 'n' || c0 = 'N') then some none
    else
      let (neg, r0) := match cs with
        | '-' :: r => (true, r)
        | '+' :: r => (false, r)
        | r => (false, r)
      let (ip, r1) := takeDigits r0
      if ip.isEmpty then none else
      let (fp, r2, okf) := match r1 with
        | '.' :: r => let (d, r') := takeDigits r; (d, r', !d.isEmpty)
        | r => ([], r, true)
      if !okf then none else
      let (eneg, ep, r3, oke) := match r2 with
        | 'e' :: r | 'E' :: r =>
          let (sg, r') := match r with
            | '-' :: q => (true, q)
            | '+' :: q => (false, q)
            | q => (false, q)
          let (d, r'') := takeDigits r'
          (sg, d, r'', !d.isEmpty)
        | r => (false, [], r, true)
      if !oke || !r3.isEmpty || ep.length > 3 || ip.length + fp.length > 60 then none else
      let e := (if eneg then -(Int.ofNat (digitsVal ep)) else Int.ofNat (digitsVal ep)) - Int.ofNat fp.length
      let v := mkFloat neg (digitsVal (ip ++ fp)) e
      if v.isInf then some none else some (some v)         -- out of range is an error for ParseFloat

def pfloatGo (s : String) : Option UInt64 :=
  match pfloatRaw s with
  | some (some v) => some (norm5 v).toBits
  | _ => none

def goStrConv : StrConv := { atoi := atoiGo, pbool := pboolGo, pfloat := pfloatGo }

/-! ## alphabet check on trees (what `encoding/json` does beyond exact names) -/

def lower (s : String) : String := String.ofList (s.toList.map Char.toLower)

def keysOutside (ts : List Tag) (kvs : List (String × Json)) : Bool :=
  kvs.any (fun kv => !(ts.any (·.json = kv.1)) && ts.any (fun t => lower t.json = lower kv.1))
  || ts.any (fun t => t.kind = .items && (kvs.filter (·.1 = t.json)).length > 1)

def itemsOutside (j : Json) : Bool :=
  match j with
  | .arr xs => xs.any fun x => match x with
    | .obj kvs => keysOutside specificTags kvs ||
        (match (SpecificValue.fromKvs kvs {}) with
         | some v => v.valKind = 3 && (pfloatRaw v.valStr).isNone
         | none => false)
    | _ => false
  | _ => false

def treeOutside (ts : List Tag) (j : Json) : Bool :=
  match j with
  | .arr xs => xs.any fun x => match x with
    | .obj kvs => keysOutside ts kvs || kvs.any (fun kv => kv.1 = "specificItems" && itemsOutside kv.2)
    | _ => false
  | _ => false

/-! ## the five modules -/

def gi (r : Rec) (n : Nat) : Int := match r.getD n (.i 0) with | .i v => v | _ => 0
def gs (r : Rec) (n : Nat) : String := match r.getD n (.s "") with | .s v => v | _ => ""
def gf (r : Rec) (n : Nat) : Float := match r.getD n (.f 0) with | .f b => Float.ofBits b | _ => 0.0
def gm (r : Rec) (n : Nat) : List (SKey × Int) := match r.getD n (.smap []) with | .smap m => m | _ => []

def flowValid (r : Rec) : Bool :=
  gs r 1 != "" && !(gf r 4 < 0) && gi r 2 ≥ 0 && gi r 3 ≥ 0 && (gi r 5 = 0 || gi r 5 = 1)
  && !(gi r 5 = 1 && gs r 6 = "")
  && !(gi r 2 = 1 && (gi r 8 ≤ 0 || gi r 9 = 1))
  && !(gi r 2 = 2 && (gi r 11 ≤ 0 || gi r 12 ≤ 0 || gi r 12 ≥ gi r 11 || gi r 13 ≤ 0 || gi r 14 ≤ 0 || gi r 13 ≥ gi r 14))
  && gi r 2 ≤ 2 && gi r 3 ≤ 1          -- a controller generator exists (otherwise the rule is never in force)

/-- memory-adaptive rules are valid only below the machine's memory size: not claimed above 1 MiB -/
def flowUnknown (r : Rec) : Bool := gi r 2 = 2 && gi r 14 > 1048576 && flowValid r

def flowNorm (r : Rec) : Rec :=
  if gi r 2 = 1 && gi r 9 ≤ 1 then r.set 9 (.i 3) else r        -- config.DefaultWarmUpColdFactor

def flowEquiv (o n : Rec) : Bool :=
  gs o 1 = gs n 1 && gi o 5 = gi n 5 && gs o 6 = gs n 6 && gi o 10 = gi n 10 && gi o 2 = gi n 2 && gi o 3 = gi n 3
  && (gf o 4 - gf n 4).abs < 0.00000001
  && gi o 7 = gi n 7 && gi o 8 = gi n 8 && gi o 9 = gi n 9 && gi o 11 = gi n 11 && gi o 12 = gi n 12
  && gi o 13 = gi n 13 && gi o 14 = gi n 14

def systemValid (r : Rec) : Bool :=
  !(gf r 2 < 0) && gi r 1 < 5 && !(gi r 1 = 4 && gf r 2 > 1)

def cbValid (r : Rec) : Bool :=
  gs r 1 != "" && gi r 5 > 0 && gi r 3 > 0 && !(gf r 8 < 0) && !(gi r 2 = 0 && gf r 8 > 1) && !(gi r 2 = 1 && gf r 8 > 1)

def isolationValid (r : Rec) : Bool := gs r 1 != "" && gi r 2 = 0 && gi r 3 != 0

/-- on `hotspot.Rule` records (12 fields) -/
def hotspotValid (r : Rec) : Bool :=
  gs r 1 != "" && gi r 6 ≥ 0 && gi r 2 ≥ 0 && gi r 3 ≥ 0 && !(gi r 2 = 1 && gi r 9 ≤ 0)
  && !(gi r 4 > 0 && gs r 5 != "")
  && !(gi r 3 = 0 && gi r 8 < 0) && !(gi r 3 = 1 && gi r 7 < 0)
  && gi r 3 ≤ 1 && gi r 2 ≤ 1          -- a controller can be built

def isNaNKey : SKey → Bool
  | .flt b => !finiteBits b && (b &&& 0xfffffffffffff) != 0
  | _ => false

/-- `reflect.DeepEqual` of two non-nil `map[interface{}]int64` -/
def mapDeepEq (a b : List (SKey × Int)) : Bool :=
  a.length = b.length && a.all fun p => !isNaNKey p.1 && b.any fun q => q.1.goEq p.1 && q.2 = p.2

def hotspotEquiv (o n : Rec) : Bool :=
  gs o 1 = gs n 1 && gi o 2 = gi n 2 && gi o 3 = gi n 3 && gi o 10 = gi n 10 && gi o 4 = gi n 4 && gs o 5 = gs n 5
  && gi o 6 = gi n 6 && gi o 9 = gi n 9 && mapDeepEq (gm o 11) (gm n 11)
  && (if gi o 3 = 0 then gi o 8 = gi n 8 else if gi o 3 = 1 then gi o 7 = gi n 7 else false)

def flowReusable (o n : Rec) : Bool :=
  gs o 1 = gs n 1 && gi o 5 = gi n 5 && gs o 6 = gs n 6 && gi o 10 = gi n 10
  && (gi o 2 = 1 || gi o 3 = 0) && (gi n 2 = 1 || gi n 3 = 0)

def hotspotReusable (o n : Rec) : Bool :=
  gs o 1 = gs n 1 && gi o 3 = gi n 3 && gi o 10 = gi n 10 && gi o 9 = gi n 9 && gi o 2 = gi n 2

structure ModDef where
  name : String
  tags : List Tag
  mo : Module Rec
  hotspot : Bool := false
  unknown : Rec → Bool := fun _ => false

def modDefs : List ModDef := [
  { name := "flow", tags := flowTags, mo := { valid := flowValid, norm := flowNorm, equiv := flowEquiv, reusable := flowReusable }, unknown := flowUnknown },
  { name := "system", tags := systemTags, mo := { valid := systemValid } },
  { name := "cb", tags := cbTags, mo := { valid := cbValid } },
  { name := "isolation", tags := isolationTags, mo := { valid := isolationValid } },
  { name := "hotspot", tags := hotspotTags, mo := { valid := hotspotValid, equiv := hotspotEquiv, reusable := hotspotReusable }, hotspot := true }]

def findMod (n : String) : Option ModDef := modDefs.find? (·.name = n)

/-! ## printing (same canonical form as the Go interpreter) -/

def sortStrings (xs : List String) : List String := (xs.toArray.qsort (· < ·)).toList

def showKey : SKey → String
  | .int v => s!"i:{v}"
  | .str s => "s:" ++ hexOfString s
  | .bool b => if b then "b:1" else "b:0"
  | .flt b => fbits (Float.ofBits b)

def showVal : Val → String
  | .s x => "s" ++ hexOfString x
  | .i x => toString x
  | .f b => fbits (Float.ofBits b)
  | .items _ => "items"
  | .smap m => "<" ++ "|".intercalate (sortStrings (m.map fun p => showKey p.1 ++ "=" ++ toString p.2)) ++ ">"

def showRec (r : Rec) : String := "{" ++ ",".intercalate (r.map showVal) ++ "}"
def showRules (rs : List Rec) : String := "[" ++ ";".intercalate (sortStrings (rs.map showRec)) ++ "]"

/-! ## converters on bytes -/

/-- the as-is converter of a module (the `conv` parameter of the model); `none` = outside the alphabet -/
def convOf (md : ModDef) (bytes : List Nat) : Option (Conv (WireList Rec)) :=
  if bytes.isEmpty then some (.ok none) else
  match parseDoc bytes with
  | none => none
  | some tree =>
    let ts := if md.hotspot then hotspotCoreTags else md.tags       -- names incl. paramKey for the case check
    if (match tree with | some j => treeOutside ts j | none => false) then none
    else
      let c := if md.hotspot then convHotspot goStrConv false tree else convPlain md.tags false tree
      let unk := match c with
        | .ok (some l) => l.elems.any md.unknown
        | _ => false
      if unk then none else some c

/-- `datasource.HotspotRule` as the property reads the wire format: with the `paramKey` of `hotspot.Rule` -/
def hotspotIdealTags : List Tag :=
  hotspotTags.take 5 ++ [⟨"ParamKey", .str, "paramKey", false⟩] ++ hotspotTags.drop 5

def hotspotIdealToCore : Rec → Rec
  | [id, res, mt, cb, pidx, pkey, thr, mq, burst, dur, cap, .items its] =>
    [id, res, mt, cb, pidx, pkey, thr, mq, burst, dur, cap, .smap (parseSpecific goStrConv its)]
  | r => r

/-- the converter the property describes: the hotspot wire format read with the `paramKey` of `hotspot.Rule` (the four
    other parsers are taken as they are) -/
def convIdeal (md : ModDef) (bytes : List Nat) : Option (Conv (WireList Rec)) :=
  if !md.hotspot then convOf md bytes else
  match convOf md bytes with
  | none => none
  | some _ =>
    if bytes.isEmpty then some (.ok none) else
    match parseDoc bytes with
    | some tree =>
      (match convPlain hotspotIdealTags false tree with
       | .ok (some l) => some (.ok (some (some (l.elems.map fun r => some (hotspotIdealToCore r)))))
       | c => some c)
    | none => none

/-! ## state -/

structure ModSt where
  hm : Handler (WireList Rec) × Mgr Rec := ({}, {})
  ideal : List Rec := []          -- the property as stated: exactly the valid rules of the last decodable payload
  hmI : Handler (WireList Rec) × Mgr Rec := ({}, {})   -- ideal decoding through the as-is handler and manager
  lost : Bool := false            -- a payload outside the alphabet was delivered: nothing is claimed any more
  cause : String := ""
  mode : String := "ptr"          -- ptr: the built-in handler; val: value slice to the updater; bad: wrongly typed property
  attached : Bool := true         -- the handler is registered on the module's `datasource.Base`
  rejects : Bool := false         -- the mode's converter and the updater do not fit: outside the property, the spec claims nothing

structure FileSt where
  md : ModDef
  src : FileSrc (List Nat) Rec
  -- the property's view of the watched path: the file has not gone for good / a file is there
  idealOpen : Bool := true
  idealExists : Bool := true
  away : Option (List Nat) := none           -- content of the file that was renamed away (it can be renamed back)

/-- downstream of the scripted handler: the value last applied (`some none` = the nil property) and the number of updater calls -/
structure CustomM where
  applied : Option (Option Nat) := none
  calls : Nat := 0

structure St where
  mods : List (String × ModSt) := []
  file : Option FileSt := none
  custom : Handler Nat × CustomM := ({}, {})
  -- spec side of the scripted handler: what the handler remembers, what is applied, how often the updater ran
  customRef : Option (Option Nat) × CustomM := (some none, {})

def getMod (s : St) (n : String) : ModSt := ((s.mods.find? (·.1 = n)).map (·.2)).getD {}
def setMod (s : St) (n : String) (m : ModSt) : St :=
  { s with mods := (n, m) :: s.mods.filter (·.1 != n) }

def valDeepEq : Val → Val → Bool
  | .f a, .f b => (SKey.flt a).goEq (.flt b)            -- float fields are compared with `==`: +0 = -0
  | .smap a, .smap b => mapDeepEq a b
  | a, b => a == b

def recDeepEq (a b : Rec) : Bool := a.length = b.length && (a.zip b).all fun p => valDeepEq p.1 p.2

/-- `reflect.DeepEqual(src, h.lastUpdateProperty)` on `nil` / `[]*Rule` values (the `eqv` parameter of the model) -/
def structEq (a b : Option (WireList Rec)) : Bool :=
  match a, b with
  | none, none => true
  | some none, some none => true
  | some (some xs), some (some ys) =>
    xs.length = ys.length && (xs.zip ys).all fun p => match p.1, p.2 with
      | none, none => true
      | some x, some y => recDeepEq x y
      | _, _ => false
  | _, _ => false

/-- `lastUpdateProperty` holds the very rule objects the manager normalised in place when it built their controllers
    (`NewWarmUpTrafficShapingCalculator` writes the default cold factor into the rule) -/
def aliased (md : ModDef) : Option (WireList Rec) → Option (WireList Rec)
  | some (some xs) => some (some (xs.map fun o => o.map fun r => if md.mo.valid r then md.mo.norm r else r))
  | v => v

/-- the `eqv` parameter of the model: Go's DeepEqual against the (aliased) remembered value -/
def goEqv (md : ModDef) (v last : Option (WireList Rec)) : Bool := structEq v (aliased md last)

/-- `ds.mode`: what the wrapped converter hands to the updater.  `val`: a value slice (`[]flow.Rule` …): nil elements become
    zero rules; `bad`: a string, represented by one fixed non-nil value (it only ever meets itself and nil in a case) -/
def modeConv (md : ModDef) (mode : String) (c : Conv (WireList Rec)) : Conv (WireList Rec) :=
  let zero := zeroRec (if md.hotspot then hotspotCoreTags else md.tags)
  match mode, c with
  | "val", .ok (some (some xs)) => .ok (some (some (xs.map fun o => some (o.getD zero))))
  | "bad", .ok (some _) => .ok (some (some []))
  | _, c => c

/-- the updater's type switch has no case for what it is given: `UpdatePropertyError` (cb has no value-slice case) -/
def updaterRejects (md : ModDef) (mode : String) : Bool := mode = "bad" || (mode = "val" && md.name = "cb")

def rejectingUpd (mo : Module Rec) (d : Option (WireList Rec)) (m : Mgr Rec) : Upd (Mgr Rec) :=
  match d with
  | none => loadUpd mo none m          -- `data == nil` is tested first: ClearRules
  | some _ => .err m

/-- one delivery; returns the new module state and the return value of `Handle` (`none` = outside) -/
def deliverMod (md : ModDef) (ms : ModSt) (bytes : List Nat) (viaBase : Bool := false) : ModSt × Option (Ret × Ret) :=
  if ms.lost then (ms, none) else
  if viaBase && !ms.attached then (ms, some (Ret.nil, Ret.nil)) else      -- a Base without handlers: nothing is delivered, nil
  match (convOf md bytes).map (modeConv md ms.mode), (convIdeal md bytes).map (modeConv md ms.mode) with
  | some c, some ci =>
    -- the model proper
    let eqv := if ms.mode = "ptr" then goEqv md else structEq        -- a value slice is copied by the updater: no aliasing
    let (hm', o) :=
      if updaterRejects md ms.mode then
        let (h, m, o) := handle (fun (_ : Unit) => c) eqv (rejectingUpd md.mo) ms.hm.1 ms.hm.2 ()
        ((h, m), o)
      else if viaBase then                       -- through a `datasource.Base` with this one handler registered
        let (hms, o) := baseDeliver (fun (_ : Unit) => c) eqv md.mo [ms.hm] ()
        (hms.headD ms.hm, o)
      else deliver (fun (_ : Unit) => c) eqv md.mo ms.hm ()
    let ret := match o with | .ret r => r | .panicked => Ret.nil
    -- the property as stated
    let hmI' := (deliver (fun (_ : Unit) => ci) eqv md.mo ms.hmI ()).1
    let (ideal', cause') := match ci with
      | .ok v =>
        let vs := validElems md.mo.valid v
        let hasKey := md.hotspot && (match v with | some l => l.elems.any (fun r => gs r 5 != "") | none => false)
        (vs.map md.mo.norm,
          if hasKey then "hotspot-paramkey-dropped" else ms.cause)
      | _ =>
        let asisOk := match c with | .ok _ => true | _ => false
        -- a wrongly typed `paramKey` is not even looked at
        (ms.ideal, if md.hotspot && asisOk then "hotspot-paramkey-dropped" else ms.cause)
    let retIdeal := match ci with | .ok _ => Ret.nil | _ => Ret.err
    ({ ms with hm := hm', ideal := ideal', hmI := hmI', cause := cause' }, some (ret, retIdeal))
  | _, _ => ({ ms with lost := true }, none)

def showRet : Ret → String
  | .nil => "ok"
  | .err => "err"

/-- what is printed for an observation of a module's rules, with an optional `ok|err` prefix: in `model` mode the
    as-is state; in `spec` mode the property's claim (marked when the as-is model is known to deviate from it) -/
def claim (spec : Bool) (ms : ModSt) (preAsis preIdeal : String) : String :=
  if ms.lost || (spec && ms.rejects) then "?" else
  let asis := preAsis ++ showRules ms.hm.2.enforced
  if !spec then asis else
  let ideal := preIdeal ++ showRules ms.ideal
  let reuse := preIdeal ++ showRules ms.hmI.2.enforced
  if ideal = asis then ideal
  else if ideal != reuse then "?known:stale-equal-rule:" ++ ideal
  else "?known:" ++ (if ms.cause = "" then "unexplained" else ms.cause) ++ ":" ++ ideal

def fileConv (md : ModDef) (b : List Nat) : Conv (WireList Rec) := (convOf md b).getD .err

def tagsOf (n : String) : Option (List Tag) :=
  match n with
  | "specific" => some specificTags
  | "hotspot.core" => some hotspotCoreTags
  | _ => (findMod n).map (·.tags)

/-- `ds.handle` (the handler directly) / `ds.deliver` (through a `datasource.Base`, from a reused buffer) -/
def handleOp (spec : Bool) (s : St) (m p : String) (viaBase : Bool) : St × Option String :=
  match findMod m, payloadBytes p with
  | some md, some bytes =>
    let (ms', r) := deliverMod md (getMod s m) bytes viaBase
    let s' := setMod s m ms'
    -- a handler whose converter and updater do not fit is outside the property: the spec claims nothing (impl = model is still compared)
    if spec && updaterRejects md ms'.mode then (s', some "?") else
    (match r with
     | none => (s', some "?")
     | some r =>
       -- the return value: the spec expects `err` exactly for an undecodable payload
       (s', some (claim spec ms' (showRet r.1 ++ " ") (showRet r.2 ++ " "))))
  | _, _ => (s, some "bad-op")

/-- a file operation: the as-is source runs the abstract events (`FileSrc.step`); the property's view delivers the
    current content after a write / re-creation / replacement and the empty source after a removal or rename-away -/
def fileOp (spec : Bool) (s : St) (arg : Option (List Nat)) (evs : List Nat → List (FileEv (List Nat))) (kind : String) :
    St × Option String :=
  match s.file, arg with
  | some f, some bytes =>
    -- op sequences that make no sense on a real path (they only arise while shrinking) are ill-formed
    let illFormed := (kind = "recreate" && f.src.content.isSome) || (kind = "giveup" && !f.src.rewatching)
      || (kind = "write" && f.src.content.isNone) || (kind = "renameback" && (f.src.content.isSome || f.away.isNone))
    if illFormed then (s, some "bad-op") else
    -- renaming the same file back is a re-creation with the content it had
    let bytes := if kind = "renameback" then f.away.getD [] else bytes
    let f := if kind = "rename" && f.src.content.isSome then { f with away := f.src.content }
             else if kind = "renameback" then { f with away := none } else f
    let src' := (evs bytes).foldl (FileSrc.step (fileConv f.md) (goEqv f.md) f.md.mo []) f.src
    let ms := getMod s f.md.name
    let asisDies := kind = "replace" && !f.src.closed && !f.src.rewatching
    let (ideal, f') : List (List Nat) × FileSt :=
      if !f.idealOpen then ([], f)
      else if kind = "write" then (if f.idealExists then [bytes] else [], f)
      else if kind = "remove" then ([[]], { f with idealOpen := false, idealExists := false })
      else if kind = "rename" then (if f.idealExists then [[]] else [], { f with idealExists := false })
      else if kind = "giveup" then ([], if f.src.rewatching then { f with idealOpen := false } else f)
      else ([bytes], { f with idealExists := true })              -- recreate, replace
    let ms' := ideal.foldl (fun m b => (deliverMod f.md m b).1) ms
    let ms' := { ms' with hm := src'.hm, cause := if asisDies then "file-replace-over-closes-source" else ms'.cause }
    let s' := setMod s f.md.name ms'
    ({ s' with file := some { f' with src := src' } }, some (claim spec ms' "" ""))
  | _, _ => (s, some "bad-op")

def parseConv (c : String) : Option (Conv Nat) :=
  if c = "nil" then some (.ok none)
  else if c = "err" then some .err
  else if c = "panic:err" || c = "panic:str" || c = "panic:deref" then some .panic
  else if c.startsWith "ok:" then (c.drop 3).toString.toNat?.map fun k => .ok (some k)
  else none

/-- the scripted updater: `ok` applies the value, `err` and the panics leave the downstream alone; every call is counted -/
def customUpd (u : String) (v : Option Nat) (m : CustomM) : Upd CustomM :=
  let m' := { m with calls := m.calls + 1 }
  if u = "ok" then .ok { m' with applied := some v } else if u = "err" then .err m' else .panic m'

def showCustom (r : String) (m : CustomM) : String :=
  let a := match m.applied with
    | none => "none"
    | some none => "nil"
    | some (some k) => toString k
  s!"{r} applied={a} upd={m.calls}"

/-- `ds.custom`: the real `Handle` with a scripted converter and updater against the model's `handle`
    (`spec`: the expectation written out independently: a panic never escapes, it is turned into a `nil` return) -/
def customOp (spec : Bool) (s : St) (c u : String) : St × Option String :=
  match parseConv c with
  | none => (s, some "bad-op")
  | some conv =>
    if !(["ok", "err", "panic:err", "panic:str", "panic:deref"].contains u) then (s, some "bad-op") else
    if !spec then
      let (h', m', o) := handle (fun (_ : Unit) => conv) (fun a b => a == b) (customUpd u) s.custom.1 s.custom.2 ()
      let r := match o with
        | .ret .nil => "ok"
        | .ret .err => "err"
        | .panicked => "escaped"
      ({ s with custom := (h', m') }, some (showCustom r m'))
    else
      let (last, m) := s.customRef
      let (last', m', r) : Option (Option Nat) × CustomM × String :=
        match conv with
        | .err => (last, m, "err")
        | .panic => (last, m, "ok")
        | .ok v =>
          if last = some v then (last, m, "ok")                 -- the same value as remembered: nothing happens
          else
            let m1 := { m with calls := m.calls + 1 }
            if u = "ok" then (some v, { m1 with applied := some v }, "ok")
            else if u = "err" then (some v, m1, "err")
            else (some v, m1, "ok")
      ({ s with customRef := (last', m') }, some (showCustom r m'))

def step (spec : Bool) (s : St) (ts : List String) (_line : String) : St × Option String :=
  match ts with
  | ["ds.custom", c, u] => customOp spec s c u
  | ["ds.mode", m, mode] =>
    if (mode != "val" && mode != "bad") || (findMod m).isNone || s.mods.any (·.1 = m) then (s, some "bad-op")
    else (setMod s m { mode := mode, rejects := mode = "bad" || (mode = "val" && m = "cb") }, none)
  | ["base.remove", m] => if (findMod m).isNone then (s, some "bad-op") else (setMod s m { getMod s m with attached := false }, none)
  | ["base.add", m] => if (findMod m).isNone then (s, some "bad-op") else (setMod s m { getMod s m with attached := true }, none)
  | ["specstr", k, p] =>
    (match k.toInt?, payloadBytes p with
     | some k, some bytes =>
       let name := if k = 0 then "KindInt" else if k = 1 then "KindString" else if k = 2 then "KindBool"
                   else if k = 3 then "KindFloat64" else "Undefined"
       let str := String.ofList (bytes.map Char.ofNat)
       (s, some (hexOfString ("SpecificValue: [ValKind: " ++ name ++ ", ValStr: " ++ str ++ "]")))
     | _, _ => (s, some "bad-op"))
  | ["file.reinit"] =>
    (match s.file with
     | some f => (s, some (claim spec (getMod s f.md.name) "ok " "ok "))     -- isInitialized is set: nothing happens, nil returned
     | none => (s, some "bad-op"))
  | ["ds.handle", m, p] => handleOp spec s m p false
  | ["ds.deliver", m, p] => handleOp spec s m p true
  | ["rules", m] =>
    (match findMod m with
     | some _ => (s, some (claim spec (getMod s m) "" ""))
     | none => (s, some "bad-op"))
  | ["tags", m] =>
    (match tagsOf m with
     | some t => (s, some (showTags t))
     | none => (s, some "bad-op"))
  | ["file.new", m, p] =>
    if s.file.isSome || (s.mods.any (·.1 = m)) then (s, some "bad-op") else   -- one file source per case, on a module nothing was delivered to
    (match findMod m with
     | none => (s, some "bad-op")
     | some md =>
       let content := if p = "none" then some none else (payloadBytes p).map some
       match content with
       | none => (s, some "bad-op")
       | some content =>
         let (src, ok) := FileSrc.init (fileConv md) (goEqv md) md.mo content
         let (ms', r) := match content with
           | some bytes => deliverMod md (getMod s m) bytes
           | none => (getMod s m, some (Ret.nil, Ret.nil))
         let ms' := { ms' with hm := src.hm }
         let s' := setMod s m ms'
         let pre := if ok then "ok " else "err "
         ({ s' with file := some { md := md, src := src, idealOpen := content.isSome, idealExists := content.isSome } },
           some (if r.isNone then "?" else claim spec ms' pre pre)))
  | ["file.write", p] => fileOp spec s (payloadBytes p) (fun c => [.write c, .proc]) "write"
  | ["file.truncwrite", p] => fileOp spec s (payloadBytes p) (fun c => [.write c, .proc]) "write"
  | ["file.remove"] => fileOp spec s (some []) (fun _ => [.remove]) "remove"
  | ["file.rename"] => fileOp spec s (some []) (fun _ => [.renameAway]) "rename"
  | ["file.recreate", p] => fileOp spec s (payloadBytes p) (fun c => [.recreate c]) "recreate"
  | ["file.renameback"] => fileOp spec s (some []) (fun c => [.recreate c]) "renameback"
  | ["file.recreatep", p] => fileOp spec s (payloadBytes p) (fun c => [.recreate c]) "recreate"
  | ["file.rewrite", p] => fileOp spec s (payloadBytes p) (fun c => [.write c, .proc]) "write"
  | ["file.giveup"] => fileOp spec s (some []) (fun _ => [.giveUp]) "giveup"
  | ["file.replace", p] => fileOp spec s (payloadBytes p) (fun c => [.replaceOver c]) "replace"
  | ["file.close"] => ({ s with file := none }, none)
  | _ => (s, some "bad-op")

def run (mode : String) : IO Unit :=
  match mode with
  | "model" => loop ({} : St) (step false)
  | "spec" => loop ({} : St) (step true)
  | _ => IO.eprintln "C18: modes are model | spec"

end Sentinel.Drv.C18
