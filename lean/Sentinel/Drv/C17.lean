import Sentinel.Drv.Common
import Sentinel.Model.MetricLog
/-! Driver for C17: `model` = byte-level writer / searcher / reader (`Sentinel.MetricLog`),
    `spec` = the written items still inside the retained files, filtered by the query (L0 reference),
    with the regions of the known findings marked `?known:<key>:<claimed>`. -/
namespace Sentinel.Drv.C17
open Sentinel.MetricLog Sentinel.Drv

structure St where
  now : Nat := 0
  w : Option Writer := none
  closed : Bool := false                 -- a cut happened: the writer is dead
  origData : Bytes := []                 -- content of the last data / idx file when the writer died
  origIdx : Bytes := []
  cutD : Option Nat := none
  cutI : Option Nat := none
  caches : List (String × Cache) := []
  createds : List Nat := []             -- spec side: creation seconds of all writers so far
  pid : Bool := false                   -- file names carry `.pid<pid>` (printed as `.pidN`)
  app : String := "v.app"               -- the application name: an opaque string, only part of the file names
  touched : List (String × Bool) := []  -- foreign directory entries (name, is a directory): no part of the log
  rawD : Bytes := []                    -- garbage appended to the last data / idx file after the writer died
  rawI : Bytes := []
  raw : Bool := false                   -- … happened: outside the property (corruption other than truncation), the spec says `?`
  idxGone : Bool := false               -- the last idx file was removed (searched like an empty one)

def strBytes (s : String) : Bytes := s.toUTF8.toList.map (·.toNat)

def bytesStr (bs : Bytes) : String :=
  match String.fromUTF8? ⟨(bs.map UInt8.ofNat).toArray⟩ with
  | some s => s
  | none => "?"

/-- the deterministic resource name of `n` bytes that the token `R<n>` stands for (keeps op files small) -/
def longName (n : Nat) : Bytes := (List.range n).map fun i => 97 + (i + i / 26) % 26

def hexVal (c : Char) : Option Nat :=
  if '0' ≤ c ∧ c ≤ '9' then some (c.toNat - 48) else if 'a' ≤ c ∧ c ≤ 'f' then some (c.toNat - 87) else none

def parseHexBytes : List Char → Option Bytes
  | [] => some []
  | a :: b :: r => match hexVal a, hexVal b, parseHexBytes r with
    | some x, some y, some t => some ((x * 16 + y) :: t)
    | _, _, _ => none
  | _ => none

/-- a resource token: `R<n>` = `longName n`, `H<hex>` = the bytes (names with spaces, `:`, `,` … cannot be
    written literally in an op line), anything else literally -/
def resOfTok (r : String) : Bytes :=
  if r.startsWith "R" then
    match (r.drop 1).toString.toNat? with
    | some n => longName n
    | none => strBytes r
  else if r.startsWith "H" then
    match parseHexBytes (r.drop 1).toString.toList with
    | some bs => bs
    | none => strBytes r
  else strBytes r

def hexDigitC (n : Nat) : Char := if n < 10 then Char.ofNat (48 + n) else Char.ofNat (87 + n)

def hexOf (bs : Bytes) : String := String.ofList (bs.flatMap fun b => [hexDigitC (b / 16 % 16), hexDigitC (b % 16)])

/-- bytes that can stand literally in a result line -/
def safeByte (b : Nat) : Bool := decide (33 ≤ b) && b != 127 && b != 58 && b != 44 && b != 91 && b != 93

def nameHash (bs : Bytes) : Nat := bs.foldl (fun h b => (h * 31 + b) % 4294967296) 0

/-- canonical printing of a resource name: long names as `R<n>` (if it is that name) or `X<len>:<hash>` -/
def showRes (bs : Bytes) : String :=
  if bs.length > 64 then
    (if bs == longName bs.length then s!"R{bs.length}" else s!"X{bs.length}:{nameHash bs}")
  else if bs.all safeByte && !(bs.isEmpty) then bytesStr bs
  else if bs.isEmpty then ""
  else "H" ++ hexOf bs

def parseItem? (tok : String) : Option Item :=
  match tok.splitOn ":" with
  | [r, p, b, c, e, rt, oc, cc, cl] =>
    match p.toNat?, b.toNat?, c.toNat?, e.toNat?, rt.toNat?, oc.toNat?, cc.toNat?, cl.toInt? with
    | some p, some b, some c, some e, some rt, some oc, some cc, some cl =>
      some { ts := 0, res := resOfTok r, pass := p, block := b, complete := c, error := e, rt := rt, occ := oc, conc := cc, cls := cl }
    | _, _, _, _, _, _, _, _ => none
  | _ => none

def showItem (it : Item) : String :=
  s!"{it.ts}:{showRes it.res}:{it.pass}:{it.block}:{it.complete}:{it.error}:{it.rt}:{it.occ}:{it.conc}:{it.cls}"

def showItems (xs : List Item) : String := showList (xs.map showItem)

def fileName (n : Name) : String :=
  "app-metrics.log." ++ bytesStr (dateStr n.1) ++ (if n.2 = 0 then "" else "." ++ toString n.2)

/-- C17's own cases run with app name `v.app` (the dot becomes `-`) and optionally with the pid suffix -/
def fileNameC (app : String) (pid : Bool) (n : Name) : String :=
  app.replace "." "-" ++ "-metrics.log" ++ (if pid then ".pidN" else "") ++ "." ++ bytesStr (dateStr n.1) ++ (if n.2 = 0 then "" else "." ++ toString n.2)

def getCache (s : St) (sid : String) : Cache :=
  match s.caches.find? (·.1 == sid) with
  | some (_, c) => c
  | none => {}

def setCache (s : St) (sid : String) (c : Cache) : St :=
  { s with caches := (sid, c) :: s.caches.filter (·.1 != sid) }

/-! ### spec side -/

structure View where
  perFile : List (List Item)            -- the items the property speaks about, per retained file
  torn : Option Item                    -- a fragment that parses to an item that was never written
  ents : List (Nat × Nat)               -- index entries wholly before the cut, all files
  files : List (List Item × List (Nat × Nat))   -- per file: items and intact entries

def lineOffsets : List Item → Nat → List (Nat × Item)
  | [], _ => []
  | it :: r, o => (o, it) :: lineOffsets r (o + (fat it).length + 1)

/-- the items in front of the position the index delivers for `begin` (first intact entry whose second
    is not before `begin`, files in listing order): a search that starts there cannot return them -/
def beforeHit (bs : Nat) : List (List Item × List (Nat × Nat)) → List Item
  | [] => []
  | (its, ents) :: r =>
    match ents.find? (fun e => decide (e.1 ≥ bs)) with
    | some e => ((lineOffsets its 0).filter fun p => decide (p.1 < e.2)).map (·.2)
    | none => its ++ beforeHit bs r

def view (s : St) (w : Writer) : View :=
  let n := w.files.length
  let files := w.files.zipIdx.map fun (f, i) =>
    if i + 1 = n then
      let (its, torn) := match s.cutD with
        | none => (f.lines, none)
        | some k =>
          let a := wholeLines f.lines k
          match tornItem f.lines k, (tornParse (fragment f.lines k)).head? with
          | some orig, some it' => if it' = orig then (a ++ [orig], none) else (a, some it')
          | _, _ => (a, none)
      let ents := match s.cutI with
        | none => f.ents
        | some k => f.ents.take (k / 16)
      (its, torn, ents)
    else (f.lines, none, f.ents)
  { perFile := files.map (·.1),
    torn := files.findSome? (·.2.1),
    ents := files.flatMap (·.2.2),
    files := files.map fun x => (x.1, x.2.2) }

def specAnswer (s : St) (w : Writer) (c : Cache) (beginMs : Nat) (value : View → List Item) (hit : Item → Bool) : String :=
  let v := view s w
  let has := v.ents.any fun e => decide (e.1 ≥ beginMs / 1000)
  let claimed := showItems (if has then value v else [])
  if cacheOk w.files c beginMs then s!"?known:metriclog-cache-skip:{claimed}"
  else if !has then claimed
  else match (beforeHit (beginMs / 1000) v.files).find? hit with
    | some it =>
      if s.createds.contains (it.ts / 1000) then s!"?known:metriclog-first-second:{claimed}"
      else s!"?known:metriclog-orphan-head:{claimed}"
    | none => match v.torn with
      | some it => if hit it then s!"?known:metriclog-torn-line:{claimed}" else claimed
      | none => claimed

/-! ### the interpreter -/

def applyCuts (s : St) (w : Writer) : Writer :=
  let fs := modLast w.files fun f => { f with data := s.origData, idx := s.origIdx }
  let fs := match s.cutD with | some k => cutData fs k | none => fs
  let fs := match s.cutI with | some k => cutIdx fs k | none => fs
  let fs := modLast fs fun f => { f with data := f.data ++ s.rawD, idx := f.idx ++ s.rawI }
  { w with files := fs }

/-- the writer dies: remember what the last files held -/
def die (s : St) (w : Writer) : St :=
  if s.closed then s else
    match w.files.getLast? with
    | some f => { s with closed := true, origData := f.data, origIdx := f.idx }
    | none => s

def insertSorted (x : String × Nat) : List (String × Nat) → List (String × Nat)
  | [] => [x]
  | y :: r => if x.1 < y.1 then x :: y :: r else y :: insertSorted x r

def step (spec : Bool) (s : St) (ts : List String) (_ : String) : St × Option String :=
  match ts with
  | ["clock", t] => match t.toNat? with
      | some t => ({ s with now := t }, none)
      | none => (s, some "bad-op")
  | ["log.end"] => ({ now := s.now }, none)
  | "log.new" :: a :: b :: opt => match a.toNat?, b.toNat? with
      | some a, some b =>
        let apps := opt.filter (·.startsWith "app=")
        if !(opt.all fun o => o == "pid" || o.startsWith "app=") then (s, some "bad-op")
        else if a = 0 ∨ b = 0 then ({ now := s.now }, some "err")
        else
          let app := match apps.getLast? with
            | some o => bytesStr (resOfTok (o.drop 4).toString)
            | none => "v.app"
          ({ now := s.now, w := some (Writer.new s.now a b), createds := [s.now / 1000], pid := opt.contains "pid", app := app }, some "ok")
      | _, _ => (s, some "bad-op")
  | ["log.reopen", a, b] => match s.w, a.toNat?, b.toNat? with
      | some w, some a, some b =>
        -- well-formed: limits non-zero, writer alive, the clock is not behind what was written (and so not
        -- behind the day of the newest file)
        let lastDay := match w.files.getLast? with | some f => f.name.1 | none => 0
        if a = 0 ∨ b = 0 ∨ s.closed ∨ s.now / 1000 < w.latestOpSec ∨ dayOf (s.now / 1000) < lastDay then (s, some "bad-op")
        else ({ s with w := some (w.reopen s.now a b), createds := (s.now / 1000) :: s.createds }, some "ok")
      | _, _, _ => (s, some "bad-op")
  | "log.write" :: t :: n :: items => match s.w, t.toNat?, n.toNat?, items.mapM parseItem? with
      | some w, some t, some n, some items =>
        if n ≠ items.length then (s, some "bad-op")
        else if s.closed then (s, some "closed")
        else if n = 0 then (s, none)
        else if t = 0 then (s, some "err")
        else ({ s with w := some (w.write t items) }, none)
      | _, _, _, _ => (s, some "bad-op")
  | ["log.cut", which, k] => match s.w, k.toNat? with
      | some w, some k =>
        let s := die s w
        if which == "data" then
          let s := { s with cutD := some k, rawD := [] }
          ({ s with w := some (applyCuts s w) }, none)
        else if which == "idx" then
          let s := { s with cutI := some k, rawI := [], idxGone := false }
          ({ s with w := some (applyCuts s w) }, none)
        else (s, some "bad-op")
      | _, _ => (s, some "bad-op")
  | ["log.raw", which, hex] => match s.w, parseHexBytes hex.toList with
      | some w, some bs =>
        let s := { die s w with raw := true }
        if which == "data" then
          let s := { s with rawD := s.rawD ++ bs }
          ({ s with w := some (applyCuts s w) }, none)
        else if which == "idx" then
          if s.idxGone then (s, some "bad-op") else
          let s := { s with rawI := s.rawI ++ bs }
          ({ s with w := some (applyCuts s w) }, none)
        else (s, some "bad-op")
      | _, _ => (s, some "bad-op")
  | ["log.rmidx"] => match s.w with
      | some w =>
        -- a crash between the creation of the data file and of its index: searched like an empty index
        let s := { die s w with cutI := some 0, rawI := [], idxGone := true }
        ({ s with w := some (applyCuts s w) }, none)
      | none => (s, some "bad-op")
  | ["log.touch", nm] => match s.w with
      | some _ => ({ s with touched := (nm, false) :: s.touched.filter (·.1 != nm) }, none)
      | none => (s, some "bad-op")
  | ["log.mkdir", nm] => match s.w with
      | some _ => ({ s with touched := (nm, true) :: s.touched.filter (·.1 != nm) }, none)
      | none => (s, some "bad-op")
  | ["log.badsearcher"] => (s, some "err err")
  | ["log.files"] => match s.w with
      | some w =>
        let n := w.files.length
        let xs := w.files.zipIdx.foldl (fun acc (f, i) =>
          let acc := if s.idxGone && i + 1 == n then acc else insertSorted (fileNameC s.app s.pid f.name ++ ".idx", f.idx.length) acc
          insertSorted (fileNameC s.app s.pid f.name, f.data.length) acc) []
        let xs := s.touched.foldl (fun acc t => insertSorted (t.1, 0) acc) xs
        (s, some (showList (xs.map fun p =>
          if s.touched.any (fun t => t.1 == p.1 && t.2) then s!"{p.1}/:0" else s!"{p.1}:{p.2}")))
      | none => (s, some "bad-op")
  | ["log.find", sid, b, e, r] => match s.w, b.toNat?, e.toNat? with
      | some w, some b, some e =>
        let res := if r == "*" then [] else resOfTok r
        let c := getCache s sid
        let (c', xs) := find w.files c b e res
        let s' := setCache s sid c'
        if spec && s.raw then (s', some "?")
        else if spec then
          (s', some (specAnswer s w c b (fun v => specFind v.perFile.flatten b e res)
                      (fun it => inRange b e it && resMatch res it)))
        else (s', some (showItems xs))
      | _, _, _ => (s, some "bad-op")
  | ["log.from", sid, b, m] => match s.w, b.toNat?, m.toNat? with
      | some w, some b, some m =>
        let c := getCache s sid
        let (c', xs) := findFrom w.files c b m
        let s' := setCache s sid c'
        if spec && s.raw then (s', some "?")
        else if spec then
          (s', some (specAnswer s w c b (fun v => specFrom v.perFile b m)
                      (fun it => decide (b / 1000 ≤ it.ts / 1000))))
        else (s', some (showItems xs))
      | _, _, _ => (s, some "bad-op")
  | _ => (s, some "bad-op")

def run (mode : String) : IO Unit :=
  loop ({} : St) (step (mode == "spec"))

end Sentinel.Drv.C17
