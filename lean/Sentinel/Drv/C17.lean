import Sentinel.Drv.Common
/-! Driver for C17 (stub: replaced by the property's real driver) -/
namespace Sentinel.Drv.C17
def run (_mode : String) : IO Unit := IO.eprintln "C17: driver not implemented"
end Sentinel.Drv.C17
