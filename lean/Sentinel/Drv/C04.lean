import Sentinel.Drv.Common
/-! Driver for C04 (stub: replaced by the property's real driver) -/
namespace Sentinel.Drv.C04
def run (_mode : String) : IO Unit := IO.eprintln "C04: driver not implemented"
end Sentinel.Drv.C04
