import Sentinel.Drv.Common
import Sentinel.Model.Isolation
/-! Driver for C04: `model` = `checkPass` (uint64 comparison, clamp) + gauge, `spec` = in-flight recomputed from the
    handles, admission decided over `Nat`.

    ops:  `load <res:threshold>*`
          `entry <id> <res> <batch>`            => `pass` | `block iso <rule-index> <triggered-value>` | `dup`
          `exit <id> [err]`, `dexit <id>` (two concurrent Exit calls), `pexit <id>` (Exit with a panicking handler: as the code has it the entry
          stays in flight for ever, the handle is finished), `trace <id>` (no-op), `when <id> ok|err` (WhenExit handler returning nil / an error: no-op), `entry … type=<t>` (same as without),
          `entry <id> <res> -` (no batch option = batch 1), `manyres <n>` (enter+exit n fresh rule-less resources: no-op),
          `sload …` / `sloadres …` (= `load` / `loadres` through one reused caller-owned slice, overwritten after the call),
          `poke <res> <idx> <thr>` (in-place edit of a loaded valid rule object, thr ≠ 0), `rules <res>` / `rules` (GetRulesOfResource / GetRules),
          `entry … [type=<t>] [in]` (in = WithTrafficType(Inbound)),
          `loadres <res> <thr>*` / `clearres <res>` (LoadRulesOfResource / ClearRulesOfResource), `clock <ms>` (offset from the case start,
          may step backwards: no-op of both machines)
          `conc <res>`                          => gauge
          `sched <id0> <res> <b0,b1,…> <i0,i1,…|->`  => `[r0,…] max=<g>`   (r = `-` idle, `p` in flight, `x` exited, `b<idx>:<tv>` blocked)
          `par <id0> <k> <res> <batch>`         = `sched id0 res b,…,b 0,…,k-1,0,…,k-1`
          `soak <res> <goroutines> <rounds> <batch> [x2]` => `gauge0=ok max<=<bound> min=ok rej=ok cold=ok total=ok`  (real goroutines looping Entry/Exit;
                                                  only verdicts against the bounds are printed, never the racy values) -/
namespace Sentinel.Drv.C04
open Sentinel.Iso Sentinel.Drv

def u32? (s : String) : Option UInt32 :=
  match s.toNat? with
  | some n => if n < 4294967296 then some (UInt32.ofNat n) else none
  | none => none

/-- `-` = no `WithBatchCount` option: `EntryOptions` default batch 1 -/
def batch? (s : String) : Option UInt32 := if s = "-" then some 1 else u32? s

/-- resource names starting with `#` are reserved for `manyres` (they never carry a rule) -/
def rule? (s : String) : Option (String × UInt32) :=
  match s.splitOn ":" with
  | [r, t] => if r = "" ∨ r.startsWith "#" then none else (u32? t).map fun t => (r, t)
  | _ => none

def list? {α} (f : String → Option α) (s : String) : Option (List α) :=
  if s = "-" then some [] else (s.splitOn ",").mapM f

def soak? (res g rounds b : String) : Option Op := do
  let g ← g.toNat?
  let rounds ← rounds.toNat?
  if g = 0 ∨ g > 64 ∨ rounds > 1000000 then none else some (.soak res g rounds (← u32? b))

def resType (s : String) : Bool :=
  ["type=common", "type=web", "type=rpc", "type=gateway", "type=dbsql", "type=cache", "type=mq"].contains s

/-- handle ids given by the harness stay below 2^40 (ids above are the model's own, see `freshId`) -/
def id? (s : String) : Option Nat :=
  match s.toNat? with
  | some n => if n < 1099511627776 - 64 then some n else none
  | none => none

def parse : List String → Option Op
  | "load" :: rs => (rs.mapM rule?).map .load
  | "sload" :: rs => (rs.mapM rule?).map .load       -- same call through a reused caller-owned slice that is overwritten afterwards
  | "sloadres" :: res :: ths =>
      if res = "" ∨ res.startsWith "#" then none else (ths.mapM u32?).map (.loadres true res)
  | ["poke", res, idx, t] => do
      let t ← u32? t
      if t = 0 then none else some (.poke res (← idx.toNat?) t)
  | ["rules", res] => some (.getrules res)
  | ["rules"] => some .getall
  | "loadres" :: res :: ths =>          -- isolation.LoadRulesOfResource(res, rules with these thresholds)
      if res = "" ∨ res.startsWith "#" then none else (ths.mapM u32?).map (.loadres false res)
  | ["clearres", res] =>                -- isolation.ClearRulesOfResource(res), also for a resource without rules
      if res = "" ∨ res.startsWith "#" then none else some (.loadres false res [])
  | ["entry", id, res, b] => do some (.entry (← id? id) res (← batch? b))
  | ["entry", id, res, b, ty] =>     -- the gauge belongs to the resource NAME, whatever the resource type / traffic direction of the entry
      if resType ty ∨ ty = "in" then do some (.entry (← id? id) res (← batch? b)) else none
  | ["entry", id, res, b, ty, "in"] =>
      if resType ty then do some (.entry (← id? id) res (← batch? b)) else none
  | ["exit", id] => do some (.exit (← id? id))
  | ["exit", id, "err"] => do some (.exit (← id? id))      -- an error on the entry changes nothing in the accounting
  | ["dexit", id] => do some (.exit (← id? id))            -- Exit called twice at once = one Exit
  | ["pexit", id] => do some (.ghost (← id? id))           -- Exit with a panicking exit handler: the unit is never given back (as-is)
  | ["conc", res] => some (.conc res)
  | ["sched", id0, res, bs, s] => do
      let bs ← list? u32? bs
      let s ← list? String.toNat? s
      if bs.length = 0 ∨ bs.length > 64 then none else some (.sched (← id? id0) res bs s)
  | ["par", id0, k, res, b] => do
      let k ← k.toNat?
      if k = 0 ∨ k > 64 then none else
      some (.sched (← id? id0) res (List.replicate k (← u32? b)) (List.range k ++ List.range k))
  | ["soak", res, g, rounds, b] => soak? res g rounds b
  | ["soak", res, g, rounds, b, "x2"] => soak? res g rounds b
  | _ => none

def showPc : Pc → String
  | .idle => "-"
  | .checked => "c"
  | .blockedPending _ _ => "q"
  | .inflight => "p"
  | .rejected idx tv => s!"b{idx}:{tv.toNat}"
  | .done => "x"

/-- `GetRules` walks a Go map: canonical order = by (resource, position) -/
def sortRules (rs : List (String × Rule)) : List (String × Rule) :=
  (rs.toArray.qsort fun a b => a.1 < b.1 ∨ (a.1 = b.1 ∧ a.2.idx < b.2.idx)).toList

def showOut : Out → Option String
  | .none => none
  | .pass => some "pass"
  | .block idx tv => some s!"block iso {idx} {tv.toNat}"
  | .dup => some "dup"
  | .val g => some (toString g)
  | .sched th mx => some (showList (th.map showPc) ++ s!" max={mx}")
  | .rules rs => some (showList (rs.map fun r => s!"{r.idx}:{r.thr.toNat}"))
  | .allrules rs => some (showList ((sortRules rs).map fun p => s!"{p.1}:{p.2.idx}:{p.2.thr.toNat}"))
  | .soak bound => some s!"gauge0=ok max<={bound} min=ok rej=ok cold=ok total=ok"

/-- `trace <id>` (api.TraceError) never touches rules, gauges or handles: a no-op of both machines -/
def isTrace : List String → Bool
  | ["trace", id] => id.toNat?.isSome
  | ["idmode", m] =>        -- how the harness fills `Rule.ID` (shared / empty / positions): rules are their positions whatever the ids
      m = "pos" || m = "same" || m = "empty" || m = "mixed"
  | ["when", id, k] =>      -- an exit handler (returning nil or an error) never changes the accounting
      id.toNat?.isSome && (k = "ok" || k = "err")
  | ["clock", ms] =>        -- the virtual clock moves (possibly backwards): the accounting does not depend on time at all
      match ms.toNat? with
      | some ms => ms ≤ 20000
      | none => false
  | ["manyres", n] =>       -- enter and exit `n` fresh rule-less resources `#…`: nothing is in flight afterwards, no other gauge moves
      match n.toNat? with
      | some n => n ≤ 100000
      | none => false
  | _ => false

def stepModel (s : St) (ts : List String) (_ : String) : St × Option String :=
  if isTrace ts then (s, none) else
  match parse ts with
  | some op => let (s', o) := step s op; (s', showOut o)
  | none => (s, some "bad-op")

def stepSpec (s : SpecSt) (ts : List String) (_ : String) : SpecSt × Option String :=
  if isTrace ts then (s, none) else
  match parse ts with
  | some op =>
    let (s', _) := specStep s op
    -- what the property claims: the observation under the rules of the latest loads (`ideal`; equal to `rules` by `enforced_is_latest_load`)
    (s', showOut (specStep { s with rules := s.ideal } op).2)
  | none => (s, some "bad-op")

def run (mode : String) : IO Unit :=
  match mode with
  | "model" => loop ({} : St) stepModel
  | "spec" => loop ({} : SpecSt) stepSpec
  | _ => IO.eprintln "C04: modes are model | spec"

end Sentinel.Drv.C04
