import Sentinel.Drv.Common
import Sentinel.Model.FlowReject
/-!
Driver for C02.

* `model`  — the code-shaped model (`load`, `entry`, `runSched` over leap arrays)
* `spec`   — the array-free reference over the history of admitted arrivals (`refCheck`, `refRunSched`);
             the history evolves by the as-is wiring (`RuleInfo.feed`), the *claimed* decision is the one
             the property demands (`Rule.src`); where they can differ (a rule of the entered resource lies in
             the region of `assoc-standalone-own-traffic`) the answer is `?known:<key>:<claimed>`
* `oracle` — reads an implementation trace and checks the window caps (`≤ T`, and `≤ T + (k-1)·maxBatch`
             once `k` entries were simultaneously inside the admission path) from the observed decisions

Ops (`entry` and `par` take an optional last token `type=<t>[,…]`, ignored by model and spec):
      `clock <ms>` · `load <n> <res,thr,iv,ref>*n` (thr = `f:<hex16>`, ref = `-` or a resource) ·
      `entry <res> <batch>` · `par <res> <b0,b1,…> <i0,i1,…>` (schedule of thread ids: first occurrence =
      check phase, second = statistic phase) · `sum <res>` (pass sum of the node's default view, `-` = no node)
-/
namespace Sentinel.Drv.C02
open Sentinel.LA Sentinel.FlowReject Sentinel.Drv

def knownKey : String := "assoc-standalone-own-traffic"

structure DSt where
  s : St := {}
  loaded : Bool := false
  now : Nat := 0
  mono : Bool := true
  -- spec / oracle side
  infos : List RuleInfo := []
  H : List Arrival := []
  seen : List Nat := []          -- resources that have a node
  width : Nat := 1               -- oracle: largest number of entries seen simultaneously inside the admission path
  maxB : Nat := 0                -- oracle: largest batch among them

def parseRule (s : String) : Option Rule :=
  match s.splitOn "," with
  | [res, thr, iv, ref] =>
    match res.toNat?, (if thr.startsWith "f:" then parseHex? (thr.drop 2).toString else none), iv.toNat? with
    | some res, some bits, some iv =>
      if ref = "-" then some { res := res, thr := Thr.ofBits bits, iv := iv }
      else match ref.toNat? with
        | some r => some { res := res, thr := Thr.ofBits bits, iv := iv, ref := some r }
        | none => none
    | _, _, _ => none
  | _ => none

def parseRules : List String → Option (List Rule)
  | [] => some []
  | x :: r => match parseRule x, parseRules r with
    | some a, some b => some (a :: b)
    | _, _ => none

def parseNats (s : String) : Option (List Nat) :=
  (s.splitOn ",").foldr (fun x acc => match x.toNat?, acc with
    | some n, some l => some (n :: l) | _, _ => none) (some [])

/-- the optional trailing token `type=<t>[,<t>…]` (`api.WithResourceType`), one type per caller; it never
    influences a decision — the statistic of a flow rule is per resource **name** -/
def typeTokOk (tok : String) (n : Nat) : Bool :=
  tok.startsWith "type=" &&
    (let names := (tok.drop 5).toString.splitOn ","
     names.length == n && names.all fun t => ["common", "web", "rpc", "gateway", "dbsql", "cache", "mq"].contains t)

/-- drop a well-formed type token from an `entry` / `par` op -/
def stripType (ts : List String) : Option (List String) :=
  match ts with
  | ["entry", res, b, ty] => if typeTokOk ty 1 then some ["entry", res, b] else none
  | ["par", res, bs, sched, ty] => if typeTokOk ty (bs.splitOn ",").length then some ["par", res, bs, sched] else none
  | _ => some ts

def showD : Option Nat → String
  | none => "pass"
  | some i => s!"block flow {i}"

def addSeen (l : List Nat) (r : Nat) : List Nat := if l.contains r then l else l ++ [r]

/-- some rule of `res` counts a different resource than the property demands -/
def inRegion (infos : List RuleInfo) (res : Nat) : Bool :=
  infos.any fun c => c.rule.res = res && c.inFinding

def srcDemanded (c : RuleInfo) : Nat := c.rule.src

/-- a schedule is well formed when every thread id is in range and occurs exactly twice -/
def schedOk (k : Nat) (sched : List Nat) : Bool :=
  sched.all (· < k) && (List.range k).all fun i => sched.count i = 2

/-- largest number of threads simultaneously between check and record -/
def schedWidth (sched : List Nat) : Nat :=
  let rec go (inpath : List Nat) (best : Nat) : List Nat → Nat
    | [] => best
    | i :: r =>
      if inpath.contains i then go (inpath.erase i) best r
      else go (i :: inpath) (max best (inpath.length + 1)) r
  go [] 0 sched

def decisionsOf (ths : List (Option (Option Nat × Bool))) : String :=
  showList (ths.map fun st => match st with | some (d, _) => showD d | none => "-")

/-- window-cap check of the oracle: every own-traffic rule of `res`, at `now`, with the allowed slack -/
def capViolations (st : DSt) (res : Nat) : List String :=
  st.infos.filterMap fun c =>
    if c.rule.res = res ∧ c.rule.src = res then
      let tok := windowTokens st.H res c.L c.Iv st.now
      if c.rule.thr.exceeds (tok - (st.width - 1) * st.maxB) then some s!"cap rule {c.idx} tokens {tok}" else none
    else none

def stepModel (st : DSt) (ts : List String) : DSt × Option String :=
  match ts with
  | ["clock", t] => match t.toNat? with
      | some t => ({ st with now := t }, none)
      | none => (st, some "bad-op")
  | "load" :: n :: rs => match n.toNat?, parseRules rs with
      | some n, some rules =>
        if st.loaded || n ≠ rules.length then (st, some "bad-op") else
        let s := load rules st.now
        ({ st with s := s, loaded := true }, some s!"ok {s.ctrls.length}")
      | _, _ => (st, some "bad-op")
  | ["entry", res, b] => match res.toNat?, b.toNat? with
      | some res, some b =>
        let (s, d) := entry st.s res st.now b
        ({ st with s := s }, some (showD d))
      | _, _ => (st, some "bad-op")
  | ["par", res, bs, sched] => match res.toNat?, parseNats bs, parseNats sched with
      | some res, some bs, some sched =>
        if !schedOk bs.length sched then (st, some "bad-op") else
        let ths : List Thread := bs.map fun b => { res := res, b := b }
        let (s, ths) := runSched st.s st.now ths sched
        ({ st with s := s }, some (decisionsOf (ths.map (·.st))))
      | _, _, _ => (st, some "bad-op")
  | ["sum", res] => match res.toNat? with
      | some res => match lookup st.s.nodes res with
        | some a => (st, some (toString (viewSum a dIv st.now)))
        | none => (st, some "-")
      | none => (st, some "bad-op")
  | _ => (st, some "bad-op")

def stepSpec (st : DSt) (ts : List String) : DSt × Option String :=
  match ts with
  | ["clock", t] => match t.toNat? with
      | some t => ({ st with now := t, mono := st.mono && decide (st.now ≤ t) }, none)
      | none => (st, some "bad-op")
  | "load" :: n :: rs => match n.toNat?, parseRules rs with
      | some n, some rules =>
        if st.loaded || n ≠ rules.length then (st, some "bad-op") else
        let infos := compile rules
        let seen := (rules.filter (·.valid)).foldl (fun l r => addSeen l r.src) st.seen
        ({ st with infos := infos, loaded := true, seen := seen }, some s!"ok {infos.length}")
      | _, _ => (st, some "bad-op")
  | ["entry", res, b] => match res.toNat?, b.toNat? with
      | some res, some b =>
        let a : Arrival := { t := st.now, res := res, b := b }
        let asis := refCheck RuleInfo.feed st.infos st.H res st.now b
        let claim := refCheck srcDemanded st.infos st.H res st.now b
        -- at time 0 ("no time") nothing is recorded, and no claim is made
        let st' := { st with H := if asis.isNone && st.now != 0 then st.H ++ [a] else st.H, seen := addSeen st.seen res }
        if !st.mono || st.now = 0 then (st', some "?")
        else if inRegion st.infos res then (st', some s!"?known:{knownKey}:{showD claim}")
        else (st', some (showD claim))
      | _, _ => (st, some "bad-op")
  | ["par", res, bs, sched] => match res.toNat?, parseNats bs, parseNats sched with
      | some res, some bs, some sched =>
        if !schedOk bs.length sched then (st, some "bad-op") else
        let ths : List Thread := bs.map fun b => { res := res, b := b }
        let (H', asis) := refRunSched RuleInfo.feed st.infos st.H st.now ths sched
        let (_, claim) := refRunSched srcDemanded st.infos st.H st.now ths sched
        let st' := { st with H := if st.now != 0 then H' else st.H, seen := addSeen st.seen res }
        if !st.mono || st.now = 0 then (st', some "?")
        else if inRegion st.infos res then (st', some s!"?known:{knownKey}:{decisionsOf (claim.map (·.st))}")
        else (st', some (decisionsOf (asis.map (·.st))))
      | _, _, _ => (st, some "bad-op")
  | ["sum", res] => match res.toNat? with
      | some res =>
        if !st.mono || st.now = 0 then (st, some "?")
        else if st.seen.contains res then (st, some (toString (windowTokens st.H res gL dIv st.now)))
        else (st, some "-")
      | none => (st, some "bad-op")
  | _ => (st, some "bad-op")

def parseD (r : String) : Option (Option Nat) :=
  match toks r with
  | ["pass"] => some none
  | ["block", "flow", i] => i.toNat?.map some
  | _ => none

/-- oracle: judge the implementation's own trace -/
def stepOracle (st : DSt) (ts : List String) (line : String) : DSt × Option String :=
  let res? := resPart line
  match ts with
  | ["clock", t] => match t.toNat? with
      | some t => ({ st with now := t, mono := st.mono && decide (st.now ≤ t) }, none)
      | none => (st, some "bad-op")
  | "load" :: _ :: rs => match parseRules rs with
      | some rules => ({ st with infos := compile rules, loaded := true }, some "ok")
      | none => (st, some "bad-op")
  | ["entry", res, b] => match res.toNat?, b.toNat?, res?.bind parseD with
      | some res, some b, some d =>
        if d.isSome then (st, some "ok") else
        let st' := { st with H := st.H ++ [{ t := st.now, res := res, b := b }] }
        if !st.mono then (st', some "?") else
        match capViolations st' res with
        | [] => (st', some "ok")
        | v :: _ => (st', some ("bad " ++ v))
      | _, _, _ => (st, some "bad-op")
  | ["par", res, bs, sched] => match res.toNat?, parseNats bs, parseNats sched, res? with
      | some res, some bs, some sched, some r =>
        let ds := ((r.drop 1).dropEnd 1).toString.splitOn ","
        if ds.length ≠ bs.length then (st, some "bad-op") else
        let adm := (bs.zip ds).filterMap fun (b, d) => if d = "pass" then some ({ t := st.now, res := res, b := b } : Arrival) else none
        let st' := { st with H := st.H ++ adm, width := max st.width (schedWidth sched), maxB := max st.maxB (bs.foldl max 0) }
        if !st.mono then (st', some "?") else
        match capViolations st' res with
        | [] => (st', some "ok")
        | v :: _ => (st', some ("bad " ++ v))
      | _, _, _, _ => (st, some "bad-op")
  | ["sum", _] => (st, some "ok")
  | _ => (st, some "bad-op")

def run (mode : String) : IO Unit :=
  if mode == "spec" then loop ({} : DSt) (fun st ts _ => match stripType ts with
    | some ts => stepSpec st ts | none => (st, some "bad-op"))
  else if mode == "oracle" then loop ({} : DSt) (fun st ts line => match stripType ts with
    | some ts => stepOracle st ts line | none => (st, some "bad-op"))
  else loop ({} : DSt) (fun st ts _ => match stripType ts with
    | some ts => stepModel st ts | none => (st, some "bad-op"))

end Sentinel.Drv.C02
