import Sentinel.Drv.Common
import Sentinel.Model.FlowReject
/-!
Driver for C02.

* `model`  — the code-shaped model (`load`, `entry`, `runSched` over leap arrays)
* `spec`   — the array-free reference over the history of admitted arrivals (`refCheck`, `refRunSched`);
             the history evolves by the as-is wiring (`RuleInfo.feed`), the *claimed* decision is the one
             the property demands (`Rule.src`); where they can differ (a rule of the entered resource lies in
             the region of `assoc-standalone-own-traffic`) the answer is `?known:<key>:<claimed>`
* `oracle` — reads an implementation trace and checks the window caps (`≤ T`, and `≤ T + (k-1)·maxBatch`
             once `k` entries were simultaneously inside the admission path) from the observed decisions

Ops (`entry` and `par` take an optional last token `type=<t>[,…]`, ignored by model and spec):
      `clock <ms>` · `loadres <res> <n> <rule>*n` (`flow.LoadRulesOfResource`; `n = 0` clears) · `load <n> <res,thr,iv,ref[,q<maxQueueMs>]>*n` (thr = `f:<hex16>`, ref = `-` or a resource; a 5th field makes it a
      throttling rule; a later `load` in the same case is a reload, rule ids keep counting) ·
      `entry <res> <batch>` · `par <res> <b0,b1,…> <i0,i1,…>` (schedule of thread ids: first occurrence =
      check phase, second = statistic phase) · `sum <res>` (pass sum of the node's default view, `-` = no node)
-/
namespace Sentinel.Drv.C02
open Sentinel.LA Sentinel.FlowReject Sentinel.Drv

def knownKey : String := "assoc-standalone-own-traffic"

structure DSt where
  s : St := {}
  t : Nat := 0                   -- the virtual clock in ns (advanced by `clock` and by sleeps)
  nrules : Nat := 0              -- rules loaded so far in this case (ids of the next load start here)
  loads : Nat := 0
  mono : Bool := true
  -- spec / oracle side
  r : RSt := {}
  infos : List RuleInfo := []
  H : List Arrival := []
  seen : List Nat := []          -- resources that have a node
  width : Nat := 1               -- oracle: largest number of entries seen simultaneously inside the admission path
  maxB : Nat := 0                -- oracle: largest batch among them

def DSt.now (st : DSt) : Nat := st.t / nsPerMs

/-- rules that `IsValidRule` rejects for a reason other than the threshold are transported as `thr := .invalid`
    (the model only needs to know that they are skipped): resource `_` = empty Resource, ref `_` = AssociatedResource with an
    empty RefResource, ref `?` = an undefined RelationStrategy -/
def parseRule4 (res thr iv ref : String) : Option Rule :=
  if res = "_" || ref = "_" || ref = "?" then
    (if (if thr.startsWith "f:" then parseHex? (thr.drop 2).toString else none).isSome && iv.toNat?.isSome
        && (res = "_" || res.toNat?.isSome) && (ref = "_" || ref = "?" || ref = "-" || ref.toNat?.isSome)
      then some { res := res.toNat?.getD 0, thr := .invalid, iv := iv.toNat?.getD 0 } else none)
  else
    match res.toNat?, (if thr.startsWith "f:" then parseHex? (thr.drop 2).toString else none), iv.toNat? with
    | some res, some bits, some iv =>
      if ref = "-" then some { res := res, thr := Thr.ofBits bits, iv := iv }
      else match ref.toNat? with
        | some r => some { res := res, thr := Thr.ofBits bits, iv := iv, ref := some r }
        | none => none
    | _, _, _ => none

/-- `res,thr,iv,ref` (reject) or `res,thr,iv,ref,q<MaxQueueingTimeMs>` (throttling) -/
def parseRule (s : String) : Option Rule :=
  if s = "nil" then some { res := 0, thr := .invalid, iv := 0 } else     -- a nil *Rule in the list: ignored
  match s.splitOn "," with
  | [res, thr, iv, ref] => parseRule4 res thr iv ref
  | [res, thr, iv, ref, q] =>
    if q.startsWith "q" then
      match parseRule4 res thr iv ref, (q.drop 1).toString.toNat? with
      | some r, some mq => some { r with kind := .throttle mq }
      | _, _ => none
    else none
  | _ => none

def parseRules : List String → Option (List Rule)
  | [] => some []
  | x :: r => match parseRule x, parseRules r with
    | some a, some b => some (a :: b)
    | _, _ => none

def parseNats (s : String) : Option (List Nat) :=
  (s.splitOn ",").foldr (fun x acc => match x.toNat?, acc with
    | some n, some l => some (n :: l) | _, _ => none) (some [])

/-- the optional trailing token `type=<t>[,<t>…]` (`api.WithResourceType`), one type per caller; it never
    influences a decision — the statistic of a flow rule is per resource **name** -/
def typeTokOk (tok : String) (n : Nat) : Bool :=
  tok.startsWith "type=" &&
    (let names := (tok.drop 5).toString.splitOn ","
     names.length == n && names.all fun t => ["common", "web", "rpc", "gateway", "dbsql", "cache", "mq"].contains t)

/-- `entry <res> -` / a `-` among the batches of `par`: the call carries no `WithBatchCount`, i.e. batch 1 -/
def normBatch (ts : List String) : List String :=
  match ts with
  | "entry" :: res :: b :: rest => "entry" :: res :: (if b = "-" then "1" else b) :: rest
  | "par" :: res :: bs :: rest => "par" :: res :: ",".intercalate ((bs.splitOn ",").map fun b => if b = "-" then "1" else b) :: rest
  | _ => ts

/-- drop a well-formed type token from an `entry` / `par` op (after `normBatch`) -/
def stripType (ts : List String) : Option (List String) :=
  match normBatch ts with
  | ["entry", res, b, ty] => if typeTokOk ty 1 then some ["entry", res, b] else none
  | ["par", res, bs, sched, ty] => if typeTokOk ty (bs.splitOn ",").length then some ["par", res, bs, sched] else none
  | other => some other

def showD : Option Nat → String
  | none => "pass"
  | some i => if i = noRule then "block flow -" else s!"block flow {i}"

/-- results carry the time slept inside the flow slot when there was any: `pass +<ns>` -/
def withSleep (r : String) (t0 t1 : Nat) : String := if t1 > t0 then s!"{r} +{t1 - t0}" else r

def addSeen (l : List Nat) (r : Nat) : List Nat := if l.contains r then l else l ++ [r]

/-- some rule of `res` counts a different resource than the property demands -/
def inRegion (infos : List RuleInfo) (res : Nat) : Bool :=
  infos.any fun c => c.rule.res = res && c.inFinding

def srcDemanded (c : RuleInfo) : Nat := c.rule.src

/-- a schedule is well formed when every thread id is in range and occurs exactly twice -/
def schedOk (k : Nat) (sched : List Nat) : Bool :=
  sched.all (· < k) && (List.range k).all fun i => sched.count i = 2

/-- largest number of threads simultaneously between check and record -/
def schedWidth (sched : List Nat) : Nat :=
  let rec go (inpath : List Nat) (best : Nat) : List Nat → Nat
    | [] => best
    | i :: r =>
      if inpath.contains i then go (inpath.erase i) best r
      else go (i :: inpath) (max best (inpath.length + 1)) r
  go [] 0 sched

def decisionsOf (ths : List (Option (Option Nat × Bool))) : String :=
  showList (ths.map fun st => match st with | some (d, _) => showD d | none => "-")

/-- window-cap check of the oracle: every own-traffic reject rule of `res`, at `now`, with the allowed slack -/
def capViolations (st : DSt) (res : Nat) : List String :=
  st.infos.filterMap fun c =>
    if c.rule.res = res ∧ c.rule.src = res ∧ c.rule.kind = .reject then
      let tok := windowTokens st.H res c.L c.Iv st.now
      if c.rule.thr.exceeds (tok - (st.width - 1) * st.maxB) then some s!"cap rule {c.idx} tokens {tok}" else none
    else none

def stepClock (st : DSt) (t : String) : DSt × Option String :=
  match t.toNat? with
  -- the clock never goes back behind what the sleeps of the flow slot already made of it
  | some t => ({ st with t := max st.t (t * nsPerMs) }, none)
  | none => (st, some "bad-op")

def showOut : Out → Option String
  | .silent => none
  | .loaded n => some s!"ok {n}"
  | .dec d w => some (if w > 0 then s!"{showD d} +{w}" else showD d)

/-- `clock` / `load` / `entry` go through `stepOp`, the function `Sentinel.C02.runG_eq_ref` is about -/
def modelOp (st : DSt) (o : Op) : DSt × Option String :=
  let x := stepOp { s := st.s, t := st.t, nrules := st.nrules } o
  ({ st with s := x.1.s, t := x.1.t, nrules := x.1.nrules }, showOut x.2)

def stepModel (st : DSt) (ts : List String) : DSt × Option String :=
  match ts with
  | ["clock", t] => match t.toNat? with
      | some t => modelOp st (.clock t)
      | none => (st, some "bad-op")
  | "load" :: n :: rs => match n.toNat?, parseRules rs with
      | some n, some rules =>
        if n ≠ rules.length then (st, some "bad-op") else modelOp { st with loads := st.loads + 1 } (.load rules)
      | _, _ => (st, some "bad-op")
  | "loadres" :: res :: n :: rs => match res.toNat?, n.toNat?, parseRules rs with
      | some res, some n, some rules =>
        if n ≠ rules.length then (st, some "bad-op") else modelOp { st with loads := st.loads + 1 } (.loadres res rules)
      | _, _, _ => (st, some "bad-op")
  | ["entry", res, b] => match res.toNat?, b.toNat? with
      | some res, some b => modelOp st (.entry res b)
      | _, _ => (st, some "bad-op")
  | ["par", res, bs, sched] => match res.toNat?, parseNats bs, parseNats sched with
      | some res, some bs, some sched =>
        if !schedOk bs.length sched then (st, some "bad-op") else
        let ths : List Thread := bs.map fun b => { res := res, b := b }
        let x := runSchedG st.s st.t ths sched
        ({ st with s := x.1, t := x.2.1 }, some (withSleep (decisionsOf (x.2.2.map (·.st))) st.t x.2.1))
      | _, _, _ => (st, some "bad-op")
  | ["sum", res] => match res.toNat? with
      | some res => match lookup st.s.nodes res with
        | some a => (st, some (toString (viewSum a dIv st.now)))
        | none => (st, some "0")        -- no node yet: nothing admitted (canonical form, the Go side prints 0 as well)
      | none => (st, some "bad-op")
  | _ => (st, some "bad-op")

def stepSpec (st : DSt) (ts : List String) : DSt × Option String :=
  match ts with
  | ["clock", t] => stepClock st t
  | "load" :: n :: rs => match n.toNat?, parseRules rs with
      | some n, some rules =>
        if n ≠ rules.length then (st, some "bad-op") else
        let r := (refStepOp RuleInfo.feed { r := st.r, t := st.t, nrules := st.nrules } (.load rules)).1.r
        -- nodes are created by `generateStatFor`, i.e. only for reject rules that get a brand-new statistic
        -- (a superset is harmless here: the node of a resource that already has one is kept)
        let seen := (rules.filter fun x => x.valid && x.kind == .reject).foldl (fun l x => addSeen l x.src) st.seen
        ({ st with r := r, nrules := st.nrules + rules.length, loads := st.loads + 1, seen := seen,
                   infos := r.ctrls.map (·.info) }, some s!"ok {r.ctrls.length}")
      | _, _ => (st, some "bad-op")
  | "loadres" :: res :: n :: rs => match res.toNat?, n.toNat?, parseRules rs with
      | some res, some n, some rules =>
        if n ≠ rules.length then (st, some "bad-op") else
        let r := (refStepOp RuleInfo.feed { r := st.r, t := st.t, nrules := st.nrules } (.loadres res rules)).1.r
        let seen := (rules.filter fun x => x.valid && x.kind == .reject && x.res == res).foldl (fun l x => addSeen l x.src) st.seen
        ({ st with r := r, nrules := st.nrules + rules.length, loads := st.loads + 1, seen := seen,
                   infos := r.ctrls.map (·.info) }, some s!"ok {r.ctrls.length}")
      | _, _, _ => (st, some "bad-op")
  | ["entry", res, b] => match res.toNat?, b.toNat? with
      | some res, some b =>
        -- the as-is reference step is `refStepOp`, the function `Sentinel.C02.runG_eq_ref` is about
        let asis' := refStepOp RuleInfo.feed { r := st.r, t := st.t, nrules := st.nrules } (.entry res b)
        let asis : RSt × Nat × Option Nat := (asis'.1.r, asis'.1.t, none)
        let claim := refEntryG srcDemanded st.r res st.t b
        let st' := { st with r := asis.1, t := asis.2.1, seen := addSeen st.seen res }
        if !st.mono || st.now = 0 then (st', some "?")
        else if inRegion st.infos res then (st', some s!"?known:{knownKey}:{withSleep (showD claim.2.2) st.t claim.2.1}")
        else (st', some (withSleep (showD claim.2.2) st.t claim.2.1))
      | _, _ => (st, some "bad-op")
  | ["par", res, bs, sched] => match res.toNat?, parseNats bs, parseNats sched with
      | some res, some bs, some sched =>
        if !schedOk bs.length sched then (st, some "bad-op") else
        let ths : List Thread := bs.map fun b => { res := res, b := b }
        let asis := refRunSchedG RuleInfo.feed st.r st.t ths sched
        let claim := refRunSchedG srcDemanded st.r st.t ths sched
        let st' := { st with r := asis.1, t := asis.2.1, seen := addSeen st.seen res }
        if !st.mono || st.now = 0 then (st', some "?")
        else if inRegion st.infos res then
          (st', some s!"?known:{knownKey}:{withSleep (decisionsOf (claim.2.2.map (·.st))) st.t claim.2.1}")
        else (st', some (withSleep (decisionsOf (asis.2.2.map (·.st))) st.t asis.2.1))
      | _, _, _ => (st, some "bad-op")
  | ["sum", res] => match res.toNat? with
      | some res =>
        if !st.mono || st.now = 0 then (st, some "?")
        else (st, some (toString (windowTokens st.r.H res gL dIv st.now)))
      | none => (st, some "bad-op")
  | _ => (st, some "bad-op")

def parseD (r : String) : Option (Option Nat) :=
  match toks r with
  | ["pass"] => some none
  | ["block", "flow", "-"] => some (some noRule)
  | ["block", "flow", i] => i.toNat?.map some
  | _ => none

/-- split `<result> +<ns>` -/
def splitSleep (r : String) : String × Nat :=
  match r.splitOn " +" with
  | [a, w] => (a, w.toNat?.getD 0)
  | _ => (r, 0)

/-- oracle: judge the implementation's own trace (window caps; no claim after a reload, which may legitimately
    lower a threshold below what the window already holds) -/
def stepOracle (st : DSt) (ts : List String) (line : String) : DSt × Option String :=
  let res? := (resPart line).map splitSleep
  match ts with
  | ["clock", t] => stepClock st t
  | "load" :: _ :: rs => match parseRules rs with
      | some rules => ({ st with infos := compile rules, loads := st.loads + 1 }, some "ok")
      | none => (st, some "bad-op")
  | "loadres" :: _ => ({ st with loads := st.loads + 2 }, some "ok")
  | ["entry", res, b] => match res.toNat?, b.toNat?, res? with
      | some res, some b, some (r, w) => match parseD r with
        | none => (st, some "bad-op")
        | some d =>
        let st := { st with t := st.t + w }
        if d.isSome then (st, some "ok") else
        let st' := { st with H := st.H ++ [{ t := st.now, res := res, b := b }] }
        if !st.mono || st.loads ≠ 1 then (st', some "?") else
        match capViolations st' res with
        | [] => (st', some "ok")
        | v :: _ => (st', some ("bad " ++ v))
      | _, _, _ => (st, some "bad-op")
  | ["par", res, bs, sched] => match res.toNat?, parseNats bs, parseNats sched, res? with
      | some res, some bs, some sched, some (r, w) =>
        let ds := ((r.drop 1).dropEnd 1).toString.splitOn ","
        if ds.length ≠ bs.length then (st, some "bad-op") else
        -- callers of a burst that slept (throttling rules) record at instants the trace does not show, somewhere between the
        -- clock before and after the op. They are attributed to the EARLIEST possible instant: a token can then only leave a
        -- later window sooner than it really does, never enter one it is not in, so the cap check stays sound (no false alarm)
        let t0ms := st.now
        let st := { st with t := st.t + w }
        let adm := (bs.zip ds).filterMap fun (b, d) => if d = "pass" then some ({ t := t0ms, res := res, b := b } : Arrival) else none
        let st' := { st with H := st.H ++ adm, width := max st.width (schedWidth sched), maxB := max st.maxB (bs.foldl max 0) }
        -- with sleeping rules the admitted callers of one burst may record at different instants: no claim
        if !st.mono || st.loads ≠ 1 || w ≠ 0 then (st', some "?") else
        match capViolations st' res with
        | [] => (st', some "ok")
        | v :: _ => (st', some ("bad " ++ v))
      | _, _, _, _ => (st, some "bad-op")
  | ["sum", _] => (st, some "ok")
  | _ => (st, some "bad-op")

/-! ### rules of a custom (strategy, behaviour) generator registered by the harness (`flow.SetTrafficShapingGenerator`)

A rule token `res,thr,iv,ref,x<mode>` is built by the harness' generator, which never yields a controller:
`xfail` returns an error (rule ignored), `xe<res>.<batch>` issues `api.Entry(res, batch)` from inside the rebuild and then
returns an error, `xpanic` panics (the load is aborted by the manager's `recover`). Modelling assumption (checked by the
correspondence run): a request issued inside the rebuild sees the **previous** rule set (the new one is swapped in at
the end), an aborted load leaves the rules in force untouched. So a load with custom rules is the op sequence
`entry…` (those before a panic), then the load with the custom rules voided — unless it was aborted. -/

/-- `(rule tokens with custom rules voided, custom modes in order)` -/
def splitCustom (rs : List String) : List String × List String :=
  rs.foldr (fun tok acc =>
    match tok.splitOn "," with
    | [res, _, _, _, m] =>
      if m.startsWith "x" then (s!"{res},f:bff0000000000000,0,-" :: acc.1, (m.drop 1).toString :: acc.2) else (tok :: acc.1, acc.2)
    | _ => (tok :: acc.1, acc.2)) ([], [])

/-- combine the results of the requests issued inside a load with the load's own result -/
def combine (own : String) (inside : List String) : String :=
  let all := own :: inside
  if all.contains "?" then "?"
  else
    let strip (r : String) : String := if r.startsWith "?known:" then ((r.splitOn ":").drop 2 |> ":".intercalate) else r
    let body := if inside.isEmpty then strip own else s!"{strip own} {showList (inside.map strip)}"
    if all.any (·.startsWith "?known:") then s!"?known:{knownKey}:{body}" else body

/-- run a `load` / `loadres` op that may contain custom-generator rules through `step` -/
def withCustom (step : DSt → List String → DSt × Option String) (count : DSt → Nat) (st : DSt) (ts : List String) : DSt × Option String :=
  let (head, rs) : List String × List String := match ts with
    | "load" :: n :: rs => (["load", n], rs)
    | "loadres" :: res :: n :: rs => (["loadres", res, n], rs)
    | _ => (ts, [])
  let (plain, customs) := splitCustom rs
  -- `LoadRulesOfResource("", …)`: "empty resource" error before anything is looked at
  if head.take 2 == ["loadres", "_"] then ({ st with nrules := st.nrules + rs.length }, some s!"err {count st}") else
  if customs.isEmpty then step st ts else
  -- the requests issued from inside the rebuild, up to a panic
  let rec go (st : DSt) (acc : List String) : List String → DSt × List String × Bool
    | [] => (st, acc, false)
    | m :: ms =>
      if m = "panic" then (st, acc, true)
      else if m.startsWith "e" then
        match (m.drop 1).toString.splitOn "." with
        | [res, b] =>
          match stripType ["entry", res, b] with
          | some e => let x := step st e; go x.1 (acc ++ [x.2.getD "bad-op"]) ms
          | none => go st (acc ++ ["bad-op"]) ms
        | _ => go st (acc ++ ["bad-op"]) ms
      else go st acc ms
  let (st1, inside, aborted) := go st [] customs
  if inside.contains "bad-op" then (st1, some "bad-op")
  -- an aborted load still consumed the ids of its rule objects
  else if aborted then ({ st1 with nrules := st1.nrules + rs.length }, some (combine s!"err {count st1}" inside))
  else
    let x := step st1 (head ++ plain)
    (x.1, x.2.map fun own => combine own inside)

def isLoad (ts : List String) : Bool := match ts with | "load" :: _ => true | "loadres" :: _ => true | _ => false

def run (mode : String) : IO Unit :=
  if mode == "spec" then loop ({} : DSt) (fun st ts _ => match stripType ts with
    | some ts => if isLoad ts then withCustom stepSpec (·.r.ctrls.length) st ts else stepSpec st ts
    | none => (st, some "bad-op"))
  else if mode == "oracle" then loop ({} : DSt) (fun st ts line => match stripType ts with
    | some ts =>
      if isLoad ts then
        let (head, rs) : List String × List String := match ts with
          | "load" :: n :: rs => (["load", n], rs)
          | "loadres" :: res :: n :: rs => (["loadres", res, n], rs)
          | _ => (ts, [])
        stepOracle st (head ++ (splitCustom rs).1) line
      else stepOracle st ts line
    | none => (st, some "bad-op"))
  else loop ({} : DSt) (fun st ts _ => match stripType ts with
    | some ts => if isLoad ts then withCustom stepModel (·.s.ctrls.length) st ts else stepModel st ts
    | none => (st, some "bad-op"))

end Sentinel.Drv.C02
