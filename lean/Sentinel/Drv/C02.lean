import Sentinel.Drv.Common
/-! Driver for C02 (stub: replaced by the property's real driver) -/
namespace Sentinel.Drv.C02
def run (_mode : String) : IO Unit := IO.eprintln "C02: driver not implemented"
end Sentinel.Drv.C02
