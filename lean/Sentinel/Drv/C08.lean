import Sentinel.Drv.Common
import Sentinel.Model.Bucket
import Sentinel.Model.BucketReads
/-! Driver for C08: `model` = code-shaped leap array, `spec` = aligned-bucket reference over the history -/
namespace Sentinel.Drv.C08
open Sentinel.LA Sentinel.Drv

/-- a `BaseStatNode`: its own array, the default metric `(sc, Iv)`, the spec-side history offset, and the node's
    readable views (`views[0]` = `DefaultMetric()`, the rest were returned by `GenerateReadStat`) -/
structure Node where
  a : Arr Bucket
  sc : Nat
  Iv : Nat
  off : Nat
  views : Array (Nat × Nat)

structure St where
  a : Arr Bucket := { n := 1, L := 1, slots := [] }
  views : Array (Nat × Nat) := #[]            -- (sampleCount, interval)
  now : Nat := 0
  t0 : Nat := 0
  hist : List (Nat × Bucket) := []            -- spec side: recorded events
  nodes : Array Node := #[]
  mono : Bool := true                          -- spec side: time never went backwards

def qps (sum Iv : Nat) : Float := sum.toFloat / (Iv.toFloat / 1000.0)

def showBucketItem (p : Nat × Bucket) : String :=
  let b := p.2
  let avg := if b.complete > 0 then b.rt / b.complete else b.rt
  s!"{p.1}:{b.pass}:{b.block}:{b.error}:{b.complete}:{avg}:{b.mc}"

/-- canonical form of an item list: sorted by second, all-zero items dropped (a second whose buckets
    are all empty may or may not have a slot in the array; the property does not speak about it) -/
def sortItems (xs : List (Nat × Bucket)) : List (Nat × Bucket) :=
  ((xs.filter fun p => !(p.2.pass == 0 && p.2.block == 0 && p.2.error == 0 && p.2.complete == 0 && p.2.rt == 0 && p.2.mc == 0)).toArray.qsort fun a b => a.1 < b.1).toList

def record (spec : Bool) (s : St) (x : Bucket) : St :=
  if spec then { s with hist := s.hist ++ [(s.now, x)] }
  else { s with a := (addAt s.a s.now x).1,
                nodes := s.nodes.map fun nd => { nd with a := (addAt nd.a s.now x).1 } }

/-- the getters shared by a `SlidingWindowMetric` view and a `BaseStatNode`, given the window payload
    at a time (`wsum`), the view geometry and the per-bucket maximum -/
def getter (wsum : Nat → Bucket) (maxb : Ev → Nat) (now sc Iv : Nat) (prevOk : Bool) (node : Bool)
    (rest : List String) : Option String :=
  let Lv := Iv / sc
  match rest with
  | ["sum", ev] => (Ev.ofString? ev).map fun ev => toString ((wsum now).get ev)
  | ["qps", ev] => (Ev.ofString? ev).map fun ev => fbits (qps ((wsum now).get ev) Iv)
  | ["prevqps", ev] => (Ev.ofString? ev).map fun ev =>
      -- time 0 is "no time" in this library (`now <= 0` guards): a previous-window read landing on it is outside the domain
      if !prevOk then "?" else
      let v := if Lv ≤ now then (wsum (now - Lv)).get ev else 0
      fbits (qps v Iv)
  | ["maxbucket", ev] => (Ev.ofString? ev).map fun ev => toString (maxb ev)
  | ["maxavg", ev] => (Ev.ofString? ev).map fun ev =>
      fbits ((maxb ev).toFloat * sc.toFloat / Iv.toFloat * 1000.0)
  | ["minrt"] => some (toString (max 1 (wsum now).minRt))
  | ["maxconc"] => some (toString (wsum now).mc)
  | ["avgrt"] =>
      let b := wsum now
      if node then some (if b.complete = 0 then "0" else toString (b.rt / b.complete))
      else some (fbits (b.rt.toFloat / b.complete.toFloat))
  | _ => none

/-- reference value of a window `[lo,hi]` of bucket starts -/
def refB (s : St) (lo hi : Nat) : Bucket := refW s.a.L s.hist lo hi

/-- the aligned window of a view of interval `Iv` read at `now` -/
def win (s : St) (Iv now : Nat) : Nat × Nat := (cbs s.a.L now + s.a.L - Iv, cbs s.a.L now)

/-- a read through a view `(sc, Iv)` on the array `a` whose recordings are `h` (the parent array with the whole
    history, or a node's own array with the recordings since its creation): `model` evaluates the code-shaped
    getters on `a`, `spec` the aligned-bucket reference over `h` -/
def readView (spec : Bool) (s : St) (a : Arr Bucket) (h : List (Nat × Bucket)) (sc Iv : Nat) (node : Bool)
    (rest : List String) : String :=
  if spec && !s.mono then "?" else
  let refN (lo hi : Nat) : Bucket := refW s.a.L h lo hi
  let wsum (now : Nat) : Bucket :=
    if spec then (let w := win s Iv now; refN w.1 w.2) else viewSum a Iv now
  let maxb (ev : Ev) : Nat :=
    if spec then
      let w := win s Iv s.now
      let starts := (List.range (Iv / s.a.L)).filterMap fun i =>
        if i * s.a.L ≤ w.2 then some (w.2 - i * s.a.L) else none
      ((starts.filter fun b => decide (w.1 ≤ b)).map fun b => (refN b b).get ev).foldl max 0
    else vMaxBucket a Iv s.now ev
  -- previous-window reads are only claimed when the array still has a slot for them
  let prevOk := !spec || (decide (Iv + Iv / sc ≤ s.a.n * s.a.L) && decide (s.now ≠ Iv / sc))
  (getter wsum maxb s.now sc Iv prevOk node rest).getD "bad-op"

/-- an array-level read that reduces the payload of all valid buckets (`Count`, `MinRt`, `MaxConcurrency`): it refreshes
    the current bucket first — for the reference a recording of the empty payload — and its reference is the payload of
    the last `n` aligned buckets ending at the current one -/
def aread (spec : Bool) (s : St) (atZero : String) (ofRef : Bucket → String)
    (model : Arr Bucket → Nat → Arr Bucket × String) : St × Option String :=
  if spec then
    if !s.mono then (s, some "?") else
    if s.now = 0 then (s, some atZero) else
    let e := cbs s.a.L s.now
    let s := { s with hist := s.hist ++ [(s.now, 0)] }
    (s, some (ofRef (refB s (e + s.a.L - s.a.n * s.a.L) e)))
  else
    let r := model s.a s.now
    ({ s with a := r.1 }, some r.2)

/-- one bucket of `Values(now)`: `start:pass:block:complete:error:rt:minRt:maxConcurrency` -/
def showBucket (p : Nat × Bucket) : String :=
  let b := p.2
  s!"{p.1}:{b.pass}:{b.block}:{b.complete}:{b.error}:{b.rt}:{b.minRt}:{b.mc}"

/-- canonical form of a bucket list: sorted by start, untouched buckets dropped (whether an empty bucket has a slot
    is not something the event history determines) -/
def sortBuckets (xs : List (Nat × Bucket)) : List (Nat × Bucket) :=
  ((xs.filter fun p => !(p.2.pass == 0 && p.2.block == 0 && p.2.complete == 0 && p.2.error == 0 && p.2.rt == 0 && p.2.hr == 0 && p.2.mc == 0)).toArray.qsort fun a b => a.1 < b.1).toList

def step (spec : Bool) (s : St) (ts : List String) (_ : String) : St × Option String :=
  match ts with
  | ["la.new", n, I, t] => match n.toNat?, I.toNat?, t.toNat? with
      | some n, some I, some t =>
        ({ a := { (mk n (I / n) t : Arr Bucket) with slots := if spec then [] else (mk n (I / n) t : Arr Bucket).slots },
           now := t, t0 := t }, none)
      | _, _, _ => (s, some "bad-op")
  | ["view", sc, Iv] => match sc.toNat?, Iv.toNat? with
      | some sc, some Iv =>
        let c := validView sc Iv s.a.n (s.a.n * s.a.L)
        if c = 0 then ({ s with views := s.views.push (sc, Iv) }, some "ok") else (s, some s!"err {c}")
      | _, _ => (s, some "bad-op")
  | ["clock", t] => match t.toNat? with
      | some t => ({ s with now := t, mono := s.mono && decide (s.now ≤ t) }, none)
      | none => (s, some "bad-op")
  | ["add", ev, amt] => match Ev.ofString? ev, amt.toNat? with
      | some ev, some amt => (record spec s (evBucket ev amt), none)
      | _, _ => (s, some "bad-op")
  | ["conc", c] => match c.toInt? with
      | some c => (record spec s (concBucket c), none)
      | none => (s, some "bad-op")
  | "read" :: k :: rest => match k.toNat? with
      | none => (s, some "bad-op")
      | some k => match s.views[k]? with
        | none => (s, some "bad-op")
        | some (sc, Iv) =>
          (s, some (readView spec s s.a s.hist sc Iv false rest))
  | ["node", sc, Iv] => match sc.toNat?, Iv.toNat? with
      | some sc, some Iv =>
        if validView sc Iv s.a.n (s.a.n * s.a.L) ≠ 0 then (s, some "bad-op") else
        let a : Arr Bucket := if spec then { n := s.a.n, L := s.a.L, slots := [] } else mk s.a.n s.a.L s.now
        ({ s with nodes := s.nodes.push { a := a, sc := sc, Iv := Iv, off := s.hist.length, views := #[(sc, Iv)] } }, none)
      | _, _ => (s, some "bad-op")
  | "nread" :: k :: rest => match k.toNat? with
      | none => (s, some "bad-op")
      | some k => match s.nodes[k]? with
        | none => (s, some "bad-op")
        | some nd => (s, some (readView spec s nd.a (s.hist.drop nd.off) nd.sc nd.Iv true rest))
  | ["ngen", k, sc, Iv] => match k.toNat?, sc.toNat?, Iv.toNat? with
      | some k, some sc, some Iv => match s.nodes[k]? with
        | none => (s, some "bad-op")
        | some nd =>
          -- `BaseStatNode.GenerateReadStat`: a view on the node's own array, exactly like `view` on the array
          let c := validView sc Iv s.a.n (s.a.n * s.a.L)
          if c = 0 then
            ({ s with nodes := s.nodes.set! k { nd with views := nd.views.push (sc, Iv) } }, some "ok")
          else (s, some s!"err {c}")
      | _, _, _ => (s, some "bad-op")
  | "ngread" :: k :: v :: rest => match k.toNat?, v.toNat? with
      | some k, some v => match s.nodes[k]? with
        | none => (s, some "bad-op")
        | some nd => match nd.views[v]? with
          | none => (s, some "bad-op")
          | some (sc, Iv) => (s, some (readView spec s nd.a (s.hist.drop nd.off) sc Iv false rest))
      | _, _ => (s, some "bad-op")
  | ["count", ev] => match Ev.ofString? ev with
      | some ev => aread spec s "0" (fun w => toString (w.get ev)) (fun a now => let r := aCount a now ev; (r.1, toString r.2))
      | none => (s, some "bad-op")
  | ["aminrt"] => aread spec s (toString maxRt) (fun w => toString w.minRt)
      (fun a now => let r := aMinRt a now; (r.1, toString r.2))
  | ["amaxconc"] => aread spec s "0" (fun w => toString w.mc)
      (fun a now => let r := aMaxConc a now; (r.1, toString r.2))
  | ["values"] =>
      if spec then
        if !s.mono then (s, some "?") else
        if s.now = 0 then (s, some "[]") else
        let L := s.a.L
        let e := cbs L s.now
        let s := { s with hist := s.hist ++ [(s.now, 0)] }
        -- the last `n` aligned buckets, oldest first, each with its own reference
        let starts := ((List.range s.a.n).filterMap fun i => if i * L ≤ e then some (e - i * L) else none).reverse
        (s, some (showList ((sortBuckets (starts.map fun b => (b, refB s b b))).map showBucket)))
      else
        let r := aValues s.a s.now
        ({ s with a := r.1 }, some (showList ((sortBuckets (r.2.map fun sl => (sl.start, sl.val))).map showBucket)))
  | ["items", lo, hi] => match lo.toNat?, hi.toNat? with
      | some lo, some hi =>
        if spec then
          if !s.mono then (s, some "?") else
          if s.now = 0 then (s, some "[]") else
          -- the array-wide aligned window ending at the current bucket, restricted by the caller's predicate
          let L := s.a.L
          let e := cbs L s.now
          let itemsOf (starts : List Nat) : String :=
            let secs := (starts.map fun b => b - b % 1000).eraseDups
            let items := secs.map fun sec =>
              (sec, ((starts.filter fun b => b - b % 1000 = sec).map fun b => refB s b b).sum)
            showList ((sortItems items).map showBucketItem)
          let starts := (List.range s.a.n).filterMap fun i => if i * L ≤ e then some (e - i * L) else none
          let starts := starts.filter fun b => decide (lo ≤ b ∧ b ≤ hi)
          let claimed := itemsOf starts
          -- known finding `items-boundary-bucket`: `isBucketDeprecated` is strict (`now - ws > I`), so exactly on a
          -- bucket boundary the bucket one whole interval old is still returned by a read that does not refresh,
          -- unless the current bucket has already been touched (which recycles that slot)
          let old := e - s.a.n * L
          let touched := s.hist.any fun ev => cbs L ev.1 = e
          if s.now % L = 0 && decide (s.a.n * L ≤ e) && !touched && decide (lo ≤ old ∧ old ≤ hi)
              && itemsOf (old :: starts) != claimed then
            (s, some ("?known:items-boundary-bucket:" ++ claimed))
          else (s, some claimed)
        else
          (s, some (showList ((sortItems (secondItems s.a s.now lo hi)).map showBucketItem)))
      | _, _ => (s, some "bad-op")
  | _ => (s, some "bad-op")

def run (mode : String) : IO Unit :=
  loop ({} : St) (step (mode == "spec"))

end Sentinel.Drv.C08
