import Sentinel.Drv.Common
import Sentinel.Model.Bucket
/-! Driver for C08: `model` = code-shaped leap array, `spec` = aligned-bucket reference over the history -/
namespace Sentinel.Drv.C08
open Sentinel.LA Sentinel.Drv

structure St where
  a : Arr Bucket := { n := 1, L := 1, slots := [] }
  views : Array (Nat × Nat) := #[]            -- (sampleCount, interval)
  now : Nat := 0
  t0 : Nat := 0
  hist : List (Nat × Bucket) := []            -- spec side: recorded events
  mono : Bool := true                          -- spec side: time never went backwards

def qps (sum Iv : Nat) : Float := sum.toFloat / (Iv.toFloat / 1000.0)

def showBucketItem (p : Nat × Bucket) : String :=
  let b := p.2
  let avg := if b.complete > 0 then b.rt / b.complete else b.rt
  s!"{p.1}:{b.pass}:{b.block}:{b.error}:{b.complete}:{avg}:{b.mc}"

/-- canonical form of an item list: sorted by second, all-zero items dropped (a second whose buckets
    are all empty may or may not have a slot in the array; the property does not speak about it) -/
def sortItems (xs : List (Nat × Bucket)) : List (Nat × Bucket) :=
  ((xs.filter fun p => p.2 ≠ 0).toArray.qsort fun a b => a.1 < b.1).toList

def record (spec : Bool) (s : St) (x : Bucket) : St :=
  if spec then { s with hist := s.hist ++ [(s.now, x)] }
  else { s with a := (addAt s.a s.now x).1 }

/-- reference value of a window `[lo,hi]` of bucket starts -/
def refB (s : St) (lo hi : Nat) : Bucket := refW s.a.L s.hist lo hi

/-- the aligned window of a view of interval `Iv` read at `now` -/
def win (s : St) (Iv now : Nat) : Nat × Nat := (cbs s.a.L now + s.a.L - Iv, cbs s.a.L now)

def step (spec : Bool) (s : St) (ts : List String) (_ : String) : St × Option String :=
  match ts with
  | ["la.new", n, I, t] => match n.toNat?, I.toNat?, t.toNat? with
      | some n, some I, some t =>
        ({ a := { (mk n (I / n) t : Arr Bucket) with slots := if spec then [] else (mk n (I / n) t : Arr Bucket).slots },
           now := t, t0 := t }, none)
      | _, _, _ => (s, some "bad-op")
  | ["view", sc, Iv] => match sc.toNat?, Iv.toNat? with
      | some sc, some Iv =>
        let c := validView sc Iv s.a.n (s.a.n * s.a.L)
        if c = 0 then ({ s with views := s.views.push (sc, Iv) }, some "ok") else (s, some s!"err {c}")
      | _, _ => (s, some "bad-op")
  | ["clock", t] => match t.toNat? with
      | some t => ({ s with now := t, mono := s.mono && decide (s.now ≤ t) }, none)
      | none => (s, some "bad-op")
  | ["add", ev, amt] => match Ev.ofString? ev, amt.toNat? with
      | some ev, some amt => (record spec s (evBucket ev amt), none)
      | _, _ => (s, some "bad-op")
  | ["conc", c] => match c.toInt? with
      | some c => (record spec s (concBucket c), none)
      | none => (s, some "bad-op")
  | "read" :: k :: rest => match k.toNat? with
      | none => (s, some "bad-op")
      | some k => match s.views[k]? with
        | none => (s, some "bad-op")
        | some (sc, Iv) =>
          let Lv := Iv / sc
          -- spec side: the window sum from the history; model side: from the array
          let wsum (now : Nat) : Bucket :=
            if spec then (let w := win s Iv now; refB s w.1 w.2) else viewSum s.a Iv now
          if spec && !s.mono then (s, some "?") else
          match rest with
          | ["sum", ev] => match Ev.ofString? ev with
              | some ev => (s, some (toString ((wsum s.now).get ev)))
              | none => (s, some "bad-op")
          | ["qps", ev] => match Ev.ofString? ev with
              | some ev => (s, some (fbits (qps ((wsum s.now).get ev) Iv)))
              | none => (s, some "bad-op")
          | ["prevqps", ev] => match Ev.ofString? ev with
              | some ev =>
                -- previous-window reads are only claimed when the array still has a slot for them
                if spec && !(decide (Iv + Lv ≤ s.a.n * s.a.L)) then (s, some "?") else
                let v := if Lv ≤ s.now then (wsum (s.now - Lv)).get ev else 0
                (s, some (fbits (qps v Iv)))
              | none => (s, some "bad-op")
          | ["maxbucket", ev] => match Ev.ofString? ev with
              | some ev =>
                if spec then
                  let w := win s Iv s.now
                  let starts := (List.range (Iv / s.a.L)).filterMap fun i =>
                    if i * s.a.L ≤ w.2 then some (w.2 - i * s.a.L) else none
                  let starts := starts.filter fun b => decide (w.1 ≤ b)
                  (s, some (toString ((starts.map fun b => (refB s b b).get ev).foldl max 0)))
                else (s, some (toString (vMaxBucket s.a Iv s.now ev)))
              | none => (s, some "bad-op")
          | ["minrt"] => (s, some (toString (max 1 (wsum s.now).minRt)))
          | ["maxconc"] => (s, some (toString (wsum s.now).mc))
          | ["avgrt"] =>
              let b := wsum s.now
              (s, some (fbits (b.rt.toFloat / b.complete.toFloat)))
          | _ => (s, some "bad-op")
  | ["count", ev] => match Ev.ofString? ev with
      | some ev =>
        if spec then
          if !s.mono then (s, some "?") else
          if s.now = 0 then (s, some "0") else
          let e := cbs s.a.L s.now
          (s, some (toString ((refB s (e + s.a.L - s.a.n * s.a.L) e).get ev)))
        else
          let (a', c) := aCount s.a s.now ev
          ({ s with a := a' }, some (toString c))
      | none => (s, some "bad-op")
  | ["items", lo, hi] => match lo.toNat?, hi.toNat? with
      | some lo, some hi =>
        if spec then
          if !s.mono then (s, some "?") else
          -- buckets the array can still hold: starts in (cbs latest - n·L, cbs latest], not deprecated at `now`
          let L := s.a.L
          let latest := (s.hist.map (·.1)).foldl max s.t0
          let e := cbs L latest
          let starts := (List.range s.a.n).filterMap fun i => if i * L ≤ e then some (e - i * L) else none
          let starts := (starts.filter fun b => decide (e < b + s.a.n * L)
                          && !deprecated (s.a.n * L) s.now b && decide (lo ≤ b ∧ b ≤ hi) && decide (s.now ≠ 0)).eraseDups
          let secs := (starts.map fun b => b - b % 1000).eraseDups
          let items := secs.map fun sec =>
            (sec, ((starts.filter fun b => b - b % 1000 = sec).map fun b => refB s b b).sum)
          (s, some (showList ((sortItems items).map showBucketItem)))
        else
          (s, some (showList ((sortItems (secondItems s.a s.now lo hi)).map showBucketItem)))
      | _, _ => (s, some "bad-op")
  | _ => (s, some "bad-op")

def run (mode : String) : IO Unit :=
  loop ({} : St) (step (mode == "spec"))

end Sentinel.Drv.C08
