import Sentinel.Drv.Common
/-! Driver for C16 (stub: replaced by the property's real driver) -/
namespace Sentinel.Drv.C16
def run (_mode : String) : IO Unit := IO.eprintln "C16: driver not implemented"
end Sentinel.Drv.C16
