import Sentinel.Drv.Common
import Sentinel.Model.ChainSpec
/-! Driver for C16: `model` = pooled slot-chain model (`Sentinel.Chain.step`), `spec` = the abstract reference
    (`Sentinel.Chain.sstep`).  This file only parses op lines and prints results. -/
namespace Sentinel.Drv.C16
open Sentinel.Chain Sentinel.Drv

def parseHook? : String → Option HB
  | "hok" => some .ok
  | "herr" => some .err
  | "hpanic" => some .panic
  | _ => none

def parseRB? (s : String) : Option RB :=
  match s with
  | "pass" => some .pass
  | "nil" => some .nil
  | "wait" => some .wait
  | "wait0" => some .wait       -- `NewTokenResultShouldWait(0)`: same status, the chain never looks at the duration
  | "panic" => some .panic
  | _ =>
    let st : Option Style :=
      if s.startsWith "bf" then some .fresh else if s.startsWith "bc" then some .ctx
      else if s.startsWith "bo" then some .own else none
    match st, (s.drop 2).toString.toNat? with
    | some st, some typ => if typ < 256 then some (.block st typ) else none
    | _, _ => none

def parseHookOpt : List String → Option (Option HB)
  | [] => some none
  | [h] => (parseHook? h).map some
  | _ => none

def parseSlot? (tok : String) : Option SlotSpec :=
  match tok.splitOn ":" with
  | kind :: id :: ord :: beh :: rest =>
    match id.toNat?, ord.toNat? with
    | some id, some ord =>
      if ord ≥ 4294967296 then none else
      match kind with
      | "p" =>
        match (match beh with | "ok" => some PB.ok | "panic" => some PB.panic | _ => none), parseHookOpt rest with
        | some b, some hk => some (.p { id := id, order := ord, beh := b, hook := hk })
        | _, _ => none
      | "r" =>
        match parseRB? beh, parseHookOpt rest with
        | some b, some hk => some (.r { id := id, order := ord, beh := b, hook := hk })
        | _, _ => none
      | "s" =>
        match (match beh with | "ok" => some SB.ok | "pp" => some SB.pPassed | "pb" => some SB.pBlocked
                              | "pc" => some SB.pCompleted | _ => none), rest with
        | some b, [] => some (.s { id := id, order := ord, beh := b })
        | _, _ => none
      | _ => none
    | _, _ => none
  | _ => none

def parseSlots? (ts : List String) : Option (List SlotSpec) := ts.mapM parseSlot?

def parseOp? : List String → Option Op
  | "chain" :: n :: slots => (parseSlots? slots).map (Op.chain n)
  | ["add", n, slot] => (parseSlot? slot).map (Op.add n)
  | ["entry", e, n] => some (.entry e n)
  | ["whenexit", e, id, b] =>
    match id.toNat?, parseHook? b with
    | some id, some b => some (.whenexit e id b)
    | _, _ => none
  | ["exit", e] => some (.exit e)
  | ["log"] => some .log
  | ["ident", e] => some (.ident e)
  | ["blockerr", e] => some (.blockerr e)
  | ["globalorder"] => some .globalorder
  | _ => none

def showBE (b : BErr) : String := s!"{b.typ} {b.msg} {b.rule} {b.snap}"

def showCall : Call → String
  | .prep id => s!"P{id}"
  | .check id => s!"R{id}"
  | .passed id => s!"S{id}+"
  | .blocked id (some b) => s!"S{id}-{b.typ}.{b.msg}.{b.rule}.{b.snap}"
  | .blocked id none => s!"S{id}-nil"
  | .completed id => s!"S{id}c"
  | .handler id => s!"H{id}"

def showIds (k : String) (xs : List Nat) : String := showList (xs.map fun i => k ++ toString i)
def showNamed (xs : List (String × Nat)) : String := showList (xs.map fun p => s!"{p.1}:{p.2}")

/-- first-seen numbering of addresses (the Go side numbers pointers the same way) -/
def canon (seen : List Nat) (a : Nat) : List Nat × Nat :=
  match seen.idxOf? a with
  | some i => (seen, i)
  | none => (seen ++ [a], seen.length)

structure Seen where
  cs : List Nat := []
  ts : List Nat := []

def showOut (sn : Seen) : Out → Seen × Option String
  | .none => (sn, none)
  | .bad => (sn, some "bad-op")
  | .sorted p r s => (sn, some (showIds "P" p ++ " " ++ showIds "R" r ++ " " ++ showIds "S" s))
  | .pass => (sn, some "pass")
  | .block b => (sn, some ("block " ++ showBE b))
  | .escaped => (sn, some "escaped")
  | .ok => (sn, some "ok")
  | .log l => (sn, some (showList (l.map showCall)))
  | .unknown => (sn, some "?")
  | .ident c t =>
    let (cs, ci) := canon sn.cs c
    let (ts, ti) := canon sn.ts t
    ({ cs := cs, ts := ts }, some s!"ctx {ci} tr {ti}")
  | .berr b => (sn, some (showBE b))
  | .gorder p r s => (sn, some (showNamed p ++ " " ++ showNamed r ++ " " ++ showNamed s))

def stepModel (st : State × Seen) (ts : List String) (_ : String) : (State × Seen) × Option String :=
  match parseOp? ts with
  | none => (st, some "bad-op")
  | some op =>
    let (s, o) := step st.1 op
    let (sn, r) := showOut st.2 o
    ((s, sn), r)

def stepSpec (st : SState) (ts : List String) (_ : String) : SState × Option String :=
  match parseOp? ts with
  | none => (st, some "bad-op")
  | some op =>
    let (s, o) := sstep st op
    (s, (showOut {} o).2)

def run (mode : String) : IO Unit :=
  if mode == "spec" then loop ({} : SState) stepSpec
  else loop (({}, {}) : State × Seen) stepModel

end Sentinel.Drv.C16
