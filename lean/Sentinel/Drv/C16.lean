import Sentinel.Drv.Common
import Sentinel.Model.ChainSpec
/-! Driver for C16: `model` = pooled slot-chain model (`Sentinel.Chain.step`), `spec` = the abstract reference
    (`Sentinel.Chain.sstep`).  This file only parses op lines and prints results. -/
namespace Sentinel.Drv.C16
open Sentinel.Chain Sentinel.Drv

def parseHook? : String → Option HB
  | "hok" => some .ok
  | "herr" => some .err
  | "hpanic" => some .panic
  | _ => none

def parseRB? (s : String) : Option RB :=
  match s with
  | "pass" => some .pass
  | "pass1" => some .pass       -- `NewTokenResult(ResultStatusPass)`: same as `NewTokenResultPass()`
  | "nil" => some .nil
  | "wait" => some .wait
  | "wait0" => some .wait       -- `NewTokenResultShouldWait(0)`: same status, the chain never looks at the duration
  | "wait1" => some .wait       -- `NewTokenResult(ResultStatusShouldWait)`
  | "panic" => some .panic
  | _ =>
    let st : Option Style :=
      if s.startsWith "bf" then some .fresh else if s.startsWith "bc" then some .ctx
      else if s.startsWith "bo" then some .own else if s.startsWith "bn" then some .bare
      else if s.startsWith "bt" then some .typed else if s.startsWith "bb" then some .plain
      else if s.startsWith "bm" then some .msg else if s.startsWith "br" then some .ctxT
      else if s.startsWith "bs" then some .ctxM
      -- `ctx.RuleCheckResult.DeepCopyFrom(NewTokenResultBlockedWithCause(…))`: status and all four fields copied into the pooled result
      else if s.startsWith "bd" then some .ctx else none
    match st, (s.drop 2).toString.toNat? with
    | some st, some typ => if typ < 256 then some (.block st typ) else none
    | _, _ => none

def parseHookOpt : List String → Option (Option HB)
  | [] => some none
  | [h] => (parseHook? h).map some
  | _ => none

def parseNote? : List String → Option NoteB
  | [] => some .none
  | ["e"] => some .err
  | ["k"] => some .pair
  | ["ek"] => some .both
  | _ => none

def parseSlot? (tok : String) : Option SlotSpec :=
  match tok.splitOn ":" with
  | kind :: id :: ord :: behn :: rest =>
    match id.toNat?, ord.toNat?, behn.splitOn "+" with
    | some id, some ord, beh :: nt =>
      match parseNote? nt with
      | none => none
      | some note =>
      if ord ≥ 4294967296 then none else
      match kind with
      | "p" =>
        match (match beh with | "ok" => some PB.ok | "panic" => some PB.panic | _ => none), parseHookOpt rest with
        | some b, some hk => some (.p { id := id, order := ord, beh := b, hook := hk, note := note })
        | _, _ => none
      | "r" =>
        match parseRB? beh, parseHookOpt rest with
        | some b, some hk => some (.r { id := id, order := ord, beh := b, hook := hk, note := note })
        | _, _ => none
      | "s" =>
        match (match beh with | "ok" => some SB.ok | "pp" => some SB.pPassed | "pb" => some SB.pBlocked
                              | "pc" => some SB.pCompleted | _ => none), rest with
        | some b, [] => some (.s { id := id, order := ord, beh := b, note := note })
        | _, _ => none
      | _ => none
    | _, _, _ => none
  | _ => none

def parseSlots? (ts : List String) : Option (List SlotSpec) := ts.mapM parseSlot?

def parseOp? : List String → Option Op
  | "chain" :: n :: slots => (parseSlots? slots).map (Op.chain n)
  | ["add", n, slot] => if n == "*" then none else (parseSlot? slot).map (Op.add n)
  | ["entry", e, n] => some (.entry e n)
  | ["whenexit", e, id, b] =>
    match id.toNat?, parseHook? b with
    | some id, some b => some (.whenexit e id b)
    | _, _ => none
  | ["exit", e] => some (.exit e)
  -- two overlapping `Exit` calls on one entry (the second starts while the first is inside its handlers / `OnCompleted`):
  -- `sync.Once` makes the second a no-op, so for the model this is one `Exit`
  | ["exit2", e] => some (.exit e)
  | ["clock", t] => t.toNat?.map Op.clock
  | ["log"] => some .log
  | ["ident", e] => some (.ident e)
  | ["blockerr", e] => some (.blockerr e)
  | ["globalorder"] => some .globalorder
  | ["ctx", e, "err"] => some (.ctxq e false)
  | ["ctx", e, "pair"] => some (.ctxq e true)
  | _ => none

def showON : Option Nat → String
  | none => "-"
  | some n => toString n

def showBE (b : BErr) : String := s!"{b.typ} {showON b.msg} {showON b.rule} {showON b.snap}"

def showCall : Call → String
  | .prep id => s!"P{id}"
  | .check id => s!"R{id}"
  | .passed id => s!"S{id}+"
  | .blocked id (some b) => s!"S{id}-{b.typ}.{showON b.msg}.{showON b.rule}.{showON b.snap}"
  | .blocked id none => s!"S{id}-nil"
  | .completed id => s!"S{id}c"
  | .handler id => s!"H{id}"

def showIds (k : String) (xs : List Nat) : String := showList (xs.map fun i => k ++ toString i)
def showNamed (xs : List (String × Nat)) : String := showList (xs.map fun p => s!"{p.1}:{p.2}")

/-- first-seen numbering of addresses (the Go side numbers pointers the same way) -/
def canon (seen : List Nat) (a : Nat) : List Nat × Nat :=
  match seen.idxOf? a with
  | some i => (seen, i)
  | none => (seen ++ [a], seen.length)

structure Seen where
  cs : List Nat := []
  ts : List Nat := []

def showOut (sn : Seen) : Out → Seen × Option String
  | .none => (sn, none)
  | .bad => (sn, some "bad-op")
  | .sorted p r s => (sn, some (showIds "P" p ++ " " ++ showIds "R" r ++ " " ++ showIds "S" s))
  | .pass => (sn, some "pass")
  | .block b => (sn, some ("block " ++ showBE b))
  | .escaped => (sn, some "escaped")
  | .ok => (sn, some "ok")
  | .log l => (sn, some (showList (l.map showCall)))
  | .unknown => (sn, some "?")
  | .ident c t =>
    let (cs, ci) := canon sn.cs c
    let (ts, ti) := canon sn.ts t
    ({ cs := cs, ts := ts }, some s!"ctx {ci} tr {ti}")
  | .berr b => (sn, some (showBE b))
  | .gorder p r s => (sn, some (showNamed p ++ " " ++ showNamed r ++ " " ++ showNamed s))
  | .cerr .none => (sn, some "-")
  | .cerr (.slot id) => (sn, some s!"E{id}")
  | .cerr .panic => (sn, some "panic")
  | .cpair p => (sn, some (match p with | none => "-" | some id => s!"K{id}"))

def stepModel (st : State × Seen) (ts : List String) (_ : String) : (State × Seen) × Option String :=
  match parseOp? ts with
  | none => (st, some "bad-op")
  | some op =>
    let (s, o) := step st.1 op
    let (sn, r) := showOut st.2 o
    ((s, sn), r)

def stepSpec (st : SState) (ts : List String) (_ : String) : SState × Option String :=
  match parseOp? ts with
  | none => (st, some "bad-op")
  | some op =>
    let (s, o) := sstep st op
    (s, (showOut {} o).2)

/-- chain `*` is api's global chain: `entry <e> *` is `api.Entry` **without** `WithSlotChain`.  The harness registers one
    recording slot of each kind (id 0) on the real global chain at start; the built-in slots are silent and, with no rules
    loaded, pass.  Both sides therefore start every case with this chain already defined (an ordinary `chain` op). -/
def globalChainOp : Op :=
  .chain "*" [.p { id := 0, order := 0, beh := .ok }, .r { id := 0, order := 0, beh := .nil }, .s { id := 0, order := 0, beh := .ok }]

def run (mode : String) : IO Unit :=
  if mode == "spec" then loop (sstep ({} : SState) globalChainOp).1 stepSpec
  else loop (((step ({} : State) globalChainOp).1, {}) : State × Seen) stepModel

end Sentinel.Drv.C16
