import Sentinel.Drv.Common
import Sentinel.Model.Bucket
import Sentinel.Model.LeapArrayRace
/-!
# Driver for C09

Op language (one case = one array, any number of *rounds*):

    la.new <n> <I> <t0>                      fresh BucketLeapArray(n, I) created at clock t0 (ms)
    view <sc> <Iv>                           the SlidingWindowMetric used by `viewsum` (default: 1 × I)
    thread <tid> <clock-ms> <op> [; <op>]…   declares thread <tid> (0,1,2,… in order) of the next round; <clock-ms> is the
                                             clock reading at which it is started (non-decreasing); ops:
                                             `add <ev> <amt>` | `conc <c>` | `count <ev>` | `values <ev>` | `viewsum <ev>`
    sched <tid | tick:<ms>>…                 runs the round: initial advance of every thread (in order, each at its clock),
                                             the schedule, round-robin drain  => observation

Observation of a round: `[round] res=[<now>:<val>,…|…] pts=[<hook>,…|…] final=[<start>:<c0>:…:<c4>:<minRt>:<maxConc>,…] clock=<ms>`
(per thread: the clock reading and return value of each operation, the yield points it parked at; the valid buckets at the
final clock read without refresh).

`model`: the small-step model `Sentinel.LAR` under the same schedule.  `oracle`: judges the implementation's trace.
-/
namespace Sentinel.Drv.C09
open Sentinel.LAR Sentinel.Drv
open Sentinel.LA (cbs deprecated rangeOf validView)

def evIdx? : String → Option Nat
  | "pass" => some 0 | "block" => some 1 | "complete" => some 2 | "error" => some 3 | "rt" => some 4 | _ => none

def parseOp? : List String → Option OpSpec
  | ["add", ev, amt] => do
      let a ← amt.toInt?
      -- a negative amount (the API takes int64: decrements, roll-backs) goes to the *negative* run, see `parseProg2?`
      some (.add (← evIdx? ev) a.toNat)
  | ["conc", c] => do some (.conc (← c.toNat?))
  | ["count", ev] => do some (.count (← evIdx? ev))
  -- `values <ev>` = `BucketLeapArray.Values(now)` followed by the caller's own per-bucket `Get(ev)`: the same refresh, scan
  -- and loads at the same yield points as `Count` — the same thread program of the model
  | ["values", ev] => do some (.count (← evIdx? ev))
  | ["viewsum", ev] => do some (.viewsum (← evIdx? ev))
  | _ => none

/-- split a token list at `;` -/
def splitSemi (ts : List String) : List (List String) :=
  let r := ts.foldl (fun (acc : List (List String) × List String) t =>
    if t == ";" then (acc.1 ++ [acc.2], []) else (acc.1, acc.2 ++ [t])) ([], [])
  r.1 ++ [r.2]

def parseProg? (ts : List String) : Option (List OpSpec) := (splitSemi ts).mapM parseOp?

/-- Signed amounts.  The model's counters are naturals; no control decision of any step depends on a counter's content
    (only `AddRt` compares its *amount* with `minRt`), so a run with signed amounts is the difference of two runs of the
    model under the same schedule: the **positive** run records `max a 0`, the **negative** run `max (-a) 0` (rt amounts,
    which must be ≥ 0, are recorded identically in both and read from the positive one).  Both runs go through the same
    program counters; every counter value of the signed run is `positive − negative`. -/
def negOp? : List String → Option OpSpec
  | ["add", ev, amt] => do
      let a ← amt.toInt?
      let e ← evIdx? ev
      if e = evRt then (if a < 0 then none else some (.add e a.toNat)) else some (.add e (-a).toNat)
  | ts => parseOp? ts

def parseProgNeg? (ts : List String) : Option (List OpSpec) := (splitSemi ts).mapM negOp?

def parseEntry? (t : String) : Option Entry :=
  if t.startsWith "tick:" then (t.drop 5).toString.toNat?.map Entry.tick else t.toNat?.map Entry.step

structure St where
  ok : Bool := false
  sh : Shared := mkShared 1 1 1 1
  clock : Nat := 0
  threads : Array (Nat × List OpSpec) := #[]
  shNeg : Shared := mkShared 1 1 1 1                   -- the negative run (see `negOp?`)
  threadsNeg : Array (Nat × List OpSpec) := #[]
  -- oracle side
  dead : Bool := false                                 -- oracle side: an earlier round of the case did not complete
  hist : List (Nat × Nat × Int × Bool × Bool) := []      -- completed adds: (now, ev, amt, sure, wild)

/-! ## model side -/

structure Rec where
  c : Cfg
  pts : Array (Array String)

/-- grant one step to thread `i`, recording the yield point it parks at -/
def stepRec (r : Rec) (i : Nat) : Rec :=
  match r.c.th[i]? with
  | none => r
  | some t =>
    if t.finished then r else
    let c' := r.c.exec (.step i)
    match c'.th[i]? with
    | some t' =>
      match t'.cur with
      | some f => { c := c', pts := r.pts.modify i (·.push f.pc.hook) }
      | none => { r with c := c' }
    | none => { r with c := c' }

def drainRec : Nat → Rec → Rec
  | 0, r => r
  | fuel + 1, r =>
    if r.c.allFinished then r
    else drainRec fuel ((List.range r.c.th.length).foldl stepRec r)

def initRound (sh : Shared) (clock : Nat) (threads : Array (Nat × List OpSpec)) : Rec :=
  let c0 : Cfg := { sh := sh, clock := clock, th := threads.toList.map fun p => mkThread p.2 }
  let r0 : Rec := { c := c0, pts := threads.map fun _ => #[] }
  -- 1. initial advance, in thread order, each at its clock reading
  (List.range threads.size).foldl (fun r i =>
    let ck := (threads[i]?.map (·.1)).getD r.c.clock
    let r := { r with c := r.c.exec (.tick (ck - r.c.clock)) }
    stepRec r i) r0

def runRound (sh : Shared) (clock : Nat) (threads : Array (Nat × List OpSpec)) (es : List Entry) : Rec :=
  let r1 := initRound sh clock threads
  -- 2. the schedule
  let r2 := es.foldl (fun r e => match e with
    | .tick d => { r with c := r.c.exec (.tick d) }
    | .step i => stepRec r i) r1
  -- 3. drain
  drainRec 100000 r2

def showVal : Option Int → String
  | none => "-" | some v => toString v

def sgn (p q : Nat) : Int := (p : Int) - (q : Int)

def showFinal (sh shN : Shared) (clock : Nat) : String :=
  showList ((List.range sh.n).filterMap fun j =>
    let s := sh.start j
    if deprecated (sh.n * sh.L) clock s then none
    else some (s!"{s}:{sgn (sh.cnt j 0) (shN.cnt j 0)}:{sgn (sh.cnt j 1) (shN.cnt j 1)}:{sgn (sh.cnt j 2) (shN.cnt j 2)}:{sgn (sh.cnt j 3) (shN.cnt j 3)}:{sh.cnt j 4}:{sh.minRt j}:{sh.maxConc j}"))

/-- the observation of the signed run = positive run − negative run (same schedule, same program counters) -/
def showRound (r rn : Rec) : String :=
  if r.pts != rn.pts then "bad-model-split" else
  let res := "|".intercalate ((r.c.th.zip rn.c.th).map fun tt => ",".intercalate ((tt.1.res.zip tt.2.res).map fun xx =>
    let v : Option Int := match xx.1.val, xx.2.val with
      | some a, some b => some (if xx.1.op.ev = evRt then (a : Int) else sgn a b)
      | _, _ => none
    s!"{xx.1.now}:{showVal v}"))
  let pts := "|".intercalate (r.pts.toList.map fun p => ",".intercalate p.toList)
  s!"[round] res=[{res}] pts=[{pts}] final={showFinal r.c.sh rn.c.sh r.c.clock} clock={r.c.clock}"

/-! ## oracle side: parsing the implementation's observation -/

def stripBr (s : String) : String :=
  let s := if s.startsWith "[" then (s.drop 1).toString else s
  if s.endsWith "]" then (s.dropEnd 1).toString else s

def field? (fs : List String) (name : String) : Option String :=
  (fs.find? (·.startsWith (name ++ "="))).map fun f => (f.drop (name.length + 1)).toString

def splitNE (s : String) (sep : String) : List String := (s.splitOn sep).filter (· ≠ "")

/-- `res=[999:-,1000:7|1000:3]` → per thread list of (now, value) -/
def parseRes? (s : String) : Option (List (List (Nat × Option Int))) :=
  ((stripBr s).splitOn "|").mapM fun th =>
    (splitNE th ",").mapM fun x =>
      match x.splitOn ":" with
      | [a, b] => do
          let n ← a.toNat?
          if b == "-" then some (n, none) else do some (n, some (← b.toInt?))
      | _ => none

def parseFinal? (s : String) : Option (List (List Int)) :=
  (splitNE (stripBr s) ",").mapM fun x => (x.splitOn ":").mapM (·.toInt?)

def sumL (xs : List Int) : Int := xs.foldl (· + ·) 0
def posP (a : Int) : Int := if a > 0 then a else 0
def negP (a : Int) : Int := if a < 0 then -a else 0

/-- Judge one round of the implementation's trace.

* **no invention**: a read never exceeds the amounts of the adds (same event) that have *started* before it returned:
  everything of earlier rounds, the other threads of this round, the reader's own earlier operations;
* **expired never visible** (`n ≥ 2`, stall condition): … nor the part of them whose bucket is one of the `n` aligned
  buckets ending at the reader's clock reading (`now - start < I`: `Count` refreshes the current bucket first, which
  shares its slot with the bucket exactly one interval old; a view's start range excludes it) and lies in the view's
  start range — above that bound, in a round where a slot reset ran
  next to another thread, the verdict is `known:stale-counters-visible`;
* **nothing lost without overlap**: a read is at least the amounts recorded *for sure* (in rounds without a reset next to
  another thread) in its strict window by operations that had returned before the round / before it in its own thread;
* **own bucket** (`n ≥ 2`, stall condition): a final bucket never holds more of an event than was recorded with a
  timestamp inside it, and at least what was recorded for sure.

Stall condition of a round: final clock − smallest clock reading of its operations ≤ one bucket length. -/
def judge (s : St) (results : List (List (Nat × Option Int))) (pts : String) (final : List (List Int)) (fclock : Nat) :
    String × List (Nat × Nat × Int × Bool × Bool) :=
  let n := s.sh.n
  let L := s.sh.L
  let I := n * L
  let progs := s.threads.toList.map (·.2)
  let progsN := s.threadsNeg.toList.map (·.2)
  let wellFormed := progs.length == results.length && (progs.zip results).all fun pr => pr.1.length == pr.2.length
  if !wellFormed then ("bad results-shape", []) else
  -- signed amount of every operation (positive run − negative run)
  let amts : List (List Int) := (progs.zip progsN).map fun pp => (pp.1.zip pp.2).map fun oo =>
    match oo.1, oo.2 with
    | .add ev a, .add _ b => if ev = evRt then (a : Int) else sgn a b
    | _, _ => 0
  -- (tid, pos, op, now, val, signed amount)
  let ops : List (Nat × Nat × OpSpec × Nat × Option Int × Int) :=
    ((List.range progs.length).zip ((progs.zip results).zip amts)).flatMap fun tp =>
      ((List.range tp.2.1.1.length).zip ((tp.2.1.1.zip tp.2.1.2).zip tp.2.2)).map fun x =>
        (tp.1, x.1, x.2.1.1, x.2.1.2.1, x.2.1.2.2, x.2.2)
  let multi := decide (progs.length > 1)
  let anyReset := (pts.splitOn "bla.reset.start").length > 1
  let minNow := ops.foldl (fun m o => min m o.2.2.2.1) fclock
  let stallOk := decide (fclock - minNow ≤ L) || !multi
  let overlap := multi && anyReset
  let sure := !overlap && stallOk && decide (n ≥ 2)
  -- adds of the round: (tid, pos, now, ev, signed amt)
  let roundAdds : List (Nat × Nat × Nat × Nat × Int) := ops.filterMap fun o => match o.2.2.1 with
    | .add ev _ => some (o.1, o.2.1, o.2.2.2.1, ev, o.2.2.2.2.2) | _ => none
  -- adds of a round that broke the stall condition may have been credited to a later bucket: `wild`
  let wild := !stallOk
  let newHist := roundAdds.map fun a => (a.2.2.1, a.2.2.2.1, a.2.2.2.2, sure, wild)
  let allAdds : List (Nat × Nat × Int × Bool × Bool) := s.hist ++ newHist
  let readVerdicts : List String := ops.filterMap fun o =>
    let tid := o.1
    let pos := o.2.1
    let now := o.2.2.2.1
    match o.2.2.1, o.2.2.2.2.1 with
    | .count ev, some v | .viewsum ev, some v =>
      let isView := match o.2.2.1 with | .viewsum _ => true | _ => false
      let started : List (Nat × Nat × Int × Bool × Bool) := s.hist ++ roundAdds.filterMap fun a =>
        if a.1 ≠ tid ∨ a.2.1 < pos then some (a.2.2.1, a.2.2.2.1, a.2.2.2.2, sure, wild) else none
      let before : List (Nat × Nat × Int × Bool × Bool) := s.hist ++ roundAdds.filterMap fun a =>
        if a.1 = tid ∧ a.2.1 < pos then some (a.2.2.1, a.2.2.2.1, a.2.2.2.2, sure, wild) else none
      -- with signed amounts: a read is a sum over a subset of the started adds, so it is at most the sum of their positive parts
      let total := sumL (started.filterMap fun a => if a.2.1 = ev then some (posP a.2.2.1) else none)
      if v > total then some s!"bad invented: read {v} of event {ev} at {now}, only {total} recorded" else
      if n < 2 then none else
      let rg := rangeOf L s.sh.Iv now
      let inWin (b : Nat) (strict : Bool) : Bool :=
        !deprecated I now b && (!strict || decide (now - b < I)) && (!isView || decide (rg.1 ≤ b ∧ b ≤ rg.2))
      let quiet := !overlap && stallOk
      -- recorded for sure before this read, inside its window: present in full (positive and negative parts)
      let bsw := before.filter fun a => a.2.1 = ev && a.2.2.2.1 && inWin (cbs L a.1) true
      let inW := started.filter fun a => a.2.1 = ev && (a.2.2.2.2 || inWin (cbs L a.1) true)
      let upper0 := sumL (inW.map fun a => posP a.2.2.1)
      let upper := if quiet then upper0 - sumL (bsw.map fun a => negP a.2.2.1) else upper0
      let lower := sumL (bsw.map fun a => posP a.2.2.1) - sumL (inW.map fun a => negP a.2.2.1)
      if v > upper then
        if !stallOk then none
        else if overlap then some "known:stale-counters-visible"
        else some s!"bad expired-visible: read {v} of event {ev} at {now}, only {upper} recorded in its window"
      else if v < lower && quiet then
        some s!"bad lost: read {v} of event {ev} at {now}, at least {lower} recorded in its window before"
      else none
    | _, _ => none
  let finalVerdicts : List String := final.flatMap fun b =>
    match b with
    | st :: cs =>
      (List.range 5).filterMap fun ev =>
        let c := cs.getD ev 0
        let mine := allAdds.filter fun a => a.2.1 = ev && (a.2.2.2.2 || (cbs L a.1 : Int) = st)
        let mineSure := allAdds.filter fun a => a.2.1 = ev && (cbs L a.1 : Int) = st && a.2.2.2.1
        let own := sumL (mine.map fun a => posP a.2.2.1) - sumL (mineSure.map fun a => negP a.2.2.1)
        let ownSure := sumL (mineSure.map fun a => posP a.2.2.1) - sumL (mine.map fun a => negP a.2.2.1)
        if n < 2 then none
        else if !stallOk then none
        else if c > own then some s!"bad foreign-credit: bucket {st} holds {c} of event {ev}, only {own} recorded with a timestamp in it"
        else if c < ownSure then some s!"bad lost: bucket {st} holds {c} of event {ev}, {ownSure} recorded without overlap"
        else none
    | [] => []
  let vs := readVerdicts ++ finalVerdicts
  let bad := vs.find? (·.startsWith "bad")
  let verdict := match bad with
    | some b => b
    | none => if vs.any (·.startsWith "known:") then "known:stale-counters-visible" else "ok"
  (verdict, newHist)

/-! ## the step function of both modes -/

def step (oracle : Bool) (s : St) (ts : List String) (line : String) : St × Option String :=
  match ts with
  | ["la.new", n, I, t] => match n.toNat?, I.toNat?, t.toNat? with
      | some n, some I, some t =>
        if n = 0 ∨ I % n ≠ 0 ∨ I / n = 0 ∨ t = 0 then (s, some "bad-op") else
        ({ ok := true, sh := mkShared n (I / n) I t, shNeg := mkShared n (I / n) I t, clock := t }, none)
      | _, _, _ => (s, some "bad-op")
  | ["view", sc, Iv] => match sc.toNat?, Iv.toNat? with
      | some sc, some Iv =>
        if !s.ok then (s, some "bad-op") else
        let c := validView sc Iv s.sh.n (s.sh.n * s.sh.L)
        if oracle then ({ s with sh := if (resPart line) == some "ok" then { s.sh with Iv := Iv } else s.sh }, none)
        else if c = 0 then ({ s with sh := { s.sh with Iv := Iv }, shNeg := { s.shNeg with Iv := Iv } }, some "ok") else (s, some s!"err {c}")
      | _, _ => (s, some "bad-op")
  | "thread" :: tid :: ck :: rest => match tid.toNat?, ck.toNat?, parseProg? rest, parseProgNeg? rest with
      | some tid, some ck, some prog, some progN =>
        let last := (s.threads.back?.map (·.1)).getD s.clock
        if !s.ok ∨ tid ≠ s.threads.size ∨ ck < last then (s, some "bad-op")
        else ({ s with threads := s.threads.push (ck, prog), threadsNeg := s.threadsNeg.push (ck, progN) }, none)
      | _, _, _, _ => (s, some "bad-op")
  | "sched" :: es => match es.mapM parseEntry? with
      | none => (s, some "bad-op")
      | some es =>
        if !s.ok ∨ s.threads.size = 0 then (s, some "bad-op") else
        if oracle then
          match resPart line with
          | none => ({ s with threads := #[], threadsNeg := #[] }, some "?")
          | some r =>
            if s.dead then ({ s with threads := #[], threadsNeg := #[] }, some "?") else
            let fs := toks r
            match (field? fs "res").bind parseRes?, field? fs "pts", (field? fs "final").bind parseFinal?,
                  (field? fs "clock").bind (·.toNat?) with
            | some res, some pts, some fin, some ck =>
              let (v, nh) := judge s res pts fin ck
              ({ s with threads := #[], threadsNeg := #[], clock := ck, hist := s.hist ++ nh }, some v)
            | _, _, _, _ =>
              -- the scheduler gave up: a thread neither finished nor parked (step bound / watchdog) — "every recorder
              -- and reader terminates" fails on this schedule
              if r.startsWith "sched-error" then ({ s with threads := #[], threadsNeg := #[], dead := true }, some ("bad not-terminating: " ++ r))
              -- a blocking lock around yield points / a round skipped after one: the harness cannot replay it, no claim
              else if r.startsWith "sched-blocked" || r.startsWith "sched-skipped" then ({ s with threads := #[], threadsNeg := #[], dead := true }, some "?")
              else ({ s with threads := #[], threadsNeg := #[] }, some ("bad unparsable " ++ r))
        else
          let r := runRound s.sh s.clock s.threads es
          let rn := runRound s.shNeg s.clock s.threadsNeg es
          ({ s with sh := r.c.sh, shNeg := rn.c.sh, clock := r.c.clock, threads := #[], threadsNeg := #[] }, some (showRound r rn))
  | "stress" :: _ =>
      -- randomized parallel stress on the real scheduler (implementation only): the model has nothing to add
      if oracle then
        match resPart line with
        | some "ok" => (s, some "ok")
        | some r => (s, some (if r.startsWith "bad" then r else "bad stress " ++ r))
        | none => (s, some "?")
      else (s, some "ok")
  | _ => (s, some "bad-op")

/-! ## schedule enumeration (mode `enum`): all complete interleavings of the declared round, depth-first on the model.
A schedule longer than `depth` is cut there (the rest is the drain); enumeration stops after `limit` schedules. -/

partial def dfs (limit depth : Nat) (c : Cfg) (pref : List Nat) (acc : Array String × Bool) : Array String × Bool :=
  if acc.1.size ≥ limit then (acc.1, true) else
  let alive := (List.range c.th.length).filter fun i => match c.th[i]? with | some t => !t.finished | none => false
  if alive.isEmpty || pref.length ≥ depth then
    (acc.1.push (" ".intercalate (pref.reverse.map toString)), acc.2)
  else alive.foldl (fun acc i => dfs limit depth (c.exec (.step i)) (i :: pref) acc) acc

partial def enumLoop : IO Unit := do
  let stdin ← IO.getStdin
  let stdout ← IO.getStdout
  let rec go (st : St) (cid : String) : IO Unit := do
    let line ← stdin.getLine
    if line.isEmpty then return ()
    let op := opPart line
    match toks op with
    | ["case", id] => go ({} : St) id
    | ["enum", d, l] =>
      match d.toNat?, l.toNat? with
      | some d, some l =>
        let r := initRound st.sh st.clock st.threads
        let (xs, trunc) := dfs l d r.c [] (#[], false)
        stdout.putStrLn s!"# {cid} {xs.size} {if trunc then "truncated" else "complete"}"
        for x in xs do stdout.putStrLn s!"{cid} sched {x}"
        go { st with threads := #[], threadsNeg := #[] } cid
      | _, _ => go st cid
    | [] => go st cid
    | ts => go (step false st ts line).1 cid
  go ({} : St) "x"
  stdout.flush

def run (mode : String) : IO Unit :=
  if mode == "enum" then enumLoop else loop ({} : St) (step (mode == "oracle"))

end Sentinel.Drv.C09
