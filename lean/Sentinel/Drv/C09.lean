import Sentinel.Drv.Common
/-! Driver for C09 (stub: replaced by the property's real driver) -/
namespace Sentinel.Drv.C09
def run (_mode : String) : IO Unit := IO.eprintln "C09: driver not implemented"
end Sentinel.Drv.C09
