import Sentinel.Drv.Common
/-! Driver for C14 (stub: replaced by the property's real driver) -/
namespace Sentinel.Drv.C14
def run (_mode : String) : IO Unit := IO.eprintln "C14: driver not implemented"
end Sentinel.Drv.C14
