import Sentinel.Drv.Common
import Sentinel.Model.Reuse
/-! Driver for C14.
`model`  = the reuse calculus + controller semantics, run over both phases of a case;
`oracle` = judges the implementation's own trace: a decision of phase B (same traffic, no reloads) must equal the
           decision of phase A (with reloads) on every resource whose rules the reloads left unchanged. -/
namespace Sentinel.Drv.C14
open Sentinel.Reuse Sentinel.Drv

/-- rules that can never refuse a request in a case (fewer than a million requests): they make edits to the
    *same* resource's list visible at the decision level -/
def bigThr : Nat := 1000000

def nums (s : String) : Option (List Nat) := (s.splitOn ":").mapM (·.toNat?)

def parseCb (s : String) : Option CbRule := match nums s with
  | some [id, res, strat, retry, minReq, statIv, buckets, maxRt, thr, probe] =>
    some { id, res, strat, retry, minReq, statIv, buckets, maxRt, thr, probe }
  | _ => none

def parseFlow (s : String) : Option FlowRule := match nums s with
  | some [id, res, tcs, cb, thr, rel, ref, maxQ, period, cf, statIv] =>
    some { id, res, tcs, cb, thr, rel, ref, maxQ, period, cf, statIv, lowMem := 0, highMem := 0, memLow := 0, memHigh := 0 }
  | some [id, res, tcs, cb, thr, rel, ref, maxQ, period, cf, statIv, lowMem, highMem, memLow, memHigh] =>
    some { id, res, tcs, cb, thr, rel, ref, maxQ, period, cf, statIv, lowMem, highMem, memLow, memHigh }
  | _ => none

/-- a `ParamIndex` travels as a natural: `1000 + k` stands for `−k` -/
def decIdx (v : Nat) : Int := if v ≥ 1000 then -((v - 1000 : Nat) : Int) else v

/-- the request token `a.b.c@k=v@k=v` (`0` = no arguments) -/
def parseReq (s : String) : Option Req :=
  match s.splitOn "@" with
  | [] => none
  | a :: atts =>
    let args := if a == "0" || a == "" then some [] else (a.splitOn ".").mapM (·.toNat?)
    let att := atts.mapM fun kv => match kv.splitOn "=" with
      | [k, v] => match k.toNat?, v.toNat? with
        | some k, some v => some (k, v)
        | _, _ => none
      | _ => none
    match args, att with
    | some args, some att => some { args, att }
    | _, _ => none

def parseHot (s : String) : Option HotRule := match nums s with
  | some [id, res, mtype, cb, pidx, thr, maxQ, burst, dur, cap, items, sval, sthr] =>
    some { id, res, mtype, cb, pidx := decIdx pidx, pkey := 0, thr, maxQ, burst, dur, cap, items, sval, sthr }
  | some [id, res, mtype, cb, pidx, thr, maxQ, burst, dur, cap, items, sval, sthr, pkey] =>
    some { id, res, mtype, cb, pidx := decIdx pidx, pkey, thr, maxQ, burst, dur, cap, items, sval, sthr }
  | _ => none

def parseList {α} (p : String → Option α) (s : String) : Option (List α) :=
  if s == "-" then some [] else (s.splitOn ",").mapM p

/-- what the model can execute (anything else is `bad-op`) -/
def cbSupported (r : CbRule) : Bool := r.strat ≤ 2
def flowSupported (r : FlowRule) : Bool :=
  r.rel ≤ 1 && (r.tcs == 0 || (r.tcs == 1 && r.thr > 0) || r.tcs == 2) && r.cb ≤ 1

def hotSupported (r : HotRule) : Bool := r.mtype ≤ 1 && r.cb ≤ 1 && r.items != 1
def hotInert (r : HotRule) : Bool := r.cb ≤ 1 && r.thr ≥ bigThr && (r.items != 2 || r.sthr ≥ bigThr)
def cbInert (r : CbRule) : Bool := r.strat == 2 && r.thr ≥ bigThr
def flowInert (r : FlowRule) : Bool := r.tcs == 0 && r.cb == 0 && r.thr ≥ bigThr

structure Flags where
  unclaimed : Bool := false
  steal : Bool := false
  warm : Bool := false
  after : Bool := false       -- (statistics only) the decision was taken after a reload
deriving Repr

structure St where
  cb : Mgr CbRule CbSt := Mgr.empty
  flow : Mgr FlowRule FlowSt := Mgr.empty
  hot : Mgr HotRule HotSt := Mgr.empty
  now : Nat := 1900000000000     -- every phase starts at the same virtual time
  nodes : List (Nat × Sentinel.LA.Arr Nat) := []     -- resource nodes: pass counts (20 × 500 ms)
  mem : Int := -1                                  -- system_metric.CurrentMemoryUsage (−1 = not retrieved)
  live : List (Nat × Nat × Req × Nat) := []        -- entries in flight: handle ↦ (resource, request, start time)
  -- oracle side
  phaseB : Bool := false
  cbRaw : List (Nat × List CbRule) := []       -- what the caller passed last for each resource (valid rules)
  flowRaw : List (Nat × List FlowRule) := []
  hotRaw : List (Nat × List HotRule) := []
  flags : List (Nat × Flags) := []
  reloaded : Bool := false
  allUnclaimed : Bool := false
  recA : Array (Option String × Flags) := #[]   -- phase A: every entry's result and the flags of its resource at that time
  recOps : Array (List String) := #[]          -- model side: the non-reload ops of phase A (replayed by `phase B`)

def lookup {α} (d : α) (xs : List (Nat × α)) (k : Nat) : α := ((xs.find? (·.1 == k)).map (·.2)).getD d
def assoc {α} (xs : List (Nat × α)) (k : Nat) (v : α) : List (Nat × α) := (k, v) :: xs.filter (·.1 != k)

def nodeOf (s : St) (x : Nat) : Sentinel.LA.Arr Nat := lookup (Sentinel.LA.mk 20 500 s.now) s.nodes x

/-- `api.Entry` on resource `x`: the rule checks in slot order and, if all pass, the stat slots' `OnEntryPassed`.
    `none` = admitted (with the total wait), `some text` = refused. -/
def enterChecks (s : St) (x : Nat) (q : Req) : St × Option String × Nat :=
  let node := nodeOf s x
  let s := { s with nodes := assoc s.nodes x node }
  let (fb, w, fcs) := flowScan s.now s.mem (flowRead (nodeOf s) s.now) (s.flow.ctls x)
  let s := { s with flow := s.flow.set x fcs }
  match fb with
  | some id => (s, some s!"block flow {id}", 0)
  | none =>
    let (hb, hw, hcs) := hotScan s.now q (s.hot.ctls x)
    let w := w + hw
    let s := { s with hot := s.hot.set x hcs }
    match hb with
    | some id => (s, some s!"block hot {id}", 0)
    | none =>
    let (cbb, ccs) := cbCheck s.now (s.cb.ctls x)
    let s := { s with cb := s.cb.set x ccs }
    match cbb with
    | some id => (s, some s!"block cb {id}", 0)
    | none =>
      -- passed every check: the stat slots count the pass and the call in flight
      let node := (Sentinel.LA.addAt node s.now 1).1
      let fcs := fcs.map (flowRecordPass s.now)
      let hcs := hcs.map fun c => hotConcAdd 1 (hotExtract c.rule q) c
      ({ s with flow := s.flow.set x fcs, hot := s.hot.set x hcs, nodes := assoc s.nodes x node }, none, w)

/-- `Exit` of an admitted entry: `OnCompleted` of the stat slots, on the controllers the resource has *now* -/
def complete (s : St) (x : Nat) (q : Req) (start : Nat) (err : Bool) : St :=
  let ccs := (s.cb.ctls x).map (cbComplete s.now (s.now - start) err)
  let hcs := (s.hot.ctls x).map fun c => hotConcAdd (-1) (hotExtract c.rule q) c
  { s with cb := s.cb.set x ccs, hot := s.hot.set x hcs }

def passText (w : Nat) : String := if w = 0 then "pass" else s!"pass wait {w}"

/-- `e`: entry and exit in one op; the request takes `rt` ms.  The clock ends at entry time + `rt` whether the request
    was refused or not (both phases keep the same clock). -/
def entry (s : St) (x : Nat) (err : Bool) (q : Req) (rt : Nat) : St × String :=
  let t0 := s.now
  let (s, b, w) := enterChecks s x q
  let s := { s with now := t0 + rt }
  match b with
  | some r => (s, r)
  | none => (complete s x q t0 err, passText w)

/-- `in h x arg`: an entry that stays in flight under the handle `h` (if admitted) -/
def enterLive (s : St) (h x : Nat) (q : Req) : St × String :=
  let (s', b, w) := enterChecks s x q
  match b with
  | some r => (s', r)
  | none => ({ s' with live := (h, x, q, s.now) :: s'.live.filter (·.1 != h) }, passText w)

/-- `out h err`: exit of the entry in flight under `h` (`none` if there is none) -/
def exitLive (s : St) (h : Nat) (err : Bool) : St × String :=
  match s.live.find? (·.1 == h) with
  | none => (s, "none")
  | some (_, x, q, start) => (complete { s with live := s.live.filter (·.1 != h) } x q start err, "done")

/-- oracle bookkeeping for one reload of a module: per resource, was the list left unchanged (never-refusing rules and
    decision-neutral fields aside), and is a controller stolen -/
def judgeReload {R S} [DecidableEq R] (K : Calc R S) (valid : R → Bool) (res : R → Nat) (inert : R → Bool)
    (warmKey : Bool) (neutral : R → R)
    (m : Mgr R S) (raw : List (Nat × List R)) (rules : List R) (only : Option Nat) (fl : List (Nat × Flags)) :
    List (Nat × Flags) × List (Nat × List R) :=
  let xs := match only with
    | some x => [x]
    | none => ((rules.map res) ++ raw.map Prod.fst).eraseDups
  xs.foldl (fun (acc : List (Nat × Flags) × List (Nat × List R)) x =>
    let n := rulesOf valid res x rules
    let o := lookup [] raw x
    let f : Flags := lookup ({} : Flags) acc.1 x
    let same := decide ((n.filter (!inert ·)).map neutral = (o.filter (!inert ·)).map neutral)
    let f := if !same then { f with unclaimed := true } else f
    let f := if same && !stealSim K (fun r => neutral (K.norm r)) n (m.ctls x) then { f with steal := true } else f
    -- a rule the constructor normalises, reloaded as it was: only the flow warm-up calculator loses state by that
    let f := if warmKey && same && n.any (fun r => decide (K.norm r ≠ r) && o.contains r) then { f with warm := true } else f
    (assoc acc.1 x f, assoc acc.2 x n)) (fl, raw)

def doLoad (oracle : Bool) (s : St) (modl : String) (re : Bool) (only : Option Nat) (arg : String) : St × Option String :=
  let s := if oracle && !re && s.reloaded then { s with allUnclaimed := true } else s
  let s := if re then { s with reloaded := true } else s
  if modl == "cb" then
    match parseList parseCb arg with
    | none => (s, some "bad-op")
    | some rules =>
      if !rules.all cbSupported then (s, some "bad-op") else
      let (fl, raw) := if oracle then
          (if re then judgeReload cbCalc CbRule.valid (·.res) cbInert false id s.cb s.cbRaw rules only s.flags
           else (s.flags, (judgeReload cbCalc CbRule.valid (·.res) cbInert false id s.cb s.cbRaw rules only s.flags).2))
        else (s.flags, s.cbRaw)
      let m := match only with
        | none => s.cb.loadRules cbCalc CbRule.valid (·.res) s.now rules
        | some x => s.cb.loadRulesOfResource cbCalc CbRule.valid (·.res) s.now x rules
      ({ s with cb := m, flags := fl, cbRaw := raw }, none)
  else if modl == "flow" then
    match parseList parseFlow arg with
    | none => (s, some "bad-op")
    | some rules =>
      if !rules.all flowSupported then (s, some "bad-op") else
      let (fl, raw) := if oracle then
          (if re then judgeReload flowCalc FlowRule.valid (·.res) flowInert true id s.flow s.flowRaw rules only s.flags
           else (s.flags, (judgeReload flowCalc FlowRule.valid (·.res) flowInert true id s.flow s.flowRaw rules only s.flags).2))
        else (s.flags, s.flowRaw)
      let m := match only with
        | none => s.flow.loadRules flowCalc FlowRule.valid (·.res) s.now rules
        | some x => s.flow.loadRulesOfResource flowCalc FlowRule.valid (·.res) s.now x rules
      -- `generateStatFor`: a rule that needs a statistic makes sure the node it reads exists (its own resource's, or the
      -- referenced one's for an associated rule)
      let targets := (rules.filter fun r => FlowRule.valid r && r.needStat && (only.isNone || only == some r.res)).map
        fun r => if r.rel = 1 then r.ref else r.res
      let nodes := targets.foldl (fun ns y => if ns.any (·.1 == y) then ns else (y, Sentinel.LA.mk 20 500 s.now) :: ns) s.nodes
      ({ s with flow := m, flags := fl, flowRaw := raw, nodes := nodes }, none)
  else if modl == "hot" then
    match parseList parseHot arg with
    | none => (s, some "bad-op")
    | some rules =>
      if !rules.all hotSupported then (s, some "bad-op") else
      let (fl, raw) := if oracle then
          (if re then judgeReload hotCalc HotRule.valid (·.res) hotInert false HotRule.neutral s.hot s.hotRaw rules only s.flags
           else (s.flags, (judgeReload hotCalc HotRule.valid (·.res) hotInert false HotRule.neutral s.hot s.hotRaw rules only s.flags).2))
        else (s.flags, s.hotRaw)
      let m := match only with
        | none => s.hot.loadRules hotCalc HotRule.valid (·.res) s.now rules
        | some x => s.hot.loadRulesOfResource hotCalc HotRule.valid (·.res) s.now x rules
      ({ s with hot := m, flags := fl, hotRaw := raw }, none)
  else (s, some "bad-op")

/-- one op on the model (no phases) -/
def stepCore (s : St) (ts : List String) : St × Option String :=
  match ts with
  | ["t", t] => match t.toNat? with
    | some t => ({ s with now := t }, none)
    | none => (s, some "bad-op")
  | ["e", x, err] => match x.toNat?, err.toNat? with
    | some x, some err => let (s, r) := entry s x (err != 0) {} 0; (s, some r)
    | _, _ => (s, some "bad-op")
  | ["e", x, err, a] => match x.toNat?, err.toNat?, parseReq a with
    | some x, some err, some a => let (s, r) := entry s x (err != 0) a 0; (s, some r)
    | _, _, _ => (s, some "bad-op")
  | ["e", x, err, a, rt] => match x.toNat?, err.toNat?, parseReq a, rt.toNat? with
    | some x, some err, some a, some rt => let (s, r) := entry s x (err != 0) a rt; (s, some r)
    | _, _, _, _ => (s, some "bad-op")
  | ["fields", m] =>
    -- the fields of the rule struct the op language (and the model's equality / stat-reuse lists) know about: a field
    -- added to the Go struct shows up here as a difference
    if m == "cb" then (s, some "Id,Resource,Strategy,RetryTimeoutMs,MinRequestAmount,StatIntervalMs,StatSlidingWindowBucketCount,MaxAllowedRtMs,Threshold,ProbeNum")
    else if m == "flow" then (s, some "ID,Resource,TokenCalculateStrategy,ControlBehavior,Threshold,RelationStrategy,RefResource,MaxQueueingTimeMs,WarmUpPeriodSec,WarmUpColdFactor,StatIntervalInMs,LowMemUsageThreshold,HighMemUsageThreshold,MemLowWaterMarkBytes,MemHighWaterMarkBytes")
    else if m == "hot" then (s, some "ID,Resource,MetricType,ControlBehavior,ParamIndex,ParamKey,Threshold,MaxQueueingTimeMs,BurstCount,DurationInSec,ParamsMaxCapacity,SpecificItems")
    else (s, some "bad-op")
  | ["flow.rules", x] => match x.toNat? with
    | some x => (s, some (showList ((s.flow.ctls x).map fun c => toString c.rule.id)))
    | none => (s, some "bad-op")
  | ["hot.rules", x] => match x.toNat? with
    | some x => (s, some (showList ((s.hot.ctls x).map fun c => toString c.rule.id)))
    | none => (s, some "bad-op")
  | ["mem", m] => match m.toNat? with
    | some m => ({ s with mem := m }, none)
    | none => (s, some "bad-op")
  | ["in", h, x, a] => match h.toNat?, x.toNat?, parseReq a with
    | some h, some x, some a => let (s, r) := enterLive s h x a; (s, some r)
    | _, _, _ => (s, some "bad-op")
  | ["out", h, err] => match h.toNat?, err.toNat? with
    | some h, some err => let (s, r) := exitLive s h (err != 0); (s, some r)
    | _, _ => (s, some "bad-op")
  | [op, arg] =>
    match op.splitOn "." with
    | [m, "load"] => doLoad false s m false none arg
    | [m, "reload"] => doLoad false s m true none arg
    | _ => (s, some "bad-op")
  | [op, x, arg] =>
    match op.splitOn ".", x.toNat? with
    | [m, "loadres"], some x => doLoad false s m false (some x) arg
    | [m, "reloadres"], some x => doLoad false s m true (some x) arg
    | _, _ => (s, some "bad-op")
  | _ => (s, some "bad-op")

def isReload (ts : List String) : Bool := match ts with
  | op :: _ => op.endsWith ".reload" || op.endsWith ".reloadres"
  | [] => false

/-- `model` step.  `phase B` runs the recorded ops of phase A that are not reloads again, from scratch, and answers with
    the decisions of that second run. -/
def stepModel (s : St) (ts : List String) (_ : String) : St × Option String :=
  match ts with
  | ["phase", "B"] =>
    let (_, rs) := s.recOps.foldl (fun (acc : St × Array String) o =>
      let (s', r) := stepCore acc.1 o
      (s', match o, r with | "e" :: _, some r => acc.2.push r | "in" :: _, some r => acc.2.push r | _, _ => acc.2)) (({} : St), #[])
    (s, some (if rs.isEmpty then "-" else ";".intercalate rs.toList))
  | _ =>
    let (s', r) := stepCore s ts
    (if isReload ts || r == some "bad-op" then s' else { s' with recOps := s.recOps.push ts }, r)

/-- the resources whose traffic the decisions on `x` depend on: `x` and, transitively, every resource an associated flow
    rule on them reads the statistic of -/
def dependsOn (s : St) (x : Nat) : List Nat :=
  let step (xs : List Nat) : List Nat :=
    (xs ++ xs.flatMap fun y => ((s.flow.ctls y).filter fun c => c.rule.rel == 1).map (·.rule.ref)).eraseDups
  step (step (step (step [x])))

/-- the claim flags of a decision on `x`: those of every resource it depends on, combined -/
def flagsFor (s : St) (x : Nat) : Flags :=
  let fs := (dependsOn s x).map fun y => lookup ({} : Flags) s.flags y
  { unclaimed := s.allUnclaimed || fs.any (·.unclaimed), steal := fs.any (·.steal), warm := fs.any (·.warm), after := s.reloaded }

/-- `oracle` step: reads the implementation's trace.  Phase A: follow the rule lists (through the model's managers) and
    remember every decision with the claim flags of its resource; the `phase B` line carries the decisions of the run
    without reloads, which are compared one by one. -/
def stepOracle0 (s : St) (ts : List String) (line : String) : St × Option String :=
  let res := resPart line
  match ts with
  | ["phase", "B"] =>
    let rb := match res with
      | some "-" => []
      | some r => r.splitOn ";"
      | none => []
    if rb.length != s.recA.size then (s, some s!"bad count {rb.length}/{s.recA.size}") else
    let verdicts := (s.recA.toList.zip rb).map fun ((ra, fl), b) =>
      if ra == some b then 0 else if fl.unclaimed then 0 else if fl.steal then 1 else if fl.warm then 2 else 3
    let firstBad := ((s.recA.toList.zip rb).zip verdicts).findIdx? fun p => p.2 == 3
    match firstBad with
    | some i => (s, some s!"bad decision {i} differs")
    | none =>
      if verdicts.contains 1 then (s, some "known:reuse-steals-controller")
      else if verdicts.contains 2 then (s, some "known:warmup-reload-resets")
      else (s, some "ok")
  | "e" :: x :: _ =>
    let f := flagsFor s (x.toNat?.getD 0)
    ({ s with recA := s.recA.push (res, f) }, some "?")
  | "in" :: _ :: x :: _ =>
    let f := flagsFor s (x.toNat?.getD 0)
    ({ s with recA := s.recA.push (res, f) }, some "?")
  | ["out", _, _] => (s, none)
  | ["t", _] => (s, none)
  | ["mem", _] => (s, none)
  | ["fields", _] => (s, none)
  | ["flow.rules", _] => (s, none)
  | ["hot.rules", _] => (s, none)
  | _ =>
    let re := isReload ts
    match ts with
    | [op, arg] => doLoad true s ((op.splitOn ".").headD "") re none arg
    | [op, x, arg] => doLoad true s ((op.splitOn ".").headD "") re x.toNat? arg
    | _ => (s, some "bad-op")

def stepOracle (s : St) (ts : List String) (line : String) : St × Option String :=
  let (s', r) := stepOracle0 s ts line
  if r == some "bad-op" then (s', r)
  else if (resPart line).any (·.startsWith "PANIC") then (s', some "bad panic") else (s', r)

/-- `oracle-stats` (measurement only): per case, how many decisions were taken after a reload and how many of those
    the oracle claims -/
def stepStats (s : St) (ts : List String) (line : String) : St × Option String :=
  let (s', r) := stepOracle s ts line
  match ts with
  | ["phase", "B"] =>
    let aft := s.recA.toList.filter fun p => p.2.after
    let cl := aft.filter fun p => !p.2.unclaimed
    let st := cl.filter fun p => p.1.any fun r => r.startsWith "block" || (r.splitOn "wait").length > 1
    (s', some s!"{r.getD "-"} | after={aft.length} claimed={cl.length} claimed-block-or-wait={st.length}")
  | _ => (s', r)

def run (mode : String) : IO Unit :=
  if mode == "oracle" then loop ({} : St) stepOracle
  else if mode == "oracle-stats" then loop ({} : St) stepStats
  else loop ({} : St) stepModel

end Sentinel.Drv.C14
