import Sentinel.Drv.Common
/-! Driver for C19 (stub: replaced by the property's real driver) -/
namespace Sentinel.Drv.C19
def run (_mode : String) : IO Unit := IO.eprintln "C19: driver not implemented"
end Sentinel.Drv.C19
