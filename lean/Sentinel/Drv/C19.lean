import Sentinel.Drv.Common
import Sentinel.Model.AdapterIR
import Sentinel.Model.AdapterIRKnown
/-!
# Driver for C19 (core Lean only; does not import the generated table — it reads its text twin)

Ops (`<sc>` = `blocked|admitted` `ok|err|panic`):

* `conf <key> <sc>`  — model: the IR text of entry point `<key>` in the table written at the last
  regeneration (`Sentinel/Gen/adapters.ir`, the text twin of `Sentinel/Gen/Adapters.lean`), or `gone`.
  The implementation side (`corr C19`) answers with the IR extracted from the sources *now*.
* `trace <key> <sc> [variant]` — model: the event trace `runProg` predicts for that entry point and scenario.
  The implementation side are the dynamic harnesses (`go/c19/*`), which print the events they observed.

`oracle` mode judges implementation lines with `conforms` / `conformsTrace`: `ok`, `bad …`,
`known:<key>` (the program is a recorded finding: same key and body as a copy in `AdapterIRKnown`), `?`.
-/
namespace Sentinel.Drv.C19
open Sentinel.Drv Sentinel.AdapterIR

def parseScenario? (b h : String) : Option Scenario :=
  match b, Handler.parse? h with
  | "blocked", some hd => some ⟨true, hd⟩
  | "admitted", some hd => some ⟨false, hd⟩
  | _, _ => none

def showTrace (tr : List Ev) : String := if tr.isEmpty then "-" else traceText tr

def parseTrace? (s : String) : Option (List Ev) :=
  if s = "-" then some [] else (s.splitOn ",").mapM Ev.parse?

/-- `key ir…` lines of adapters.ir -/
def parseTable (txt : String) : List (String × List String) :=
  (txt.splitOn "\n").filterMap fun l =>
    if l.startsWith "#" then none else
    match toks l with
    | k :: ir => some (k, ir)
    | [] => none

def tablePath : IO System.FilePath := do
  match (← IO.getEnv "VERIF_C19_IR") with
  | some p => return p
  | none =>
    let app ← IO.appPath
    -- <lean>/.lake/build/bin/sentinel-driver  →  <lean>/Sentinel/Gen/adapters.ir
    let lean := (((app.parent.getD ".").parent.getD ".").parent.getD ".").parent.getD "."
    return lean / "Sentinel" / "Gen" / "adapters.ir"

def loadTable : IO (List (String × List String)) := do
  let p ← tablePath
  if ← p.pathExists then
    return parseTable (← IO.FS.readFile p)
  else
    return []

def lookup (tbl : List (String × List String)) (k : String) : Option (List String) :=
  (tbl.find? (·.1 = k)).map (·.2)

/-- `next=a,b` / `next=-` -/
def parseNext? (t : String) : Option (List String) :=
  if t.startsWith "next=" then
    let r := (t.drop 5).toString
    some (if r = "-" then [] else r.splitOn ",")
  else none

def fwOfKey (k : String) : String := ((k.splitOn "/").head?).getD k

/-- `next=… <body>` → program -/
def parseProg? (k : String) (ts : List String) : Option Prog :=
  match ts with
  | n :: ir =>
    match parseNext? n, parseBody ir with
    | some via, some body => some ⟨k, fwOfKey k, via, body⟩
    | _, _ => none
  | [] => none

def modelStep (tbl : List (String × List String)) (ts : List String) : Option String :=
  match ts with
  | ["conf", k, b, h] =>
    match parseScenario? b h with
    | none => some "bad-op"
    | some _ =>
      match lookup tbl k with
      | some ir => some (" ".intercalate ir)
      | none => some "gone"
  | ["trace", k, b, h] | ["trace", k, b, h, _] =>   -- optional fifth token: the harness variant
    match parseScenario? b h, lookup tbl k with
    | some sc, some ir =>
      match parseProg? k ir with
      | some p => some (showTrace (observable (p.run sc)))
      | none => some "unparsable-ir"
    | none, _ => some "bad-op"
    | _, none => some "gone"
  | _ => some "bad-op"

def judgeConf (k : String) (sc : Scenario) (res : String) : String :=
  if res = "gone" then "?" else
  match parseProg? k (toks res) with
  | none => "bad unparsable-ir"
  | some p =>
    if conforms p sc then "ok"
    else if isKnown p then "known:" ++ k
    else if !p.nextOk then "bad handler-call-kind-not-in-framework-table"
    else "bad trace=" ++ showTrace (p.run sc)

def judgeTrace (k : String) (sc : Scenario) (res : String) : String :=
  match parseTrace? res with
  | none => "bad unparsable-trace"
  | some tr =>
    if conformsTrace sc tr then "ok"
    else
      -- a recorded finding explains exactly the trace its recorded body predicts
      match knownProgs.find? (·.key = k) with
      | some kp => if observable (kp.run sc) = observable tr then "known:" ++ k else "bad observed-trace-violates-contract"
      | none => "bad observed-trace-violates-contract"

def oracleStep (ts : List String) (line : String) : Option String :=
  match ts, resPart line with
  | ["conf", k, b, h], some res =>
    match parseScenario? b h with
    | some sc => some (judgeConf k sc res)
    | none => some "bad-op"
  | ["trace", k, b, h], some res | ["trace", k, b, h, _], some res =>
    match parseScenario? b h with
    | some sc => some (judgeTrace k sc res)
    | none => some "bad-op"
  | _, _ => some "bad-op"

def run (mode : String) : IO Unit := do
  match mode with
  | "model" =>
    let tbl ← loadTable
    loop () fun _ ts _ => ((), modelStep tbl ts)
  | "oracle" | "spec" =>
    loop () fun _ ts line => ((), oracleStep ts line)
  | _ => IO.eprintln ("C19: unknown mode " ++ mode)
end Sentinel.Drv.C19
