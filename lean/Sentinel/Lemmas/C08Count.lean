import Sentinel.Lemmas.LeapArray
/-! Array-level reads (`valuesWithTime` after a refresh) select exactly the last `n` aligned buckets. -/
set_option linter.unusedSectionVars false
namespace Sentinel.LA
variable {M : Type} [AddCommMonoid M]

theorem mem_slots_index (sl : List (Slot M)) (s : Slot M) (h : s ∈ sl) : ∃ i, ∃ hi : i < sl.length, sl[i] = s := by
  obtain ⟨i, hi, he⟩ := List.getElem_of_mem h
  exact ⟨i, hi, he⟩

/-- after a successful `add` at `t` the slot of `t` starts at `cbs t` -/
theorem add_cur_start (a : Arr M) (hw : WF a) (t : Nat) (x : M) (hn : 2 ≤ a.n ∨ True)
    (hok : (add a t x).2 = true) (hnb : ¬ (cbs a.L t < (a.slots[idx a t]'(idx_lt a hw t)).start)) :
    ∃ hi : idx a t < (add a t x).1.slots.length, ((add a t x).1.slots[idx a t]).start = cbs a.L t := by
  have hidx := idx_lt a hw t
  have hsome : a.slots[idx a t]? = some (a.slots[idx a t]) := List.getElem?_eq_getElem hidx
  unfold add at hok ⊢
  simp only [hsome] at hok ⊢
  by_cases h1 : cbs a.L t = (a.slots[idx a t]).start
  · simp only [h1, if_true]
    refine ⟨by simpa using hidx, ?_⟩
    simp
  · simp only [h1, if_false] at hok ⊢
    by_cases h2 : (a.slots[idx a t]).start < cbs a.L t
    · simp only [h2, if_true]
      refine ⟨by simpa using hidx, ?_⟩
      simp
    · exfalso; omega

end Sentinel.LA

namespace Sentinel.LA
variable {M : Type} [AddCommMonoid M]

/-- along a monotone history the slot selected by the current time is never ahead of it -/
theorem slot_not_ahead (a : Arr M) (h : List (Nat × M)) (t0 latest t : Nat)
    (inv : Inv a h t0 latest) (hle : latest ≤ t) :
    ¬ (cbs a.L t < (a.slots[idx a t]'(idx_lt a inv.wf t)).start) := by
  intro hgt
  have hw := inv.wf
  have hidx := idx_lt a hw t
  obtain ⟨hL, hn, hl, hres⟩ := hw
  have hcm := cbs_mono a.L hle
  have hcm0 := cbs_mono a.L inv.le0
  rcases inv.d _ hidx with hd | ⟨hd1, hd2⟩
  · omega
  · obtain ⟨k, hk, hkr⟩ := hres _ hidx
    have hklt : t / a.L < k := by
      by_contra hc
      have : k ≤ t / a.L := Nat.le_of_not_lt hc
      have := Nat.mul_le_mul_right a.L this
      rw [cbs_eq] at hgt; omega
    have hg := residue_gap (n := a.n) (k1 := t / a.L) (k2 := k) (by rw [hkr]; rfl) hklt
    have h3 : (t / a.L + a.n) * a.L ≤ k * a.L := Nat.mul_le_mul_right _ hg
    have e1 : (t / a.L + a.n) * a.L = cbs a.L t + a.n * a.L := by rw [cbs_eq]; ring
    have hcm1 : cbs a.L t0 ≤ cbs a.L t := cbs_mono a.L (le_trans inv.le0 hle)
    omega

theorem sum_filter_eq_readW_iff (sl : List (Slot M)) (p : Slot M → Bool) (lo hi : Nat)
    (hp : ∀ s ∈ sl, (p s = true ↔ (lo ≤ s.start ∧ s.start ≤ hi))) :
    ((sl.filter p).map (·.val)).sum = readW sl lo hi := by
  unfold readW
  induction sl with
  | nil => rfl
  | cons s r ih =>
    have ihr := ih (fun s hs => hp s (List.mem_cons_of_mem _ hs))
    have hs := hp s (List.mem_cons_self ..)
    by_cases hw : lo ≤ s.start ∧ s.start ≤ hi
    · have hps : p s = true := hs.mpr hw
      simp only [List.filter_cons, hps, if_true, List.map_cons, List.sum_cons, hw, and_self]
      rw [ihr]
    · have hps : p s = false := by
        cases hq : p s with
        | false => rfl
        | true => exact absurd (hs.mp hq) hw
      simp only [List.filter_cons, hps, List.map_cons, List.sum_cons, hw, if_false, zero_add]
      simpa using ihr

/-- **array-level read**: refresh at `now`, then sum all non-deprecated buckets = the reference over the
    last `n` aligned buckets `[cbs now + L - n·L, cbs now]` of the history extended by the empty recording. -/
theorem refresh_total_eq_ref (a : Arr M) (h : List (Nat × M)) (t0 latest now : Nat)
    (inv : Inv a h t0 latest) (hle : latest ≤ now) (hpos : 0 < now) :
    Inv (refresh a now) (h ++ [(now, 0)]) t0 now ∧
    ((valuesAt (refresh a now) now).map (·.val)).sum =
      refW a.L h (cbs a.L now + a.L - a.n * a.L) (cbs a.L now) := by
  have hne : now ≠ 0 := Nat.ne_of_gt hpos
  have hstep := add_step a h t0 latest now 0 inv hle
  have hnl := add_nL a now (0 : M)
  have hrf : refresh a now = (add a now 0).1 := by simp [refresh, addAt, hne]
  rw [hrf]
  refine ⟨hstep.1, ?_⟩
  set a' := (add a now (0 : M)).1 with ha'
  have inv' := hstep.1
  have hw' := inv'.wf
  obtain ⟨hL, hn, hl, hres⟩ := hw'
  have hL' : a'.L = a.L := hnl.1
  have hn' : a'.n = a.n := hnl.2
  -- the current slot starts at cbs now
  obtain ⟨hci, hcur⟩ := add_cur_start a inv.wf now 0 (Or.inr trivial) hstep.2 (slot_not_ahead a h t0 latest now inv hle)
  unfold valuesAt
  simp only [hne, if_false]
  rw [sum_filter_eq_readW_iff (lo := cbs a.L now + a.L - a.n * a.L) (hi := cbs a.L now)]
  · have he := inv'.e (cbs a.L now + a.L - a.n * a.L) (cbs a.L now) (by rw [hL', hn']; omega)
    rw [he, hL', refW_append]
    simp
  · intro s hs
    obtain ⟨i, hi, rfl⟩ := mem_slots_index _ s hs
    obtain ⟨k, hk, hkr⟩ := hres i hi
    rw [hL'] at hk
    rw [hn'] at hkr
    have hcb : cbs a.L now ≤ now := by unfold cbs; omega
    have hLpos : 0 < a.L := by rw [← hL']; exact hL
    have hnpos : 0 < a.n := by rw [← hn']; exact hn
    have hlt : now < cbs a.L now + a.L := by
      unfold cbs; have := Nat.mod_lt now hLpos; omega
    unfold deprecated
    rw [hL', hn']
    constructor
    · intro hnd
      by_cases hsn : a'.slots[i].start ≤ now
      · simp only [hsn, if_true, Bool.not_eq_true', decide_eq_false_iff_not, Nat.not_lt] at hnd
        -- aligned and ≤ now ⇒ ≤ cbs now
        have hkle : k ≤ now / a.L := by
          rw [Nat.le_div_iff_mul_le hLpos]; omega
        have hle2 : a'.slots[i].start ≤ cbs a.L now := by
          rw [hk, cbs_eq]; exact Nat.mul_le_mul_right _ hkle
        refine ⟨?_, hle2⟩
        by_contra hlo
        -- start + n·L ≤ cbs now (alignment), so now = cbs now and start = cbs now - n·L: the slot of `now` itself
        have hlo' : a'.slots[i].start + a.n * a.L < cbs a.L now + a.L := by omega
        have hkn : k + a.n ≤ now / a.L := by
          have : (k + a.n) * a.L < (now / a.L + 1) * a.L := by
            rw [cbs_eq] at hlo'; rw [hk] at hlo'
            have e1 : (k + a.n) * a.L = k * a.L + a.n * a.L := by ring
            have e2 : (now / a.L + 1) * a.L = now / a.L * a.L + a.L := by ring
            omega
          have := Nat.lt_of_mul_lt_mul_right this
          omega
        have h4 : (k + a.n) * a.L ≤ now / a.L * a.L := Nat.mul_le_mul_right _ hkn
        have e1 : (k + a.n) * a.L = k * a.L + a.n * a.L := by ring
        rw [cbs_eq] at hcb hlt
        have hnow : now = k * a.L + a.n * a.L := by omega
        have hq : now / a.L = k + a.n := by
          rw [hnow, ← e1]; exact Nat.mul_div_cancel _ hLpos
        have hidx : idx a now = i := by
          unfold idx; rw [hq, Nat.add_mod_right]; exact hkr
        subst hidx
        rw [hk, cbs_eq, hq] at hcur
        have : k * a.L = (k + a.n) * a.L := hcur
        have h5 : 0 < a.n * a.L := Nat.mul_pos hnpos hLpos
        omega
      · simp [hsn] at hnd
    · intro ⟨hlo, hhi⟩
      have hsn : a'.slots[i].start ≤ now := le_trans hhi hcb
      simp only [hsn, if_true, Bool.not_eq_true', decide_eq_false_iff_not, Nat.not_lt]
      omega

end Sentinel.LA
