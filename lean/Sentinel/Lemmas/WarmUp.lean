import Mathlib.Tactic
import Sentinel.Model.WarmUp
/-! Helper lemmas for C11: the `Rat` carrier unfolded, the closed form of the warm-up threshold and its bounds. -/
namespace Sentinel.WU.L
open Sentinel.WU Sentinel.LA

@[simp] theorem c_ofNat (n : ℕ) : (Carrier.ofNat n : ℚ) = (n : ℚ) := rfl
@[simp] theorem c_ofInt (n : ℤ) : (Carrier.ofInt n : ℚ) = (n : ℚ) := rfl
@[simp] theorem c_next (q : ℚ) : Carrier.next q = q := rfl
@[simp] theorem c_ltb (x y : ℚ) : Carrier.ltb x y = decide (x < y) := rfl
theorem c_trunc (q : ℚ) : Carrier.trunc q = Int.tdiv q.num q.den := rfl

theorem trunc_of_nonneg {q : ℚ} (h : 0 ≤ q) : Carrier.trunc q = ⌊q⌋ := by
  rw [c_trunc, Rat.floor_def', Int.tdiv_eq_ediv_of_nonneg (Rat.num_nonneg.2 h)]

theorem trunc_eq {q : ℚ} (z : ℤ) (h0 : 0 ≤ q) (h1 : (z : ℚ) ≤ q) (h2 : q < z + 1) : Carrier.trunc q = z := by
  rw [trunc_of_nonneg h0, Int.floor_eq_iff]; exact ⟨h1, h2⟩

example : (mkCfg (2:ℚ) 10 3).warn = 10 := by
  simp only [mkCfg, effCf, c_ofNat]
  rw [trunc_eq 10 (by norm_num) (by norm_num) (by norm_num)]; rfl
example : (mkCfg (2:ℚ) 10 3).max = 20 := by
  simp only [mkCfg, effCf, c_ofNat]
  rw [trunc_eq 10 (by norm_num) (by norm_num) (by norm_num), trunc_eq 10 (by norm_num) (by norm_num) (by norm_num)]; rfl

structure WF (c : Cfg ℚ) : Prop where
  Tpos : 0 < c.T
  cf2 : 2 ≤ c.cf
  lt : c.warn < c.max
  slope : c.slope = some (((c.cf - 1 : ℕ) : ℚ) / c.T / ((c.max - c.warn : ℕ) : ℚ))

theorem effCf_ge_two (cf0 : ℕ) : 2 ≤ effCf cf0 := by
  unfold effCf; split_ifs <;> omega

theorem mkCfg_wf (T : ℚ) (p cf0 : ℕ) (h : Known.degenerateNaN (mkCfg T p cf0) = false) : WF (mkCfg T p cf0) := by
  unfold Known.degenerateNaN at h
  have hs : (mkCfg T p cf0).slope ≠ none := by
    intro e; rw [e] at h; simp at h
  unfold mkCfg at hs ⊢
  simp only [c_ofNat, c_ltb, Nat.cast_zero] at hs ⊢
  split_ifs at hs with hc
  · exact absurd rfl hs
  · rw [not_or] at hc
    obtain ⟨h1, h2⟩ := hc
    simp only [Bool.not_eq_true', decide_eq_false_iff_not, not_not] at h2
    refine ⟨h2, effCf_ge_two _, ?_, ?_⟩
    · dsimp only; omega
    · dsimp only
      rw [if_neg]
      rw [not_or]; exact ⟨h1, by simpa using h2⟩

/-! ## static envelope of the warm-up threshold -/

/-- the threshold as a plain rational function of the stored tokens -/
def val (c : Cfg ℚ) (tokens : ℤ) : ℚ :=
  let rest : ℤ := max tokens 0
  if (c.warn : ℤ) ≤ rest then
    c.T * ((c.max : ℚ) - c.warn) / (((rest : ℚ) - c.warn) * ((c.cf : ℚ) - 1) + ((c.max : ℚ) - c.warn))
  else c.T

theorem allowed_closed_form {c : Cfg ℚ} (h : WF c) (tokens : ℤ) : allowed c tokens = some (val c tokens) := by
  obtain ⟨hT, hcf, hlt, hs⟩ := h
  unfold allowed val
  have hr : (if tokens < 0 then (0 : ℤ) else tokens) = max tokens 0 := by
    split_ifs with h0
    · rw [max_eq_right (le_of_lt h0)]
    · rw [max_eq_left (not_lt.1 h0)]
  simp only [hr, hs, c_ofNat, c_ofInt, c_next]
  split_ifs with hw
  · congr 1
    have hd : (0 : ℚ) < (c.max : ℚ) - c.warn := by
      have : (c.warn : ℚ) < c.max := by exact_mod_cast hlt
      linarith
    have e1 : ((c.cf - 1 : ℕ) : ℚ) = (c.cf : ℚ) - 1 := by
      rw [Nat.cast_sub (by omega)]; simp
    have e2 : ((c.max - c.warn : ℕ) : ℚ) = (c.max : ℚ) - c.warn := by
      rw [Nat.cast_sub (le_of_lt hlt)]
    rw [e1, e2]
    have hT' : c.T ≠ 0 := ne_of_gt hT
    have hd' : (c.max : ℚ) - c.warn ≠ 0 := ne_of_gt hd
    push_cast
    field_simp
  · rfl

section env
variable {c : Cfg ℚ} (h : WF c) (tokens : ℤ)
include h

theorem facts (htm : tokens ≤ c.max) :
    (0 : ℚ) < (c.max : ℚ) - c.warn ∧ (1 : ℚ) ≤ (c.cf : ℚ) - 1 ∧
    (((max tokens 0 : ℤ) : ℚ) - c.warn ≤ (c.max : ℚ) - c.warn) := by
  obtain ⟨hT, hcf, hlt, hs⟩ := h
  refine ⟨?_, ?_, ?_⟩
  · have : (c.warn : ℚ) < c.max := by exact_mod_cast hlt
    linarith
  · have : (2 : ℚ) ≤ c.cf := by exact_mod_cast hcf
    linarith
  · have : max tokens 0 ≤ (c.max : ℤ) := max_le htm (by positivity)
    have : ((max tokens 0 : ℤ) : ℚ) ≤ ((c.max : ℤ) : ℚ) := by exact_mod_cast this
    simpa using this

/-- `allowed_le_T`: the effective threshold never exceeds the configured one -/
theorem val_le_T : val c tokens ≤ c.T := by
  have hT := h.Tpos
  unfold val
  dsimp only
  split_ifs with hw
  · have ha0 : (0 : ℚ) ≤ ((max tokens 0 : ℤ) : ℚ) - c.warn := by
      have : ((c.warn : ℤ) : ℚ) ≤ ((max tokens 0 : ℤ) : ℚ) := by exact_mod_cast hw
      simpa using this
    have hd : (0 : ℚ) < (c.max : ℚ) - c.warn := by
      have : (c.warn : ℚ) < c.max := by exact_mod_cast h.lt
      linarith
    have hc : (1 : ℚ) ≤ (c.cf : ℚ) - 1 := by
      have : (2 : ℚ) ≤ c.cf := by exact_mod_cast h.cf2
      linarith
    have hden : (0 : ℚ) < (((max tokens 0 : ℤ) : ℚ) - c.warn) * ((c.cf : ℚ) - 1) + ((c.max : ℚ) - c.warn) := by positivity
    rw [div_le_iff₀ hden]
    nlinarith [mul_nonneg ha0 (by linarith : (0 : ℚ) ≤ (c.cf : ℚ) - 1)]
  · exact le_refl _

/-- `allowed_ge_T_div_cf` (for stored tokens within the bucket, which `sync` maintains) -/
theorem T_div_cf_le_val (htm : tokens ≤ c.max) : c.T / c.cf ≤ val c tokens := by
  have hT := h.Tpos
  obtain ⟨hd, hc, ha1⟩ := facts h tokens htm
  have hcf0 : (0 : ℚ) < c.cf := by linarith
  unfold val
  dsimp only
  split_ifs with hw
  · have ha0 : (0 : ℚ) ≤ ((max tokens 0 : ℤ) : ℚ) - c.warn := by
      have : ((c.warn : ℤ) : ℚ) ≤ ((max tokens 0 : ℤ) : ℚ) := by exact_mod_cast hw
      simpa using this
    have hden : (0 : ℚ) < (((max tokens 0 : ℤ) : ℚ) - c.warn) * ((c.cf : ℚ) - 1) + ((c.max : ℚ) - c.warn) := by positivity
    rw [div_le_div_iff₀ hcf0 hden]
    nlinarith [mul_le_mul_of_nonneg_right ha1 (by linarith : (0 : ℚ) ≤ (c.cf : ℚ) - 1)]
  · rw [div_le_iff₀ hcf0]
    nlinarith

/-- `cold_start_eq_T_div_cf`: with a full bucket the threshold is exactly `T / coldFactor` -/
theorem val_at_max : val c c.max = c.T / c.cf := by
  have hT := h.Tpos
  obtain ⟨hd, hc, _⟩ := facts h (c.max : ℤ) (le_refl _)
  have hcf0 : (c.cf : ℚ) ≠ 0 := by
    have : (0:ℚ) < c.cf := by linarith
    exact ne_of_gt this
  unfold val
  dsimp only
  have hm : max (c.max : ℤ) 0 = (c.max : ℤ) := max_eq_left (by positivity)
  have hw : (c.warn : ℤ) ≤ max (c.max : ℤ) 0 := by
    rw [hm]; exact_mod_cast le_of_lt h.lt
  rw [if_pos hw, hm]
  have hd' : (c.max : ℚ) - c.warn ≠ 0 := ne_of_gt hd
  push_cast
  field_simp
  ring

/-- `allowed_antitone_in_tokens`: more stored tokens (a colder system) never raise the threshold -/
theorem val_antitone (t1 t2 : ℤ) (h12 : t1 ≤ t2) : val c t2 ≤ val c t1 := by
  have hT := h.Tpos
  have hd : (0 : ℚ) < (c.max : ℚ) - c.warn := by
    have : (c.warn : ℚ) < c.max := by exact_mod_cast h.lt
    linarith
  have hc : (1 : ℚ) ≤ (c.cf : ℚ) - 1 := by
    have : (2 : ℚ) ≤ c.cf := by exact_mod_cast h.cf2
    linarith
  have hm : max t1 0 ≤ max t2 0 := max_le_max h12 (le_refl _)
  by_cases hw1 : (c.warn : ℤ) ≤ max t1 0
  · have hw2 : (c.warn : ℤ) ≤ max t2 0 := le_trans hw1 hm
    unfold val
    dsimp only
    rw [if_pos hw1, if_pos hw2]
    have ha1 : (0 : ℚ) ≤ ((max t1 0 : ℤ) : ℚ) - c.warn := by
      have : ((c.warn : ℤ) : ℚ) ≤ ((max t1 0 : ℤ) : ℚ) := by exact_mod_cast hw1
      simpa using this
    have ha12 : ((max t1 0 : ℤ) : ℚ) ≤ ((max t2 0 : ℤ) : ℚ) := by exact_mod_cast hm
    have hden1 : (0 : ℚ) < (((max t1 0 : ℤ) : ℚ) - c.warn) * ((c.cf : ℚ) - 1) + ((c.max : ℚ) - c.warn) := by positivity
    apply div_le_div_of_nonneg_left (by positivity) hden1
    nlinarith
  · have e1 : val c t1 = c.T := by unfold val; dsimp only; rw [if_neg hw1]
    rw [e1]; exact val_le_T h t2

end env

/-! ## memory-adaptive interpolation -/

theorem valid_iff (m : MemCfg) (total : ℤ) : m.valid total = true ↔
    0 < m.lowT ∧ 0 < m.highT ∧ m.highT < m.lowT ∧ 0 < m.lowM ∧ 0 < m.highM ∧ m.highM ≤ total ∧ m.lowM < m.highM := by
  unfold MemCfg.valid
  simp only [Bool.and_eq_true, decide_eq_true_eq]
  tauto

/-- the reading `-1` ("not retrieved") is below every valid low water mark, so the special case is subsumed -/
theorem memAllowed_eq (m : MemCfg) (hl : 0 < m.lowM) (mem : ℤ) : (memAllowed m mem : ℚ) =
    if mem ≤ m.lowM then (m.lowT : ℚ) else if m.highM ≤ mem then (m.highT : ℚ)
    else ((m.highT : ℚ) - m.lowT) / ((m.highM : ℚ) - m.lowM) * ((mem : ℚ) - m.lowM) + m.lowT := by
  unfold memAllowed
  by_cases h1 : mem = -1
  · have : mem ≤ m.lowM := by omega
    simp [h1]
    intro h; omega
  · simp only [h1, if_false, c_ofInt]
    split_ifs <;> push_cast <;> rfl

theorem interp_bounds (m : MemCfg) (ht : m.highT < m.lowT) (hm : m.lowM < m.highM) (mem : ℤ)
    (h1 : m.lowM < mem) (h2 : mem < m.highM) :
    (m.highT : ℚ) < ((m.highT : ℚ) - m.lowT) / ((m.highM : ℚ) - m.lowM) * ((mem : ℚ) - m.lowM) + m.lowT ∧
    ((m.highT : ℚ) - m.lowT) / ((m.highM : ℚ) - m.lowM) * ((mem : ℚ) - m.lowM) + m.lowT < m.lowT := by
  have a : (0 : ℚ) < (m.lowT : ℚ) - m.highT := by
    have : (m.highT : ℚ) < m.lowT := by exact_mod_cast ht
    linarith
  have b : (0 : ℚ) < (m.highM : ℚ) - m.lowM := by
    have : (m.lowM : ℚ) < m.highM := by exact_mod_cast hm
    linarith
  have c1 : (0 : ℚ) < (mem : ℚ) - m.lowM := by
    have : (m.lowM : ℚ) < mem := by exact_mod_cast h1
    linarith
  have c2 : (mem : ℚ) - m.lowM < (m.highM : ℚ) - m.lowM := by
    have : (mem : ℚ) < m.highM := by exact_mod_cast h2
    linarith
  have key : ((m.highT : ℚ) - m.lowT) / ((m.highM : ℚ) - m.lowM) * ((mem : ℚ) - m.lowM)
      = -(((m.lowT : ℚ) - m.highT) * (((mem : ℚ) - m.lowM) / ((m.highM : ℚ) - m.lowM))) := by
    field_simp; ring
  have r0 : 0 < ((mem : ℚ) - m.lowM) / ((m.highM : ℚ) - m.lowM) := div_pos c1 b
  have r1 : ((mem : ℚ) - m.lowM) / ((m.highM : ℚ) - m.lowM) < 1 := (div_lt_one b).2 c2
  rw [key]
  constructor <;> nlinarith

/-! ## token bounds maintained by `sync` -/

theorem trunc_nonneg {q : ℚ} (h : 0 ≤ q) : 0 ≤ (Carrier.trunc q : ℤ) := by
  rw [trunc_of_nonneg h]; exact Int.floor_nonneg.2 h

theorem trunc_zero : (Carrier.trunc (0 : ℚ) : ℤ) = 0 := by
  rw [trunc_of_nonneg (le_refl _)]; simp

theorem coolDown_le_max (c : Cfg ℚ) (s : Tok) (cur : ℕ) (q : ℚ) : coolDown c s cur q ≤ c.max := by
  unfold coolDown
  dsimp only
  split_ifs <;> first | assumption | exact le_refl _

theorem sync_bounds (c : Cfg ℚ) (s : Tok) (now : ℕ) (q : ℚ) (hq : 0 ≤ q)
    (h0 : 0 ≤ s.tokens) (h1 : s.tokens ≤ c.max) :
    0 ≤ (sync c s now q).tokens ∧ (sync c s now q).tokens ≤ c.max := by
  unfold sync
  dsimp only
  split_ifs with ha hb
  · exact ⟨h0, h1⟩
  · exact ⟨le_refl _, by positivity⟩
  · refine ⟨not_lt.1 hb, ?_⟩
    have := coolDown_le_max c s (now - now % 1000) q
    have := trunc_nonneg hq
    dsimp only
    omega

/-! ## a leap array in which no pass has been recorded -/

def NoPass (a : Arr Bucket) : Prop := ∀ s ∈ a.slots, s.val.pass = 0

theorem sum_pass_zero (l : List Bucket) (h : ∀ b ∈ l, b.pass = 0) : l.sum.pass = 0 := by
  induction l with
  | nil => rfl
  | cons x xs ih =>
    rw [List.sum_cons]
    have hx : x.pass = 0 := h x (List.mem_cons_self)
    have hxs : xs.sum.pass = 0 := ih fun b hb => h b (List.mem_cons_of_mem _ hb)
    show x.pass + xs.sum.pass = 0
    rw [hx, hxs]

theorem noPass_vSum (a : Arr Bucket) (h : NoPass a) (Iv now : ℕ) : vSum a Iv now .pass = 0 := by
  unfold vSum viewSum Bucket.get
  dsimp only
  apply sum_pass_zero
  intro b hb
  rw [List.mem_map] at hb
  obtain ⟨s, hs, rfl⟩ := hb
  unfold viewVals at hs
  split_ifs at hs
  · simp at hs
  · exact h s (List.mem_filter.1 hs).1

theorem noPass_vPrevSum (a : Arr Bucket) (h : NoPass a) (Iv Lv now : ℕ) : vPrevSum a Iv Lv now .pass = 0 := by
  unfold vPrevSum
  split_ifs
  · exact noPass_vSum a h _ _
  · rfl

theorem noPass_add (a : Arr Bucket) (h : NoPass a) (t : ℕ) (x : Bucket) (hx : x.pass = 0) : NoPass (addAt a t x).1 := by
  unfold addAt
  split_ifs
  · exact h
  · unfold LA.add
    dsimp only
    cases hsl : a.slots[idx a t]? with
    | none => simpa [hsl] using h
    | some s =>
      have hs : s.val.pass = 0 := h s (List.mem_of_getElem? hsl)
      simp only []
      split_ifs
      all_goals
        first
        | exact h
        | (intro s' hs'
           rcases List.mem_or_eq_of_mem_set hs' with h' | h'
           · exact h s' h'
           · subst h'
             first
             | exact hx
             | (show s.val.pass + x.pass = 0
                rw [hs, hx]))

theorem noPass_mk (n L now : ℕ) : NoPass (LA.mk n L now : Arr Bucket) := by
  intro s hs
  unfold LA.mk at hs
  simp only [List.mem_map] at hs
  obtain ⟨j, _, rfl⟩ := hs
  rfl


/-! ## histories of requests -/

/-- run a history of requests `(time, batch)` through `req`; returns the decisions (`true` = admitted) -/
def run (s : Sys ℚ) : List (ℕ × ℕ) → List Bool
  | [] => []
  | (t, b) :: r => (req s t b).2 :: run (req s t b).1 r

/-- the first token sync at wall time `t` fills the bucket: `(t - t % 1000) * T / 1000 ≥ maxToken`
    (true of every real wall-clock time; the calculator starts with `lastFilledTime = 0`) -/
def Filled (c : Cfg ℚ) (t : ℕ) : Prop := (c.max : ℚ) ≤ ((t - t % 1000 : ℕ) : ℚ) * c.T / 1000

theorem prevQps_zero (a : Arr Bucket) (h : NoPass a) (sc Iv now : ℕ) : (prevQps a sc Iv now : ℚ) = 0 := by
  unfold prevQps
  rw [noPass_vPrevSum a h]
  simp

theorem sync_starved {c : Cfg ℚ} (hwf : WF c) (hT : c.T < c.cf) (hw : 0 < c.warn) (tok : Tok)
    (ht : tok = {} ∨ tok.tokens = c.max) (t : ℕ) (hf : Filled c t) : (sync c tok t 0).tokens = c.max := by
  have hlt := hwf.lt
  have hTpos := hwf.Tpos
  unfold sync
  dsimp only
  rw [trunc_zero]
  rcases ht with rfl | hm
  · -- first sync ever: the bucket is filled from zero
    have hcur : ¬ (t - t % 1000 ≤ 0) := by
      intro h0
      have e : t - t % 1000 = 0 := by omega
      unfold Filled at hf
      rw [e] at hf
      have : (c.max : ℚ) ≤ 0 := by simpa using hf
      have : (0 : ℚ) < c.max := by exact_mod_cast (by omega : 0 < c.max)
      linarith
    have e0 : ({} : Tok).lastFilled = 0 := rfl
    have e1 : ({} : Tok).tokens = 0 := rfl
    rw [e0, if_neg hcur]
    have hcd : coolDown c {} (t - t % 1000) 0 = c.max := by
      unfold coolDown
      dsimp only
      have hw' : (0 : ℤ) < (c.warn : ℤ) := by exact_mod_cast hw
      rw [if_pos hw']
      simp only [c_ofInt, c_ofNat, Int.cast_zero, Nat.cast_zero, sub_zero, zero_add, Nat.cast_ofNat]
      have hnn : (0 : ℚ) ≤ ((t - t % 1000 : ℕ) : ℚ) * c.T / 1000 := by positivity
      have hge : (c.max : ℤ) ≤ Carrier.trunc (((t - t % 1000 : ℕ) : ℚ) * c.T / 1000) := by
        rw [trunc_of_nonneg hnn, Int.le_floor]
        unfold Filled at hf
        simpa using hf
      split_ifs with hle
      · omega
      · rfl
    rw [hcd]
    simp
  · by_cases hcur : t - t % 1000 ≤ tok.lastFilled
    · rw [if_pos hcur]; exact hm
    · rw [if_neg hcur]
      have hcd : coolDown c tok (t - t % 1000) 0 = c.max := by
        unfold coolDown
        dsimp only
        rw [hm]
        have h1 : ¬ ((c.max : ℤ) < (c.warn : ℤ)) := by
          have : (c.warn : ℤ) < c.max := by exact_mod_cast hlt
          omega
        have h2 : (c.warn : ℤ) < (c.max : ℤ) := by exact_mod_cast hlt
        rw [if_neg h1, if_pos h2]
        have hfl : (Carrier.trunc c.T).toNat / c.cf = 0 := by
          apply Nat.div_eq_of_lt
          rw [trunc_of_nonneg (le_of_lt hTpos)]
          have : ⌊c.T⌋ < (c.cf : ℤ) := by
            rw [Int.floor_lt]; exact_mod_cast hT
          have h0 : 0 ≤ ⌊c.T⌋ := Int.floor_nonneg.2 (le_of_lt hTpos)
          omega
        rw [hfl]
        simp
      rw [hcd]
      simp

theorem rejects_cold {c : Cfg ℚ} (hwf : WF c) (hT : c.T < c.cf) (b : ℕ) (hb : 1 ≤ b) :
    rejects (allowed c c.max) 0 b = true := by
  rw [allowed_closed_form hwf, val_at_max hwf]
  unfold rejects
  simp only [c_ofNat, c_ltb, decide_eq_true_eq, zero_add]
  have hcf : (0 : ℚ) < c.cf := by
    have : (2 : ℚ) ≤ c.cf := by exact_mod_cast hwf.cf2
    linarith
  have : c.T / c.cf < 1 := (div_lt_one hcf).2 hT
  have : (1 : ℚ) ≤ b := by exact_mod_cast hb
  linarith

/-- invariant of the starvation argument: nothing has ever been admitted, and the bucket is either untouched or full -/
structure SInv (c : Cfg ℚ) (sc Iv : ℕ) (s : Sys ℚ) : Prop where
  rule : s.rule = some (.warmup c, sc, Iv)
  arr : ∃ a, s.arr = some a ∧ NoPass a
  tok : s.tok = {} ∨ s.tok.tokens = c.max

theorem starve_step {c : Cfg ℚ} (hwf : WF c) (hT : c.T < c.cf) (hw : 0 < c.warn) {sc Iv : ℕ} {s : Sys ℚ}
    (inv : SInv c sc Iv s) (t b : ℕ) (hb : 1 ≤ b) (hf : Filled c t) :
    (req s t b).2 = false ∧ SInv c sc Iv (req s t b).1 := by
  obtain ⟨hr, ⟨a, ha, hnp⟩, htok⟩ := inv
  have htouch : s.touch t = s := by unfold Sys.touch; rw [ha]
  have hsync := sync_starved hwf hT hw s.tok htok t hf
  have hthr : threshold s a t = (sync c s.tok t 0, some (allowed c c.max)) := by
    unfold threshold
    rw [hr]
    dsimp only
    rw [prevQps_zero a hnp, hsync]
  have hblk : rejects (allowed c c.max) (vSum a Iv t .pass) b = true := by
    rw [noPass_vSum a hnp]; exact rejects_cold hwf hT b hb
  unfold req
  rw [htouch]
  simp only [ha, hthr, hr, hblk, Bool.not_true, if_true]
  refine ⟨trivial, ⟨rfl, ⟨_, rfl, noPass_add a hnp t _ rfl⟩, Or.inr hsync⟩⟩

theorem starve_run {c : Cfg ℚ} (hwf : WF c) (hT : c.T < c.cf) (hw : 0 < c.warn) {sc Iv : ℕ}
    (h : List (ℕ × ℕ)) : ∀ (s : Sys ℚ), SInv c sc Iv s → (∀ e ∈ h, 1 ≤ e.2 ∧ Filled c e.1) →
    ∀ d ∈ run s h, d = false := by
  induction h with
  | nil => intro s _ _ d hd; simp [run] at hd
  | cons e r ih =>
    intro s inv hh d hd
    obtain ⟨t, b⟩ := e
    have he := hh (t, b) (List.mem_cons_self)
    obtain ⟨h1, h2⟩ := starve_step hwf hT hw inv t b he.1 he.2
    simp only [run, List.mem_cons] at hd
    rcases hd with rfl | hd
    · exact h1
    · exact ih _ h2 (fun e' he' => hh e' (List.mem_cons_of_mem _ he')) d hd

theorem sinv_load (T : ℚ) (p cf0 sc Iv t0 : ℕ) :
    SInv (mkCfg T p cf0) sc Iv (loadWarmUp ({} : Sys ℚ) t0 T p cf0 sc Iv) := by
  refine ⟨rfl, ⟨_, rfl, noPass_mk _ _ _⟩, Or.inl rfl⟩


/-! ## the NaN region: everything is admitted -/

theorem touch_arr (s : Sys ℚ) (t : ℕ) : ∃ a, (s.touch t).arr = some a ∧ (s.touch t).rule = s.rule ∧
    (s.touch t).tok = s.tok ∧ (s.touch t).mem = s.mem := by
  unfold Sys.touch
  cases h : s.arr with
  | none => exact ⟨_, rfl, rfl, rfl, rfl⟩
  | some a => exact ⟨a, h, rfl, rfl, rfl⟩

theorem prevQps_nonneg (a : Arr Bucket) (sc Iv now : ℕ) : (0 : ℚ) ≤ prevQps a sc Iv now := by
  unfold prevQps
  simp only [c_ofNat]
  positivity

theorem allowed_nan {c : Cfg ℚ} (hs : c.slope = none) (tokens : ℤ) (h : max tokens 0 = c.warn) :
    allowed c tokens = none := by
  unfold allowed
  have hr : (if tokens < 0 then (0 : ℤ) else tokens) = max tokens 0 := by
    split_ifs with h0
    · rw [max_eq_right (le_of_lt h0)]
    · rw [max_eq_left (not_lt.1 h0)]
  simp only [hr, hs, h, le_refl, if_true, sub_self]

theorem nan_step {c : Cfg ℚ} (hs : c.slope = none) (hm : c.max = 0) (hw : c.warn = 0) {sc Iv : ℕ} {s : Sys ℚ}
    (hr : s.rule = some (.warmup c, sc, Iv)) (h0 : 0 ≤ s.tok.tokens) (h1 : s.tok.tokens ≤ c.max) (t b : ℕ) :
    (req s t b).2 = true ∧ (req s t b).1.rule = some (.warmup c, sc, Iv) ∧
      0 ≤ (req s t b).1.tok.tokens ∧ (req s t b).1.tok.tokens ≤ c.max := by
  obtain ⟨a, ha, hr', htk, _⟩ := touch_arr s t
  have hb := sync_bounds c s.tok t (prevQps a sc Iv t) (prevQps_nonneg a sc Iv t) h0 h1
  have hz : (sync c s.tok t (prevQps a sc Iv t)).tokens = 0 := by
    have := hb.1; have := hb.2; rw [hm] at *; omega
  have hthr : threshold (s.touch t) a t = (sync c s.tok t (prevQps a sc Iv t), some none) := by
    unfold threshold
    rw [hr', hr]
    dsimp only
    rw [htk, allowed_nan hs _ (by rw [hz, hw]; rfl)]
  unfold req
  simp only [ha, hthr, hr', hr, rejects, Bool.not_false, Bool.false_eq_true, if_false]
  exact ⟨trivial, trivial, hb⟩

theorem nan_run {c : Cfg ℚ} (hs : c.slope = none) (hm : c.max = 0) (hw : c.warn = 0) {sc Iv : ℕ}
    (h : List (ℕ × ℕ)) : ∀ (s : Sys ℚ), s.rule = some (.warmup c, sc, Iv) → 0 ≤ s.tok.tokens → s.tok.tokens ≤ c.max →
    ∀ d ∈ run s h, d = true := by
  induction h with
  | nil => intro s _ _ _ d hd; simp [run] at hd
  | cons e r ih =>
    intro s hr h0 h1 d hd
    obtain ⟨t, b⟩ := e
    obtain ⟨k1, k2, k3, k4⟩ := nan_step hs hm hw hr h0 h1 t b
    simp only [run, List.mem_cons] at hd
    rcases hd with rfl | hd
    · exact k1
    · exact ih _ k2 k3 k4 d hd

/-! ## positive partials -/

/-- a request arriving when the statistic window is empty is admitted as soon as `T / coldFactor ≥ 1` -/
theorem admits_when_window_empty {c : Cfg ℚ} (hwf : WF c) (hT : (c.cf : ℚ) ≤ c.T) (tokens : ℤ) (htm : tokens ≤ c.max) :
    rejects (allowed c tokens) 0 1 = false := by
  rw [allowed_closed_form hwf]
  unfold rejects
  simp only [c_ofNat, c_ltb, decide_eq_false_iff_not, not_lt, zero_add, Nat.cast_one]
  have hcf : (0 : ℚ) < c.cf := by
    have : (2 : ℚ) ≤ c.cf := by exact_mod_cast hwf.cf2
    linarith
  have h1 : (1 : ℚ) ≤ c.T / c.cf := (one_le_div hcf).2 hT
  exact le_trans h1 (T_div_cf_le_val hwf tokens htm)

/-- one idle second-boundary sync refills a bucket that is not exactly at the warning line up to `maxToken`
    when the gap is long enough (`T ≥ coldFactor`, nothing passed in the previous window) -/
theorem sync_idle_refills {c : Cfg ℚ} (hwf : WF c) (hT : (c.cf : ℚ) ≤ c.T) (tok : Tok) (h0 : 0 ≤ tok.tokens)
    (hne : tok.tokens ≠ c.warn) (t : ℕ) (hcur : tok.lastFilled < t - t % 1000)
    (hgap : (c.max : ℚ) - tok.tokens ≤ ((t - t % 1000 - tok.lastFilled : ℕ) : ℚ) * c.T / 1000) :
    (sync c tok t 0).tokens = c.max := by
  have hTpos := hwf.Tpos
  have hcfpos : 0 < c.cf := by have := hwf.cf2; omega
  unfold sync
  dsimp only
  rw [trunc_zero, if_neg (not_le.2 hcur)]
  have hnn : (0 : ℚ) ≤ (tok.tokens : ℚ) + ((t - t % 1000 - tok.lastFilled : ℕ) : ℚ) * c.T / 1000 := by
    have : (0 : ℚ) ≤ tok.tokens := by exact_mod_cast h0
    positivity
  have hge : (c.max : ℤ) ≤ Carrier.trunc ((tok.tokens : ℚ) + ((t - t % 1000 - tok.lastFilled : ℕ) : ℚ) * c.T / 1000) := by
    rw [trunc_of_nonneg hnn, Int.le_floor]
    push_cast
    linarith
  have hcd : coolDown c tok (t - t % 1000) 0 = c.max := by
    unfold coolDown
    dsimp only
    have hfl : (0 : ℚ) < (((Carrier.trunc c.T).toNat / c.cf : ℕ) : ℚ) := by
      have : 0 < (Carrier.trunc c.T).toNat / c.cf := by
        apply Nat.div_pos _ hcfpos
        rw [trunc_of_nonneg (le_of_lt hTpos)]
        have : (c.cf : ℤ) ≤ ⌊c.T⌋ := by rw [Int.le_floor]; exact_mod_cast hT
        omega
      exact_mod_cast this
    have e : ((t - t % 1000 : ℕ) : ℚ) - (tok.lastFilled : ℚ) = ((t - t % 1000 - tok.lastFilled : ℕ) : ℚ) := by
      rw [Nat.cast_sub (le_of_lt hcur)]
    simp only [c_ofInt, c_ofNat, c_ltb, Nat.cast_ofNat, e, hfl, decide_true, if_true]
    rcases lt_or_gt_of_ne hne with hlt | hgt
    · rw [if_pos hlt]
      split_ifs with hle
      · omega
      · rfl
    · rw [if_neg (not_lt.2 (le_of_lt hgt)), if_pos hgt]
      split_ifs with hle
      · omega
      · rfl
  rw [hcd]
  simp

/-- under per-second demand that admits an integral `q ≥ 1` with `q ≥ ⌊⌊T⌋/cf⌋` (no refill), a bucket above the
    warning line drains by exactly `q` tokens at each second boundary -/
theorem sync_drains (c : Cfg ℚ) (tok : Tok) (t q : ℕ) (hcur : tok.lastFilled < t - t % 1000)
    (habove : (c.warn : ℤ) < tok.tokens) (hmax : tok.tokens ≤ c.max)
    (hq : (Carrier.trunc c.T).toNat / c.cf ≤ q) :
    (sync c tok t (q : ℚ)).tokens = max (tok.tokens - q) 0 := by
  unfold sync
  dsimp only
  rw [if_neg (not_le.2 hcur)]
  have htr : Carrier.trunc (q : ℚ) = (q : ℤ) := by
    rw [trunc_of_nonneg (by positivity)]; simp
  have hcd : coolDown c tok (t - t % 1000) (q : ℚ) = tok.tokens := by
    unfold coolDown
    dsimp only
    rw [if_neg (not_lt.2 (le_of_lt habove)), if_pos habove]
    have : ¬ ((q : ℚ) < (((Carrier.trunc c.T).toNat / c.cf : ℕ) : ℚ)) := by
      rw [not_lt]; exact_mod_cast hq
    simp only [c_ofNat, c_ltb, this, decide_false, Bool.false_eq_true, if_false]
    rw [if_pos hmax]
  rw [hcd, htr]
  split_ifs with h
  · rw [max_eq_right (le_of_lt h)]
  · rw [max_eq_left (not_lt.1 h)]


theorem val_eq_T_of_le_warn {c : Cfg ℚ} (hwf : WF c) (tokens : ℤ) (h : tokens ≤ c.warn) : val c tokens = c.T := by
  have hd : (0 : ℚ) < (c.max : ℚ) - c.warn := by
    have : (c.warn : ℚ) < c.max := by exact_mod_cast hwf.lt
    linarith
  unfold val
  dsimp only
  split_ifs with hw
  · have hm : max tokens 0 = (c.warn : ℤ) := le_antisymm (max_le h (by positivity)) hw
    rw [hm]
    have hd' : (c.max : ℚ) - c.warn ≠ 0 := ne_of_gt hd
    push_cast
    rw [sub_self, zero_mul, zero_add, mul_div_assoc, div_self hd', mul_one]
  · rfl

/-- token state after `j` second-boundary syncs driven by the stream `ev j = (time, passQps)` -/
def drainSeq (c : Cfg ℚ) (tok : Tok) (ev : ℕ → ℕ × ℕ) : ℕ → Tok
  | 0 => tok
  | j + 1 => sync c (drainSeq c tok ev j) (ev j).1 ((ev j).2 : ℚ)

theorem sync_lastFilled (c : Cfg ℚ) (tok : Tok) (t : ℕ) (q : ℚ) (h : tok.lastFilled < t - t % 1000) :
    (sync c tok t q).lastFilled = t - t % 1000 := by
  unfold sync
  dsimp only
  rw [if_neg (not_le.2 h)]

theorem drain_inv (c : Cfg ℚ) (tok : Tok) (ev : ℕ → ℕ × ℕ)
    (hmax : tok.tokens ≤ c.max)
    (h0 : tok.lastFilled < (ev 0).1 - (ev 0).1 % 1000)
    (hsec : ∀ j, (ev j).1 - (ev j).1 % 1000 < (ev (j + 1)).1 - (ev (j + 1)).1 % 1000)
    (hq : ∀ j, 1 ≤ (ev j).2 ∧ (Carrier.trunc c.T).toNat / c.cf ≤ (ev j).2) :
    ∀ j, (∀ i < j, (c.warn : ℤ) < (drainSeq c tok ev i).tokens) →
      (drainSeq c tok ev j).tokens ≤ tok.tokens - j ∧ (drainSeq c tok ev j).tokens ≤ c.max ∧
      (drainSeq c tok ev j).lastFilled < (ev j).1 - (ev j).1 % 1000 := by
  intro j
  induction j with
  | zero => intro _; exact ⟨by simp [drainSeq], hmax, h0⟩
  | succ j ih =>
    intro hall
    obtain ⟨i1, i2, i3⟩ := ih (fun i hi => hall i (by omega))
    have hab := hall j (by omega)
    have hd := sync_drains c (drainSeq c tok ev j) (ev j).1 (ev j).2 i3 hab i2 (hq j).2
    have hl := sync_lastFilled c (drainSeq c tok ev j) (ev j).1 ((ev j).2 : ℚ) i3
    have hq1 : (1 : ℤ) ≤ ((ev j).2 : ℤ) := by exact_mod_cast (hq j).1
    have hw0 : (0 : ℤ) ≤ (c.warn : ℤ) := by positivity
    refine ⟨?_, ?_, ?_⟩
    · show (sync c (drainSeq c tok ev j) (ev j).1 ((ev j).2 : ℚ)).tokens ≤ _
      rw [hd]
      push_cast
      have : max ((drainSeq c tok ev j).tokens - ((ev j).2 : ℤ)) 0 ≤ (drainSeq c tok ev j).tokens - 1 := by
        apply max_le <;> omega
      omega
    · show (sync c (drainSeq c tok ev j) (ev j).1 ((ev j).2 : ℚ)).tokens ≤ _
      rw [hd]
      apply max_le <;> omega
    · show (sync c (drainSeq c tok ev j) (ev j).1 ((ev j).2 : ℚ)).lastFilled < _
      rw [hl]; exact hsec j

theorem drains_to_warning (c : Cfg ℚ) (tok : Tok) (ev : ℕ → ℕ × ℕ)
    (hmax : tok.tokens ≤ c.max)
    (h0 : tok.lastFilled < (ev 0).1 - (ev 0).1 % 1000)
    (hsec : ∀ j, (ev j).1 - (ev j).1 % 1000 < (ev (j + 1)).1 - (ev (j + 1)).1 % 1000)
    (hq : ∀ j, 1 ≤ (ev j).2 ∧ (Carrier.trunc c.T).toNat / c.cf ≤ (ev j).2) :
    ∃ j, j ≤ (tok.tokens - c.warn).toNat ∧ (drainSeq c tok ev j).tokens ≤ c.warn := by
  by_contra hcon
  push Not at hcon
  have hall : ∀ i < (tok.tokens - c.warn).toNat + 1, (c.warn : ℤ) < (drainSeq c tok ev i).tokens :=
    fun i hi => hcon i (by omega)
  have h1 := (drain_inv c tok ev hmax h0 hsec hq (tok.tokens - c.warn).toNat (fun i hi => hall i (by omega))).1
  have h2 := hall (tok.tokens - c.warn).toNat (by omega)
  omega

/-! ## `reqs` against `run` -/

theorem reqs_run (n : ℕ) : ∀ (s : Sys ℚ) (t b : ℕ),
    (reqs s t b n).2 = ((run s (List.replicate n (t, b))).filter id).length := by
  induction n with
  | zero => intro s t b; rfl
  | succ n ih =>
    intro s t b
    simp only [reqs, List.replicate_succ, run]
    rw [ih]
    cases (req s t b).2 <;> simp [List.filter]

theorem starve_reqs {c : Cfg ℚ} (hwf : WF c) (hT : c.T < c.cf) (hw : 0 < c.warn) {sc Iv : ℕ}
    (t b : ℕ) (hb : 1 ≤ b) (hf : Filled c t) (n : ℕ) : ∀ (s : Sys ℚ), SInv c sc Iv s →
    (reqs s t b n).2 = 0 ∧ SInv c sc Iv (reqs s t b n).1 := by
  induction n with
  | zero => intro s inv; exact ⟨rfl, inv⟩
  | succ n ih =>
    intro s inv
    obtain ⟨h1, h2⟩ := starve_step hwf hT hw inv t b hb hf
    obtain ⟨k1, k2⟩ := ih _ h2
    simp only [reqs]
    rw [h1]
    exact ⟨by simpa using k1, k2⟩

end Sentinel.WU.L
