import Mathlib.Tactic
import Mathlib.Data.Nat.ModEq
import Sentinel.Model.LeapArray
/-!
# Leap-array refinement lemmas (generic in the payload: any commutative monoid)

`add_step` / `mk_inv` / `runAdds_inv` / `window_eq_ref`: after any monotone history, for every
window `[lo,hi]` younger than one array cycle, the slots' sum equals the filter-and-sum reference
over the history, and no `add` is ever dropped.
-/
namespace Sentinel.LA

variable {M : Type} [AddCommMonoid M]

theorem cbs_eq (L t : Nat) : cbs L t = t / L * L := by
  unfold cbs
  have := Nat.div_add_mod t L
  have h2 : L * (t / L) = t / L * L := Nat.mul_comm _ _
  omega

theorem cbs_mono (L : Nat) {s t : Nat} (h : s ≤ t) : cbs L s ≤ cbs L t := by
  rw [cbs_eq, cbs_eq]; exact Nat.mul_le_mul_right _ (Nat.div_le_div_right h)

theorem residue_gap {n k1 k2 : Nat} (h : k1 % n = k2 % n) (hlt : k1 < k2) : k1 + n ≤ k2 := by
  have hme : k1 ≡ k2 [MOD n] := h
  have hd : n ∣ k2 - k1 := (Nat.modEq_iff_dvd' (le_of_lt hlt)).mp hme
  have hpos : 0 < k2 - k1 := by omega
  have := Nat.le_of_dvd hpos hd
  omega

theorem refW_append (L : Nat) (h : List (Nat × M)) (t : Nat) (x : M) (lo hi : Nat) :
    refW L (h ++ [(t, x)]) lo hi = refW L h lo hi + (if lo ≤ cbs L t ∧ cbs L t ≤ hi then x else 0) := by
  simp [refW, List.map_append, List.sum_append]

/-- replacing one element whose contribution grows by `d` grows the total by `d` (no cancellation needed) -/
theorem sum_map_set_add {α} (f : α → M) (l : List α) (i : Nat) (v : α) (d : M) (hi : i < l.length)
    (hv : f v = f l[i] + d) : ((l.set i v).map f).sum = (l.map f).sum + d := by
  induction l generalizing i with
  | nil => simp at hi
  | cons a r ih =>
    cases i with
    | zero =>
      simp only [List.set_cons_zero, List.map_cons, List.sum_cons, List.getElem_cons_zero] at hv ⊢
      rw [hv]; abel
    | succ j =>
      have hj : j < r.length := by simpa using hi
      simp only [List.set_cons_succ, List.map_cons, List.sum_cons, List.getElem_cons_succ] at hv ⊢
      rw [ih j hj hv]; abel

def WF (a : Arr M) : Prop :=
  0 < a.L ∧ 0 < a.n ∧ a.slots.length = a.n ∧
  ∀ i (h : i < a.slots.length), ∃ k, a.slots[i].start = k * a.L ∧ k % a.n = i

structure Inv (a : Arr M) (h : List (Nat × M)) (t0 latest : Nat) : Prop where
  wf : WF a
  le0 : t0 ≤ latest
  d : ∀ i (hi : i < a.slots.length), a.slots[i].start ≤ cbs a.L latest ∨
        (cbs a.L t0 ≤ a.slots[i].start ∧ a.slots[i].start < cbs a.L t0 + a.n * a.L)
  e : ∀ lo hi, cbs a.L latest < lo + a.n * a.L → readW a.slots lo hi = refW a.L h lo hi

theorem idx_lt (a : Arr M) (hw : WF a) (t : Nat) : idx a t < a.slots.length := by
  obtain ⟨_, hn, hl, _⟩ := hw
  unfold idx; rw [hl]; exact Nat.mod_lt _ hn

theorem start_gap (a : Arr M) (hw : WF a) (t : Nat)
    (hlt : (a.slots[idx a t]'(idx_lt a hw t)).start < cbs a.L t) :
    (a.slots[idx a t]'(idx_lt a hw t)).start + a.n * a.L ≤ cbs a.L t := by
  obtain ⟨hL, hn, hl, hres⟩ := hw
  obtain ⟨k, hk, hkr⟩ := hres (idx a t) (idx_lt a ⟨hL, hn, hl, hres⟩ t)
  rw [hk] at hlt ⊢
  rw [cbs_eq] at hlt ⊢
  have hklt : k < t / a.L := by
    by_contra hc
    have : t / a.L ≤ k := Nat.le_of_not_lt hc
    have := Nat.mul_le_mul_right a.L this
    omega
  have := residue_gap (n := a.n) (k1 := k) (k2 := t / a.L) (by rw [hkr]; rfl) hklt
  calc k * a.L + a.n * a.L = (k + a.n) * a.L := by ring
    _ ≤ t / a.L * a.L := Nat.mul_le_mul_right _ this

theorem add_step (a : Arr M) (h : List (Nat × M)) (t0 latest t : Nat) (x : M)
    (inv : Inv a h t0 latest) (hle : latest ≤ t) :
    Inv (add a t x).1 (h ++ [(t, x)]) t0 t ∧ (add a t x).2 = true := by
  have hw := inv.wf
  have hidx := idx_lt a hw t
  obtain ⟨hL, hn, hl, hres⟩ := hw
  have hsome : a.slots[idx a t]? = some (a.slots[idx a t]) := List.getElem?_eq_getElem hidx
  unfold add
  simp only [hsome]
  set s := a.slots[idx a t] with hs
  have hcm := cbs_mono a.L hle
  -- structural facts shared by both updating branches
  have wf_set : ∀ v : Slot M, (∃ k, v.start = k * a.L ∧ k % a.n = idx a t) →
      WF ({ a with slots := a.slots.set (idx a t) v } : Arr M) := by
    intro v hv
    refine ⟨hL, hn, by simpa using hl, ?_⟩
    intro i hi
    simp only [List.length_set] at hi
    by_cases hii : idx a t = i
    · subst hii; simpa using hv
    · simpa [List.getElem_set_ne hii] using hres i hi
  have d_set : ∀ v : Slot M, v.start ≤ cbs a.L t →
      ∀ i (hi : i < (a.slots.set (idx a t) v).length),
        (a.slots.set (idx a t) v)[i].start ≤ cbs a.L t ∨
        (cbs a.L t0 ≤ (a.slots.set (idx a t) v)[i].start ∧ (a.slots.set (idx a t) v)[i].start < cbs a.L t0 + a.n * a.L) := by
    intro v hv i hi
    simp only [List.length_set] at hi
    by_cases hii : idx a t = i
    · subst hii; left; simpa using hv
    · rcases inv.d i hi with hd | hd
      · left; simp [List.getElem_set_ne hii]; omega
      · right; simpa [List.getElem_set_ne hii] using hd
  by_cases h1 : cbs a.L t = s.start
  · simp only [h1, if_true]
    refine ⟨⟨wf_set _ (by simpa using hres _ hidx), le_trans inv.le0 hle, ?_, ?_⟩, trivial⟩
    · exact d_set _ (by simp [← h1])
    · intro lo hi hlo
      dsimp only at hlo ⊢
      have he := inv.e lo hi (by omega)
      rw [refW_append, ← he]
      unfold readW
      apply sum_map_set_add _ _ _ _ _ hidx
      simp only [← hs, h1]
      split_ifs
      · rfl
      · simp
  · simp only [h1, if_false]
    by_cases h2 : s.start < cbs a.L t
    · simp only [h2, if_true]
      have hgap : s.start + a.n * a.L ≤ cbs a.L t := start_gap a ⟨hL, hn, hl, hres⟩ t h2
      refine ⟨⟨wf_set _ ⟨t / a.L, by simp [cbs_eq], rfl⟩, le_trans inv.le0 hle, ?_, ?_⟩, trivial⟩
      · exact d_set _ (by simp)
      · intro lo hi hlo
        dsimp only at hlo ⊢
        have he := inv.e lo hi (by omega)
        rw [refW_append, ← he]
        unfold readW
        apply sum_map_set_add _ _ _ _ _ hidx
        have hout : ¬ (lo ≤ s.start ∧ s.start ≤ hi) := by omega
        simp only [← hs, hout, if_false, zero_add]
    · exfalso
      have hgt : cbs a.L t < s.start := by omega
      have hcm0 := cbs_mono a.L inv.le0
      rcases inv.d _ hidx with hd | ⟨hd1, hd2⟩
      · rw [← hs] at hd; omega
      · rw [← hs] at hd1 hd2
        obtain ⟨k, hk, hkr⟩ := hres _ hidx
        rw [← hs] at hk
        have hklt : t / a.L < k := by
          by_contra hc
          have : k ≤ t / a.L := Nat.le_of_not_lt hc
          have := Nat.mul_le_mul_right a.L this
          rw [cbs_eq] at hgt; omega
        have hg := residue_gap (n := a.n) (k1 := t / a.L) (k2 := k) (by rw [hkr]; rfl) hklt
        have h3 : (t / a.L + a.n) * a.L ≤ k * a.L := Nat.mul_le_mul_right _ hg
        have e1 : (t / a.L + a.n) * a.L = cbs a.L t + a.n * a.L := by rw [cbs_eq]; ring
        have hcm1 : cbs a.L t0 ≤ cbs a.L t := cbs_mono a.L (le_trans inv.le0 hle)
        omega
def Mono (prev : Nat) : List (Nat × M) → Prop
  | [] => True
  | (t, _) :: r => prev ≤ t ∧ Mono t r

theorem runAdds_inv (a : Arr M) (h0 : List (Nat × M)) (t0 latest : Nat) (h : List (Nat × M))
    (inv : Inv a h0 t0 latest) (mono : Mono latest h)
    (m : Nat) (hm0 : latest ≤ m) (hmh : ∀ e ∈ h, e.1 ≤ m) :
    ∃ latest', latest ≤ latest' ∧ latest' ≤ m ∧ Inv (runAdds a h) (h0 ++ h) t0 latest' := by
  induction h generalizing a h0 latest with
  | nil => exact ⟨latest, le_refl _, hm0, by simpa [runAdds] using inv⟩
  | cons e r ih =>
    obtain ⟨t, x⟩ := e
    obtain ⟨hle, hm⟩ := mono
    have hs := (add_step a h0 t0 latest t x inv hle).1
    have htm : t ≤ m := hmh (t, x) (List.mem_cons_self ..)
    obtain ⟨l', hl', hl'm, hinv⟩ := ih (add a t x).1 (h0 ++ [(t, x)]) t hs hm htm
      (fun e he => hmh e (List.mem_cons_of_mem _ he))
    exact ⟨l', le_trans hle hl', hl'm, by simpa [runAdds, List.append_assoc] using hinv⟩

theorem readW_zero (sl : List (Slot M)) (h : ∀ s ∈ sl, s.val = 0) (lo hi : Nat) : readW sl lo hi = 0 := by
  unfold readW
  apply List.sum_eq_zero
  intro x hx
  obtain ⟨s, hs, rfl⟩ := List.mem_map.mp hx
  split_ifs
  · exact h s hs
  · rfl

theorem mk_slot (n L now j : Nat) (hj : j < n) :
    ((mk n L now : Arr M).slots[j]?).map (·.start) =
      some (if (now / L) % n ≤ j then cbs L now + (j - (now / L) % n) * L else cbs L now + (n - (now / L) % n + j) * L) := by
  simp [mk, hj]

theorem mk_inv (n L now : Nat) (hn : 0 < n) (hL : 0 < L) : Inv (mk n L now : Arr M) [] now now := by
  have hlen : (mk n L now : Arr M).slots.length = n := by simp [mk]
  have hstart : ∀ j (hj : j < (mk n L now : Arr M).slots.length),
      (mk n L now : Arr M).slots[j].start =
        (if (now / L) % n ≤ j then cbs L now + (j - (now / L) % n) * L else cbs L now + (n - (now / L) % n + j) * L) := by
    intro j hj
    have hj' : j < n := by rw [hlen] at hj; exact hj
    have := mk_slot (M := M) n L now j hj'
    rw [List.getElem?_eq_getElem hj] at this
    simpa using this
  have hi0 : (now / L) % n < n := Nat.mod_lt _ hn
  refine ⟨⟨hL, hn, hlen, ?_⟩, le_refl _, ?_, ?_⟩
  · intro j hj
    have hj' : j < n := by rw [hlen] at hj; exact hj
    rw [hstart j hj]
    set q := now / L with hq
    have hqd : q = n * (q / n) + q % n := (Nat.div_add_mod q n).symm
    show ∃ k, (if q % n ≤ j then cbs L now + (j - q % n) * L else cbs L now + (n - q % n + j) * L) = k * L ∧ k % n = j
    split_ifs with hc
    · refine ⟨q + (j - q % n), by rw [cbs_eq]; ring, ?_⟩
      have : q + (j - q % n) = j + n * (q / n) := by omega
      rw [this, Nat.add_mul_mod_self_left, Nat.mod_eq_of_lt hj']
    · refine ⟨q + (n - q % n + j), by rw [cbs_eq]; ring, ?_⟩
      have : q + (n - q % n + j) = j + n * (q / n + 1) := by
        have : n * (q / n + 1) = n * (q / n) + n := by ring
        omega
      rw [this, Nat.add_mul_mod_self_left, Nat.mod_eq_of_lt hj']
  · intro j hj
    have hj' : j < n := by rw [hlen] at hj; exact hj
    right
    rw [hstart j hj]
    show cbs L now ≤ _ ∧ _ < cbs L now + n * L
    split_ifs with hc
    · refine ⟨Nat.le_add_right _ _, ?_⟩
      have : (j - now / L % n) * L < n * L := Nat.mul_lt_mul_of_pos_right (by omega) hL
      omega
    · refine ⟨Nat.le_add_right _ _, ?_⟩
      have : (n - now / L % n + j) * L < n * L := Nat.mul_lt_mul_of_pos_right (by omega) hL
      omega
  · intro lo hi _
    rw [readW_zero]
    · simp [refW]
    · intro s hs
      simp [mk] at hs
      obtain ⟨j, _, rfl⟩ := hs
      rfl

theorem add_nL (a : Arr M) (t : Nat) (x : M) : (add a t x).1.L = a.L ∧ (add a t x).1.n = a.n := by
  unfold add
  dsimp only
  cases a.slots[idx a t]? with
  | none => exact ⟨rfl, rfl⟩
  | some s => dsimp only; split_ifs <;> exact ⟨rfl, rfl⟩

theorem runAdds_nL (a : Arr M) (h : List (Nat × M)) : (runAdds a h).L = a.L ∧ (runAdds a h).n = a.n := by
  induction h generalizing a with
  | nil => exact ⟨rfl, rfl⟩
  | cons e r ih =>
    obtain ⟨t, x⟩ := e
    have h1 := ih (add a t x).1
    have h2 := add_nL a t x
    simp only [runAdds]
    exact ⟨h1.1.trans h2.1, h1.2.trans h2.2⟩

/-- generic C08 core: any commutative-monoid payload (counter vectors, max, min …) -/
theorem window_eq_ref (n L now0 : Nat) (hn : 0 < n) (hL : 0 < L) (h : List (Nat × M)) (mono : Mono now0 h)
    (now : Nat) (hnow : ∀ e ∈ h, e.1 ≤ now) (hnow0 : now0 ≤ now) (lo hi : Nat)
    (hlo : cbs L now < lo + n * L) :
    readW (runAdds (mk n L now0) h).slots lo hi = refW L h lo hi := by
  obtain ⟨l', _, hl'm, hinv⟩ := runAdds_inv (mk n L now0) [] now0 now0 h (mk_inv n L now0 hn hL) mono now hnow0 hnow
  have hLn := runAdds_nL (mk n L now0 : Arr M) h
  have hL' : (runAdds (mk n L now0 : Arr M) h).L = L := by simpa [mk] using hLn.1
  have hn' : (runAdds (mk n L now0 : Arr M) h).n = n := by simpa [mk] using hLn.2
  have he := hinv.e lo hi
  rw [hL', hn'] at he
  simp only [List.nil_append] at he
  apply he
  have : cbs L l' ≤ cbs L now := cbs_mono L hl'm
  omega

end Sentinel.LA
