import Mathlib.Tactic
import Sentinel.Lemmas.AggregatorList
/-!
# Aggregator, part C: the system invariant over histories of recordings and ticks
-/
set_option linter.unusedSectionVars false
namespace Sentinel.AGG
open Sentinel.LA Sentinel.C08 Sentinel.Agg Sentinel.MetricLog

/-! ## `updNode` -/

section upd
variable (res : Bytes) (f : Node → Node) (d : Node)

theorem mem_updNode (hf : ∀ nd, (f nd).res = nd.res) (l : List Node) (hnd : (l.map (·.res)).Nodup) (x : Node)
    (hx : x ∈ updNode res f d l) :
    (x ∈ l ∧ x.res ≠ res) ∨ (∃ nd ∈ l, nd.res = res ∧ x = f nd) ∨ (x = f d ∧ ∀ nd ∈ l, nd.res ≠ res) := by
  induction l with
  | nil =>
    simp only [updNode, List.mem_singleton] at hx
    exact Or.inr (Or.inr ⟨hx, by simp⟩)
  | cons a r ih =>
    simp only [List.map_cons, List.nodup_cons] at hnd
    obtain ⟨ha, hr⟩ := hnd
    unfold updNode at hx
    split_ifs at hx with hres
    · rcases List.mem_cons.mp hx with rfl | hx
      · exact Or.inr (Or.inl ⟨a, List.mem_cons_self .., hres, rfl⟩)
      · refine Or.inl ⟨List.mem_cons_of_mem _ hx, ?_⟩
        intro hxe
        exact ha (List.mem_map.mpr ⟨x, hx, by rw [hxe, hres]⟩)
    · rcases List.mem_cons.mp hx with rfl | hx
      · exact Or.inl ⟨List.mem_cons_self .., hres⟩
      · rcases ih hr hx with ⟨h1, h2⟩ | ⟨nd, h1, h2, h3⟩ | ⟨h1, h2⟩
        · exact Or.inl ⟨List.mem_cons_of_mem _ h1, h2⟩
        · exact Or.inr (Or.inl ⟨nd, List.mem_cons_of_mem _ h1, h2, h3⟩)
        · refine Or.inr (Or.inr ⟨h1, ?_⟩)
          intro nd hnd'
          rcases List.mem_cons.mp hnd' with rfl | hnd'
          · exact hres
          · exact h2 nd hnd'

theorem updNode_keeps (l : List Node) (x : Node) (hx : x ∈ l) (hne : x.res ≠ res) : x ∈ updNode res f d l := by
  induction l with
  | nil => simp at hx
  | cons a r ih =>
    unfold updNode
    split_ifs with hres
    · rcases List.mem_cons.mp hx with rfl | hx
      · exact absurd hres hne
      · exact List.mem_cons_of_mem _ hx
    · rcases List.mem_cons.mp hx with rfl | hx
      · exact List.mem_cons_self ..
      · exact List.mem_cons_of_mem _ (ih hx)

theorem updNode_has (hf : ∀ nd, (f nd).res = nd.res) (hd : d.res = res) (l : List Node) :
    ∃ x ∈ updNode res f d l, x.res = res := by
  induction l with
  | nil => exact ⟨f d, by simp [updNode], by rw [hf, hd]⟩
  | cons a r ih =>
    unfold updNode
    split_ifs with hres
    · exact ⟨f a, List.mem_cons_self .., by rw [hf, hres]⟩
    · obtain ⟨x, hx, hxe⟩ := ih
      exact ⟨x, List.mem_cons_of_mem _ hx, hxe⟩

theorem updNode_names (hf : ∀ nd, (f nd).res = nd.res) (hd : d.res = res) (l : List Node)
    (hnd : (l.map (·.res)).Nodup) : ((updNode res f d l).map (·.res)).Nodup := by
  induction l with
  | nil => simp [updNode]
  | cons a r ih =>
    simp only [List.map_cons, List.nodup_cons] at hnd
    obtain ⟨ha, hr⟩ := hnd
    unfold updNode
    split_ifs with hres
    · simp only [List.map_cons, List.nodup_cons, hf]
      exact ⟨ha, hr⟩
    · simp only [List.map_cons, List.nodup_cons]
      refine ⟨?_, ih hr⟩
      intro hmem
      obtain ⟨x, hx, hxe⟩ := List.mem_map.mp hmem
      rcases mem_updNode res f d hf r hr x hx with ⟨h1, _⟩ | ⟨nd, h1, h2, h3⟩ | ⟨h1, _⟩
      · exact ha (List.mem_map.mpr ⟨x, h1, hxe⟩)
      · rw [h3, hf, h2] at hxe; exact hres hxe.symm
      · rw [h1, hf, hd] at hxe; exact hres hxe.symm

/-- classification under which the items of resource `r` are logged: that of its node -/
def clsIn (nodes : List Node) (r : Bytes) : Int :=
  match nodes.find? (fun nd => decide (nd.res = r)) with
  | some nd => nd.cls
  | none => 0

theorem clsIn_updNode (hf : ∀ nd, (f nd).res = nd.res ∧ (f nd).cls = nd.cls) (l : List Node) (r : Bytes)
    (hr : ∃ nd ∈ l, nd.res = r) : clsIn (updNode res f d l) r = clsIn l r := by
  induction l with
  | nil => obtain ⟨nd, h, _⟩ := hr; simp at h
  | cons a t ih =>
    unfold updNode
    split_ifs with hres
    · unfold clsIn
      simp only [List.find?_cons, (hf a).1]
      by_cases har : a.res = r <;> simp [har, (hf a).2]
    · unfold clsIn
      simp only [List.find?_cons]
      by_cases har : a.res = r
      · simp [har]
      · simp only [har, decide_false]
        obtain ⟨nd, hnd, hndr⟩ := hr
        rcases List.mem_cons.mp hnd with rfl | hnd
        · exact absurd hndr har
        · exact ih ⟨nd, hnd, hndr⟩

theorem clsIn_of_mem (l : List Node) (hnd : (l.map (·.res)).Nodup) (nd : Node) (h : nd ∈ l) : clsIn l nd.res = nd.cls := by
  induction l with
  | nil => simp at h
  | cons a t ih =>
    simp only [List.map_cons, List.nodup_cons] at hnd
    unfold clsIn
    simp only [List.find?_cons]
    rcases List.mem_cons.mp h with rfl | h
    · simp
    · have : a.res ≠ nd.res := fun e => hnd.1 (List.mem_map.mpr ⟨nd, h, e.symm⟩)
      simp only [this, decide_false]
      exact ih hnd.2 h

end upd

/-! ## histories -/

/-- the calls on the array of resource `res`: its recordings -/
def opsOf (res : Bytes) (hist : List Agg.Ev) : List (Op Bucket) := opsOfAdds (eventsOf res hist)

theorem eventsOf_append (res : Bytes) (a b : List Agg.Ev) : eventsOf res (a ++ b) = eventsOf res a ++ eventsOf res b := by
  induction a with
  | nil => rfl
  | cons e r ih =>
    cases e with
    | rcd t r' c x =>
      simp only [List.cons_append, eventsOf]
      split_ifs <;> simp [ih]
    | tick t => simpa [eventsOf] using ih

theorem opsOfAdds_append (a b : List (Nat × Bucket)) : opsOfAdds (a ++ b) = opsOfAdds a ++ opsOfAdds b := by
  simp [opsOfAdds]

theorem monoOps_snoc (t0 : Nat) (ops : List (Op Bucket)) (o : Op Bucket) (m : MonoOps t0 ops)
    (h0 : t0 ≤ o.time) (h : ∀ p ∈ ops, p.time ≤ o.time) : MonoOps t0 (ops ++ [o]) := by
  induction ops generalizing t0 with
  | nil => exact ⟨h0, trivial⟩
  | cons p r ih =>
    exact ⟨m.1, ih p.time m.2 (h p (List.mem_cons_self ..)) (fun q hq => h q (List.mem_cons_of_mem _ hq))⟩

/-- time never goes backwards -/
def MonoEv (prev : Nat) : List Agg.Ev → Prop
  | [] => True
  | e :: r => prev ≤ e.time ∧ MonoEv e.time r

/-- **the hypothesis on the ticks**: every tick that fetches arrives while its fetch window `[lastFetch, curSec)` —
    for the first fetch: everything since the start `T0` — is still inside the node arrays.  (`ticksOK_of_gap`: implied by
    ticks at most `n·L − 1000` ms apart.) -/
def TicksOK (n L T0 : Nat) : St → List Agg.Ev → Prop
  | _, [] => True
  | s, ev :: r =>
    (match ev with
      | .tick t => skips s.lastFetch (secOf t) = true ∨ t < max (s.lastFetch.getD 0) (secOf T0) + n * L
      | .rcd _ _ _ _ => True) ∧ TicksOK n L T0 (step s ev) r

/-- the reference item of `(res, sec)` -/
def refItem (nodes : List Node) (hist : List Agg.Ev) (res : Bytes) (sec : Nat) : Item :=
  toItem res (clsIn nodes res) (sec, secRef (eventsOf res hist) sec)

structure SysInv (n L T0 : Nat) (s : St) (hist : List Agg.Ev) (now : Nat) : Prop where
  geo_n : s.n = n
  geo_L : s.L = L
  start : T0 ≤ now
  names : (s.nodes.map (·.res)).Nodup
  node : ∀ nd ∈ s.nodes, ∃ t0, T0 ≤ t0 ∧ t0 ≤ now ∧ nd.a = runOps (LA.mk n L t0) (opsOf nd.res hist) ∧
      MonoOps t0 (opsOf nd.res hist) ∧ (∀ o ∈ opsOf nd.res hist, t0 ≤ o.time ∧ o.time ≤ now)
  has : ∀ res, eventsOf res hist ≠ [] → ∃ nd ∈ s.nodes, nd.res = res
  fetch : ∀ f, s.lastFetch = some f → 1000 ∣ f ∧ f ≤ now
  log : ∀ res sec, (allItems s.written).filter (fun it => decide (it.ts = sec) && decide (it.res = res)) =
      if sec < s.lastFetch.getD 0 ∧ active (secRef (eventsOf res hist) sec) = true
      then [refItem s.nodes hist res sec] else []
  wsorted : (s.written.map (·.1)).Pairwise (· < ·)
  wbound : ∀ b ∈ s.written, secOf T0 ≤ b.1 ∧ b.1 < s.lastFetch.getD 0 ∧ 1000 ∣ b.1 ∧ b.2 ≠ [] ∧ ∀ it ∈ b.2, it.ts = b.1

end Sentinel.AGG

namespace Sentinel.AGG
open Sentinel.LA Sentinel.C08 Sentinel.Agg Sentinel.MetricLog

theorem secRef_nil (sec : Nat) : secRef [] sec = 0 := rfl

theorem secRef_append (h : List (Nat × Bucket)) (t : Nat) (x : Bucket) (sec : Nat) :
    secRef (h ++ [(t, x)]) sec = secRef h sec + (if secOf t = sec then x else 0) := by
  simp [secRef, List.map_append, List.sum_append]

theorem secRef_zero (h : List (Nat × Bucket)) (sec : Nat) (hno : ∀ e ∈ h, secOf e.1 ≠ sec) : secRef h sec = 0 := by
  unfold secRef
  apply List.sum_eq_zero
  intro y hy
  obtain ⟨e, he, rfl⟩ := List.mem_map.mp hy
  simp [hno e he]

theorem events_ne_nil_of_active (h : List (Nat × Bucket)) (sec : Nat) (ha : active (secRef h sec) = true) : h ≠ [] := by
  intro hnil
  rw [hnil, secRef_nil, active_zero] at ha
  exact Bool.noConfusion ha

theorem eventsOf_snoc_rcd (r : Bytes) (hist : List Agg.Ev) (t : Nat) (res : Bytes) (cls : Int) (x : Bucket) :
    eventsOf r (hist ++ [.rcd t res cls x]) = eventsOf r hist ++ (if res = r then [(t, x)] else []) := by
  rw [eventsOf_append]
  congr 1

theorem eventsOf_snoc_tick (r : Bytes) (hist : List Agg.Ev) (t : Nat) :
    eventsOf r (hist ++ [.tick t]) = eventsOf r hist := by
  rw [eventsOf_append]; simp [eventsOf]

theorem mem_opsOfAdds (h : List (Nat × Bucket)) (o : Op Bucket) (ho : o ∈ opsOfAdds h) : ∃ e ∈ h, o = Op.add e.1 e.2 := by
  unfold opsOfAdds at ho
  obtain ⟨e, he, rfl⟩ := List.mem_map.mp ho
  exact ⟨e, he, rfl⟩

theorem le_secOf_of_dvd {f t : Nat} (hf : 1000 ∣ f) (h : f ≤ t) : f ≤ secOf t := by
  obtain ⟨k, rfl⟩ := hf; unfold secOf; omega

/-- **a recording keeps the invariant** -/
theorem sysInv_rcd (n L T0 : Nat) (s : St) (hist : List Agg.Ev) (now : Nat)
    (inv : SysInv n L T0 s hist now) (t : Nat) (res : Bytes) (cls : Int) (x : Bucket) (ht : now ≤ t) :
    SysInv n L T0 (record s t res cls x) (hist ++ [.rcd t res cls x]) t := by
  set f : Node → Node := fun nd => Node.mk nd.res nd.cls (addAt nd.a t x).1 with hfdef
  set d : Node := { res := res, cls := cls, a := LA.mk s.n s.L t } with hddef
  have hrec : record s t res cls x = { s with nodes := updNode res f d s.nodes } := rfl
  have hfres : ∀ nd, (f nd).res = nd.res := fun _ => rfl
  have hfboth : ∀ nd, (f nd).res = nd.res ∧ (f nd).cls = nd.cls := fun _ => ⟨rfl, rfl⟩
  have hdres : d.res = res := rfl
  rw [hrec]
  refine ⟨inv.geo_n, inv.geo_L, le_trans inv.start ht, updNode_names res f d hfres hdres _ inv.names, ?_, ?_, ?_, ?_,
    inv.wsorted, inv.wbound⟩
  · -- nodes
    intro y hy
    rcases mem_updNode res f d hfres s.nodes inv.names y hy with ⟨h1, h2⟩ | ⟨nd, h1, h2, rfl⟩ | ⟨rfl, h2⟩
    · obtain ⟨t0, a1, a2, a3, a4, a5⟩ := inv.node y h1
      have he : opsOf y.res (hist ++ [.rcd t res cls x]) = opsOf y.res hist := by
        have h2' : ¬ res = y.res := fun e => h2 e.symm
        unfold opsOf; rw [eventsOf_snoc_rcd, if_neg h2', List.append_nil]
      rw [he]
      exact ⟨t0, a1, le_trans a2 ht, a3, a4, fun o ho => ⟨(a5 o ho).1, le_trans (a5 o ho).2 ht⟩⟩
    · obtain ⟨t0, a1, a2, a3, a4, a5⟩ := inv.node nd h1
      have he : opsOf (f nd).res (hist ++ [.rcd t res cls x]) = opsOf nd.res hist ++ [Op.add t x] := by
        show opsOf nd.res _ = _
        unfold opsOf; rw [eventsOf_snoc_rcd, h2]; simp [opsOfAdds]
      rw [he]
      refine ⟨t0, a1, le_trans a2 ht, ?_, ?_, ?_⟩
      · rw [runOps_append, ← a3]; rfl
      · exact monoOps_snoc t0 _ _ a4 (le_trans a2 ht) (fun p hp => le_trans (a5 p hp).2 ht)
      · intro o ho
        rcases List.mem_append.mp ho with ho | ho
        · exact ⟨(a5 o ho).1, le_trans (a5 o ho).2 ht⟩
        · simp only [List.mem_singleton] at ho; subst ho; exact ⟨le_trans a2 ht, le_refl _⟩
    · have hev : eventsOf res hist = [] := by
        by_contra hne
        obtain ⟨nd, hnd, hndr⟩ := inv.has res hne
        exact h2 nd hnd hndr
      have he : opsOf (f d).res (hist ++ [.rcd t res cls x]) = [Op.add t x] := by
        show opsOf res _ = _
        unfold opsOf; rw [eventsOf_snoc_rcd, hev]; simp [opsOfAdds]
      rw [he]
      refine ⟨t, le_trans inv.start ht, le_refl _, ?_, ⟨le_refl _, trivial⟩, ?_⟩
      · show (addAt (LA.mk s.n s.L t) t x).1 = _
        rw [inv.geo_n, inv.geo_L]; rfl
      · intro o ho; simp only [List.mem_singleton] at ho; subst ho; exact ⟨le_refl _, le_refl _⟩
  · -- has
    intro r hr
    by_cases hrr : res = r
    · subst hrr; exact updNode_has res f d hfres hdres _
    · rw [eventsOf_snoc_rcd] at hr
      simp only [hrr, if_false, List.append_nil] at hr
      obtain ⟨nd, hnd, hndr⟩ := inv.has r hr
      exact ⟨nd, updNode_keeps res f d _ nd hnd (by rw [hndr]; exact fun e => hrr e.symm), hndr⟩
  · intro f' hf'; exact ⟨(inv.fetch f' hf').1, le_trans (inv.fetch f' hf').2 ht⟩
  · -- log
    intro r sec
    show (allItems s.written).filter _ = _
    rw [inv.log r sec]
    show _ = if sec < s.lastFetch.getD 0 ∧ _ then _ else _
    by_cases hF : sec < s.lastFetch.getD 0
    · have hsame : secRef (eventsOf r (hist ++ [.rcd t res cls x])) sec = secRef (eventsOf r hist) sec := by
        rw [eventsOf_snoc_rcd]
        split_ifs with hrr
        · rw [secRef_append]
          cases hlf : s.lastFetch with
          | none => rw [hlf] at hF; simp at hF
          | some f0 =>
            rw [hlf] at hF
            simp only [Option.getD_some] at hF
            obtain ⟨hd1, hd2⟩ := inv.fetch f0 hlf
            have := le_secOf_of_dvd hd1 (le_trans hd2 ht)
            have hne : secOf t ≠ sec := by omega
            simp [hne]
        · simp
      simp only [hF, true_and, hsame]
      by_cases ha : active (secRef (eventsOf r hist) sec) = true
      · simp only [ha, if_true]
        obtain ⟨nd, hnd, hndr⟩ := inv.has r (events_ne_nil_of_active _ _ ha)
        unfold refItem
        rw [hsame, clsIn_updNode res f d hfboth s.nodes r ⟨nd, hnd, hndr⟩]
      · simp [ha]
    · simp [hF]

end Sentinel.AGG
