import Mathlib.Tactic
import Sentinel.Lemmas.WarmUpRun
import Sentinel.Lemmas.WarmUpHist
namespace Sentinel.WU.O
open Sentinel.WU Sentinel.WU.L Sentinel.LA Sentinel.WU.R

/-! # Window cap for rules that read a statistic of their own (`BucketLeapArray(n, n·L)` created at load time, any geometry):
the history of the own array is the list of admitted requests (the standalone stat slot records passes only), tied to the array
by C08's `getSum_eq_ref` for the geometry `(n, L)`. -/

/-- admitted requests `(time, batch)` -/
abbrev Adm := List (ℕ × ℕ)

def histO (h : Adm) : List (ℕ × Bucket) := h.map fun e => (e.1, evBucket .pass e.2)

/-- admitted tokens whose bucket start (bucket length `L`) lies in `[lo, hi]` -/
def passInL (L : ℕ) (h : Adm) (lo hi : ℕ) : ℕ :=
  (h.map fun e => if lo ≤ cbs L e.1 ∧ cbs L e.1 ≤ hi then e.2 else 0).sum

theorem refW_passL (L : ℕ) (h : Adm) (lo hi : ℕ) : (refW L (histO h) lo hi).get .pass = passInL L h lo hi := by
  induction h with
  | nil => simp [histO, refW, passInL]
  | cons e r ih =>
    have e1 : refW L (histO (e :: r)) lo hi =
        (if lo ≤ cbs L e.1 ∧ cbs L e.1 ≤ hi then evBucket .pass e.2 else 0) + refW L (histO r) lo hi := by
      simp [histO, refW]
    rw [e1, Sentinel.C08.add_get, ih]
    unfold passInL
    rw [List.map_cons, List.sum_cons]
    congr 1
    split_ifs <;> simp [evBucket, Bucket.get]

theorem passInL_append (L : ℕ) (h : Adm) (e : ℕ × ℕ) (lo hi : ℕ) :
    passInL L (h ++ [e]) lo hi = passInL L h lo hi + (if lo ≤ cbs L e.1 ∧ cbs L e.1 ≤ hi then e.2 else 0) := by
  unfold passInL; simp

theorem passInL_mono (L : ℕ) (h : Adm) (lo hi lo' hi' : ℕ)
    (hh : ∀ e ∈ h, lo ≤ cbs L e.1 → cbs L e.1 ≤ hi → lo' ≤ cbs L e.1 ∧ cbs L e.1 ≤ hi') :
    passInL L h lo hi ≤ passInL L h lo' hi' := by
  induction h with
  | nil => simp [passInL]
  | cons e r ih =>
    unfold passInL at ih ⊢
    rw [List.map_cons, List.sum_cons, List.map_cons, List.sum_cons]
    apply Nat.add_le_add
    · by_cases hc : lo ≤ cbs L e.1 ∧ cbs L e.1 ≤ hi
      · rw [if_pos hc, if_pos (hh e (List.mem_cons_self) hc.1 hc.2)]
      · rw [if_neg hc]; exact Nat.zero_le _
    · exact ih fun e' he' => hh e' (List.mem_cons_of_mem _ he')

theorem reqOwn_keeps (s : Sys ℚ) (o : Arr Bucket) (t b : ℕ) :
    (reqOwn s o t b).1.rule = s.rule ∧ (∃ a, (reqOwn s o t b).1.arr = some a) ∧ (reqOwn s o t b).1.mem = s.mem ∧
    (reqOwn s o t b).1.own = some (if (reqOwn s o t b).2 = true then (addAt o t (evBucket .pass b)).1 else o) ∧
    (reqOwn s o t b).1.bound = s.bound ∧ (reqOwn s o t b).1.behav = s.behav := by
  obtain ⟨a, ha, hr, _, hm⟩ := touch_arr s t
  have hbd : (s.touch t).bound = s.bound ∧ (s.touch t).behav = s.behav := by
    unfold Sys.touch; cases s.arr <;> exact ⟨rfl, rfl⟩
  unfold reqOwn
  simp only [ha]
  rcases threshold (s.touch t) o t with ⟨tk, thr⟩
  dsimp only
  refine ⟨hr, ⟨_, rfl⟩, hm, ?_, hbd.1, hbd.2⟩
  split_ifs <;> simp_all



/-- the calculator `loadRule` builds for a rule -/
def calcOf : RuleP ℚ → Calc ℚ
  | .wu T p cf _ => .warmup (mkCfg T p cf)
  | .ma m _ => .adaptive m

theorem needsStat_none (r : RuleP ℚ) : r.needsStat none = true := by cases r <;> rfl

theorem norm_iv (r : RuleP ℚ) : r.norm.iv = r.iv := by cases r <;> rfl

/-- a reload (Reject) with the same `StatIntervalInMs` as the bound rule inherits the statistic: the controller is kept, or rebuilt
    (fresh calculator of the new rule) on the old statistic -/
theorem loadRuleG_inherit (s : Sys ℚ) (a : Arr Bucket) (ha : s.arr = some a) (b : RuleP ℚ) (hb : s.bound = some b)
    (hbeh : s.behav = none) (now : ℕ) (r : RuleP ℚ) (hiv : b.iv = r.iv) (sc Iv : ℕ) (sa : Bool) :
    (loadRuleG s now r none true sc Iv sa).own = s.own ∧
    (loadRuleG s now r none true sc Iv sa).arr = some a ∧
    (loadRuleG s now r none true sc Iv sa).behav = none ∧
    (loadRuleG s now r none true sc Iv sa).mem = s.mem ∧
    (∃ b', (loadRuleG s now r none true sc Iv sa).bound = some b' ∧ b'.iv = r.iv) ∧
    (((loadRuleG s now r none true sc Iv sa).rule = s.rule ∧ (loadRuleG s now r none true sc Iv sa).tok = s.tok) ∨
     ((loadRuleG s now r none true sc Iv sa).rule = some (calcOf r, sc, Iv) ∧ (loadRuleG s now r none true sc Iv sa).tok = {})) := by
  have htouch : s.touch now = s := by unfold Sys.touch; rw [ha]
  have hreuse : (b.iv == r.iv && b.needsStat none && r.needsStat none) = true := by
    rw [needsStat_none, needsStat_none]; simp [hiv]
  unfold loadRuleG loadRule
  simp only [Bool.not_true, Bool.false_eq_true, if_false, hb, hbeh, hreuse, if_true]
  by_cases hsame : b.same r = true
  · simp only [hsame, Bool.true_and, beq_self_eq_true, if_true]
    refine ⟨?_, ?_, ?_, ?_, ?_, ?_⟩ <;> first | trivial | rfl | exact ha | exact hbeh | exact ⟨b, hb, hiv⟩ | exact Or.inl ⟨rfl, rfl⟩ | exact Or.inl ⟨trivial, trivial⟩ | (left; simp)
  · have hf : b.same r = false := by simpa using hsame
    simp only [hf, Bool.false_and, Bool.false_eq_true, if_false]
    cases r with
    | wu T p cf iv =>
      simp only [loadWarmUp, htouch]
      refine ⟨?_, ?_, ?_, ?_, ?_, ?_⟩ <;> first | trivial | rfl | exact ha | exact ⟨_, rfl, rfl⟩ | exact Or.inr ⟨rfl, rfl⟩ | (right; simp [calcOf]) | simp [RuleP.norm, RuleP.iv]
    | ma m iv =>
      simp only [loadAdaptive, htouch, Option.isSome_none, Bool.false_eq_true, if_false]
      refine ⟨?_, ?_, ?_, ?_, ?_, ?_⟩ <;> first | trivial | rfl | exact ha | exact ⟨_, rfl, rfl⟩ | exact Or.inr ⟨rfl, rfl⟩ | (right; simp [calcOf]) | simp [RuleP.norm, RuleP.iv]


/-- requests (with their instants), memory readings, and reloads of the resource's rule with the same `StatIntervalInMs` (Reject) -/
inductive OOp where
  | req (t b : ℕ)
  | mem (v : ℤ)
  | reload (now : ℕ) (r : RuleP ℚ)

/-- `n`, `L`: the geometry of the rule's own statistic (a reload passes the same view to `loadRuleG`) -/
def stepO (n L : ℕ) (x : Sys ℚ × Adm) : OOp → Sys ℚ × Adm
  | .req t b => ((reqG x.1 t b).1, if (reqG x.1 t b).2 = true then x.2 ++ [(t, b)] else x.2)
  | .mem v => ({ x.1 with mem := v }, x.2)
  | .reload now r => (loadRuleG x.1 now r none true n (n * L) true, x.2)

def runO (n L : ℕ) (x : Sys ℚ × Adm) : List OOp → Sys ℚ × Adm
  | [] => x
  | o :: r => runO n L (stepO n L x o) r

def MonoO (latest : ℕ) : List OOp → Prop
  | [] => True
  | .req t _ :: r => latest ≤ t ∧ MonoO t r
  | .mem _ :: r => MonoO latest r
  | .reload .. :: r => MonoO latest r

/-- the rule in force keeps every threshold it computes at or below `B` -/
def RuleBelow (B : ℚ) (cl : Calc ℚ) : Prop :=
  match cl with
  | .warmup c => Known.degenerateNaN c = false ∧ c.T ≤ B
  | .adaptive m => (m.lowT : ℚ) ≤ B

/-- every reloaded rule is valid, keeps the interval `iv0` (so it inherits the statistic) and computes thresholds at or below `B` -/
def ReloadsBelow (total : ℤ) (B : ℚ) (iv0 : ℕ) : List OOp → Prop
  | [] => True
  | .req .. :: r => ReloadsBelow total B iv0 r
  | .mem _ :: r => ReloadsBelow total B iv0 r
  | .reload _ rl :: r => (rl.iv = iv0 ∧ RuleBelow B (calcOf rl) ∧ (∀ m iv, rl = .ma m iv → m.valid total = true)) ∧ ReloadsBelow total B iv0 r

structure OInv (total : ℤ) (B : ℚ) (iv0 n L t0 : ℕ) (x : Sys ℚ × Adm) (latest : ℕ) : Prop where
  bound : ∃ b, x.1.bound = some b ∧ b.iv = iv0
  behav : x.1.behav = none
  rinv : RInv total x.1
  rule : ∃ cl, x.1.rule = some (cl, n, n * L) ∧ RuleBelow B cl
  own : x.1.own = some (runAdds (LA.mk n L t0) (histO x.2))
  arr : ∃ a, x.1.arr = some a
  mono : Mono t0 (histO x.2)
  le : ∀ e ∈ x.2, e.1 ≤ latest
  t0le : t0 ≤ latest
  t0pos : 0 < t0
  w : ∀ w, (passInL L x.2 w (w + n * L - L) : ℚ) ≤ B

theorem thr_below {total : ℤ} {B : ℚ} {s : Sys ℚ} (h : RInv total s) (cl : Calc ℚ) (sc Iv : ℕ)
    (hr : s.rule = some (cl, sc, Iv)) (hb : RuleBelow B cl) (a : Arr Bucket) (now : ℕ) :
    ∃ q, (threshold s a now).2 = some (some q) ∧ q ≤ B := by
  cases cl with
  | warmup c =>
    obtain ⟨q, hq, _, h2, _⟩ := threshold_envelope_warmup h a now c sc Iv hr hb.1
    exact ⟨q, hq, le_trans h2 hb.2⟩
  | adaptive m =>
    obtain ⟨q, hq, _, h2, _⟩ := threshold_envelope_adaptive h a now m sc Iv hr
    exact ⟨q, hq, le_trans h2 hb⟩

theorem histO_le (h : Adm) (latest : ℕ) (hh : ∀ e ∈ h, e.1 ≤ latest) : ∀ e ∈ histO h, e.1 ≤ latest := by
  intro e he
  unfold histO at he
  rw [List.mem_map] at he
  obtain ⟨e', he', rfl⟩ := he
  exact hh e' he'

theorem oinv_step {total : ℤ} {B : ℚ} {iv0 n L t0 : ℕ} (hn : 0 < n) (hL : 0 < L) {x : Sys ℚ × Adm} {latest : ℕ}
    (d : OInv total B iv0 n L t0 x latest) (o : OOp) (hm : MonoO latest [o]) (hrb : ReloadsBelow total B iv0 [o]) :
    ∃ latest', OInv total B iv0 n L t0 (stepO n L x o) latest' ∧
      (match o with | .req t _ => latest' = t | .mem _ => latest' = latest | .reload .. => latest' = latest) := by
  obtain ⟨⟨b0, hbound, hbiv⟩, hbehav, hri, ⟨cl, hrule, hbelow⟩, hown, ⟨a0, harr⟩, hmono, hle, ht0le, ht0pos, hw⟩ := d
  cases o with
  | mem v =>
    refine ⟨latest, ⟨⟨b0, hbound, hbiv⟩, hbehav, rinv_of_rule_tok hri rfl rfl, ⟨cl, hrule, hbelow⟩, hown, ⟨a0, harr⟩, hmono, hle, ht0le, ht0pos, hw⟩, rfl⟩
  | reload now r =>
    obtain ⟨⟨hiv, hbel, hval⟩, _⟩ := hrb
    obtain ⟨k1, k2, k3, _, ⟨b', k5, k5'⟩, k6⟩ := loadRuleG_inherit x.1 a0 harr b0 hbound hbehav now r (by rw [hbiv, hiv]) n (n * L) true
    have hri' : RInv total (loadRuleG x.1 now r none true n (n * L) true) :=
      loadRuleG_rinv hri _ _ _ _ _ _ _ (fun m iv e _ => hval m iv e)
    refine ⟨latest, ⟨⟨b', k5, by rw [k5', hiv]⟩, k3, hri', ?_, k1.trans hown, ⟨a0, k2⟩, hmono, hle, ht0le, ht0pos, hw⟩, rfl⟩
    rcases k6 with ⟨e1, _⟩ | ⟨e1, _⟩
    · exact ⟨cl, e1.trans hrule, hbelow⟩
    · exact ⟨calcOf r, e1, hbel⟩
  | req t b =>
    have ht : latest ≤ t := hm.1
    have ht0 : t0 ≤ t := le_trans ht0le ht
    have hG : reqG x.1 t b = reqOwn x.1 (runAdds (LA.mk n L t0) (histO x.2)) t b := by unfold reqG; rw [hown]
    obtain ⟨k1, k2, k3, k4, k7, k8⟩ := reqOwn_keeps x.1 (runAdds (LA.mk n L t0) (histO x.2)) t b
    have hbound' : ∃ bb, (reqG x.1 t b).1.bound = some bb ∧ bb.iv = iv0 := ⟨b0, by rw [hG, k7]; exact hbound, hbiv⟩
    have hbehav' : (reqG x.1 t b).1.behav = none := by rw [hG, k8]; exact hbehav
    have hri' := reqOwn_rinv hri (runAdds (LA.mk n L t0) (histO x.2)) t b
    -- the window sum the decision read
    have hcur : vSum (runAdds (LA.mk n L t0) (histO x.2)) (n * L) t .pass = passInL L x.2 (cbs L t + L - n * L) (cbs L t) := by
      rw [Sentinel.C08.getSum_eq_ref n L t0 hn hL (histO x.2) hmono t
        (fun e he => le_trans (histO_le x.2 latest hle e he) ht) ht0 (by omega) (n * L) (le_refl _) (Nat.mul_pos hn hL) .pass,
        refW_passL]
    by_cases hadm : (reqOwn x.1 (runAdds (LA.mk n L t0) (histO x.2)) t b).2 = true
    · -- admitted: the own statistic gets the pass, the log grows
      obtain ⟨a, ha, _⟩ := touch_arr x.1 t
      obtain ⟨q, hq, hqB⟩ := thr_below hri cl n (n * L) hrule hbelow (runAdds (LA.mk n L t0) (histO x.2)) t
      have hfit := reqOwn_admits_within x.1 _ t b a ha cl n (n * L) hrule q hq hadm
      rw [hcur] at hfit
      refine ⟨t, ⟨hbound', hbehav', ?_, ⟨cl, ?_, hbelow⟩, ?_, ?_, ?_, ?_, ht0, ht0pos, ?_⟩, rfl⟩
      · show RInv total (reqG x.1 t b).1; rw [hG]; exact hri'
      · show (reqG x.1 t b).1.rule = _; rw [hG, k1]; exact hrule
      · show (reqG x.1 t b).1.own = some (runAdds (LA.mk n L t0) (histO (if (reqG x.1 t b).2 = true then x.2 ++ [(t, b)] else x.2)))
        rw [hG, k4, if_pos hadm, if_pos hadm]
        congr 1
        unfold addAt
        rw [if_neg (show ¬ t = 0 by omega)]
        have : histO (x.2 ++ [(t, b)]) = histO x.2 ++ [(t, evBucket .pass b)] := by simp [histO]
        rw [this, Sentinel.WU.H.runAdds_append]
      · show ∃ a, (reqG x.1 t b).1.arr = some a; rw [hG]; exact k2
      · show Mono t0 (histO (if (reqG x.1 t b).2 = true then x.2 ++ [(t, b)] else x.2))
        rw [hG, if_pos hadm]
        have : histO (x.2 ++ [(t, b)]) = histO x.2 ++ [(t, evBucket .pass b)] := by simp [histO]
        rw [this]
        exact Sentinel.WU.H.mono_append t0 (histO x.2) t _ hmono (fun e he => le_trans (histO_le x.2 latest hle e he) ht) ht0
      · show ∀ e ∈ (if (reqG x.1 t b).2 = true then x.2 ++ [(t, b)] else x.2), e.1 ≤ t
        rw [hG, if_pos hadm]
        intro e he
        rw [List.mem_append] at he
        rcases he with he | he
        · exact le_trans (hle e he) ht
        · simp at he; rw [he]
      · show ∀ w, (passInL L (if (reqG x.1 t b).2 = true then x.2 ++ [(t, b)] else x.2) w (w + n * L - L) : ℚ) ≤ B
        rw [hG, if_pos hadm]
        intro w
        rw [passInL_append]
        by_cases hin : w ≤ cbs L t ∧ cbs L t ≤ w + n * L - L
        · rw [if_pos hin]
          have hle2 : passInL L x.2 w (w + n * L - L) ≤ passInL L x.2 (cbs L t + L - n * L) (cbs L t) := by
            apply passInL_mono
            intro e he h1 h2
            have hNL : L ≤ n * L := Nat.le_mul_of_pos_left L hn
            have hin1 := hin.1
            have hin2 := hin.2
            generalize n * L = N at *
            refine ⟨by omega, cbs_mono L (le_trans (hle e he) ht)⟩
          have hleq : (passInL L x.2 w (w + n * L - L) : ℚ) ≤ (passInL L x.2 (cbs L t + L - n * L) (cbs L t) : ℚ) := by
            exact_mod_cast hle2
          push_cast at hfit ⊢
          linarith
        · rw [if_neg hin]
          simpa using hw w
    · -- refused: nothing is recorded in the own statistic
      have hf : (reqOwn x.1 (runAdds (LA.mk n L t0) (histO x.2)) t b).2 = false := by simpa using hadm
      refine ⟨t, ⟨hbound', hbehav', ?_, ⟨cl, ?_, hbelow⟩, ?_, ?_, ?_, ?_, ht0, ht0pos, ?_⟩, rfl⟩
      · show RInv total (reqG x.1 t b).1; rw [hG]; exact hri'
      · show (reqG x.1 t b).1.rule = _; rw [hG, k1]; exact hrule
      · show (reqG x.1 t b).1.own = some (runAdds (LA.mk n L t0) (histO (if (reqG x.1 t b).2 = true then x.2 ++ [(t, b)] else x.2)))
        rw [hG, k4, hf]; simp
      · show ∃ a, (reqG x.1 t b).1.arr = some a; rw [hG]; exact k2
      · show Mono t0 (histO (if (reqG x.1 t b).2 = true then x.2 ++ [(t, b)] else x.2))
        rw [hG, hf]; simpa using hmono
      · show ∀ e ∈ (if (reqG x.1 t b).2 = true then x.2 ++ [(t, b)] else x.2), e.1 ≤ t
        rw [hG, hf]
        intro e he
        exact le_trans (hle e (by simpa using he)) ht
      · show ∀ w, (passInL L (if (reqG x.1 t b).2 = true then x.2 ++ [(t, b)] else x.2) w (w + n * L - L) : ℚ) ≤ B
        rw [hG, hf]; simpa using hw

theorem oinv_run {total : ℤ} {B : ℚ} {iv0 n L t0 : ℕ} (hn : 0 < n) (hL : 0 < L) (ops : List OOp) :
    ∀ {x : Sys ℚ × Adm} {latest : ℕ}, OInv total B iv0 n L t0 x latest → MonoO latest ops → ReloadsBelow total B iv0 ops →
    ∀ w, (passInL L (runO n L x ops).2 w (w + n * L - L) : ℚ) ≤ B := by
  induction ops with
  | nil => intro x latest d _ _; exact d.w
  | cons o r ih =>
    intro x latest d hm hrb
    cases o with
    | req t b =>
      obtain ⟨l', d', e⟩ := oinv_step hn hL d (.req t b) ⟨hm.1, trivial⟩ trivial
      simp only at e
      subst e
      exact ih d' hm.2 hrb
    | mem v =>
      obtain ⟨l', d', e⟩ := oinv_step hn hL d (.mem v) trivial trivial
      simp only at e
      subst e
      exact ih d' hm hrb
    | reload now rl =>
      obtain ⟨l', d', e⟩ := oinv_step hn hL d (.reload now rl) trivial ⟨hrb.1, trivial⟩
      simp only at e
      subst e
      exact ih d' hm hrb.2

end Sentinel.WU.O
