import Sentinel.Lemmas.Entry
/-!
# Properties of the ledger itself (conservation, single completion, live count, the panic region)
-/
namespace Sentinel.Entry
open Sentinel.LA

/-! ## where the as-is account and the demanded account coincide -/

/-- no entry whose chain panicked accounts on node `k` -/
def panicFree : List TOp → Key → Bool
  | [], _ => true
  | x :: r, k => panicFree r k && match x.2 with
      | .entry e => !((info r e.id).isNone && touches e k && decide (outcome e.chain = .panic))
      | _ => true

/-- no entry's chain panicked at all -/
def noPanic : List TOp → Bool
  | [] => true
  | x :: r => noPanic r && match x.2 with
      | .entry e => !((info r e.id).isNone && decide (outcome e.chain = .panic))
      | _ => true

theorem ledger_fix_irrelevant (h : List TOp) (k : Key) (hp : panicFree h k = true) :
    evs false h k = evs true h k ∧ gauge false h k = gauge true h k := by
  induction h with
  | nil => exact ⟨rfl, rfl⟩
  | cons x r ih =>
    obtain ⟨t, op⟩ := x
    simp only [panicFree, Bool.and_eq_true] at hp
    obtain ⟨e1, e2⟩ := ih hp.1
    have hx := hp.2
    simp only [evs, gauge, e1, e2]
    cases op with
    | entry e =>
      simp only at hx
      by_cases hc : ((info r e.id).isNone && touches e k) = true
      · cases ho : outcome e.chain with
        | pass => simp [contrib, contribI, Op.addr, gaugeDelta, gaugeDeltaI, Op.addr, hc, ho, countsPass, e2]
        | block => simp [contrib, contribI, Op.addr, gaugeDelta, gaugeDeltaI, Op.addr, hc, ho, countsPass]
        | panic => simp [hc, ho] at hx
      · have hc' : ((info r e.id).isNone && touches e k) = false := by simpa using hc
        simp [contrib, contribI, Op.addr, gaugeDelta, gaugeDeltaI, Op.addr, hc']
    | trace id err => simp [contrib, contribI, Op.addr, gaugeDelta, gaugeDeltaI, Op.addr]
    | exit id err => simp [contrib, contribI, Op.addr, gaugeDelta, gaugeDeltaI, Op.addr]

theorem reclog_fix_irrelevant (h : List TOp) (hp : noPanic h = true) : recLog false h = recLog true h := by
  induction h with
  | nil => rfl
  | cons x r ih =>
    obtain ⟨t, op⟩ := x
    simp only [noPanic, Bool.and_eq_true] at hp
    simp only [recLog, ih hp.1]
    have hx := hp.2
    cases op with
    | entry e =>
      simp only at hx
      by_cases hc : (info r e.id).isNone = true
      · cases ho : outcome e.chain with
        | pass => simp [recContrib, recContribI, Op.addr, hc, ho]
        | block => simp [recContrib, recContribI, Op.addr, hc, ho]
        | panic => simp [hc, ho] at hx
      · have hc' : (info r e.id).isNone = false := by
          cases h1 : (info r e.id).isNone with
          | true => exact absurd h1 hc
          | false => rfl
        simp [recContrib, recContribI, Op.addr, hc']
    | trace id err => simp [recContrib, recContribI, Op.addr]
    | exit id err => simp [recContrib, recContribI, Op.addr]

/-! ## conservation: pass + block tokens = requested tokens, on every node, in every time window -/

/-- sum of the payloads whose time satisfies `p` -/
def tally (p : Nat → Bool) (l : List (Nat × Bucket)) : Bucket := ((l.filter fun e => p e.1).map (·.2)).sum

theorem tally_append (p : Nat → Bool) (l m : List (Nat × Bucket)) : tally p (l ++ m) = tally p l + tally p m := by
  simp [tally, List.filter_append, List.map_append, List.sum_append]

theorem tally_nil (p : Nat → Bool) : tally p [] = 0 := rfl

theorem tally_cons (p : Nat → Bool) (t : Nat) (b : Bucket) (l : List (Nat × Bucket)) :
    tally p ((t, b) :: l) = (if p t then b else 0) + tally p l := by
  by_cases h : p t = true <;> simp [tally, List.filter_cons, h]

/-- the window reference of C08 is a tally -/
theorem refW_eq_tally (L : Nat) (l : List (Nat × Bucket)) (lo hi : Nat) :
    refW L l lo hi = tally (fun t => decide (lo ≤ cbs L t ∧ cbs L t ≤ hi)) l := by
  induction l with
  | nil => rfl
  | cons e r ih =>
    obtain ⟨t, b⟩ := e
    rw [tally_cons, ← ih]
    simp [refW]

/-- tokens requested on node `k` by the `Entry` calls made at times satisfying `p` -/
def requested (p : Nat → Bool) : List TOp → Key → Nat
  | [], _ => 0
  | x :: r, k => requested p r k + match x.2 with
      | .entry e => if (info r e.id).isNone && touches e k && p x.1 then e.batch else 0
      | _ => 0

theorem pass_plus_block (p : Nat → Bool) (h : List TOp) (k : Key) :
    (tally p (evs true h k)).pass + (tally p (evs true h k)).block = requested p h k := by
  induction h with
  | nil => rfl
  | cons x r ih =>
    obtain ⟨t, op⟩ := x
    simp only [evs, requested, tally_append, add_pass, add_block]
    rw [← ih]
    cases op with
    | entry e =>
      by_cases hc : ((info r e.id).isNone && touches e k) = true
      · by_cases hp : p t = true <;> cases ho : outcome e.chain <;>
          simp [contrib, contribI, Op.addr, hc, ho, hp, tally_cons, tally_nil, evBucket, concBucket] <;> omega
      · have hc' : ((info r e.id).isNone && touches e k) = false := by simpa using hc
        simp [contrib, contribI, Op.addr, hc', tally_nil]
    | trace id err => simp [contrib, contribI, Op.addr, tally_nil]
    | exit id err =>
      simp only [contrib, contribI, Op.addr]
      cases info r id with
      | none => simp [tally_nil]
      | some i =>
        by_cases hc : (!i.done && touches i.e k) = true
        · by_cases hp : p t = true <;> cases he : (orErr err i.err).isSome <;>
            simp [hc, hp, he, tally_cons, tally_nil, evBucket]
        · have hc' : (!i.done && touches i.e k) = false := by simpa using hc
          simp [hc', tally_nil]

/-! ## one completion per passed entry, at its first exit; none for a blocked one -/

/-- how many `exit` ops addressed to `id` produced a completion -/
def completionsOf : List TOp → Nat → Nat
  | [], _ => 0
  | x :: r, id => completionsOf r id + match x.2 with
      | .exit j _ => if j = id then (match info r id with | some i => if i.done then 0 else 1 | none => 0) else 0
      | _ => 0

theorem complete_once (h : List TOp) (id : Nat) :
    completionsOf h id = match info h id with
      | some i => if i.done && decide (outcome i.e.chain ≠ .block) then 1 else 0
      | none => 0 := by
  induction h with
  | nil => rfl
  | cons x r ih =>
    obtain ⟨t, op⟩ := x
    simp only [completionsOf]
    rw [ih]
    cases op with
    | entry e =>
      by_cases he : e.id = id
      · subst he
        cases hr : info r e.id with
        | none =>
          rw [info_entry_fresh _ _ _ hr]
          cases ho : outcome e.chain <;> simp [ho]
        | some i => rw [info_entry_dup _ _ _ _ hr]; simp
      · rw [info_entry_other _ _ _ _ he]; simp
    | trace j err =>
      by_cases he : j = id
      · subst he
        cases hr : info r j with
        | none => rw [info_trace_none _ _ _ _ hr]; simp
        | some i =>
          rw [info_trace_some _ _ _ _ _ hr]
          obtain ⟨ie, it0, ierr, idone⟩ := i
          cases idone <;> simp
      · rw [info_trace_other _ _ _ _ _ he]; simp
    | exit j err =>
      by_cases he : j = id
      · subst he
        cases hr : info r j with
        | none => rw [info_exit_none _ _ _ _ hr]; simp
        | some i =>
          rw [info_exit_some _ _ _ _ _ hr]
          have hb := info_block_done r j i hr
          obtain ⟨ie, it0, ierr, idone⟩ := i
          cases idone with
          | true => simp
          | false =>
            have : outcome ie.chain ≠ .block := fun hbb => by simpa using hb hbb
            simp [this]
      · rw [info_exit_other _ _ _ _ _ he]; simp [he]

/-! ## the gauge is the number of live accounted entries -/

/-- ids that have entered (each once) -/
def entryIds : List TOp → List Nat
  | [] => []
  | x :: r => match x.2 with
     | .entry e => if (info r e.id).isNone then e.id :: entryIds r else entryIds r
     | _ => entryIds r

/-- `id` is in flight (entered, not blocked, not yet exited) and accounts on node `k` -/
def liveB (h : List TOp) (k : Key) (id : Nat) : Bool :=
  match info h id with
  | some i => !i.done && touches i.e k
  | none => false

def live (h : List TOp) (k : Key) : Nat := (entryIds h).countP (liveB h k)

theorem info_isSome_cons (x : TOp) (r : List TOp) (id : Nat) (h : (info r id).isSome = true) :
    (info (x :: r) id).isSome = true := by
  obtain ⟨t, op⟩ := x
  obtain ⟨i, hi⟩ := Option.isSome_iff_exists.mp h
  cases op with
  | entry e =>
    by_cases he : e.id = id
    · subst he; rw [info_entry_dup _ _ _ _ hi]; rfl
    · rw [info_entry_other _ _ _ _ he]; exact h
  | trace j err =>
    by_cases he : j = id
    · subst he; rw [info_trace_some _ _ _ _ _ hi]; split_ifs <;> rfl
    · rw [info_trace_other _ _ _ _ _ he]; exact h
  | exit j err =>
    by_cases he : j = id
    · subst he; rw [info_exit_some _ _ _ _ _ hi]; split_ifs <;> rfl
    · rw [info_exit_other _ _ _ _ _ he]; exact h

theorem mem_entryIds (h : List TOp) (id : Nat) : id ∈ entryIds h ↔ (info h id).isSome = true := by
  induction h with
  | nil => simp [entryIds, info]
  | cons x r ih =>
    obtain ⟨t, op⟩ := x
    cases op with
    | entry e =>
      simp only [entryIds]
      by_cases he : e.id = id
      · subst he
        cases hr : info r e.id with
        | none => rw [info_entry_fresh _ _ _ hr]; simp
        | some i =>
          rw [info_entry_dup _ _ _ _ hr]
          simp only [Option.isNone_some, Bool.false_eq_true, if_false, Option.isSome_some, iff_true]
          exact ih.mpr (by rw [hr]; rfl)
      · rw [info_entry_other _ _ _ _ he]
        split_ifs
        · simp only [List.mem_cons]
          constructor
          · rintro (h1 | h1)
            · exact absurd h1.symm he
            · exact ih.mp h1
          · intro h1; exact Or.inr (ih.mpr h1)
        · exact ih
    | trace j err =>
      simp only [entryIds]
      rw [ih]
      by_cases he : j = id
      · subst he
        cases hr : info r j with
        | none => rw [info_trace_none _ _ _ _ hr]
        | some i => rw [info_trace_some _ _ _ _ _ hr]; split_ifs <;> simp
      · rw [info_trace_other _ _ _ _ _ he]
    | exit j err =>
      simp only [entryIds]
      rw [ih]
      by_cases he : j = id
      · subst he
        cases hr : info r j with
        | none => rw [info_exit_none _ _ _ _ hr]
        | some i => rw [info_exit_some _ _ _ _ _ hr]; split_ifs <;> simp
      · rw [info_exit_other _ _ _ _ _ he]

theorem entryIds_nodup (h : List TOp) : (entryIds h).Nodup := by
  induction h with
  | nil => exact List.nodup_nil
  | cons x r ih =>
    obtain ⟨t, op⟩ := x
    cases op with
    | entry e =>
      simp only [entryIds]
      split_ifs with hn
      · refine List.nodup_cons.mpr ⟨?_, ih⟩
        intro hm
        have := (mem_entryIds r e.id).mp hm
        cases hi : info r e.id <;> simp [hi] at hn this
      · exact ih
    | trace j err => exact ih
    | exit j err => exact ih

theorem countP_update (p q : Nat → Bool) (l : List Nat) (a : Nat) (hnd : l.Nodup) (ha : a ∈ l)
    (hoth : ∀ x ∈ l, x ≠ a → q x = p x) (hq : q a = false) :
    l.countP q + (if p a then 1 else 0) = l.countP p := by
  induction l with
  | nil => simp at ha
  | cons b r ih =>
    rw [List.nodup_cons] at hnd
    rcases List.mem_cons.mp ha with hab | har
    · subst hab
      have hr : r.countP q = r.countP p := by
        apply List.countP_congr
        intro x hx
        have hne : x ≠ a := fun e => hnd.1 (e ▸ hx)
        rw [hoth x (List.mem_cons_of_mem _ hx) hne]
      simp only [List.countP_cons, hq, hr]
      cases p a <;> simp
    · have hne : b ≠ a := fun e => hnd.1 (e ▸ har)
      have hb := hoth b (List.mem_cons_self ..) hne
      have := ih hnd.2 har (fun x hx hxa => hoth x (List.mem_cons_of_mem _ hx) hxa)
      simp only [List.countP_cons, hb]
      omega

/-- **the gauge counts the live accounted entries** (demanded account) -/
theorem gauge_eq_live (h : List TOp) (k : Key) : gauge true h k = (live h k : Int) := by
  induction h with
  | nil => rfl
  | cons x r ih =>
    obtain ⟨t, op⟩ := x
    simp only [gauge, ih]
    unfold live
    cases op with
    | entry e =>
      cases hr : info r e.id with
      | none =>
        have hcong : (entryIds r).countP (liveB ((t, Op.entry e) :: r) k) = (entryIds r).countP (liveB r k) := by
          apply List.countP_congr
          intro x hx
          have hs := (mem_entryIds r x).mp hx
          have hne : e.id ≠ x := by intro e1; subst e1; simp [hr] at hs
          simp only [liveB, info_entry_other _ _ _ _ hne]
        simp only [entryIds, hr, Option.isNone_none, if_true, List.countP_cons, hcong]
        simp only [liveB, info_entry_fresh _ _ _ hr, gaugeDelta, gaugeDeltaI, Op.addr, hr, Option.isNone_none, Bool.true_and]
        cases ho : outcome e.chain <;> cases ht : touches e k <;> simp [countsPass, ho]
      | some i =>
        have hcong : (entryIds r).countP (liveB ((t, Op.entry e) :: r) k) = (entryIds r).countP (liveB r k) := by
          apply List.countP_congr
          intro x _
          simp only [liveB]
          by_cases hne : e.id = x
          · subst hne; rw [info_entry_dup _ _ _ _ hr, hr]
          · rw [info_entry_other _ _ _ _ hne]
        simp [entryIds, hr, hcong, gaugeDelta, gaugeDeltaI, Op.addr]
    | trace j err =>
      have hcong : (entryIds r).countP (liveB ((t, Op.trace j err) :: r) k) = (entryIds r).countP (liveB r k) := by
        apply List.countP_congr
        intro x _
        simp only [liveB]
        by_cases hne : j = x
        · subst hne
          cases hr : info r j with
          | none => rw [info_trace_none _ _ _ _ hr]
          | some i => rw [info_trace_some _ _ _ _ _ hr]; split_ifs <;> rfl
        · rw [info_trace_other _ _ _ _ _ hne]
      simp [entryIds, hcong, gaugeDelta, gaugeDeltaI, Op.addr]
    | exit j err =>
      simp only [entryIds, gaugeDelta, gaugeDeltaI, Op.addr]
      cases hr : info r j with
      | none =>
        have hcong : (entryIds r).countP (liveB ((t, Op.exit j err) :: r) k) = (entryIds r).countP (liveB r k) := by
          apply List.countP_congr
          intro x _
          simp only [liveB]
          by_cases hne : j = x
          · subst hne; rw [info_exit_none _ _ _ _ hr, hr]
          · rw [info_exit_other _ _ _ _ _ hne]
        simp [hcong]
      | some i =>
        have hj : j ∈ entryIds r := (mem_entryIds r j).mpr (by rw [hr]; rfl)
        have hupd := countP_update (liveB r k) (liveB ((t, Op.exit j err) :: r) k) (entryIds r) j
          (entryIds_nodup r) hj
          (by intro x _ hne; simp only [liveB]; rw [info_exit_other _ _ _ _ _ (Ne.symm hne)])
          (by simp only [liveB, info_exit_some _ _ _ _ _ hr]; split_ifs with hd <;> simp [hd])
        have hl : liveB r k j = (!i.done && touches i.e k) := by simp [liveB, hr]
        rw [hl] at hupd
        simp only
        cases hb : (!i.done && touches i.e k) <;> simp [hb] at hupd ⊢ <;> omega

theorem gauge_nonneg (h : List TOp) (k : Key) : 0 ≤ gauge true h k := by
  rw [gauge_eq_live]; exact Int.natCast_nonneg _

/-- nothing in flight ⇒ every gauge is exactly zero -/
theorem gauge_zero_idle (h : List TOp) (k : Key) (idle : ∀ id i, info h id = some i → i.done = true) :
    gauge true h k = 0 := by
  rw [gauge_eq_live]
  unfold live
  have : (entryIds h).countP (liveB h k) = 0 := by
    rw [List.countP_eq_zero]
    intro id _
    simp only [liveB]
    cases hi : info h id with
    | none => simp
    | some i => simp [idle id i hi]
  simp [this]

/-! ## late calls -/

/-- a `trace` / `exit` addressed to an id that is already finished (exited, or blocked at entry) -/
def IsLate (h : List TOp) (x : TOp) : Prop :=
  match x.2 with
  | .entry _ => False
  | .trace id _ => ∃ i, info h id = some i ∧ i.done = true
  | .exit id _ => ∃ i, info h id = some i ∧ i.done = true

theorem late_step_noop {fix t0 h s} (sim : Sim fix t0 h s) (x : TOp) (hl : IsLate h x) : step fix s x = s := by
  obtain ⟨t, op⟩ := x
  cases op with
  | entry e => exact absurd hl (by simp [IsLate])
  | trace id err =>
    obtain ⟨i, hi, hd⟩ := hl
    have := sim.ents id
    rw [hi] at this
    simp only [step, apiTrace, this, Option.map, ctxOf, hd, if_true]
  | exit id err =>
    obtain ⟨i, hi, hd⟩ := hl
    have := sim.ents id
    rw [hi] at this
    simp only [step, apiExit, this, Option.map, ctxOf, hd, if_true]

theorem late_ops_noop (fix : Bool) (t0 : Nat) (h : List TOp) (h0 : 0 < t0) (hm : MonoR t0 h)
    (l : List TOp) (hl : ∀ x ∈ l, IsLate h x) : runR fix t0 (l ++ h) = runR fix t0 h := by
  induction l with
  | nil => rfl
  | cons x r ih =>
    have hr := ih (fun y hy => hl y (List.mem_cons_of_mem _ hy))
    simp only [List.cons_append, runR, hr]
    exact late_step_noop (sim_runR fix t0 h h0 hm) x (hl x (List.mem_cons_self ..))

/-- after an `exit` addressed to a known id, that id is finished -/
theorem exit_finishes (t id : Nat) (err : Option String) (h : List TOp) (i : Info)
    (hi : info ((t, .exit id err) :: h) id = some i) : i.done = true := by
  cases hr : info h id with
  | none => rw [info_exit_none _ _ _ _ hr] at hi; simp at hi
  | some j =>
    rw [info_exit_some _ _ _ _ _ hr] at hi
    by_cases hd : j.done = true
    · rw [if_pos hd] at hi; simp only [Option.some.injEq] at hi; subst hi; exact hd
    · rw [if_neg hd] at hi; simp only [Option.some.injEq] at hi; subst hi; rfl

end Sentinel.Entry
