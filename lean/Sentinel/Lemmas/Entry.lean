import Mathlib.Tactic
import Sentinel.Lemmas.LeapArray
import Sentinel.Model.Entry
/-!
# Refinement lemmas for the entry lifecycle: the code-shaped model simulates the ledger

`Sim fix t0 h s`: after history `h` (newest first) the model state `s` holds, for every node, a leap
array satisfying the leap-array invariant `Inv` **for the ledger's event list** of that node, a gauge equal
to the ledger's, one context per id equal to the ledger's `info`, and the recording log equal to `recLog`.
`sim_runR`: the invariant holds along every time-monotone history.
-/
namespace Sentinel.Entry
open Sentinel.LA

/-! ## the payload is a commutative monoid -/

@[ext] theorem Bucket.ext' {a b : Bucket} (h1 : a.pass = b.pass) (h2 : a.block = b.block)
    (h3 : a.complete = b.complete) (h4 : a.error = b.error) (h5 : a.rt = b.rt) (h6 : a.hr = b.hr)
    (h7 : a.mc = b.mc) : a = b := by
  cases a; cases b; simp_all

@[simp] theorem add_pass (a b : Bucket) : (a + b).pass = a.pass + b.pass := rfl
@[simp] theorem add_block (a b : Bucket) : (a + b).block = a.block + b.block := rfl
@[simp] theorem add_complete (a b : Bucket) : (a + b).complete = a.complete + b.complete := rfl
@[simp] theorem add_error (a b : Bucket) : (a + b).error = a.error + b.error := rfl
@[simp] theorem add_rt (a b : Bucket) : (a + b).rt = a.rt + b.rt := rfl
@[simp] theorem add_hr (a b : Bucket) : (a + b).hr = max a.hr b.hr := rfl
@[simp] theorem add_mc (a b : Bucket) : (a + b).mc = max a.mc b.mc := rfl
@[simp] theorem zero_pass : (0 : Bucket).pass = 0 := rfl
@[simp] theorem zero_block : (0 : Bucket).block = 0 := rfl
@[simp] theorem zero_complete : (0 : Bucket).complete = 0 := rfl
@[simp] theorem zero_error : (0 : Bucket).error = 0 := rfl
@[simp] theorem zero_rt : (0 : Bucket).rt = 0 := rfl
@[simp] theorem zero_hr : (0 : Bucket).hr = 0 := rfl
@[simp] theorem zero_mc : (0 : Bucket).mc = 0 := rfl

instance : AddCommMonoid Bucket where
  add_assoc a b c := by ext <;> simp [Nat.add_assoc, max_assoc]
  zero_add a := by ext <;> simp
  add_zero a := by ext <;> simp
  add_comm a b := by ext <;> simp [Nat.add_comm, max_comm]
  nsmul := nsmulRec

/-! ## one node -/

/-- the node's array is a leap array that has recorded exactly `ev` (no event later than `T`), its gauge is `g` -/
def NodeOk (n : Node) (ev : List (Nat × Bucket)) (g : Int) (T : Nat) : Prop :=
  n.arr.L = bucketLen ∧ n.arr.n = sampleCountTotal ∧ n.conc = g ∧
  ∃ tc latest, Inv n.arr ev tc latest ∧ latest ≤ T

theorem nodeOk_new (t : Nat) : NodeOk (newNode t) [] 0 t :=
  ⟨rfl, rfl, rfl, t, t, mk_inv _ _ t (by decide) (by decide), le_refl _⟩

theorem nodeOk_mono {n ev g T T'} (h : NodeOk n ev g T) (hT : T ≤ T') : NodeOk n ev g T' := by
  obtain ⟨h1, h2, h3, tc, l, hi, hl⟩ := h
  exact ⟨h1, h2, h3, tc, l, hi, le_trans hl hT⟩

theorem nodeOk_record {n ev g T} (h : NodeOk n ev g T) (t : Nat) (x : Bucket) (hT : T ≤ t) (ht : 0 < t) :
    NodeOk (recordN n t x) (ev ++ [(t, x)]) g t := by
  obtain ⟨h1, h2, h3, tc, l, hi, hl⟩ := h
  have hadd : addAt n.arr t x = add n.arr t x := by unfold addAt; simp [Nat.pos_iff_ne_zero.mp ht]
  have hs := (add_step n.arr ev tc l t x hi (le_trans hl hT)).1
  have hnL := add_nL n.arr t x
  refine ⟨?_, ?_, h3, tc, t, ?_, le_refl _⟩
  · simp only [recordN, hadd]; rw [hnL.1]; exact h1
  · simp only [recordN, hadd]; rw [hnL.2]; exact h2
  · simpa only [recordN, hadd] using hs

theorem nodeOk_conc {n ev g T} (h : NodeOk n ev g T) (g' : Int) : NodeOk { n with conc := g' } ev g' T := by
  obtain ⟨h1, h2, _, r⟩ := h
  exact ⟨h1, h2, rfl, r⟩

/-- what a recording function does to any node: appends `E g` to the events, moves the gauge by `d` -/
def Acts (f : Node → Node) (E : Int → List (Nat × Bucket)) (d : Int) (t : Nat) : Prop :=
  ∀ n ev g T, NodeOk n ev g T → T ≤ t → NodeOk (f n) (ev ++ E g) (g + d) t

theorem acts_pass (t batch : Nat) (ht : 0 < t) :
    Acts (recordPass t batch) (fun g => [(t, concBucket (g + 1)), (t, evBucket .pass batch)]) 1 t := by
  intro n ev g T h hT
  unfold recordPass
  have hc : n.conc = g := h.2.2.1
  have h1 := nodeOk_conc h (n.conc + 1)
  have h2 := nodeOk_record h1 t (concBucket (n.conc + 1)) hT ht
  have h3 := nodeOk_record h2 t (evBucket .pass batch) (le_refl _) ht
  subst hc
  simpa [List.append_assoc] using h3

theorem acts_block (t batch : Nat) (ht : 0 < t) :
    Acts (recordBlock t batch) (fun _ => [(t, evBucket .block batch)]) 0 t := by
  intro n ev g T h hT
  unfold recordBlock
  simpa using nodeOk_record h t (evBucket .block batch) hT ht

theorem acts_complete (t batch rt : Nat) (err : Bool) (ht : 0 < t) :
    Acts (recordComplete t batch rt err)
      (fun _ => (if err then [(t, evBucket .error batch)] else []) ++ [(t, evBucket .rt rt), (t, evBucket .complete batch)]) (-1) t := by
  intro n ev g T h hT
  unfold recordComplete
  cases err with
  | true =>
    have h1 := nodeOk_record h t (evBucket .error batch) hT ht
    have h2 := nodeOk_record h1 t (evBucket .rt rt) (le_refl _) ht
    have h3 := nodeOk_record h2 t (evBucket .complete batch) (le_refl _) ht
    have h4 := nodeOk_conc h3 (g - 1)
    have hc : (recordN (recordN (recordN n t (evBucket .error batch)) t (evBucket .rt rt)) t (evBucket .complete batch)).conc = g := h3.2.2.1
    simp only [if_true, hc]
    simpa [List.append_assoc, sub_eq_add_neg] using h4
  | false =>
    have h2 := nodeOk_record h t (evBucket .rt rt) hT ht
    have h3 := nodeOk_record h2 t (evBucket .complete batch) (le_refl _) ht
    have h4 := nodeOk_conc h3 (g - 1)
    have hc : (recordN (recordN n t (evBucket .rt rt)) t (evBucket .complete batch)).conc = g := h3.2.2.1
    simp only [Bool.false_eq_true, if_false, hc]
    simpa [List.append_assoc, sub_eq_add_neg] using h4

/-! ## the node map -/

theorem findN_getOrCreate (l : List (String × Node)) (r r' : String) (t : Nat) :
    findN (getOrCreate l r t) r' =
      if r = r' then (match findN l r with | some n => some n | none => some (newNode t)) else findN l r' := by
  unfold getOrCreate
  cases hf : findN l r with
  | some n =>
    simp only
    split_ifs with h
    · subst h; exact hf
    · rfl
  | none =>
    simp only [findN]

theorem findN_modifyN (l : List (String × Node)) (r r' : String) (f : Node → Node) :
    findN (modifyN l r f) r' = if r = r' then (findN l r).map f else findN l r' := by
  unfold modifyN
  cases hf : findN l r with
  | some n => simp only [findN, Option.map]
  | none =>
    simp only [Option.map]
    split_ifs with h
    · subst h; exact hf
    · rfl

/-- all nodes of the state agree with an account `(ex, ev, ga)`: which resource nodes exist, the events and
    the gauge of every node -/
structure NodesOk (s : St) (ex : String → Bool) (ev : Key → List (Nat × Bucket)) (ga : Key → Int) (T : Nat) : Prop where
  inb : NodeOk s.inb (ev none) (ga none) T
  some_ : ∀ r n, findN s.nodes r = some n → ex r = true ∧ NodeOk n (ev (some r)) (ga (some r)) T
  none_ : ∀ r, findN s.nodes r = none → ex r = false

theorem nodesOk_mono {s ex ev ga T T'} (h : NodesOk s ex ev ga T) (hT : T ≤ T') : NodesOk s ex ev ga T' :=
  ⟨nodeOk_mono h.inb hT, fun r n hf => ⟨(h.some_ r n hf).1, nodeOk_mono (h.some_ r n hf).2 hT⟩, h.none_⟩

theorem nodesOk_congr {s ex ev ga T ex' ev' ga'} (h : NodesOk s ex ev ga T)
    (h1 : ∀ r, ex' r = ex r) (h2 : ∀ k, ev' k = ev k) (h3 : ∀ k, ga' k = ga k) : NodesOk s ex' ev' ga' T := by
  have e1 : ex' = ex := funext h1
  have e2 : ev' = ev := funext h2
  have e3 : ga' = ga := funext h3
  subst e1 e2 e3; exact h

/-- the prepare phase: `GetOrCreateResourceNode(res)` at time `t` -/
theorem nodesOk_getOrCreate {s ex ev ga T} (h : NodesOk s ex ev ga T) (res : String) (t : Nat) (hT : T ≤ t)
    (hnew : ex res = false → ev (some res) = [] ∧ ga (some res) = 0) :
    NodesOk { s with nodes := getOrCreate s.nodes res t } (fun r => ex r || decide (r = res)) ev ga t := by
  refine ⟨nodeOk_mono h.inb hT, ?_, ?_⟩
  · intro r n hf
    simp only [findN_getOrCreate] at hf
    split_ifs at hf with hr
    · subst hr
      cases hfr : findN s.nodes res with
      | some m =>
        rw [hfr] at hf; simp only [Option.some.injEq] at hf; subst hf
        have := h.some_ res m hfr
        exact ⟨by simp, nodeOk_mono this.2 hT⟩
      | none =>
        rw [hfr] at hf; simp only [Option.some.injEq] at hf; subst hf
        obtain ⟨e1, e2⟩ := hnew (h.none_ res hfr)
        rw [e1, e2]
        exact ⟨by simp, nodeOk_new t⟩
    · have := h.some_ r n hf
      exact ⟨by simp [this.1], nodeOk_mono this.2 hT⟩
  · intro r hf
    simp only [findN_getOrCreate] at hf
    split_ifs at hf with hr
    · subst hr; cases hfr : findN s.nodes res <;> rw [hfr] at hf <;> simp at hf
    · have := h.none_ r hf
      have hne : ¬ r = res := fun e => hr e.symm
      simp [this, hne]

/-- which nodes a context records on -/
def ctxTouches (c : Ctx) : Key → Bool
  | none => c.e.inbound
  | some r => c.hasNode && decide (c.e.res = r)

/-- a statistic callback: every node the context records on gets `E (its gauge)` appended and its gauge moved by `d` -/
theorem nodesOk_onStat {s ex ev ga T} (h : NodesOk s ex ev ga T) (c : Ctx) (f : Node → Node)
    (E : Int → List (Nat × Bucket)) (d : Int) (t : Nat) (hf : Acts f E d t) (hT : T ≤ t) :
    NodesOk (onStat s c f) ex
      (fun k => ev k ++ (if ctxTouches c k then E (ga k) else []))
      (fun k => ga k + (if ctxTouches c k then d else 0)) t := by
  have keep : ∀ n k, NodeOk n (ev k) (ga k) T → NodeOk n (ev k ++ []) (ga k + 0) t := by
    intro n k hn; simpa using nodeOk_mono hn hT
  unfold onStat
  refine ⟨?_, ?_, ?_⟩
  · -- inbound node
    simp only [ctxTouches]
    by_cases hi : c.e.inbound = true
    · simp only [hi, if_true]
      by_cases hn : c.hasNode = true
      · simpa [hn] using hf _ _ _ _ h.inb hT
      · simpa [hn] using hf _ _ _ _ h.inb hT
    · simp only [hi]
      by_cases hn : c.hasNode = true
      · simpa [hn] using keep _ none h.inb
      · simpa [hn] using keep _ none h.inb
  · intro r n hfn
    have hnodes : findN (if c.hasNode = true then modifyN s.nodes c.e.res f else s.nodes) r = some n := by
      by_cases hi : c.e.inbound = true <;> by_cases hn : c.hasNode = true <;> simpa [hi, hn] using hfn
    simp only [ctxTouches]
    by_cases hn : c.hasNode = true
    · simp only [hn, if_true, findN_modifyN] at hnodes
      split_ifs at hnodes with hr
      · subst hr
        cases hfr : findN s.nodes c.e.res with
        | none => rw [hfr] at hnodes; simp at hnodes
        | some m =>
          rw [hfr] at hnodes; simp only [Option.map, Option.some.injEq] at hnodes; subst hnodes
          have := h.some_ _ m hfr
          refine ⟨this.1, ?_⟩
          simpa [hn] using hf _ _ _ _ this.2 hT
      · have := h.some_ r n hnodes
        refine ⟨this.1, ?_⟩
        simpa [hn, hr] using keep _ (some r) this.2
    · simp only [hn] at hnodes
      have := h.some_ r n hnodes
      refine ⟨this.1, ?_⟩
      simpa [hn] using keep _ (some r) this.2
  · intro r hfn
    have hnodes : findN (if c.hasNode = true then modifyN s.nodes c.e.res f else s.nodes) r = none := by
      by_cases hi : c.e.inbound = true <;> by_cases hn : c.hasNode = true <;> simpa [hi, hn] using hfn
    by_cases hn : c.hasNode = true
    · simp only [hn, if_true, findN_modifyN] at hnodes
      split_ifs at hnodes with hr
      · subst hr
        cases hfr : findN s.nodes c.e.res with
        | none => exact h.none_ _ hfr
        | some m => rw [hfr] at hnodes; simp at hnodes
      · exact h.none_ r hnodes
    · simp only [hn] at hnodes
      exact h.none_ r hnodes

theorem nodesOk_ext {s s' ex ev ga T} (h : NodesOk s ex ev ga T) (h1 : s'.inb = s.inb) (h2 : s'.nodes = s.nodes) :
    NodesOk s' ex ev ga T :=
  ⟨h1 ▸ h.inb, fun r n hf => h.some_ r n (h2 ▸ hf), fun r hf => h.none_ r (h2 ▸ hf)⟩

/-- the statistic phase with or without `stat.DefaultSlot` in the chain -/
theorem nodesOk_stat {s ex ev ga T} (h : NodesOk s ex ev ga T) (c : Ctx) (f : Node → Node)
    (E : Int → List (Nat × Bucket)) (d : Int) (t : Nat) (hf : Acts f E d t) (hT : T ≤ t) :
    NodesOk (if c.e.chain.std then onStat s c f else s) ex
      (fun k => ev k ++ (if c.e.chain.std && ctxTouches c k then E (ga k) else []))
      (fun k => ga k + (if c.e.chain.std && ctxTouches c k then d else 0)) t := by
  by_cases hs : c.e.chain.std = true
  · simpa [hs] using nodesOk_onStat h c f E d t hf hT
  · simpa [hs] using nodesOk_mono h hT

/-! ## ledger facts -/

theorem info_cons_ne (x : TOp) (r : List TOp) (id : Nat) (h : x.2.addr ≠ id) : info (x :: r) id = info r id := by
  simp [info, infoStep, h]

theorem info_entry_other (t : Nat) (e : EntryOp) (r : List TOp) (id : Nat) (h : e.id ≠ id) :
    info ((t, .entry e) :: r) id = info r id := info_cons_ne _ _ _ h
theorem info_trace_other (t : Nat) (j : Nat) (err : Option String) (r : List TOp) (id : Nat) (h : j ≠ id) :
    info ((t, .trace j err) :: r) id = info r id := info_cons_ne _ _ _ h
theorem info_exit_other (t : Nat) (j : Nat) (err : Option String) (r : List TOp) (id : Nat) (h : j ≠ id) :
    info ((t, .exit j err) :: r) id = info r id := info_cons_ne _ _ _ h

theorem info_entry_fresh (t : Nat) (e : EntryOp) (r : List TOp) (h : info r e.id = none) :
    info ((t, .entry e) :: r) e.id =
      some { e := e, t0 := t, err := if outcome e.chain = .panic then some "panic" else none,
             done := decide (outcome e.chain = .block) } := by
  simp [info, infoStep, Op.addr, h]
theorem info_entry_dup (t : Nat) (e : EntryOp) (r : List TOp) (i : Info) (h : info r e.id = some i) :
    info ((t, .entry e) :: r) e.id = some i := by
  simp [info, infoStep, Op.addr, h]
theorem info_trace_none (t id : Nat) (err : Option String) (r : List TOp) (h : info r id = none) :
    info ((t, .trace id err) :: r) id = none := by
  simp [info, infoStep, Op.addr, h]
theorem info_trace_some (t id : Nat) (err : Option String) (r : List TOp) (i : Info) (h : info r id = some i) :
    info ((t, .trace id err) :: r) id = if i.done then some i else some { i with err := orErr err i.err } := by
  simp [info, infoStep, Op.addr, h]
theorem info_exit_none (t id : Nat) (err : Option String) (r : List TOp) (h : info r id = none) :
    info ((t, .exit id err) :: r) id = none := by
  simp [info, infoStep, Op.addr, h]
theorem info_exit_some (t id : Nat) (err : Option String) (r : List TOp) (i : Info) (h : info r id = some i) :
    info ((t, .exit id err) :: r) id = if i.done then some i else some { i with err := orErr err i.err, done := true } := by
  simp [info, infoStep, Op.addr, h]

/-- general shape: a later op either leaves the account of `id` alone or yields an account with the same entry op;
    `P` is any property of accounts preserved by "set error" and "finish" -/
theorem info_induct (P : Info → Prop) (h : List TOp) (id : Nat) (i : Info) (hi : info h id = some i)
    (hnew : ∀ (t : Nat) (e : EntryOp), e.id = id →
      P (Info.mk e t (if outcome e.chain = .panic then some "panic" else none) (decide (outcome e.chain = .block))))
    (herr : ∀ j err, P j → j.done = false → P { j with err := err })
    (hfin : ∀ j err, P j → j.done = false → P { j with err := err, done := true }) : P i := by
  induction h generalizing i with
  | nil => simp [info] at hi
  | cons x r ih =>
    obtain ⟨t, op⟩ := x
    cases op with
    | entry e =>
      by_cases he : e.id = id
      · subst he
        cases hr : info r e.id with
        | none => rw [info_entry_fresh _ _ _ hr] at hi; simp only [Option.some.injEq] at hi; subst hi; exact hnew t e rfl
        | some j => rw [info_entry_dup _ _ _ _ hr] at hi; simp only [Option.some.injEq] at hi; subst hi; exact ih _ hr
      · rw [info_entry_other _ _ _ _ he] at hi; exact ih _ hi
    | trace j err =>
      by_cases he : j = id
      · subst he
        cases hr : info r j with
        | none => rw [info_trace_none _ _ _ _ hr] at hi; simp at hi
        | some k =>
          rw [info_trace_some _ _ _ _ _ hr] at hi
          by_cases hd : k.done = true
          · simp only [hd, if_true, Option.some.injEq] at hi; subst hi; exact ih _ hr
          · rw [if_neg hd] at hi; simp only [Option.some.injEq] at hi; subst hi
            exact herr k _ (ih _ hr) (by simpa using hd)
      · rw [info_trace_other _ _ _ _ _ he] at hi; exact ih _ hi
    | exit j err =>
      by_cases he : j = id
      · subst he
        cases hr : info r j with
        | none => rw [info_exit_none _ _ _ _ hr] at hi; simp at hi
        | some k =>
          rw [info_exit_some _ _ _ _ _ hr] at hi
          by_cases hd : k.done = true
          · simp only [hd, if_true, Option.some.injEq] at hi; subst hi; exact ih _ hr
          · rw [if_neg hd] at hi; simp only [Option.some.injEq] at hi; subst hi
            exact hfin k _ (ih _ hr) (by simpa using hd)
      · rw [info_exit_other _ _ _ _ _ he] at hi; exact ih _ hi

/-- a blocked entry is finished from the start (`api.Entry` exits it internally) -/
theorem info_block_done (h : List TOp) (id : Nat) (i : Info) (hi : info h id = some i)
    (hb : outcome i.e.chain = .block) : i.done = true := by
  have := info_induct (fun i => outcome i.e.chain = .block → i.done = true) h id i hi
    (by intro t e _ hb; simpa using hb)
    (by intro j err hj hd hb; exact absurd (hj hb) (by simp [hd]))
    (by intro j err _ _ _; rfl)
  exact this hb

theorem info_id (h : List TOp) (id : Nat) (i : Info) (hi : info h id = some i) : i.e.id = id :=
  info_induct (fun i => i.e.id = id) h id i hi (by intro t e he; exact he) (by intro j err hj _; exact hj)
    (by intro j err hj _; exact hj)

theorem nodeExists_entry (t : Nat) (e : EntryOp) (r : List TOp) (res : String) :
    nodeExists ((t, .entry e) :: r) res =
      (nodeExists r res || ((info r e.id).isNone && attached e.chain && decide (e.res = res))) := by
  simp only [nodeExists, nodeNewI, Op.addr]
  by_cases h1 : (info r e.id).isNone = true <;> by_cases h2 : attached e.chain = true <;> simp [h1, h2]
theorem nodeExists_trace (t id : Nat) (err : Option String) (r : List TOp) (res : String) :
    nodeExists ((t, .trace id err) :: r) res = nodeExists r res := by
  simp [nodeExists, nodeNewI]
theorem nodeExists_exit (t id : Nat) (err : Option String) (r : List TOp) (res : String) :
    nodeExists ((t, .exit id err) :: r) res = nodeExists r res := by
  simp [nodeExists, nodeNewI]

/-- an entry whose prepare phase reached the node slot has a node -/
theorem info_attached_exists (h : List TOp) (id : Nat) (i : Info) (hi : info h id = some i)
    (ha : attached i.e.chain = true) : nodeExists h i.e.res = true := by
  induction h generalizing i with
  | nil => simp [info] at hi
  | cons x r ih =>
    obtain ⟨t, op⟩ := x
    cases op with
    | entry e =>
      rw [nodeExists_entry]; simp only [Bool.or_eq_true]
      by_cases he : e.id = id
      · subst he
        cases hr : info r e.id with
        | none =>
          rw [info_entry_fresh _ _ _ hr] at hi; simp only [Option.some.injEq] at hi; subst hi
          right; simp [hr, ha]
        | some j => rw [info_entry_dup _ _ _ _ hr] at hi; simp only [Option.some.injEq] at hi; subst hi; left; exact ih _ hr ha
      · rw [info_entry_other _ _ _ _ he] at hi; left; exact ih _ hi ha
    | trace j err =>
      rw [nodeExists_trace]
      by_cases he : j = id
      · subst he
        cases hr : info r j with
        | none => rw [info_trace_none _ _ _ _ hr] at hi; simp at hi
        | some k =>
          rw [info_trace_some _ _ _ _ _ hr] at hi
          by_cases hd : k.done = true
          · simp only [hd, if_true, Option.some.injEq] at hi; subst hi; exact ih _ hr ha
          · simp only [hd, Bool.false_eq_true, if_false, Option.some.injEq] at hi; subst hi; exact ih k hr ha
      · rw [info_trace_other _ _ _ _ _ he] at hi; exact ih _ hi ha
    | exit j err =>
      rw [nodeExists_exit]
      by_cases he : j = id
      · subst he
        cases hr : info r j with
        | none => rw [info_exit_none _ _ _ _ hr] at hi; simp at hi
        | some k =>
          rw [info_exit_some _ _ _ _ _ hr] at hi
          by_cases hd : k.done = true
          · simp only [hd, if_true, Option.some.injEq] at hi; subst hi; exact ih _ hr ha
          · simp only [hd, Bool.false_eq_true, if_false, Option.some.injEq] at hi; subst hi; exact ih k hr ha
      · rw [info_exit_other _ _ _ _ _ he] at hi; exact ih _ hi ha

/-- a resource whose node has not been created has no events and no live entries -/
theorem noNode_empty (fix : Bool) (h : List TOp) (res : String) (hn : nodeExists h res = false) :
    evs fix h (some res) = [] ∧ gauge fix h (some res) = 0 := by
  induction h with
  | nil => exact ⟨rfl, rfl⟩
  | cons x r ih =>
    obtain ⟨t, op⟩ := x
    simp only [nodeExists, nodeNewI, Op.addr, Bool.or_eq_false_iff] at hn
    obtain ⟨e1, e2⟩ := ih hn.1
    have hx := hn.2
    simp only [evs, gauge, e1, e2, List.nil_append, zero_add]
    unfold contrib gaugeDelta contribI gaugeDeltaI
    simp only [Op.addr]
    cases op with
    | entry e =>
      simp only at hx ⊢
      have ht : ((info r e.id).isNone && touches e (some res)) = false := by
        simp only [touches]
        cases h1 : (info r e.id).isNone <;> cases h2 : attached e.chain <;> cases h3 : decide (e.res = res) <;>
          simp_all
      simp [ht]
    | trace id err => simp
    | exit id err =>
      simp only
      cases hi : info r id with
      | none => simp
      | some i =>
        have ht : touches i.e (some res) = false := by
          simp only [touches]
          by_cases ha : attached i.e.chain = true
          · have := info_attached_exists r id i hi ha
            by_cases hr : i.e.res = res
            · rw [hr] at this; rw [hn.1] at this; exact absurd this (by simp)
            · simp [hr]
          · simp [ha]
        simp [ht]

/-! ## the simulation invariant -/

/-- the context the model holds for an id whose ledger account is `i` -/
def ctxOf (i : Info) : Ctx :=
  { e := i.e, start := i.t0, err := i.err, hasNode := attached i.e.chain,
    blocked := decide (outcome i.e.chain = .block), exited := i.done }

structure Sim (fix : Bool) (t0 : Nat) (h : List TOp) (s : St) : Prop where
  nodes : NodesOk s (nodeExists h) (evs fix h) (gauge fix h) (lastT t0 h)
  ents : ∀ id, findE s.ents id = (info h id).map ctxOf
  log : s.log = recLog fix h

theorem sim_init (fix : Bool) (t0 : Nat) : Sim fix t0 [] (init t0) :=
  ⟨⟨nodeOk_new t0, fun r n hf => by simp [init, findN] at hf, fun r _ => rfl⟩, fun id => rfl, rfl⟩

theorem touches_ctx (e : EntryOp) (c : Ctx) (hc : c.e = e) (hn : c.hasNode = attached e.chain) (k : Key) :
    touches e k = (e.chain.std && ctxTouches c k) := by
  cases k with
  | none => simp [touches, ctxTouches, hc]
  | some r => simp [touches, ctxTouches, hc, hn, Bool.and_assoc]

@[simp] theorem findE_cons (id : Nat) (c : Ctx) (l : List (Nat × Ctx)) (id' : Nat) :
    findE ((id, c) :: l) id' = if id = id' then some c else findE l id' := rfl

theorem orErr_eq (a b : Option String) : (match a with | some x => some x | none => b) = orErr a b := rfl

/-- `api.TraceError` -/
theorem sim_trace {fix t0 h s} (hs : Sim fix t0 h s) (t id : Nat) (err : Option String) (hT : lastT t0 h ≤ t) :
    Sim fix t0 ((t, .trace id err) :: h) (apiTrace s id err) := by
  have hinb : (apiTrace s id err).inb = s.inb := by
    unfold apiTrace; cases findE s.ents id <;> simp only []; split_ifs <;> cases err <;> rfl
  have hnodes : (apiTrace s id err).nodes = s.nodes := by
    unfold apiTrace; cases findE s.ents id <;> simp only []; split_ifs <;> cases err <;> rfl
  have hlog : (apiTrace s id err).log = s.log := by
    unfold apiTrace; cases findE s.ents id <;> simp only []; split_ifs <;> cases err <;> rfl
  refine ⟨?_, ?_, ?_⟩
  · apply nodesOk_ext _ hinb hnodes
    apply nodesOk_congr (nodesOk_mono hs.nodes hT)
    · intro r; simp [nodeExists, nodeNewI, Op.addr]
    · intro k; simp [evs, contrib, contribI, Op.addr]
    · intro k; simp [gauge, gaugeDelta, gaugeDeltaI, Op.addr]
  · intro id'
    have he := hs.ents id
    by_cases hid : id = id'
    · subst hid
      unfold apiTrace
      cases hi : info h id with
      | none =>
        rw [hi] at he; simp only [Option.map] at he
        rw [he, info_trace_none _ _ _ _ hi]; simpa using he
      | some i =>
        obtain ⟨ie, it0, ierr, idone⟩ := i
        rw [hi] at he; simp only [Option.map] at he
        rw [he, info_trace_some _ _ _ _ _ hi]
        cases idone with
        | true => simp [ctxOf, he]
        | false =>
          cases err with
          | none => simp [ctxOf, orErr, he]
          | some x => simp [ctxOf, orErr]
    · rw [info_trace_other _ _ _ _ _ hid, ← hs.ents id']
      unfold apiTrace
      cases findE s.ents id with
      | none => rfl
      | some c =>
        simp only []
        split_ifs
        · rfl
        · cases err with
          | none => rfl
          | some x => simp [hid]
  · rw [hlog, hs.log]; simp [recLog, recContrib, recContribI, Op.addr]

/-- the node part of a statistic callback -/
def statCore (s : St) (c : Ctx) (f : Node → Node) : St := if c.e.chain.std then onStat s c f else s

theorem statCore_ents (s : St) (c : Ctx) (f : Node → Node) : (statCore s c f).ents = s.ents := by
  unfold statCore onStat; split_ifs <;> rfl
theorem statCore_log (s : St) (c : Ctx) (f : Node → Node) : (statCore s c f).log = s.log := by
  unfold statCore onStat; split_ifs <;> rfl

theorem nodesOk_statCore {s ex ev ga T} (h : NodesOk s ex ev ga T) (c : Ctx) (f : Node → Node)
    (E : Int → List (Nat × Bucket)) (d : Int) (t : Nat) (hf : Acts f E d t) (hT : T ≤ t) :
    NodesOk (statCore s c f) ex
      (fun k => ev k ++ (if c.e.chain.std && ctxTouches c k then E (ga k) else []))
      (fun k => ga k + (if c.e.chain.std && ctxTouches c k then d else 0)) t :=
  nodesOk_stat h c f E d t hf hT

/-- `SentinelEntry.Exit` -/
theorem sim_exit {fix t0 h s} (hs : Sim fix t0 h s) (t id : Nat) (err : Option String) (hT : lastT t0 h ≤ t)
    (ht : 0 < t) : Sim fix t0 ((t, .exit id err) :: h) (apiExit s t id err) := by
  have he := hs.ents id
  have other : ∀ id', id ≠ id' → info ((t, Op.exit id err) :: h) id' = info h id' :=
    fun id' hne => info_exit_other _ _ _ _ _ hne
  cases hi : info h id with
  | none =>
    rw [hi] at he; simp only [Option.map] at he
    have hst : apiExit s t id err = s := by unfold apiExit; rw [he]
    rw [hst]
    refine ⟨?_, ?_, ?_⟩
    · apply nodesOk_congr (nodesOk_mono hs.nodes hT)
      · intro r; simp [nodeExists, nodeNewI, Op.addr]
      · intro k; simp [evs, contrib, contribI, Op.addr, hi]
      · intro k; simp [gauge, gaugeDelta, gaugeDeltaI, Op.addr, hi]
    · intro id'
      by_cases hid : id = id'
      · subst hid; rw [info_exit_none _ _ _ _ hi, he]; rfl
      · rw [other id' hid]; exact hs.ents id'
    · rw [hs.log]; simp [recLog, recContrib, recContribI, Op.addr, hi]
  | some i =>
    obtain ⟨ie, it0, ierr, idone⟩ := i
    rw [hi] at he; simp only [Option.map] at he
    cases idone with
    | true =>
      have hst : apiExit s t id err = s := by unfold apiExit; rw [he]; simp [ctxOf]
      rw [hst]
      refine ⟨?_, ?_, ?_⟩
      · apply nodesOk_congr (nodesOk_mono hs.nodes hT)
        · intro r; simp [nodeExists, nodeNewI, Op.addr]
        · intro k; simp [evs, contrib, contribI, Op.addr, hi]
        · intro k; simp [gauge, gaugeDelta, gaugeDeltaI, Op.addr, hi]
      · intro id'
        by_cases hid : id = id'
        · subst hid; rw [info_exit_some _ _ _ _ _ hi, he]; rfl
        · rw [other id' hid]; exact hs.ents id'
      · rw [hs.log]; simp [recLog, recContrib, recContribI, Op.addr, hi]
    | false =>
      have hnb : outcome ie.chain ≠ .block := by
        intro hb; have := info_block_done h id _ hi hb; simp at this
      let c1 : Ctx := { e := ie, start := it0, err := orErr err ierr, hasNode := attached ie.chain,
                        blocked := decide (outcome ie.chain = .block), exited := false }
      let f := recordComplete t ie.batch (t - it0) (orErr err ierr).isSome
      have hst : apiExit s t id err =
          { inb := (statCore s c1 f).inb, nodes := (statCore s c1 f).nodes,
            log := (statCore s c1 f).log ++ ie.chain.recs.map (fun k => RecEv.completed k ie.res ie.batch (orErr err ierr) (t - it0)),
            ents := (id, { c1 with exited := true }) :: (statCore s c1 f).ents } := by
        unfold apiExit; rw [he]
        simp [ctxOf, hnb, statCompleted, statCore, c1, f]
      rw [hst]
      refine ⟨?_, ?_, ?_⟩
      · refine nodesOk_ext (s := statCore s c1 f) ?_ rfl rfl
        apply nodesOk_congr (nodesOk_statCore hs.nodes c1 f _ (-1) t (acts_complete t ie.batch (t - it0) _ ht) hT)
        · intro r; simp [nodeExists, nodeNewI, Op.addr]
        · intro k
          have := touches_ctx ie c1 rfl rfl k
          simp [evs, contrib, contribI, Op.addr, hi, this, c1]
        · intro k
          have := touches_ctx ie c1 rfl rfl k
          simp [gauge, gaugeDelta, gaugeDeltaI, Op.addr, hi, this, c1]
      · intro id'
        by_cases hid : id = id'
        · subst hid; rw [info_exit_some _ _ _ _ _ hi]; simp [ctxOf, c1]
        · rw [other id' hid]; simp only [findE_cons, hid, if_false, statCore_ents]; exact hs.ents id'
      · simp only [statCore_log, hs.log]; simp [recLog, recContrib, recContribI, Op.addr, hi]

theorem chainEntry_eq (fix : Bool) (s : St) (c : Ctx) (t : Nat) :
    chainEntry fix s c t =
      (let s1 : St := if attached c.e.chain then { s with nodes := getOrCreate s.nodes c.e.res t } else s
       let c1 : Ctx := { c with hasNode := attached c.e.chain }
       match outcome c.e.chain with
       | .pass => (statPassed s1 c1 t, { c1 with blocked := false }, some .pass)
       | .block => (statBlocked s1 c1 t, { c1 with blocked := true }, some .block)
       | .panic => recoverPanic fix s1 c1 t) := by
  unfold chainEntry outcome attached
  cases h2 : (preRun c.e.chain.pre).2 <;> cases h3 : ruleOut c.e.chain.rules <;> simp [h2, h3]

/-- `api.Entry` -/
theorem sim_entry {fix t0 h s} (hs : Sim fix t0 h s) (t : Nat) (e : EntryOp) (hT : lastT t0 h ≤ t)
    (ht : 0 < t) : Sim fix t0 ((t, .entry e) :: h) (apiEntry fix s t e) := by
  have he := hs.ents e.id
  have other : ∀ id', e.id ≠ id' → info ((t, Op.entry e) :: h) id' = info h id' :=
    fun id' hne => info_entry_other _ _ _ _ hne
  cases hi : info h e.id with
  | some i =>
    rw [hi] at he; simp only [Option.map] at he
    have hst : apiEntry fix s t e = s := by unfold apiEntry; rw [he]
    rw [hst]
    refine ⟨?_, ?_, ?_⟩
    · apply nodesOk_congr (nodesOk_mono hs.nodes hT)
      · intro r; simp [nodeExists, nodeNewI, Op.addr, hi]
      · intro k; simp [evs, contrib, contribI, Op.addr, hi]
      · intro k; simp [gauge, gaugeDelta, gaugeDeltaI, Op.addr, hi]
    · intro id'
      by_cases hid : e.id = id'
      · subst hid; rw [info_entry_dup _ _ _ _ hi, he]; rfl
      · rw [other id' hid]; exact hs.ents id'
    · rw [hs.log]; simp [recLog, recContrib, recContribI, Op.addr, hi]
  | none =>
    rw [hi] at he; simp only [Option.map] at he
    -- the prepare phase
    let s1 : St := if attached e.chain then { s with nodes := getOrCreate s.nodes e.res t } else s
    have hN1 : NodesOk s1 (nodeExists ((t, Op.entry e) :: h)) (evs fix h) (gauge fix h) t := by
      by_cases ha : attached e.chain = true
      · have := nodesOk_getOrCreate hs.nodes e.res t hT (fun hn => noNode_empty fix h e.res hn)
        simp only [s1, ha, if_true]
        apply nodesOk_congr this
        · intro r; simp [nodeExists, nodeNewI, Op.addr, hi, ha, eq_comm]
        · intro k; rfl
        · intro k; rfl
      · simp only [s1, ha]
        apply nodesOk_congr (nodesOk_mono hs.nodes hT)
        · intro r; simp [nodeExists, nodeNewI, Op.addr, hi, ha]
        · intro k; rfl
        · intro k; rfl
    have hents1 : s1.ents = s.ents := by simp only [s1]; split_ifs <;> rfl
    have hlog1 : s1.log = s.log := by simp only [s1]; split_ifs <;> rfl
    let c1 : Ctx := { e := e, start := t, err := none, hasNode := attached e.chain, blocked := false, exited := false }
    have htc : ∀ (c : Ctx), c.e = e → c.hasNode = attached e.chain → ∀ k, touches e k = (e.chain.std && ctxTouches c k) :=
      fun c h1 h2 k => touches_ctx e c h1 h2 k
    have hinfo := info_entry_fresh t e h hi
    -- what `api.Entry` amounts to, per outcome of the chain
    cases ho : outcome e.chain with
    | pass =>
      let f := recordPass t e.batch
      have hst : apiEntry fix s t e =
          { inb := (statCore s1 c1 f).inb, nodes := (statCore s1 c1 f).nodes,
            log := (statCore s1 c1 f).log ++ e.chain.recs.map (fun k => RecEv.passed k e.res e.batch e.args),
            ents := (e.id, c1) :: (statCore s1 c1 f).ents } := by
        unfold apiEntry; rw [he]; simp only [chainEntry_eq, ho]
        simp [statPassed, statCore, s1, c1, f]
      rw [hst]
      refine ⟨?_, ?_, ?_⟩
      · refine nodesOk_ext (s := statCore s1 c1 f) ?_ rfl rfl
        apply nodesOk_congr (nodesOk_statCore hN1 c1 f _ 1 t (acts_pass t e.batch ht) (le_refl _))
        · intro r; rfl
        · intro k; have := htc c1 rfl rfl k; simp [evs, contrib, contribI, Op.addr, hi, this, ho, c1]
        · intro k; have := htc c1 rfl rfl k; simp [gauge, gaugeDelta, gaugeDeltaI, Op.addr, hi, this, ho, countsPass, c1]
      · intro id'
        by_cases hid : e.id = id'
        · subst hid; rw [hinfo]; simp [ctxOf, c1, ho]
        · rw [other id' hid]; simp only [findE_cons, hid, if_false, statCore_ents, hents1]; exact hs.ents id'
      · simp only [statCore_log, hlog1, hs.log]; simp [recLog, recContrib, recContribI, Op.addr, hi, ho]
    | block =>
      let f := recordBlock t e.batch
      have hst : apiEntry fix s t e =
          { inb := (statCore s1 c1 f).inb, nodes := (statCore s1 c1 f).nodes,
            log := (statCore s1 c1 f).log ++ e.chain.recs.map (fun k => RecEv.blocked k e.res e.batch),
            ents := (e.id, { c1 with blocked := true, exited := true }) :: (statCore s1 c1 f).ents } := by
        unfold apiEntry; rw [he]; simp only [chainEntry_eq, ho]
        simp [statBlocked, statCore, s1, c1, f]
      rw [hst]
      refine ⟨?_, ?_, ?_⟩
      · refine nodesOk_ext (s := statCore s1 c1 f) ?_ rfl rfl
        apply nodesOk_congr (nodesOk_statCore hN1 c1 f _ 0 t (acts_block t e.batch ht) (le_refl _))
        · intro r; rfl
        · intro k; have := htc c1 rfl rfl k; simp [evs, contrib, contribI, Op.addr, hi, this, ho, c1]
        · intro k; have := htc c1 rfl rfl k; simp [gauge, gaugeDelta, gaugeDeltaI, Op.addr, hi, this, ho, countsPass, c1]
      · intro id'
        by_cases hid : e.id = id'
        · subst hid; rw [hinfo]; simp [ctxOf, c1, ho]
        · rw [other id' hid]; simp only [findE_cons, hid, if_false, statCore_ents, hents1]; exact hs.ents id'
      · simp only [statCore_log, hlog1, hs.log]; simp [recLog, recContrib, recContribI, Op.addr, hi, ho]
    | panic =>
      let cP : Ctx := { c1 with err := some "panic" }
      cases fix with
      | true =>
        let f := recordPass t e.batch
        have hst : apiEntry true s t e =
            { inb := (statCore s1 cP f).inb, nodes := (statCore s1 cP f).nodes,
              log := (statCore s1 cP f).log ++ e.chain.recs.map (fun k => RecEv.passed k e.res e.batch e.args),
              ents := (e.id, cP) :: (statCore s1 cP f).ents } := by
          unfold apiEntry; rw [he]; simp only [chainEntry_eq, ho, recoverPanic]
          simp [statPassed, statCore, s1, c1, cP, f]
        rw [hst]
        refine ⟨?_, ?_, ?_⟩
        · refine nodesOk_ext (s := statCore s1 cP f) ?_ rfl rfl
          apply nodesOk_congr (nodesOk_statCore hN1 cP f _ 1 t (acts_pass t e.batch ht) (le_refl _))
          · intro r; rfl
          · intro k; have := htc cP rfl rfl k; simp [evs, contrib, contribI, Op.addr, hi, this, ho, cP, c1]
          · intro k; have := htc cP rfl rfl k; simp [gauge, gaugeDelta, gaugeDeltaI, Op.addr, hi, this, ho, countsPass, cP, c1]
        · intro id'
          by_cases hid : e.id = id'
          · subst hid; rw [hinfo]; simp [ctxOf, c1, cP, ho]
          · rw [other id' hid]; simp only [findE_cons, hid, if_false, statCore_ents, hents1]; exact hs.ents id'
        · simp only [statCore_log, hlog1, hs.log]; simp [recLog, recContrib, recContribI, Op.addr, hi, ho]
      | false =>
        have hst : apiEntry false s t e =
            { inb := s1.inb, nodes := s1.nodes, log := s1.log, ents := (e.id, cP) :: s1.ents } := by
          unfold apiEntry; rw [he]; simp only [chainEntry_eq, ho, recoverPanic]
          simp [s1, c1, cP]
        rw [hst]
        refine ⟨?_, ?_, ?_⟩
        · refine nodesOk_ext (s := s1) ?_ rfl rfl
          apply nodesOk_congr hN1
          · intro r; rfl
          · intro k; simp [evs, contrib, contribI, Op.addr, hi, ho]
          · intro k; simp [gauge, gaugeDelta, gaugeDeltaI, Op.addr, hi, ho, countsPass]
        · intro id'
          by_cases hid : e.id = id'
          · subst hid; rw [hinfo]; simp [ctxOf, c1, cP, ho]
          · rw [other id' hid]; simp only [findE_cons, hid, if_false, hents1]; exact hs.ents id'
        · simp only [hlog1, hs.log]; simp [recLog, recContrib, recContribI, Op.addr, hi, ho]

theorem sim_step {fix t0 h s} (hs : Sim fix t0 h s) (x : TOp) (hT : lastT t0 h ≤ x.1) (ht : 0 < x.1) :
    Sim fix t0 (x :: h) (step fix s x) := by
  obtain ⟨t, op⟩ := x
  cases op with
  | entry e => exact sim_entry hs t e hT ht
  | trace id err => exact sim_trace hs t id err hT
  | exit id err => exact sim_exit hs t id err hT ht

theorem t0_le_lastT (t0 : Nat) (h : List TOp) (hm : MonoR t0 h) : t0 ≤ lastT t0 h := by
  induction h with
  | nil => exact le_refl _
  | cons x r ih => exact le_trans (ih hm.2) hm.1

/-- the invariant holds after every time-monotone history -/
theorem sim_runR (fix : Bool) (t0 : Nat) (h : List TOp) (h0 : 0 < t0) (hm : MonoR t0 h) :
    Sim fix t0 h (runR fix t0 h) := by
  induction h with
  | nil => exact sim_init fix t0
  | cons x r ih =>
    have h1 := t0_le_lastT t0 r hm.2
    exact sim_step (ih hm.2) x hm.1 (by have := hm.1; omega)

/-! ## reading a node -/

theorem sum_filter_eq_readW (sl : List (Slot Bucket)) (p : Slot Bucket → Bool) (lo hi : Nat)
    (hp : ∀ s ∈ sl, (lo ≤ s.start ∧ s.start ≤ hi) → p s = true) :
    ((sl.filter fun s => p s && decide (lo ≤ s.start ∧ s.start ≤ hi)).map (·.val)).sum = readW sl lo hi := by
  unfold readW
  induction sl with
  | nil => rfl
  | cons s r ih =>
    have ihr := ih (fun s hs => hp s (List.mem_cons_of_mem _ hs))
    by_cases hw : lo ≤ s.start ∧ s.start ≤ hi
    · have := hp s (List.mem_cons_self ..) hw
      simp only [List.filter_cons, this, hw, decide_true, Bool.and_self, if_true, List.map_cons,
        List.sum_cons, and_self] at ihr ⊢
      rw [ihr]
    · simp only [List.filter_cons, hw, decide_false, Bool.and_false, List.map_cons,
        List.sum_cons, if_false, zero_add] at ihr ⊢
      simpa using ihr

/-- a view of interval `Iv ≤ 10 s` over a node that recorded `ev` reads the aligned-window reference over `ev` -/
theorem nodeOk_window {n ev g T} (h : NodeOk n ev g T) (now Iv : Nat) (hT : T ≤ now) (hpos : 0 < now)
    (hIv : Iv ≤ sampleCountTotal * bucketLen) :
    viewSum n.arr Iv now = refW bucketLen ev (cbs bucketLen now + bucketLen - Iv) (cbs bucketLen now) := by
  obtain ⟨hL, hn, _, tc, latest, inv, hl⟩ := h
  unfold viewSum viewVals rangeOf
  simp only [hL, hn, Nat.pos_iff_ne_zero.mp hpos, if_false]
  have hLpos : 0 < bucketLen := by decide
  have hc : cbs bucketLen now ≤ now := by unfold cbs; omega
  have hlt : now < cbs bucketLen now + bucketLen := by
    unfold cbs; have := Nat.mod_lt now hLpos; omega
  rw [sum_filter_eq_readW]
  · have he := inv.e (cbs bucketLen now + bucketLen - Iv) (cbs bucketLen now)
    rw [hL, hn] at he
    apply he
    have : cbs bucketLen latest ≤ cbs bucketLen now := cbs_mono _ (le_trans hl hT)
    omega
  · intro s _ hw
    unfold deprecated
    have : s.start ≤ now := le_trans hw.2 hc
    simp only [this, if_true]
    simp; omega

end Sentinel.Entry
