import Mathlib.Tactic
import Sentinel.Lemmas.Aggregator
/-!
# Aggregator, part B: the list plumbing of `currentMetricItems`, `aggregateIntoMap` and `writeTaskLoop`
-/
set_option linter.unusedSectionVars false
namespace Sentinel.AGG
open Sentinel.LA Sentinel.C08 Sentinel.Agg Sentinel.MetricLog

theorem active_zero : active (0 : Bucket) = false := by decide

theorem itemAt_cons (q : Nat × Bucket) (r : List (Nat × Bucket)) (sec : Nat) :
    itemAt (q :: r) sec = (if q.1 = sec then q.2 else 0) + itemAt r sec := by
  unfold itemAt
  by_cases hqp : q.1 = sec <;> simp [hqp]

/-- of a list with distinct seconds, the active items of second `sec` are the one item `(sec, itemAt l sec)`, or none -/
theorem filter_active_key (l : List (Nat × Bucket)) (hnd : (l.map (·.1)).Nodup) (sec : Nat) :
    (l.filter fun p => active p.2 && decide (p.1 = sec)) =
      if active (itemAt l sec) then [(sec, itemAt l sec)] else [] := by
  induction l with
  | nil => simp [itemAt, active_zero]
  | cons q r ih =>
    simp only [List.map_cons, List.nodup_cons] at hnd
    obtain ⟨hq, hr⟩ := hnd
    rw [itemAt_cons]
    by_cases hqs : q.1 = sec
    · have hz : itemAt r sec = 0 :=
        itemAt_eq_zero_of_no_key r sec (fun x hx hxe => hq (List.mem_map.mpr ⟨x, hx, by rw [hxe, hqs]⟩))
      have hnil : (r.filter fun p => active p.2 && decide (p.1 = sec)) = [] := by
        rw [List.filter_eq_nil_iff]
        intro x hx hp
        simp only [Bool.and_eq_true, decide_eq_true_eq] at hp
        exact hq (List.mem_map.mpr ⟨x, hx, by rw [hp.2, hqs]⟩)
      have hqe : q = (sec, q.2) := Prod.ext hqs rfl
      simp only [List.filter_cons, hqs, decide_true, Bool.and_true, if_true, hz, add_zero, hnil]
      by_cases ha : active q.2 = true
      · simp only [ha, if_true]; rw [hqe]
      · simp only [ha]; simp
    · have := ih hr
      simp only [List.filter_cons, hqs, decide_false, Bool.and_false, if_false, zero_add]
      simpa using this

theorem toItem_ts (res : Bytes) (cls : Int) (p : Nat × Bucket) : (toItem res cls p).ts = p.1 := rfl
theorem toItem_res (res : Bytes) (cls : Int) (p : Nat × Bucket) : (toItem res cls p).res = res := rfl

/-- every item a node contributes carries the node's name -/
theorem nodeItems_res (nd : Node) (now lo cur : Nat) : ∀ it ∈ nodeItems nd now lo cur, it.res = nd.res := by
  intro it hit
  unfold nodeItems at hit
  split_ifs at hit
  · simp at hit
  · obtain ⟨p, _, rfl⟩ := List.mem_map.mp hit
    rfl

/-- **`currentMetricItems` of one node, one second**: one item, built from what `secondItems` reports for that second,
    iff that payload is active -/
theorem nodeItems_filter (nd : Node) (now lo cur sec : Nat) (hcur : cur ≠ 0) :
    ((nodeItems nd now lo cur).filter fun it => decide (it.ts = sec)) =
      if active (itemAt (secondItems nd.a now lo (cur - 1)) sec)
      then [toItem nd.res nd.cls (sec, itemAt (secondItems nd.a now lo (cur - 1)) sec)] else [] := by
  unfold nodeItems
  simp only [hcur, if_false]
  rw [List.filter_map]
  have : (fun it : Item => decide (it.ts = sec)) ∘ toItem nd.res nd.cls = fun p => decide (p.1 = sec) := by
    funext p; rfl
  rw [this, List.filter_filter]
  have h2 := filter_active_key (secondItems nd.a now lo (cur - 1)) (secondItems_keys_nodup _ _ _ _) sec
  have h3 : (fun a : Nat × Bucket => decide (a.1 = sec) && active a.2) = fun p => active p.2 && decide (p.1 = sec) := by
    funext p; exact Bool.and_comm _ _
  rw [h3, h2]
  split_ifs <;> simp

/-! ## `sortedKeys` / `batches` -/

theorem mem_insertKey (k y : Nat) (l : List Nat) : y ∈ insertKey k l ↔ y = k ∨ y ∈ l := by
  induction l with
  | nil => simp [insertKey]
  | cons x r ih =>
    unfold insertKey
    split_ifs with h1 h2
    · simp
    · subst h2; simp
    · simp only [List.mem_cons, ih]; tauto

theorem sorted_insertKey (k : Nat) (l : List Nat) (h : l.Pairwise (· < ·)) : (insertKey k l).Pairwise (· < ·) := by
  induction l with
  | nil => simp [insertKey]
  | cons x r ih =>
    obtain ⟨hx, hr⟩ := List.pairwise_cons.mp h
    unfold insertKey
    split_ifs with h1 h2
    · refine List.pairwise_cons.mpr ⟨?_, h⟩
      intro y hy
      rcases List.mem_cons.mp hy with rfl | hy
      · exact h1
      · exact lt_trans h1 (hx y hy)
    · exact h
    · refine List.pairwise_cons.mpr ⟨?_, ih hr⟩
      intro y hy
      rcases (mem_insertKey k y r).mp hy with rfl | hy
      · omega
      · exact hx y hy

theorem sortedKeys_sorted (items : List Item) : (sortedKeys items).Pairwise (· < ·) := by
  induction items with
  | nil => simp [sortedKeys]
  | cons it r ih => exact sorted_insertKey it.ts _ ih

theorem mem_sortedKeys (items : List Item) (t : Nat) : t ∈ sortedKeys items ↔ ∃ it ∈ items, it.ts = t := by
  induction items with
  | nil => simp [sortedKeys]
  | cons it r ih =>
    have : sortedKeys (it :: r) = insertKey it.ts (sortedKeys r) := rfl
    rw [this, mem_insertKey, ih]
    constructor
    · rintro (rfl | ⟨x, hx, rfl⟩)
      · exact ⟨it, List.mem_cons_self .., rfl⟩
      · exact ⟨x, List.mem_cons_of_mem _ hx, rfl⟩
    · rintro ⟨x, hx, rfl⟩
      rcases List.mem_cons.mp hx with rfl | hx
      · exact Or.inl rfl
      · exact Or.inr ⟨x, hx, rfl⟩

theorem flatMap_single (keys : List Nat) (hnd : keys.Nodup) (sec : Nat) (X : List Item) :
    (keys.flatMap fun t => if t = sec then X else []) = if sec ∈ keys then X else [] := by
  induction keys with
  | nil => simp
  | cons k r ih =>
    obtain ⟨hk, hr⟩ := List.nodup_cons.mp hnd
    rw [List.flatMap_cons, ih hr]
    by_cases hks : k = sec
    · subst hks; simp [hk]
    · have : ¬ sec = k := fun h => hks h.symm
      simp [hks, this]

/-- all items handed to the writer by one drained map -/
def allItems (bs : List (Nat × List Item)) : List Item := bs.flatMap (·.2)

theorem allItems_append (a b : List (Nat × List Item)) : allItems (a ++ b) = allItems a ++ allItems b := by
  simp [allItems]

/-- **regrouping by second loses and duplicates nothing**: for any predicate that pins the second, the items written
    are the items collected -/
theorem batches_filter (items : List Item) (sec : Nat) (q : Item → Bool) :
    (allItems (batches items)).filter (fun it => decide (it.ts = sec) && q it) =
      items.filter (fun it => decide (it.ts = sec) && q it) := by
  unfold allItems batches
  rw [List.flatMap_map, List.filter_flatMap]
  have hstep : ∀ t, (List.filter (fun it => decide (it.ts = sec) && q it) (items.filter fun it => it.ts == t)) =
      if t = sec then items.filter (fun it => decide (it.ts = sec) && q it) else [] := by
    intro t
    rw [List.filter_filter]
    split_ifs with hts
    · subst hts
      apply List.filter_congr
      intro it _
      by_cases h : it.ts = t <;> simp [h]
    · rw [List.filter_eq_nil_iff]
      intro it _ hp
      simp only [Bool.and_eq_true, decide_eq_true_eq, beq_iff_eq] at hp
      exact hts (hp.2.symm.trans hp.1.1)
  simp only [hstep]
  rw [flatMap_single _ ((sortedKeys_sorted items).imp (fun h => Nat.ne_of_lt h)) sec]
  split_ifs with hm
  · rfl
  · symm
    rw [List.filter_eq_nil_iff]
    intro it hit hp
    simp only [Bool.and_eq_true, decide_eq_true_eq] at hp
    exact hm ((mem_sortedKeys items sec).mpr ⟨it, hit, hp.1⟩)

theorem batches_keys (items : List Item) : (batches items).map (·.1) = sortedKeys items := by
  unfold batches; rw [List.map_map]; simp [Function.comp_def]

/-- each `Write(t, items)` call carries a non-empty list of items of second `t` taken from the collected ones -/
theorem batches_mem (items : List Item) (b : Nat × List Item) (hb : b ∈ batches items) :
    b.2 ≠ [] ∧ (∀ it ∈ b.2, it ∈ items ∧ it.ts = b.1) := by
  unfold batches at hb
  obtain ⟨t, ht, rfl⟩ := List.mem_map.mp hb
  obtain ⟨it, hit, hts⟩ := (mem_sortedKeys items t).mp ht
  refine ⟨?_, ?_⟩
  · intro hnil
    have : it ∈ items.filter fun it => it.ts == t := List.mem_filter.mpr ⟨hit, by simpa using hts⟩
    have hnil' : (items.filter fun it => it.ts == t) = [] := hnil
    rw [hnil'] at this
    simp at this
  · intro x hx
    obtain ⟨h1, h2⟩ := List.mem_filter.mp hx
    exact ⟨h1, by simpa using h2⟩

/-! ## slots never start before the bucket of the creation time -/

theorem add_fence (a : Arr Bucket) (t : Nat) (x : Bucket) (m : Nat) (h : ∀ s ∈ a.slots, m ≤ s.start) :
    ∀ s ∈ (add a t x).1.slots, m ≤ s.start := by
  unfold add
  dsimp only
  cases hg : a.slots[idx a t]? with
  | none => simpa using h
  | some s0 =>
    have hs0 : s0 ∈ a.slots := List.mem_of_getElem? hg
    have hm0 := h s0 hs0
    simp only
    split_ifs with h1 h2 h3
    all_goals
      intro s hs
      try exact h s hs
    all_goals
      rcases List.mem_or_eq_of_mem_set hs with hs | rfl
      · exact h s hs
      · simp only; omega

theorem op_fence (a : Arr Bucket) (o : Op Bucket) (m : Nat) (h : ∀ s ∈ a.slots, m ≤ s.start) :
    ∀ s ∈ (o.apply a).slots, m ≤ s.start := by
  cases o with
  | add t x =>
    show ∀ s ∈ (addAt a t x).1.slots, m ≤ s.start
    unfold addAt
    split_ifs
    · exact h
    · exact add_fence a t x m h
  | refresh t =>
    show ∀ s ∈ (addAt a t 0).1.slots, m ≤ s.start
    unfold addAt
    split_ifs
    · exact h
    · exact add_fence a t 0 m h

theorem runOps_fence (a : Arr Bucket) (ops : List (Op Bucket)) (m : Nat) (h : ∀ s ∈ a.slots, m ≤ s.start) :
    ∀ s ∈ (runOps a ops).slots, m ≤ s.start := by
  induction ops generalizing a with
  | nil => exact h
  | cons o r ih => exact ih (o.apply a) (op_fence a o m h)

theorem mk_fence (n L now : Nat) : ∀ s ∈ (LA.mk n L now : Arr Bucket).slots, cbs L now ≤ s.start := by
  intro s hs
  simp only [LA.mk, List.mem_map, List.mem_range] at hs
  obtain ⟨j, _, rfl⟩ := hs
  simp only
  split_ifs <;> omega

end Sentinel.AGG
