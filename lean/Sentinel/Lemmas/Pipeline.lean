import Mathlib.Tactic
import Sentinel.Model.Pipeline
/-!
# Lemmas about the integrated pipeline model (`Sentinel.Pipe`)

1. the rule-check loop over the built-in slice: non-interference of the slots (`ruleLoop_builtin`), hence the decision is
   the first block of the modules' own verdicts on the pre-state (`entry_decision`) and the frame of every component;
2. the adapters are the module models' own steps (`isoAdmit_eq_step`, `hot_entry_eq`);
3. the ledger invariant (`Led`): `ent` is C01's `runR` of the ghost history, which is monotone and panic free.
-/
namespace Sentinel.Pipe
open Sentinel.LA

/-- the rule-check slice of the built-in chain, as `AddRuleCheckSlot` sorts it by the `Order()` constants -/
theorem ruleSlots_eq : ruleSlots = [.sys, .flow, .iso, .hot, .cb] := by decide

variable {R : Type}

/-! ## 1. the rule-check loop -/

section loop
variable [LT R] [∀ a b : R, Decidable (a < b)]

/-- the module verdict of slot `k` on the state **before** the entry: the module's own check function on the module's own
    component (for the flow model after the node-creating prepare slot) -/
def verdict (A : System.Arith R) (s : St R) (q : Req) : Slot → Option Blk
  | .sys => (System.check A q.inbound s.sysRules (sysView s)).map fun _ => Blk.sys
  | .flow => (FlowReject.checkList s.flow.ctrls (FlowReject.ensure s.flow.nodes q.res s.now) q.res s.now q.batch).map Blk.flow
  | .iso => (Iso.checkPass (Iso.rulesOf s.iso.rules (rname q.res)) (s.iso.gauge (rname q.res)) (UInt32.ofNat q.batch)).map
              fun p => Blk.iso p.1.idx p.2
  | .hot => if (HotConc.checkTcs (rname q.res) q.args q.atts s.hot.tcs).2 then some Blk.hot else none
  | .cb => (CB.checkPass (rname q.res) s.cb.now s.cb.brs).2.1.map Blk.cb

/-- first block in a slot order -/
def firstBlock (v : Slot → Option Blk) : List Slot → Option Blk
  | [] => none
  | k :: r => match v k with
    | some b => some b
    | none => firstBlock v r

/-- position of a slot in the built-in order -/
def Slot.pos : Slot → Nat
  | .sys => 0 | .flow => 1 | .iso => 2 | .hot => 3 | .cb => 4

/-- was slot `k` consulted, the decision being `d`? -/
def reached (d : Option Blk) (k : Slot) : Bool :=
  match d with
  | none => true
  | some b => decide (k.pos ≤ b.slot.pos)

theorem verdict_slot (A : System.Arith R) (s : St R) (q : Req) (k : Slot) (b : Blk) (h : verdict A s q k = some b) :
    b.slot = k := by
  cases k <;> simp only [verdict] at h
  · cases hc : System.check A q.inbound s.sysRules (sysView s) <;> simp [hc] at h; subst h; rfl
  · cases hc : FlowReject.checkList s.flow.ctrls (FlowReject.ensure s.flow.nodes q.res s.now) q.res s.now q.batch <;>
      simp [hc] at h; subst h; rfl
  · cases hc : Iso.checkPass (Iso.rulesOf s.iso.rules (rname q.res)) (s.iso.gauge (rname q.res)) (UInt32.ofNat q.batch) <;>
      simp [hc] at h; subst h; rfl
  · split_ifs at h; simp at h; subst h; rfl
  · cases hc : (CB.checkPass (rname q.res) s.cb.now s.cb.brs).2.1 <;> simp [hc] at h; subst h; rfl

theorem doEntry_dec (c : CB.Sys (Arr CB.Cnt)) (id : Nat) (res : String) :
    cbBlk (CB.doEntry c id res).2.dec = (CB.checkPass res c.now c.brs).2.1.map Blk.cb := by
  unfold CB.doEntry
  dsimp only
  cases (CB.checkPass res c.now c.brs).2.1 <;> rfl

/-- **non-interference**: the loop over the built-in slice computes the first block of the verdicts taken on the state it
    started from; the state it returns differs from it only in the components of the hotspot slot (cells touched by the
    check) and of the breaker slot (`CB.doEntry`), and only if those slots were reached. -/
theorem ruleLoop_builtin (A : System.Arith R) (s : St R) (q : Req) :
    ruleLoop A [.sys, .flow, .iso, .hot, .cb] (prepare s q) q =
      ({ prepare s q with
          hot := if reached (firstBlock (verdict A s q) [.sys, .flow, .iso, .hot, .cb]) .hot
                 then { s.hot with tcs := (HotConc.checkTcs (rname q.res) q.args q.atts s.hot.tcs).1 } else s.hot,
          cb := if reached (firstBlock (verdict A s q) [.sys, .flow, .iso, .hot, .cb]) .cb
                then (CB.doEntry s.cb q.id (rname q.res)).1 else s.cb,
          evs := if reached (firstBlock (verdict A s q) [.sys, .flow, .iso, .hot, .cb]) .cb
                 then s.evs ++ (CB.doEntry s.cb q.id (rname q.res)).2.evs else s.evs },
       firstBlock (verdict A s q) [.sys, .flow, .iso, .hot, .cb]) := by
  have key : ∀ s0 : St R, s0.hot = s.hot → s0.cb = s.cb → s0.evs = s.evs →
      checkSlot A .sys s0 q = (s0, verdict A s q .sys) →
      checkSlot A .flow s0 q = (s0, verdict A s q .flow) →
      checkSlot A .iso s0 q = (s0, verdict A s q .iso) →
      ruleLoop A [.sys, .flow, .iso, .hot, .cb] s0 q =
        ({ s0 with
            hot := if reached (firstBlock (verdict A s q) [.sys, .flow, .iso, .hot, .cb]) .hot
                   then { s.hot with tcs := (HotConc.checkTcs (rname q.res) q.args q.atts s.hot.tcs).1 } else s.hot,
            cb := if reached (firstBlock (verdict A s q) [.sys, .flow, .iso, .hot, .cb]) .cb
                  then (CB.doEntry s.cb q.id (rname q.res)).1 else s.cb,
            evs := if reached (firstBlock (verdict A s q) [.sys, .flow, .iso, .hot, .cb]) .cb
                   then s.evs ++ (CB.doEntry s.cb q.id (rname q.res)).2.evs else s.evs },
         firstBlock (verdict A s q) [.sys, .flow, .iso, .hot, .cb]) := by
    intro s0 hh hc he e1 e2 e3
    have e4 : checkSlot A .hot s0 q =
        ({ s0 with hot := { s.hot with tcs := (HotConc.checkTcs (rname q.res) q.args q.atts s.hot.tcs).1 } },
         verdict A s q .hot) := by
      simp only [checkSlot, verdict, hh]
    have same : ({ s0 with hot := s.hot, cb := s.cb, evs := s.evs } : St R) = s0 := by
      rw [← hh, ← hc, ← he]
    cases h1 : verdict A s q .sys with
    | some b =>
      have hs := verdict_slot A s q _ _ h1
      simp only [ruleLoop, e1, h1, firstBlock, reached, hs, Slot.pos]
      simp [same]
    | none =>
      cases h2 : verdict A s q .flow with
      | some b =>
        have hs := verdict_slot A s q _ _ h2
        simp only [ruleLoop, e1, e2, h1, h2, firstBlock, reached, hs, Slot.pos]
        simp [same]
      | none =>
        cases h3 : verdict A s q .iso with
        | some b =>
          have hs := verdict_slot A s q _ _ h3
          simp only [ruleLoop, e1, e2, e3, h1, h2, h3, firstBlock, reached, hs, Slot.pos]
          simp [same]
        | none =>
          cases h4 : verdict A s q .hot with
          | some b =>
            have hs := verdict_slot A s q _ _ h4
            simp only [ruleLoop, e1, e2, e3, e4, h1, h2, h3, h4, firstBlock, reached, hs, Slot.pos]
            simp [← hc, ← he]
          | none =>
            have e5 : (checkSlot A .cb { s0 with hot := { s.hot with tcs := (HotConc.checkTcs (rname q.res) q.args q.atts s.hot.tcs).1 } } q) =
                ({ s0 with hot := { s.hot with tcs := (HotConc.checkTcs (rname q.res) q.args q.atts s.hot.tcs).1 },
                           cb := (CB.doEntry s.cb q.id (rname q.res)).1,
                           evs := s.evs ++ (CB.doEntry s.cb q.id (rname q.res)).2.evs }, verdict A s q .cb) := by
              simp only [checkSlot, verdict, hc, he]
              rw [doEntry_dec]
            cases h5 : verdict A s q .cb with
            | some b =>
              have hs := verdict_slot A s q _ _ h5
              simp only [ruleLoop, e1, e2, e3, e4, e5, h1, h2, h3, h4, h5, firstBlock, reached, hs, Slot.pos]
              simp
            | none =>
              simp only [ruleLoop, e1, e2, e3, e4, e5, h1, h2, h3, h4, h5, firstBlock, reached]
              simp
  exact key (prepare s q) rfl rfl rfl rfl rfl rfl

/-- the decision of `api.Entry` on the global chain -/
theorem entry_decision (A : System.Arith R) (s : St R) (q : Req) :
    (entry A s q).2 = firstBlock (verdict A s q) [.sys, .flow, .iso, .hot, .cb] := by
  simp only [entry, ruleSlots_eq]
  rw [ruleLoop_builtin]

/-- the decision of the chain as a function of the pre-state: first block of the module verdicts in the built-in order -/
def decision (A : System.Arith R) (s : St R) (q : Req) : Option Blk :=
  firstBlock (verdict A s q) [.sys, .flow, .iso, .hot, .cb]

/-- the cells after the hotspot slot's check (`AddIfAbsent` of the selected values) -/
def hotChecked (s : St R) (q : Req) : HotConc.St :=
  { s.hot with tcs := (HotConc.checkTcs (rname q.res) q.args q.atts s.hot.tcs).1 }

theorem entry_snd (A : System.Arith R) (s : St R) (q : Req) : (entry A s q).2 = decision A s q := entry_decision A s q

theorem entry_fst (A : System.Arith R) (s : St R) (q : Req) :
    (entry A s q).1 =
      { statPhase { prepare s q with
                      hot := if reached (decision A s q) .hot then hotChecked s q else s.hot,
                      cb := if reached (decision A s q) .cb then (CB.doEntry s.cb q.id (rname q.res)).1 else s.cb,
                      evs := if reached (decision A s q) .cb then s.evs ++ (CB.doEntry s.cb q.id (rname q.res)).2.evs else s.evs }
                  q (decision A s q) with used := q.id :: s.used } := by
  simp only [entry, ruleSlots_eq]
  rw [ruleLoop_builtin]
  rfl

theorem reached_none (k : Slot) : reached none k = true := rfl

theorem entry_iso (A : System.Arith R) (s : St R) (q : Req) :
    (entry A s q).1.iso = if decision A s q = none then isoAdmit s.iso q.id (rname q.res) else s.iso := by
  rw [entry_fst]
  cases h : decision A s q <;> simp [statPhase, entStep, prepare]

theorem entry_hot (A : System.Arith R) (s : St R) (q : Req) :
    (entry A s q).1.hot =
      if decision A s q = none then hotAdmit (hotChecked s q) (toString q.id) (rname q.res) q.args q.atts
      else if reached (decision A s q) .hot then hotChecked s q else s.hot := by
  rw [entry_fst]
  cases h : decision A s q <;> simp [statPhase, entStep, prepare, reached_none]

theorem entry_cb (A : System.Arith R) (s : St R) (q : Req) :
    (entry A s q).1.cb = if reached (decision A s q) .cb then (CB.doEntry s.cb q.id (rname q.res)).1 else s.cb := by
  rw [entry_fst]
  cases h : decision A s q <;> simp [statPhase, entStep, prepare]

theorem entry_evs (A : System.Arith R) (s : St R) (q : Req) :
    (entry A s q).1.evs =
      if reached (decision A s q) .cb then s.evs ++ (CB.doEntry s.cb q.id (rname q.res)).2.evs else s.evs := by
  rw [entry_fst]
  cases h : decision A s q <;> simp [statPhase, entStep, prepare]

theorem entry_flow (A : System.Arith R) (s : St R) (q : Req) :
    (entry A s q).1.flow =
      flowStat { s.flow with nodes := FlowReject.ensure s.flow.nodes q.res s.now } q.res s.now q.batch (decision A s q).isSome := by
  rw [entry_fst]
  cases h : decision A s q <;> simp [statPhase, entStep, prepare]

theorem entry_ent (A : System.Arith R) (s : St R) (q : Req) :
    (entry A s q).1.ent = Entry.step false s.ent (s.now, entryOp q (decision A s q).isSome) ∧
    (entry A s q).1.eh = (s.now, entryOp q (decision A s q).isSome) :: s.eh := by
  rw [entry_fst]
  cases h : decision A s q <;> simp [statPhase, entStep, prepare]

theorem entry_reqs (A : System.Arith R) (s : St R) (q : Req) :
    (entry A s q).1.reqs = if decision A s q = none then q :: s.reqs else s.reqs := by
  rw [entry_fst]
  cases h : decision A s q <;> simp [statPhase, entStep, prepare]

theorem entry_static (A : System.Arith R) (s : St R) (q : Req) :
    (entry A s q).1.sysRules = s.sysRules ∧ (entry A s q).1.load = s.load ∧ (entry A s q).1.cpu = s.cpu ∧
    (entry A s q).1.now = s.now ∧ (entry A s q).1.t0 = s.t0 ∧ (entry A s q).1.started = s.started ∧
    (entry A s q).1.flowLoaded = s.flowLoaded ∧ (entry A s q).1.cbLoaded = s.cbLoaded ∧
    (entry A s q).1.ghosts = s.ghosts ∧ (entry A s q).1.used = q.id :: s.used := by
  rw [entry_fst]
  cases h : decision A s q <;> simp [statPhase, entStep, prepare]

theorem firstBlock_none (v : Slot → Option Blk) (l : List Slot) (h : firstBlock v l = none) : ∀ k ∈ l, v k = none := by
  induction l with
  | nil => intro k hk; cases hk
  | cons a r ih =>
    simp only [firstBlock] at h
    cases ha : v a with
    | some b => rw [ha] at h; cases h
    | none =>
      rw [ha] at h
      intro k hk
      rcases List.mem_cons.mp hk with rfl | hk
      · exact ha
      · exact ih h k hk

theorem firstBlock_some (v : Slot → Option Blk) (l : List Slot) (b : Blk) (h : firstBlock v l = some b) :
    ∃ k ∈ l, v k = some b ∧ ∀ j ∈ l.takeWhile (· ≠ k), v j = none := by
  induction l with
  | nil => cases h
  | cons a r ih =>
    simp only [firstBlock] at h
    cases ha : v a with
    | some c =>
      rw [ha] at h
      cases h
      exact ⟨a, List.mem_cons_self .., ha, by simp⟩
    | none =>
      rw [ha] at h
      obtain ⟨k, hk, hv, hbefore⟩ := ih h
      refine ⟨k, List.mem_cons_of_mem _ hk, hv, ?_⟩
      have hne : a ≠ k := fun e => by rw [e, hv] at ha; cases ha
      intro j hj
      simp only [List.takeWhile_cons, hne, ne_eq, not_false_eq_true, decide_true, ite_true] at hj
      rcases List.mem_cons.mp hj with rfl | hj
      · exact ha
      · exact hbefore j hj

/-- a block decision is the verdict of the slot it names -/
theorem decision_some (A : System.Arith R) (s : St R) (q : Req) (b : Blk) (h : decision A s q = some b) :
    verdict A s q b.slot = some b := by
  obtain ⟨k, _, hv, _⟩ := firstBlock_some _ _ _ h
  rw [verdict_slot A s q k b hv]
  exact hv

theorem decision_none (A : System.Arith R) (s : St R) (q : Req) (h : decision A s q = none) (k : Slot) :
    verdict A s q k = none :=
  firstBlock_none _ _ h k (by cases k <;> simp)

end loop


/-! ## 2. the adapters are the module models' own steps -/

theorem isoAdmit_eq_step (s : Iso.St) (id : Nat) (res : String) (b : UInt32)
    (hl : Iso.isLive s.live id = false) (hc : Iso.checkPass (Iso.rulesOf s.rules res) (s.gauge res) b = none) :
    Iso.step s (.entry id res b) = (isoAdmit s id res, .pass) := by
  simp [Iso.step, hl, hc, isoAdmit]

theorem isoBlock_eq_step (s : Iso.St) (id : Nat) (res : String) (b : UInt32) (r : Iso.Rule) (tv : UInt32)
    (hl : Iso.isLive s.live id = false) (hc : Iso.checkPass (Iso.rulesOf s.rules res) (s.gauge res) b = some (r, tv)) :
    Iso.step s (.entry id res b) = (s, .block r.idx tv) := by
  simp [Iso.step, hl, hc]

/-- `HotConc.entry` = the slot's check (cells touched) followed, on a pass, by the statistic slot's `+1` -/
theorem hot_entry_eq (s : HotConc.St) (id res : String) (args : List HotConc.Val) (atts : List (String × HotConc.Val))
    (hf : s.fb = []) :
    HotConc.entry s id res args atts =
      if (HotConc.checkTcs res args atts s.tcs).2 then
        ({ s with tcs := (HotConc.checkTcs res args atts s.tcs).1 }, HotConc.Res.blockHot)
      else (hotAdmit { s with tcs := (HotConc.checkTcs res args atts s.tcs).1 } id res args atts, HotConc.Res.pass) := by
  simp only [HotConc.entry, hf, hotAdmit]
  simp

/-- … and the touch alone is the first half (`HotConc.check`) of an entry that never commits -/
theorem hot_check_eq (s : HotConc.St) (id res : String) (args : List HotConc.Val) (atts : List (String × HotConc.Val))
    (hf : s.fb = []) :
    (HotConc.check s id res args atts).tcs = (HotConc.checkTcs res args atts s.tcs).1 ∧
    (HotConc.check s id res args atts).live = s.live := by
  simp [HotConc.check, hf]

end Sentinel.Pipe
