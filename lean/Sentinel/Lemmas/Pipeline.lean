import Mathlib.Tactic
import Sentinel.Model.Pipeline
/-! Lemmas about the integrated pipeline model (`Sentinel.Pipe`). -/
namespace Sentinel.Pipe

/-- the rule-check slice of the built-in chain, as `AddRuleCheckSlot` sorts it by the `Order()` constants -/
theorem ruleSlots_eq : ruleSlots = [.sys, .flow, .iso, .hot, .cb] := by decide

end Sentinel.Pipe
