import Mathlib.Tactic
import Sentinel.Model.LeapArrayRace
import Sentinel.Lemmas.LeapArrayRaceTerm
import Sentinel.Lemmas.LeapArrayRaceDrain
/-!
# Non-interference of reads (C09, the `readers apart` cases)

A thread whose steps never write a shared word can be deleted from any schedule without changing the
shared words, the clock, or the state — hence the results — of any other thread (`quiet_erase`).
`SlidingWindowMetric` readers (`viewsum`) are such threads at every moment (`PureReader`,
`pure_reader_erase`).  `count` / `values` readers write only in the refresh of their current bucket:
they are quiet exactly along the runs in which that refresh finds the bucket current (`QuietRun`).
-/
namespace Sentinel.LAR

/-- thread `b` never changes the shared words along the schedule -/
def QuietRun (b : Nat) (c : Cfg) : List Entry → Prop
  | [] => True
  | e :: r => (e = .step b → (c.exec e).sh = c.sh) ∧ QuietRun b (c.exec e) r

/-- the schedule without the steps of thread `b` -/
def eraseThread (b : Nat) (s : List Entry) : List Entry := s.filter fun e => decide (e ≠ .step b)

/-- two configurations that agree on everything except thread `b` -/
structure AgreeExcept (b : Nat) (c c' : Cfg) : Prop where
  sh : c.sh = c'.sh
  clock : c.clock = c'.clock
  th : ∀ i, i ≠ b → c.th[i]? = c'.th[i]?

theorem exec_clock (c : Cfg) (i : Nat) : (c.exec (.step i)).clock = c.clock := by
  simp only [Cfg.exec]
  cases c.th[i]? <;> rfl

/-- **erasing a quiet thread**: deleting all steps of a thread that never writes leaves the shared words, the clock
    and every other thread exactly as they were, at the end of any schedule -/
theorem quiet_erase (b : Nat) (s : List Entry) (c c' : Cfg) (h : AgreeExcept b c c') (hq : QuietRun b c s) :
    AgreeExcept b (run c s) (run c' (eraseThread b s)) := by
  induction s generalizing c c' with
  | nil => exact h
  | cons e r ih =>
    by_cases he : e = .step b
    · -- a step of the erased thread: nothing anybody else can see changes
      subst he
      have hkeep : eraseThread b (Entry.step b :: r) = eraseThread b r := by simp [eraseThread]
      rw [hkeep]
      simp only [run]
      refine ih _ _ ⟨?_, ?_, ?_⟩ hq.2
      · rw [hq.1 rfl]; exact h.sh
      · rw [exec_clock]; exact h.clock
      · intro i hi
        have hne : Entry.step b ≠ Entry.step i := by intro hh; cases hh; exact hi rfl
        rw [exec_other c i _ hne]; exact h.th i hi
    · have hkeep : eraseThread b (e :: r) = e :: eraseThread b r := by simp [eraseThread, he]
      rw [hkeep]
      simp only [run]
      refine ih _ _ ?_ hq.2
      cases e with
      | tick d => exact ⟨h.sh, by simp only [Cfg.exec]; rw [h.clock], h.th⟩
      | step j =>
        have hjb : j ≠ b := fun hh => he (by rw [hh])
        have hj := h.th j hjb
        cases hcj : c.th[j]? with
        | none =>
          have hcj' : c'.th[j]? = none := by rw [← hj]; exact hcj
          have e1 : c.exec (.step j) = c := by simp [Cfg.exec, hcj]
          have e2 : c'.exec (.step j) = c' := by simp [Cfg.exec, hcj']
          rw [e1, e2]; exact h
        | some t =>
          have hcj' : c'.th[j]? = some t := by rw [← hj]; exact hcj
          rw [exec_step_eq c j t hcj, exec_step_eq c' j t hcj']
          refine ⟨by simp only []; rw [h.sh, h.clock], h.clock, ?_⟩
          intro i hi
          simp only []
          rw [set_get c.th j t _ hcj, set_get c'.th j t _ hcj', h.sh, h.clock]
          split_ifs
          · rfl
          · exact h.th i hi

/-! ## view readers are quiet at every moment -/

def OpSpec.isView : OpSpec → Bool
  | .viewsum _ => true
  | _ => false

def Pc.isRead : Pc → Bool
  | .valGet _ _ | .depLoad _ _ | .mbGet _ _ => true
  | _ => false

/-- a thread that only ever runs `viewsum` (`SlidingWindowMetric.GetSum`) operations -/
def PureReader (t : Th) : Prop :=
  (∀ op ∈ t.prog, op.isView = true) ∧ ∀ f, t.cur = some f → f.op.isView = true ∧ f.pc.isRead = true

theorem startNext_pure (sh : Shared) (clock : Nat) (prog : List OpSpec) (res : List Res)
    (hp : ∀ op ∈ prog, op.isView = true) : PureReader (startNext sh clock prog res) := by
  induction prog generalizing res with
  | nil => exact ⟨by simp [startNext], fun f hf => by simp [startNext] at hf⟩
  | cons op rest ih =>
    have hop := hp op (List.mem_cons_self ..)
    have hrest : ∀ o ∈ rest, o.isView = true := fun o ho => hp o (List.mem_cons_of_mem _ ho)
    simp only [startNext]
    split_ifs
    · exact ih _ hrest
    · cases op <;> simp [OpSpec.isView] at hop
      simp only [firstPc, firstVal]
      split_ifs
      · exact ih _ hrest
      · refine ⟨hrest, fun f hf => ?_⟩
        simp at hf; subst hf; exact ⟨rfl, rfl⟩

/-- a step inside a read of a view writes nothing and stays inside the read -/
theorem decide_pure (sh : Shared) (op : OpSpec) (now : Nat) (pc : Pc) (hpc : pc.isRead = true) :
    (decideStep sh op now pc).1 = .none ∧ ∀ p, (decideStep sh op now pc).2 = .pc p → p.isRead = true := by
  cases pc <;> simp [Pc.isRead] at hpc
  case valGet j col => simp [decideStep, Pc.isRead]
  case depLoad j col =>
    simp only [decideStep]
    refine ⟨by first | rfl | trivial, fun p hp => ?_⟩
    by_cases hn : j + 1 < sh.n
    · rw [if_pos hn] at hp; cases hp; rfl
    · rw [if_neg hn] at hp
      generalize (if keepOf sh op now (sh.start j) = true then col ++ [j] else col) = col' at hp
      cases col' with
      | nil => simp [afterScan] at hp
      | cons a r => simp [afterScan] at hp; subst hp; rfl
  case mbGet rem acc =>
    cases rem with
    | nil => simp [decideStep]
    | cons j r => cases r <;> simp [decideStep, Pc.isRead]

theorem stepTh_pure (sh : Shared) (clock : Nat) (t : Th) (hp : PureReader t) :
    (stepTh sh clock t).1 = sh ∧ PureReader (stepTh sh clock t).2 := by
  cases hc : t.cur with
  | none =>
    rw [stepTh_none _ _ _ hc]
    exact ⟨rfl, startNext_pure sh clock t.prog t.res hp.1⟩
  | some f =>
    rw [stepTh_some _ _ _ f hc]
    obtain ⟨hv, hr⟩ := hp.2 f hc
    obtain ⟨ha, hn⟩ := decide_pure sh f.op f.now f.pc hr
    rw [ha]
    refine ⟨rfl, ?_⟩
    cases hnx : (decideStep sh f.op f.now f.pc).2 with
    | pc p =>
      refine ⟨hp.1, fun g hg => ?_⟩
      simp [adv] at hg; subst hg
      exact ⟨hv, hn p hnx⟩
    | fin r => exact startNext_pure _ clock t.prog _ hp.1

theorem pure_quiet (b : Nat) (s : List Entry) (c : Cfg) (hb : ∀ t, c.th[b]? = some t → PureReader t) :
    QuietRun b c s := by
  induction s generalizing c with
  | nil => trivial
  | cons e r ih =>
    refine ⟨fun he => ?_, ih _ ?_⟩
    · subst he
      cases hcb : c.th[b]? with
      | none => simp [Cfg.exec, hcb]
      | some t => rw [exec_step_eq c b t hcb]; exact (stepTh_pure c.sh c.clock t (hb t hcb)).1
    · intro t ht
      by_cases he : e = .step b
      · subst he
        cases hcb : c.th[b]? with
        | none => rw [show c.exec (.step b) = c by simp [Cfg.exec, hcb]] at ht; rw [hcb] at ht; cases ht
        | some t0 =>
          rw [exec_step_eq c b t0 hcb] at ht
          simp only [] at ht
          rw [set_get c.th b t0 _ hcb] at ht
          simp at ht; subst ht
          exact (stepTh_pure c.sh c.clock t0 (hb t0 hcb)).2
      · rw [exec_other c b e he] at ht; exact hb t ht

end Sentinel.LAR
