import Sentinel.Lemmas.Breaker
/-!
# Breaker lemmas about (re)loads: which old breakers a `build` keeps

`keptIds` follows the real builder (same skeleton as `build` / `donorIds`) and lists the identities of the old
breakers that are picked as *equal* (kept untouched).  `build_keeps`: such a breaker is in the new list, as it
was.  `build_mem_eqv`: conversely every old breaker in the new list was picked by a rule `eqv` to its own.
`IdInv`: identities stay distinct and below `next` along any history.
-/
namespace Sentinel.CB
open Sentinel.LA

section reload
variable {W : Type}

/-- identities of the old breakers that `build` keeps as they are (picked as the equal candidate of some rule) -/
def keptIds : List Rule → List (Brk W) → List Nat
  | [], _ => []
  | r :: rs, old =>
    match reuseIdx r old 0 none with
    | (some i, _) =>
      match old[i]? with
      | some c => c.id :: keptIds rs (old.eraseIdx i)
      | none => keptIds rs old
    | (none, some j) =>
      match old[j]? with
      | some _ => keptIds rs (old.eraseIdx j)
      | none => keptIds rs old
    | (none, none) => keptIds rs old

/-- the equal index returned by `calculateReuseIndexFor` points at an old breaker whose rule is `eqv` to the new one -/
theorem reuseIdx_eq (r : Rule) (l : List (Brk W)) (i : Nat) (acc e : Option Nat) (j : Nat)
    (h : reuseIdx r l i acc = (some j, e)) : i ≤ j ∧ ∃ c, l[j - i]? = some c ∧ c.rule.eqv r = true := by
  induction l generalizing i acc with
  | nil => simp [reuseIdx] at h
  | cons c cs ih =>
    simp only [reuseIdx] at h
    split_ifs at h with h1 h2
    · simp only [Prod.mk.injEq, Option.some.injEq] at h
      obtain ⟨rfl, _⟩ := h
      exact ⟨le_refl _, c, by simp, h1⟩
    · obtain ⟨hle, c', hc', he⟩ := ih _ _ h
      refine ⟨by omega, c', ?_, he⟩
      have : j - i = (j - (i + 1)) + 1 := by omega
      rw [this]; simpa using hc'
    · obtain ⟨hle, c', hc', he⟩ := ih _ _ h
      refine ⟨by omega, c', ?_, he⟩
      have : j - i = (j - (i + 1)) + 1 := by omega
      rw [this]; simpa using hc'

/-- a breaker whose identity is in `keptIds` is in the new list, untouched -/
theorem build_keeps (ops : Rule → WinOps W) (now : Nat) (rules : List Rule) (old : List (Brk W)) (next k : Nat)
    (hk : k ∈ keptIds rules old) : ∃ b ∈ old, b.id = k ∧ b ∈ build ops now rules old next := by
  induction rules generalizing old next with
  | nil => simp [keptIds] at hk
  | cons r rs ih =>
    simp only [keptIds] at hk
    simp only [build]
    have lift : ∀ (old' : List (Brk W)) (nx : Nat), (∀ x ∈ old', x ∈ old) → k ∈ keptIds rs old' →
        ∀ (hd : List (Brk W)), ∃ b ∈ old, b.id = k ∧ b ∈ hd ++ build ops now rs old' nx := by
      intro old' nx hsub hk' hd
      obtain ⟨b, hb, hbk, hbb⟩ := ih old' nx hk'
      exact ⟨b, hsub b hb, hbk, List.mem_append_right _ hbb⟩
    rcases hre : reuseIdx r old 0 none with ⟨e, j⟩
    rw [hre] at hk
    cases e with
    | some i =>
      dsimp only at hk ⊢
      cases hc : old[i]? with
      | none => rw [hc] at hk; simpa using lift old (next+1) (fun _ h => h) hk []
      | some c =>
        rw [hc] at hk
        dsimp only at hk ⊢
        rcases List.mem_cons.mp hk with rfl | hk'
        · exact ⟨c, getElem?_mem' hc, rfl, List.mem_cons_self ..⟩
        · simpa using lift _ (next+1) (fun x hx => List.mem_of_mem_eraseIdx hx) hk' [c]
    | none =>
      cases j with
      | none =>
        dsimp only at hk ⊢
        simpa using lift old (next+1) (fun _ h => h) hk [_]
      | some j =>
        dsimp only at hk ⊢
        cases hc : old[j]? with
        | none => rw [hc] at hk; simpa using lift old (next+1) (fun _ h => h) hk []
        | some c =>
          rw [hc] at hk
          dsimp only at hk ⊢
          simpa using lift _ (next+1) (fun x hx => List.mem_of_mem_eraseIdx hx) hk [_]

/-- every breaker after a (re)load is an old one picked by a rule `eqv` to its own, or a new, closed one -/
theorem build_mem_eqv (ops : Rule → WinOps W) (now : Nat) (rules : List Rule) (old : List (Brk W)) (next : Nat) :
    ∀ b ∈ build ops now rules old next,
      (b ∈ old ∧ ∃ r ∈ rules, b.rule.eqv r = true) ∨ (b.st = .closed ∧ next ≤ b.id) := by
  induction rules generalizing old next with
  | nil => intro b hb; simp [build] at hb
  | cons r rs ih =>
    intro b hb
    simp only [build] at hb
    have lift : ∀ (old' : List (Brk W)), (∀ x ∈ old', x ∈ old) → b ∈ build ops now rs old' (next+1) →
        (b ∈ old ∧ ∃ r' ∈ r :: rs, b.rule.eqv r' = true) ∨ (b.st = .closed ∧ next ≤ b.id) := by
      intro old' hsub hb'
      rcases ih old' (next+1) b hb' with ⟨h, r', hr', he⟩ | ⟨h1, h2⟩
      · exact Or.inl ⟨hsub b h, r', List.mem_cons_of_mem _ hr', he⟩
      · exact Or.inr ⟨h1, by omega⟩
    rcases hre : reuseIdx r old 0 none with ⟨e, j⟩
    rw [hre] at hb
    cases e with
    | some i =>
      dsimp only at hb
      cases hc : old[i]? with
      | none => rw [hc] at hb; exact lift old (fun _ h => h) hb
      | some c =>
        rw [hc] at hb
        rcases List.mem_cons.mp hb with rfl | hb'
        · obtain ⟨_, c', hc', he⟩ := reuseIdx_eq r old 0 none j i hre
          simp only [Nat.sub_zero] at hc'
          rw [hc] at hc'; cases hc'
          exact Or.inl ⟨getElem?_mem' hc, r, List.mem_cons_self .., he⟩
        · exact lift _ (fun x hx => List.mem_of_mem_eraseIdx hx) hb'
    | none =>
      cases j with
      | none =>
        dsimp only at hb
        rcases List.mem_cons.mp hb with rfl | hb'
        · exact Or.inr ⟨rfl, le_refl _⟩
        · exact lift old (fun _ h => h) hb'
      | some j =>
        dsimp only at hb
        cases hc : old[j]? with
        | none => rw [hc] at hb; exact lift old (fun _ h => h) hb
        | some c =>
          rw [hc] at hb
          rcases List.mem_cons.mp hb with rfl | hb'
          · exact Or.inr ⟨rfl, le_refl _⟩
          · exact lift _ (fun x hx => List.mem_of_mem_eraseIdx hx) hb'

theorem mem_eraseIdx_of_ne {α : Type} {l : List α} {i : Nat} {c b : α} (hc : l[i]? = some c) (hb : b ∈ l)
    (hne : b ≠ c) : b ∈ l.eraseIdx i := by
  induction l generalizing i with
  | nil => cases hb
  | cons a r ih =>
    cases i with
    | zero =>
      simp only [List.getElem?_cons_zero, Option.some.injEq] at hc
      subst hc
      rcases List.mem_cons.mp hb with rfl | hb'
      · exact absurd rfl hne
      · simpa using hb'
    | succ j =>
      simp only [List.getElem?_cons_succ] at hc
      simp only [List.eraseIdx_cons_succ, List.mem_cons]
      rcases List.mem_cons.mp hb with rfl | hb'
      · exact Or.inl rfl
      · exact Or.inr (ih hc hb')

theorem reuseIdx_some_of_mem (r : Rule) (l : List (Brk W)) (i : Nat) (acc : Option Nat)
    (h : ∃ c ∈ l, c.rule.eqv r = true) : ∃ j e, reuseIdx r l i acc = (some j, e) := by
  induction l generalizing i acc with
  | nil => obtain ⟨c, hc, _⟩ := h; cases hc
  | cons a cs ih =>
    simp only [reuseIdx]
    by_cases h1 : a.rule.eqv r = true
    · rw [if_pos h1]; exact ⟨i, acc, rfl⟩
    · rw [if_neg h1]
      have h' : ∃ c ∈ cs, c.rule.eqv r = true := by
        obtain ⟨c, hc, he⟩ := h
        rcases List.mem_cons.mp hc with rfl | hc'
        · exact absurd he h1
        · exact ⟨c, hc', he⟩
      split_ifs
      · exact ih _ _ h'
      · exact ih _ _ h'

/-- a simple sufficient condition for being kept: some rule of the new list is `eqv` to the breaker's rule, no rule of
    the list wants its statistic without being `eqv` to it (otherwise an earlier rule may take the statistic and the
    breaker is dropped — C14's `reuse-steals-controller`), and no other old breaker is `eqv` to a rule that the breaker
    is `eqv` to (otherwise the first of them in the old order is kept) -/
theorem keptIds_of_sole_eqv (rules : List Rule) (old : List (Brk W)) (b : Brk W) (hb : b ∈ old)
    (hex : ∃ r ∈ rules, b.rule.eqv r = true)
    (hns : ∀ r' ∈ rules, b.rule.statReusable r' = true → b.rule.eqv r' = true)
    (hsole : ∀ c ∈ old, ∀ r' ∈ rules, c.rule.eqv r' = true → b.rule.eqv r' = true → c = b) :
    b.id ∈ keptIds rules old := by
  induction rules generalizing old with
  | nil => obtain ⟨r, hr, _⟩ := hex; cases hr
  | cons r' rs ih =>
    simp only [keptIds]
    have hns' : ∀ q ∈ rs, b.rule.statReusable q = true → b.rule.eqv q = true :=
      fun q hq => hns q (List.mem_cons_of_mem _ hq)
    by_cases hbe : b.rule.eqv r' = true
    · obtain ⟨j, e, hre⟩ := reuseIdx_some_of_mem r' old 0 none ⟨b, hb, hbe⟩
      obtain ⟨_, c, hc, hce⟩ := reuseIdx_eq r' old 0 none e j hre
      simp only [Nat.sub_zero] at hc
      have hcb : c = b := hsole c (getElem?_mem' hc) r' (List.mem_cons_self ..) hce hbe
      rw [hre]; dsimp only; rw [hc]; dsimp only
      rw [hcb]; exact List.mem_cons_self ..
    · have hex' : ∃ r ∈ rs, b.rule.eqv r = true := by
        obtain ⟨r, hr, he⟩ := hex
        rcases List.mem_cons.mp hr with rfl | hr'
        · exact absurd he hbe
        · exact ⟨r, hr', he⟩
      have cont : ∀ (old' : List (Brk W)), b ∈ old' → (∀ x ∈ old', x ∈ old) → b.id ∈ keptIds rs old' :=
        fun old' hb' hsub => ih old' hb' hex' hns'
          (fun c hc q hq => hsole c (hsub c hc) q (List.mem_cons_of_mem _ hq))
      rcases hre : reuseIdx r' old 0 none with ⟨e, j⟩
      cases e with
      | some i =>
        dsimp only
        cases hc : old[i]? with
        | none => exact cont old hb (fun _ h => h)
        | some c =>
          dsimp only
          obtain ⟨_, c', hc', hce⟩ := reuseIdx_eq r' old 0 none j i hre
          simp only [Nat.sub_zero] at hc'
          rw [hc] at hc'; cases hc'
          have hne : b ≠ c := fun h => hbe (by rw [h]; exact hce)
          exact List.mem_cons_of_mem _ (cont _ (mem_eraseIdx_of_ne hc hb hne) (fun x hx => List.mem_of_mem_eraseIdx hx))
      | none =>
        cases j with
        | none => exact cont old hb (fun _ h => h)
        | some j =>
          dsimp only
          cases hc : old[j]? with
          | none => exact cont old hb (fun _ h => h)
          | some c =>
            dsimp only
            rcases reuseIdx_sr r' old 0 none none j hre with hacc | ⟨_, c', hc', hsr⟩
            · cases hacc
            · simp only [Nat.sub_zero] at hc'
              rw [hc] at hc'; cases hc'
              have hne : b ≠ c := fun h => hbe (hns r' (List.mem_cons_self ..) (by rw [h]; exact hsr))
              exact cont _ (mem_eraseIdx_of_ne hc hb hne) (fun x hx => List.mem_of_mem_eraseIdx hx)

/-- identities are pairwise distinct and below `next` -/
structure IdInv (s : Sys W) : Prop where
  nd : (s.brs.map (·.id)).Nodup
  lt : ∀ b ∈ s.brs, b.id < s.next

theorem step_idInv (ops : Rule → WinOps W) (s : Sys W) (o : Op) (inv : IdInv s) : IdInv (step ops s o).1 := by
  -- reuse the listener-log invariant with the state map read off the breakers
  let m : Nat → St := fun k => ((s.brs.find? fun b => b.id == k).map (·.st)).getD .closed
  have hag : Agree m s.brs := by
    intro b hb
    show ((s.brs.find? fun c => c.id == b.id).map (·.st)).getD .closed = b.st
    cases hf : s.brs.find? (fun c => c.id == b.id) with
    | none =>
      have := List.find?_eq_none.mp hf b hb
      simp at this
    | some c =>
      have hc := List.mem_of_find?_eq_some hf
      have hid : c.id = b.id := by simpa using List.find?_some hf
      have : c = b := List.inj_on_of_nodup_map inv.nd hc hb hid
      simp [this]
  have hfr : ∀ k, s.next ≤ k → m k = .closed := by
    intro k hk
    show ((s.brs.find? fun c => c.id == k).map (·.st)).getD .closed = .closed
    cases hf : s.brs.find? (fun c => c.id == k) with
    | none => rfl
    | some c =>
      have hc := List.mem_of_find?_eq_some hf
      have hid : c.id = k := by simpa using List.find?_some hf
      have := inv.lt c hc
      omega
  obtain ⟨_, _, h⟩ := step_replay ops s o m ⟨inv.nd, hag, inv.lt, hfr⟩
  exact ⟨h.nd, h.lt⟩

end reload
end Sentinel.CB
