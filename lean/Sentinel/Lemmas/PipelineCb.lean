import Mathlib.Tactic
import Sentinel.Lemmas.PipelineHist
import Sentinel.Props.C03
/-!
# The breaker component of the integrated pipeline moves by the breaker model's own functions only

Every pipeline op changes `cb` by zero or one **move of the breaker model** (`cbApply`: a clock step, `CB.doEntry`,
`CB.doExit` — the stable core functions of `Model/Breaker.lean`); `cbApply_eq_step` is the *only* place where the op
constructors of `CB.Op` are mentioned (whatever extra fields `CB.Op.entry` carries, `CB.step` ignores them:
`Sentinel.C03.batch_irrelevant`).  Hence C03's `step_keeps_open` / `open_blocks_resource` apply op by op along any
integrated history (`step_keeps_open_integrated`).

Interface used from C03: `OpenUntil`, `step_keeps_open` (first conjunct only), `open_blocks_resource`.
-/
namespace Sentinel.Pipe
open Sentinel.LA Sentinel.C03

/-- one move of the breaker model, in terms of its core functions -/
inductive CbMove
  | clock (t : Nat)
  | entry (id : Nat) (res : String)
  | exit (id : Nat) (err : Bool)
deriving DecidableEq, Repr

/-- apply a move with the code-shaped store -/
def cbApply (c : CB.Sys (Arr CB.Cnt)) : CbMove → CB.Sys (Arr CB.Cnt) × CB.Out
  | .clock t => ({ c with now := t }, {})
  | .entry id res => CB.doEntry c id res
  | .exit id err => CB.doExit CB.laOps c id err

/-- the op of the breaker model's own language a move is (batch count: the default; the machine ignores it) -/
def CbMove.toOp : CbMove → CB.Op
  | .clock t => .clock t
  | .entry id res => .entry id res
  | .exit id err => .exit id err

/-- the bridge to the breaker model's op language — the only mention of `CB.Op`'s constructors -/
theorem cbApply_eq_step (c : CB.Sys (Arr CB.Cnt)) (m : CbMove) : cbApply c m = CB.step CB.laOps c m.toOp := by
  cases m <;> rfl

theorem doEntry_now {W : Type} (c : CB.Sys W) (id : Nat) (res : String) : (CB.doEntry c id res).1.now = c.now := by
  simp only [CB.doEntry]
  split <;> rfl

theorem doExit_now {W : Type} (ops : CB.Rule → CB.WinOps W) (c : CB.Sys W) (id : Nat) (err : Bool) :
    (CB.doExit ops c id err).1.now = c.now := by
  simp only [CB.doExit]
  split <;> rfl

variable {R : Type} [LT R] [∀ a b : R, Decidable (a < b)]

/-- the breaker-model move a pipeline op amounts to (`none`: the breaker component is not touched): a clock step, an entry
    that **reaches** the breaker slot, an exit (with the error the context carries) -/
def cbMove (A : System.Arith R) (s : St R) : Op R → Option CbMove
  | .clock t => if t = 0 ∨ (s.started = true ∧ t < s.now) then none else some (.clock t)
  | .entry q =>
    if !s.started || usedId s q.id then none
    else if reached (decision A s q) .cb then some (.entry q.id (rname q.res)) else none
  | .exit id err => if !s.started then none else some (.exit id (ctxErr s id err))
  | _ => none

/-- **projection onto the breaker module** (step form): unless breakers are being loaded, the breaker component after a
    pipeline op is the breaker model's own move on the projected op, and the listener log grows by that move's events -/
theorem step_cb (A : System.Arith R) (s : St R) (o : Op R) (hl : ∀ rs, o = .loadCb rs → s.cbLoaded = true) :
    (step A s o).1.cb = (match cbMove A s o with | some m => (cbApply s.cb m).1 | none => s.cb) ∧
    (o ≠ .log → (step A s o).1.evs =
      s.evs ++ (match cbMove A s o with | some m => (cbApply s.cb m).2.evs | none => [])) := by
  cases o with
  | clock t =>
    simp only [step, cbMove]
    by_cases h0 : t = 0
    · simp [h0]
    · by_cases hs : s.started = true
      · by_cases hlt : t < s.now
        · simp [h0, hs, hlt]
        · simp [h0, hs, hlt, cbApply]
      · have hs' : s.started = false := by simpa using hs
        simp [h0, hs', cbApply]
  | loadSys rs => simp only [step, cbMove]; split_ifs <;> simp
  | loadFlow rs =>
    simp only [step, cbMove]
    split_ifs
    · simp
    · have hg := ghostNodes_frame rs s
      simp [loadFlow, hg.2.2.1, hg.2.2.2.2.1]
  | loadIso rs => simp only [step, cbMove]; split_ifs <;> simp
  | loadHot rs => simp only [step, cbMove]; split_ifs <;> simp
  | loadCb rs =>
    have := hl rs rfl
    simp [step, cbMove, this]
  | sysLoad x => simp [step, cbMove]
  | sysCpu x => simp [step, cbMove]
  | trace id => simp only [step, cbMove]; split_ifs <;> simp [trace, entStep]
  | log => simp [step, cbMove]
  | exit id err =>
    simp only [step, cbMove]
    split_ifs
    · simp
    · simp [exit, entStep, cbApply]
  | entry q =>
    simp only [step, cbMove]
    split_ifs with hc hr
    · simp
    · simp [entry_cb, entry_evs, hr, cbApply]
    · simp [entry_cb, entry_evs, hr]

theorem step_cbLoaded (A : System.Arith R) (s : St R) (o : Op R) (hl : s.cbLoaded = true) :
    (step A s o).1.cbLoaded = true := by
  cases o with
  | clock t => simp only [step]; split_ifs <;> simp [hl]
  | loadSys rs => simp only [step]; split_ifs <;> simp [hl]
  | loadFlow rs => simp only [step]; split_ifs <;> simp [hl, loadFlow, (ghostNodes_frame rs s).2.2.2.2.2.2]
  | loadIso rs => simp only [step]; split_ifs <;> simp [hl]
  | loadHot rs => simp only [step]; split_ifs <;> simp [hl]
  | loadCb rs => simp [step, hl]
  | sysLoad x => simp [step, hl]
  | sysCpu x => simp [step, hl]
  | trace id => simp only [step]; split_ifs <;> simp [hl, trace, entStep]
  | log => simp [step, hl]
  | exit id err => simp only [step]; split_ifs <;> simp [hl, exit, entStep]
  | entry q => simp only [step]; split_ifs <;> simp [hl, (entry_static A s q).2.2.2.2.2.2.2.1]

/-- a move before the deadline keeps the breaker open with the same deadline (C03 `step_keeps_open` through the bridge) -/
theorem cbApply_keeps_open (c : CB.Sys (Arr CB.Cnt)) (m : CbMove) (k : Nat) (res : String) (D : Nat)
    (h : OpenUntil k res D c.brs) (hnow : c.now < D) : OpenUntil k res D (cbApply c m).1.brs := by
  rw [cbApply_eq_step]
  -- `step_keeps_open` excludes the rule-loading ops of the breaker model's language; a move is never one of them
  have hnl : ∀ rs : List CB.Rule, m.toOp ≠ CB.Op.load rs ∧ ∀ x : String, m.toOp ≠ CB.Op.loadRes x rs := by
    intro rs
    cases m <;> exact ⟨fun e => (by cases e), fun x e => (by cases e)⟩
  exact (step_keeps_open CB.laOps c m.toOp k res D h hnow hnl).1

theorem cbApply_now (c : CB.Sys (Arr CB.Cnt)) (m : CbMove) :
    (cbApply c m).1.now = match m with | .clock t => t | _ => c.now := by
  cases m with
  | clock t => rfl
  | entry id res => exact doEntry_now c id res
  | exit id err => exact doExit_now _ c id err

/-- one integrated op before the deadline: the breaker stays open with the same deadline, and a request to its resource is
    not admitted (some slot blocks it: an earlier one, or the breaker) -/
theorem step_keeps_open_integrated (A : System.Arith R) (s : St R) (o : Op R) (k res D : Nat)
    (hl : s.cbLoaded = true) (h : OpenUntil k (rname res) D s.cb.brs) (hnow : s.cb.now < D)
    (hclk : ∀ t, o = .clock t → t < D) :
    OpenUntil k (rname res) D (step A s o).1.cb.brs ∧ (step A s o).1.cb.now < D ∧ (step A s o).1.cbLoaded = true ∧
    (∀ q, o = .entry q → q.res = res → (step A s o).2 ≠ Out.dec none) := by
  have hcb := (step_cb A s o (fun _ _ => hl)).1
  have hloaded := step_cbLoaded A s o hl
  cases hop : cbMove A s o with
  | none =>
    rw [hop] at hcb
    simp only at hcb
    rw [hcb]
    refine ⟨h, hnow, hloaded, ?_⟩
    intro q hq _
    subst hq
    simp only [cbMove] at hop
    simp only [step]
    split_ifs at hop ⊢ with hc hr
    · simp
    · intro hd
      simp only [entry_snd, Out.dec.injEq] at hd
      rw [hd] at hr
      exact hr rfl
  | some m =>
    rw [hop] at hcb
    simp only at hcb
    rw [hcb]
    have k1 := cbApply_keeps_open s.cb m k (rname res) D h hnow
    have hnow' : (cbApply s.cb m).1.now < D := by
      rw [cbApply_now]
      cases m with
      | clock t =>
        cases o with
        | clock t' =>
          simp only [cbMove] at hop
          split_ifs at hop
          simp only [Option.some.injEq, CbMove.clock.injEq] at hop
          subst hop
          exact hclk _ rfl
        | entry q => simp only [cbMove] at hop; split_ifs at hop <;> simp at hop
        | exit id err => simp only [cbMove] at hop; split_ifs at hop <;> simp at hop
        | _ => simp [cbMove] at hop
      | entry id r => exact hnow
      | exit id e => exact hnow
    refine ⟨k1, hnow', hloaded, ?_⟩
    intro q hq hres
    subst hq
    simp only [cbMove] at hop
    simp only [step]
    split_ifs at hop ⊢ with hc hr
    intro hd
    simp only [entry_snd, Out.dec.injEq] at hd
    -- the open breaker rejects the request at the breaker slot, so the chain cannot have answered `pass`
    obtain ⟨b, hb, _, h2, h3, h4⟩ := h
    obtain ⟨⟨j, hj⟩, _⟩ := open_blocks_resource s.cb q.id (rname q.res) b hb (by rw [h2, hres]) h3 (by rw [h4]; exact hnow)
    have hv := decision_none A s q hd .cb
    simp only [verdict] at hv
    have hdec := doEntry_dec s.cb q.id (rname q.res)
    rw [hv, hj] at hdec
    simp [cbBlk] at hdec

end Sentinel.Pipe
