import Mathlib.Tactic
import Sentinel.Lemmas.PipelineHist
import Sentinel.Props.C03
/-!
# The breaker component of the integrated pipeline moves by `CB.step` only

Every pipeline op changes `cb` by zero or one step **of the breaker model itself** (`step_cb`); hence C03's
`step_keeps_open` applies op by op along any integrated history (`step_keeps_open_integrated`).
-/
namespace Sentinel.Pipe
open Sentinel.LA Sentinel.C03

variable {R : Type} [LT R] [∀ a b : R, Decidable (a < b)]

/-- the breaker-model op a pipeline op amounts to (`none`: the breaker component is not touched): a clock step, an entry
    that **reaches** the breaker slot, an exit (with the error the context carries) -/
def cbOp (A : System.Arith R) (s : St R) : Op R → Option CB.Op
  | .clock t => if t = 0 ∨ (s.started = true ∧ t < s.now) then none else some (.clock t)
  | .entry q =>
    if !s.started || usedId s q.id then none
    else if reached (decision A s q) .cb then some (.entry q.id (rname q.res)) else none
  | .exit id err => if !s.started then none else some (.exit id (ctxErr s id err))
  | _ => none

/-- **projection onto the breaker module** (step form): unless breakers are being loaded, the breaker component after a
    pipeline op is the breaker model's own step on the projected op, and the listener log grows by that step's events -/
theorem step_cb (A : System.Arith R) (s : St R) (o : Op R) (hl : ∀ rs, o = .loadCb rs → s.cbLoaded = true) :
    (step A s o).1.cb = (match cbOp A s o with | some c => (CB.step CB.laOps s.cb c).1 | none => s.cb) ∧
    (o ≠ .log → (step A s o).1.evs =
      s.evs ++ (match cbOp A s o with | some c => (CB.step CB.laOps s.cb c).2.evs | none => [])) := by
  cases o with
  | clock t =>
    simp only [step, cbOp]
    by_cases h0 : t = 0
    · simp [h0]
    · by_cases hs : s.started = true
      · by_cases hlt : t < s.now
        · simp [h0, hs, hlt]
        · simp [h0, hs, hlt, CB.step]
      · have hs' : s.started = false := by simpa using hs
        simp [h0, hs', CB.step]
  | loadSys rs => simp only [step, cbOp]; split_ifs <;> simp
  | loadFlow rs =>
    simp only [step, cbOp]
    split_ifs
    · simp
    · have hg := ghostNodes_frame rs s
      simp [loadFlow, hg.2.2.1, hg.2.2.2.2.1]
  | loadIso rs => simp only [step, cbOp]; split_ifs <;> simp
  | loadHot rs => simp only [step, cbOp]; split_ifs <;> simp
  | loadCb rs =>
    have := hl rs rfl
    simp [step, cbOp, this]
  | sysLoad x => simp [step, cbOp]
  | sysCpu x => simp [step, cbOp]
  | trace id => simp only [step, cbOp]; split_ifs <;> simp [trace, entStep]
  | log => simp [step, cbOp]
  | exit id err =>
    simp only [step, cbOp]
    split_ifs
    · simp
    · simp [exit, entStep, CB.step]
  | entry q =>
    simp only [step, cbOp]
    split_ifs with hc hr
    · simp
    · simp [entry_cb, entry_evs, hr, CB.step]
    · simp [entry_cb, entry_evs, hr]

/-- one integrated op before the deadline: the breaker stays open with the same deadline, and a request to its resource is
    not admitted (some slot blocks it: an earlier one, or the breaker) -/
theorem step_keeps_open_integrated (A : System.Arith R) (s : St R) (o : Op R) (k res D : Nat)
    (hl : s.cbLoaded = true) (h : OpenUntil k (rname res) D s.cb.brs) (hnow : s.cb.now < D)
    (hclk : ∀ t, o = .clock t → t < D) :
    OpenUntil k (rname res) D (step A s o).1.cb.brs ∧ (step A s o).1.cb.now < D ∧ (step A s o).1.cbLoaded = true ∧
    (∀ q, o = .entry q → q.res = res → (step A s o).2 ≠ Out.dec none) := by
  have hcb := (step_cb A s o (fun _ _ => hl)).1
  have hloaded : (step A s o).1.cbLoaded = true := by
    cases o with
    | clock t => simp only [step]; split_ifs <;> simp [hl]
    | loadSys rs => simp only [step]; split_ifs <;> simp [hl]
    | loadFlow rs => simp only [step]; split_ifs <;> simp [hl, loadFlow, (ghostNodes_frame rs s).2.2.2.2.2.2]
    | loadIso rs => simp only [step]; split_ifs <;> simp [hl]
    | loadHot rs => simp only [step]; split_ifs <;> simp [hl]
    | loadCb rs => simp [step, hl]
    | sysLoad x => simp [step, hl]
    | sysCpu x => simp [step, hl]
    | trace id => simp only [step]; split_ifs <;> simp [hl, trace, entStep]
    | log => simp [step, hl]
    | exit id err => simp only [step]; split_ifs <;> simp [hl, exit, entStep]
    | entry q => simp only [step]; split_ifs <;> simp [hl, (entry_static A s q).2.2.2.2.2.2.2.1]
  cases hop : cbOp A s o with
  | none =>
    rw [hop] at hcb
    simp only at hcb
    rw [hcb]
    refine ⟨h, hnow, hloaded, ?_⟩
    intro q hq _
    subst hq
    simp only [cbOp] at hop
    simp only [step]
    split_ifs at hop ⊢ with hc hr
    · simp
    · intro hd
      simp only [entry_snd, Out.dec.injEq] at hd
      rw [hd] at hr
      exact hr rfl
  | some c =>
    rw [hop] at hcb
    simp only at hcb
    rw [hcb]
    obtain ⟨k1, k2⟩ := step_keeps_open CB.laOps s.cb c k (rname res) D h hnow
    have hnow' : (CB.step CB.laOps s.cb c).1.now < D := by
      rw [step_now]
      cases c with
      | clock t =>
        cases o with
        | clock t' =>
          simp only [cbOp] at hop
          split_ifs at hop
          simp only [Option.some.injEq, CB.Op.clock.injEq] at hop
          subst hop
          exact hclk _ rfl
        | entry q => simp only [cbOp] at hop; split_ifs at hop <;> simp at hop
        | exit id err => simp only [cbOp] at hop; split_ifs at hop <;> simp at hop
        | _ => simp [cbOp] at hop
      | entry id r => exact hnow
      | exit id e => exact hnow
    refine ⟨k1, hnow', hloaded, ?_⟩
    intro q hq hres
    subst hq
    simp only [cbOp] at hop
    simp only [step]
    split_ifs at hop ⊢ with hc hr
    simp only [Option.some.injEq] at hop
    subst hop
    intro hd
    simp only [entry_snd, Out.dec.injEq] at hd
    obtain ⟨j, hj⟩ := k2 q.id (by rw [hres])
    have hv := decision_none A s q hd .cb
    simp only [verdict] at hv
    have hdec := doEntry_dec s.cb q.id (rname q.res)
    rw [hv] at hdec
    simp only [CB.step] at hj
    rw [hj] at hdec
    simp [cbBlk] at hdec

end Sentinel.Pipe
