import Sentinel.Lemmas.EntryLedger
/-!
# Errors are opaque tags: every non-nil report before the exit counts once, nil counts nothing, late reports nothing

The model (and the ledger) carry an error as an arbitrary `String`: a plain error, a wrapped one, a `*base.BlockError`
are just different tags.  Reporting paths: `trace` (= `api.TraceError`, and `entry.SetError` called directly with a
non-nil error, which the driver maps to the same op) and `exit … err` (= `Exit(WithError(err))`).
-/
namespace Sentinel.Entry
open Sentinel.LA

/-- a non-nil report on a live entry is what its completion will carry (the last report wins, any tag) -/
theorem trace_sets_error (t id : Nat) (x : String) (h : List TOp) (i : Info) (hi : info h id = some i) (hl : i.done = false) :
    info ((t, .trace id (some x)) :: h) id = some { i with err := some x } := by
  rw [info_trace_some _ _ _ _ _ hi]; simp [hl, orErr]

/-- a nil report changes nothing -/
theorem trace_nil_noop (t id : Nat) (h : List TOp) (id' : Nat) :
    info ((t, .trace id none) :: h) id' = info h id' := by
  by_cases he : id = id'
  · subst he
    cases hi : info h id with
    | none => rw [info_trace_none _ _ _ _ hi]
    | some i =>
      rw [info_trace_some _ _ _ _ _ hi]
      obtain ⟨ie, it0, ierr, idone⟩ := i
      cases idone <;> simp [orErr]
  · exact info_trace_other _ _ _ _ _ he

/-- a report on a finished entry (exited, or blocked) changes nothing, whatever the path and the tag -/
theorem late_report_noop (t id : Nat) (err : Option String) (h : List TOp) (i : Info) (hi : info h id = some i)
    (hd : i.done = true) (id' : Nat) :
    info ((t, .trace id err) :: h) id' = info h id' ∧ info ((t, .exit id err) :: h) id' = info h id' := by
  by_cases he : id = id'
  · subst he
    rw [info_trace_some _ _ _ _ _ hi, info_exit_some _ _ _ _ _ hi]; simp [hd, hi]
  · exact ⟨info_trace_other _ _ _ _ _ he, info_exit_other _ _ _ _ _ he⟩

/-- … and contributes no event to any node, moves no gauge, tells no recording slot -/
theorem late_report_no_events (fix : Bool) (t id : Nat) (err : Option String) (h : List TOp) (i : Info)
    (hi : info h id = some i) (hd : i.done = true) (k : Key) :
    contrib fix h (t, .trace id err) k = [] ∧ contrib fix h (t, .exit id err) k = [] ∧
    gaugeDelta fix h (t, .exit id err) k = 0 ∧ recContrib fix h (t, .exit id err) = [] := by
  simp [contrib, contribI, gaugeDelta, gaugeDeltaI, recContrib, recContribI, Op.addr, hi, hd]

/-- the error tokens among a list of events -/
def errorTokens (l : List (Nat × Bucket)) : Nat := (tally (fun _ => true) l).error

/-- **the completion counts the error exactly once**: at the first `exit` of a live entry, on every node the entry
    accounts on (its resource, and the inbound node for inbound traffic), the error counter grows by the entry's batch
    iff an error was reported — by the exit itself or by an earlier report (or by the chain's recover) — and by
    nothing otherwise; on nodes the entry does not account on, by nothing -/
theorem completion_error_count (fix : Bool) (h : List TOp) (t id : Nat) (err : Option String) (i : Info) (k : Key)
    (hi : info h id = some i) (hl : i.done = false) :
    errorTokens (contrib fix h (t, .exit id err) k) =
      if touches i.e k && (err.isSome || i.err.isSome) then i.e.batch else 0 := by
  unfold errorTokens
  by_cases hk : touches i.e k = true
  · cases err with
    | some x => simp [contrib, contribI, Op.addr, hi, hl, hk, orErr, tally_cons, tally_nil, evBucket]
    | none =>
      cases he : i.err with
      | some y => simp [contrib, contribI, Op.addr, hi, hl, hk, orErr, he, tally_cons, tally_nil, evBucket]
      | none => simp [contrib, contribI, Op.addr, hi, hl, hk, orErr, he, tally_cons, tally_nil, evBucket]
  · have hk' : touches i.e k = false := by simpa using hk
    simp [contrib, contribI, Op.addr, hi, hl, hk', tally_nil]

/-- entry and `trace` ops never add error tokens: errors are counted at completions only -/
theorem no_error_before_completion (fix : Bool) (h : List TOp) (t : Nat) (k : Key) :
    (∀ e, errorTokens (contrib fix h (t, .entry e) k) = 0) ∧ (∀ id err, errorTokens (contrib fix h (t, .trace id err) k) = 0) := by
  refine ⟨?_, ?_⟩
  · intro e
    unfold errorTokens
    simp only [contrib, contribI]
    by_cases hc : ((info h (Op.entry e).addr).isNone && touches e k) = true
    · simp only [hc, if_true]
      cases outcome e.chain <;> cases fix <;> simp [tally_cons, tally_nil, evBucket, concBucket]
    · have hc' : ((info h (Op.entry e).addr).isNone && touches e k) = false := by simpa using hc
      simp [hc', tally_nil]
  · intro id err; simp [errorTokens, contrib, contribI, tally_nil]

end Sentinel.Entry
