import Mathlib.Tactic
import Sentinel.Model.LeapArrayRace
import Sentinel.Lemmas.LeapArrayRaceTerm
/-!
# What a reader scheduled alone returns (C09)

Symbolic execution of `viewsum` (`SlidingWindowMetric.GetSum`) when no other thread moves: it returns the
sum of the counter words of the slots that pass the deprecation test and the view's start range.
-/
namespace Sentinel.LAR
open Sentinel.LA (deprecated rangeOf)

/-- `k` consecutive steps of one thread, nobody else moving -/
def soloIter (sh : Shared) (clock : Nat) (t : Th) : Nat → Shared × Th
  | 0 => (sh, t)
  | k + 1 => soloIter (stepTh sh clock t).1 clock (stepTh sh clock t).2 k

theorem soloIter_add (sh : Shared) (clock : Nat) (t : Th) (a b : Nat) :
    soloIter sh clock t (a + b) = soloIter (soloIter sh clock t a).1 clock (soloIter sh clock t a).2 b := by
  induction a generalizing sh t with
  | zero => simp [soloIter]
  | succ a ih => rw [Nat.succ_add]; simp only [soloIter]; exact ih _ _

theorem run_solo (c : Cfg) (i : Nat) (t : Th) (k : Nat) (h : c.th[i]? = some t) :
    (run c (List.replicate k (.step i))).sh = (soloIter c.sh c.clock t k).1
    ∧ (run c (List.replicate k (.step i))).th[i]? = some (soloIter c.sh c.clock t k).2
    ∧ (run c (List.replicate k (.step i))).clock = c.clock := by
  induction k generalizing c t with
  | zero => exact ⟨rfl, h, rfl⟩
  | succ k ih =>
    simp only [List.replicate_succ, run, soloIter]
    have hex : c.exec (.step i) = { c with sh := (stepTh c.sh c.clock t).1, th := c.th.set i (stepTh c.sh c.clock t).2 } := by
      simp [Cfg.exec, h]
    have hget : (c.exec (.step i)).th[i]? = some (stepTh c.sh c.clock t).2 := by
      rw [hex]; simp only []; rw [set_get c.th i t _ h]; simp
    have := ih (c.exec (.step i)) _ hget
    rw [hex] at this ⊢
    exact this

/-- the slots `j, j+1, …, j+m-1` that pass the view's filter (`keepOf … (viewsum _)`: not deprecated at `now`,
    start inside the view's range) -/
def validFrom (sh : Shared) (now : Nat) : Nat → Nat → List Nat
  | 0, _ => []
  | m + 1, j => (if keepOf sh (.viewsum 0) now (sh.start j) then [j] else []) ++ validFrom sh now m (j + 1)

theorem keepOf_viewsum (sh : Shared) (ev now s : Nat) : keepOf sh (.viewsum ev) now s = keepOf sh (.viewsum 0) now s := rfl

def sumCnt (sh : Shared) (ev : Nat) (l : List Nat) : Nat := (l.map fun j => sh.cnt j ev).sum

/-- a thread whose only operation is the `viewsum` in progress -/
def rdTh (ev now : Nat) (pc : Pc) (res : List Res) : Th :=
  { prog := [], cur := some { op := .viewsum ev, now := now, pc := pc }, res := res }

def rdDone (sh : Shared) (ev now : Nat) (res : List Res) (v : Nat) : Th :=
  { prog := [], cur := none, res := res ++ [mkRes sh (.viewsum ev) now (some v)] }

theorem sum_phase (sh : Shared) (clock ev now : Nat) (res : List Res) (rem : List Nat) (hne : rem ≠ []) (acc : Nat) :
    soloIter sh clock (rdTh ev now (.mbGet rem acc) res) rem.length
      = (sh, rdDone sh ev now res (acc + sumCnt sh ev rem)) := by
  induction rem generalizing acc with
  | nil => exact absurd rfl hne
  | cons j r ih =>
    cases r with
    | nil =>
      simp [soloIter, stepTh, rdTh, decideStep, Shared.apply, startNext, rdDone, sumCnt, OpSpec.ev]
    | cons j2 r2 =>
      have := ih (by simp) (acc + sh.cnt j ev)
      simp only [List.length_cons, soloIter] at this ⊢
      simp only [stepTh, rdTh, decideStep, Shared.apply, OpSpec.ev] at this ⊢
      rw [this]
      simp [sumCnt, Nat.add_assoc]

/-- the thread after the scan has collected `l` -/
def afterScanTh (sh : Shared) (ev now : Nat) (res : List Res) (l : List Nat) : Th :=
  match l with
  | [] => rdDone sh ev now res 0
  | _ :: _ => rdTh ev now (.mbGet l 0) res

theorem step_valGet (sh : Shared) (clock ev now : Nat) (res : List Res) (j : Nat) (col : List Nat) :
    stepTh sh clock (rdTh ev now (.valGet j col) res) = (sh, rdTh ev now (.depLoad j col) res) := by
  simp [stepTh, rdTh, decideStep, Shared.apply]

theorem step_depLoad_more (sh : Shared) (clock ev now : Nat) (res : List Res) (j : Nat) (col : List Nat)
    (hn : j + 1 < sh.n) :
    stepTh sh clock (rdTh ev now (.depLoad j col) res)
      = (sh, rdTh ev now (.valGet (j + 1) (if keepOf sh (.viewsum 0) now (sh.start j) then col ++ [j] else col)) res) := by
  simp only [stepTh, rdTh, decideStep, Shared.apply, hn, if_true, keepOf_viewsum]
  rfl

theorem finish_scan (sh : Shared) (clock ev now : Nat) (res : List Res) (col' : List Nat) :
    (match afterScan col' with
      | Next.pc p => (sh, ({ prog := [], cur := some { op := OpSpec.viewsum ev, now := now, pc := p }, res := res } : Th))
      | Next.fin r => (sh, startNext sh clock [] (res ++ [mkRes sh (OpSpec.viewsum ev) now r])))
      = (sh, afterScanTh sh ev now res col') := by
  cases col' with
  | nil => simp [afterScan, afterScanTh, startNext, rdDone]
  | cons a r => simp [afterScan, afterScanTh, rdTh]

theorem step_depLoad_last (sh : Shared) (clock ev now : Nat) (res : List Res) (j : Nat) (col : List Nat)
    (hn : ¬ j + 1 < sh.n) :
    stepTh sh clock (rdTh ev now (.depLoad j col) res)
      = (sh, afterScanTh sh ev now res (if keepOf sh (.viewsum 0) now (sh.start j) then col ++ [j] else col)) := by
  simp only [stepTh, rdTh, decideStep, Shared.apply, hn, if_false, keepOf_viewsum]
  exact finish_scan sh clock ev now res _

theorem scan_phase (sh : Shared) (clock ev now : Nat) (res : List Res) (m j : Nat) (col : List Nat)
    (hj : j + (m + 1) = sh.n) :
    soloIter sh clock (rdTh ev now (.valGet j col) res) (2 * (m + 1))
      = (sh, afterScanTh sh ev now res (col ++ validFrom sh now (m + 1) j)) := by
  induction m generalizing j col with
  | zero =>
    have hn : ¬ j + 1 < sh.n := by omega
    simp only [soloIter, step_valGet, step_depLoad_last _ _ _ _ _ _ _ hn, validFrom, List.append_nil]
    congr 2
    cases keepOf sh (.viewsum 0) now (sh.start j) <;> simp
  | succ m ih =>
    have hn : j + 1 < sh.n := by omega
    have h2 : 2 * (m + 1 + 1) = 2 + 2 * (m + 1) := by ring
    rw [h2, soloIter_add]
    have hfirst : soloIter sh clock (rdTh ev now (.valGet j col) res) 2
        = (sh, rdTh ev now (.valGet (j + 1) (if keepOf sh (.viewsum 0) now (sh.start j) then col ++ [j] else col)) res) := by
      simp only [soloIter, step_valGet, step_depLoad_more _ _ _ _ _ _ _ hn]
    rw [hfirst]
    simp only []
    rw [ih (j + 1) _ (by omega)]
    congr 2
    conv_rhs => rw [validFrom]
    cases keepOf sh (.viewsum 0) now (sh.start j) <;> simp

/-- **a reader scheduled alone** returns the sum of the counter words of the slots that pass the view's filter -/
theorem solo_viewsum (c : Cfg) (i ev : Nat) (h : c.th[i]? = some (mkThread [.viewsum ev])) (hc : 0 < c.clock)
    (hn : 0 < c.sh.n) :
    let V := validFrom c.sh c.clock c.sh.n 0
    let c' := run c (List.replicate (1 + 2 * c.sh.n + V.length) (.step i))
    c'.sh = c.sh ∧ c'.th[i]? = some (rdDone c.sh ev c.clock [] (sumCnt c.sh ev V)) := by
  intro V c'
  obtain ⟨h1, h2, _⟩ := run_solo c i _ (1 + 2 * c.sh.n + V.length) h
  have hstart : soloIter c.sh c.clock (mkThread [.viewsum ev]) 1 = (c.sh, rdTh ev c.clock (.valGet 0 []) []) := by
    have hc' : c.clock ≠ 0 := by omega
    have hn' : c.sh.n ≠ 0 := by omega
    simp [soloIter, stepTh, mkThread, startNext, hc', firstPc, firstVal, hn', rdTh]
  obtain ⟨m, hm⟩ : ∃ m, c.sh.n = m + 1 := ⟨c.sh.n - 1, by omega⟩
  have hscan := scan_phase c.sh c.clock ev c.clock [] m 0 [] (by omega)
  rw [← hm] at hscan
  simp only [List.nil_append] at hscan
  have htotal : soloIter c.sh c.clock (mkThread [.viewsum ev]) (1 + 2 * c.sh.n + V.length)
      = (c.sh, rdDone c.sh ev c.clock [] (sumCnt c.sh ev V)) := by
    rw [Nat.add_assoc, soloIter_add, hstart]
    simp only []
    rw [soloIter_add, hscan]
    simp only []
    cases hV : V with
    | nil =>
      have : validFrom c.sh c.clock c.sh.n 0 = [] := hV
      rw [this]
      simp [afterScanTh, soloIter, sumCnt]
    | cons a r =>
      have : validFrom c.sh c.clock c.sh.n 0 = a :: r := hV
      rw [this]
      simp only [afterScanTh]
      have := sum_phase c.sh c.clock ev c.clock [] (a :: r) (by simp) 0
      rw [this]
      simp
  rw [htotal] at h1 h2
  exact ⟨h1, h2⟩

end Sentinel.LAR
