import Mathlib.Algebra.BigOperators.Group.Finset.Basic
import Sentinel.Lemmas.C08Bucket
import Sentinel.Lemmas.C08Read
import Sentinel.Model.BucketReads
/-!
# Per-second items (`SecondMetricsOnCondition`) against the per-bucket reference

`secondItems` groups the non-deprecated slots selected by the caller's predicate by their second; the reference
(`refItems`, the expression `Drv/C08.lean` evaluates in `spec` mode) groups the aligned bucket starts of a window.
Both are lists with one item per distinct second, so they are compared as finite maps `second ↦ payload`
(`itemAt`, 0 where there is no item): this is what the canonical form of the driver (all-zero items dropped,
sorted by second) is a function of.
-/
set_option linter.unusedSectionVars false
namespace Sentinel.C08
open Sentinel.LA

/-- payload of the items of second `sec` (there is at most one; 0 when there is none) -/
def itemAt (items : List (Nat × Bucket)) (sec : Nat) : Bucket :=
  ((items.filter fun p => p.1 = sec).map (·.2)).sum

/-- one item per distinct key -/
def groupItems (keys : List Nat) (f : Nat → Bucket) : List (Nat × Bucket) :=
  keys.eraseDups.map fun k => (k, f k)

/-- the reference items over a list of bucket starts (`itemsOf` in `Drv/C08.lean` before printing) -/
def refItems (L : Nat) (h : List (Nat × Bucket)) (starts : List Nat) : List (Nat × Bucket) :=
  let secs := (starts.map fun b => b - b % 1000).eraseDups
  secs.map fun sec => (sec, ((starts.filter fun b => b - b % 1000 = sec).map fun b => refW L h b b).sum)

/-- the aligned starts the reference enumerates: the last `cnt` buckets ending at the current one, restricted by the
    caller's predicate `[lo, hi]` -/
def itemStarts (L cnt now lo hi : Nat) : List Nat :=
  (lastStarts L cnt (cbs L now)).filter fun b => decide (lo ≤ b ∧ b ≤ hi)

theorem nodup_eraseDups (l : List Nat) : l.eraseDups.Nodup := by
  induction hn : l.length using Nat.strong_induction_on generalizing l with
  | _ n ih =>
    cases l with
    | nil => simp
    | cons a as =>
      rw [List.eraseDups_cons]
      refine List.nodup_cons.mpr ⟨?_, ?_⟩
      · simp [List.mem_eraseDups]
      · exact ih _ (by subst hn; simp only [List.length_cons]; exact Nat.lt_succ_of_le (List.length_filter_le _ _)) _ rfl

theorem itemAt_map_nodup (ks : List Nat) (hnd : ks.Nodup) (f : Nat → Bucket) (sec : Nat) :
    itemAt (ks.map fun k => (k, f k)) sec = if sec ∈ ks then f sec else 0 := by
  induction ks with
  | nil => simp [itemAt]
  | cons k r ih =>
    obtain ⟨hk, hr⟩ := List.nodup_cons.mp hnd
    have ih' := ih hr
    unfold itemAt at ih' ⊢
    by_cases hks : k = sec
    · subst hks
      simp only [List.map_cons, List.filter_cons, decide_true, if_true, List.sum_cons, List.mem_cons, true_or]
      rw [ih']; simp [hk]
    · have hsk : ¬ sec = k := fun h => hks h.symm
      simp only [List.map_cons, List.filter_cons, hks, decide_false, List.mem_cons, hsk, false_or]
      simpa using ih'

theorem keys_groupItems (keys : List Nat) (f : Nat → Bucket) :
    ((groupItems keys f).map (·.1)).Nodup ∧ ∀ sec, sec ∈ (groupItems keys f).map (·.1) ↔ sec ∈ keys := by
  have : (groupItems keys f).map (·.1) = keys.eraseDups := by
    unfold groupItems; rw [List.map_map]; simp [Function.comp_def]
  rw [this]
  exact ⟨nodup_eraseDups keys, fun sec => List.mem_eraseDups⟩

theorem itemAt_groupItems (keys : List Nat) (f : Nat → Bucket) (sec : Nat) (hz : sec ∉ keys → f sec = 0) :
    itemAt (groupItems keys f) sec = f sec := by
  unfold groupItems
  rw [itemAt_map_nodup _ (nodup_eraseDups keys)]
  split_ifs with hm
  · rfl
  · exact (hz (fun h => hm (List.mem_eraseDups.mpr h))).symm

/-- sums over two duplicate-free lists agree when the second only adds elements that contribute nothing -/
theorem sum_map_eq_of_subset (l1 l2 : List Nat) (f : Nat → Bucket) (h1 : l1.Nodup) (h2 : l2.Nodup)
    (hsub : ∀ x ∈ l1, x ∈ l2) (hz : ∀ x ∈ l2, x ∉ l1 → f x = 0) : (l1.map f).sum = (l2.map f).sum := by
  rw [← List.sum_toFinset f h1, ← List.sum_toFinset f h2]
  apply Finset.sum_subset
  · intro x hx; exact List.mem_toFinset.mpr (hsub x (List.mem_toFinset.mp hx))
  · intro x hx hnx
    exact hz x (List.mem_toFinset.mp hx) (fun h => hnx (List.mem_toFinset.mpr h))

theorem aligned_lt_step (L x y : Nat) (hx : L ∣ x) (hy : L ∣ y) (hlt : x < y) : x + L ≤ y := by
  obtain ⟨p, rfl⟩ := hx
  obtain ⟨q, rfl⟩ := hy
  have hL : 0 < L := Nat.pos_of_ne_zero (fun h => by subst h; simp at hlt)
  have : p < q := Nat.lt_of_mul_lt_mul_left hlt
  calc L * p + L = L * (p + 1) := by ring
    _ ≤ L * q := Nat.mul_le_mul_left _ this

/-- **items, general form**: if every non-deprecated slot lies among the last `cnt` aligned buckets and is younger
    than one array cycle, and every such bucket is non-deprecated and younger than one cycle, the per-second items
    equal the reference items over those buckets, second by second. -/
theorem items_of_reach_gen (a : Arr Bucket) (n L : Nat) (h : List (Nat × Bucket)) (latest now : Nat)
    (r : Reach a n L h latest now) (hpos : 0 < now) (cnt lo hi : Nat)
    (HA : ∀ s ∈ a.slots, (!deprecated (n * L) now s.start) = true →
      cbs L now < s.start + cnt * L ∧ cbs L latest < s.start + n * L)
    (HC : ∀ b, L ∣ b → b ≤ cbs L now → cbs L now < b + cnt * L →
      (!deprecated (n * L) now b) = true ∧ cbs L latest < b + n * L) (sec : Nat) :
    itemAt (secondItems a now lo hi) sec = itemAt (refItems L h (itemStarts L cnt now lo hi)) sec := by
  obtain ⟨t0, inv⟩ := r.inv
  have hL := r.L_pos
  have hne : now ≠ 0 := Nat.ne_of_gt hpos
  -- both sides are `groupItems`
  set vs := a.slots.filter fun s =>
    !deprecated (a.n * a.L) now s.start && decide (lo ≤ s.start ∧ s.start ≤ hi) with hvs
  set starts := itemStarts L cnt now lo hi with hst
  have hM : secondItems a now lo hi = groupItems (vs.map fun s => s.start - s.start % 1000)
      (fun sec => ((vs.filter fun s => s.start - s.start % 1000 = sec).map (·.val)).sum) := by
    unfold secondItems groupItems
    simp only [hne, if_false]
    rfl
  have hS : refItems L h starts = groupItems (starts.map fun b => b - b % 1000)
      (fun sec => ((starts.filter fun b => b - b % 1000 = sec).map fun b => refW L h b b).sum) := rfl
  have hmemV : ∀ s, s ∈ vs ↔ s ∈ a.slots ∧ (!deprecated (n * L) now s.start) = true ∧ lo ≤ s.start ∧ s.start ≤ hi := by
    intro s
    simp only [hvs, List.mem_filter, Bool.and_eq_true, decide_eq_true_eq, r.n_eq, r.L_eq]
  have hmemS : ∀ b, b ∈ starts ↔ (L ∣ b ∧ b ≤ cbs L now ∧ cbs L now < b + cnt * L) ∧ lo ≤ b ∧ b ≤ hi := by
    intro b
    simp only [hst, itemStarts, List.mem_filter, decide_eq_true_eq, mem_lastStarts L cnt _ b hL (cbs_dvd L now)]
  have hdepLe : ∀ b, (!deprecated (n * L) now b) = true → b ≤ now := by
    intro b hb
    unfold deprecated at hb
    by_contra hc
    simp [hc] at hb
  rw [hM, hS, itemAt_groupItems, itemAt_groupItems]
  · -- the sums agree
    have hsub : (vs.filter fun s => s.start - s.start % 1000 = sec).Sublist a.slots :=
      (List.filter_sublist).trans (by rw [hvs]; exact List.filter_sublist)
    have hnd1 : ((vs.filter fun s => s.start - s.start % 1000 = sec).map (·.start)).Nodup :=
      (starts_nodup a inv.wf).sublist (hsub.map _)
    have hnd2 : (starts.filter fun b => b - b % 1000 = sec).Nodup := by
      rw [hst]; exact ((nodup_lastStarts L cnt _ hL).filter _).filter _
    have hval : ∀ s ∈ (vs.filter fun s => s.start - s.start % 1000 = sec), s.val = refW L h s.start s.start := by
      intro s hs
      obtain ⟨hsl, hdep, _⟩ := (hmemV s).mp (List.mem_filter.mp hs).1
      have hv := slot_val_eq_ref a h t0 latest inv s hsl (by rw [r.L_eq, r.n_eq]; exact (HA s hsl hdep).2)
      rw [r.L_eq] at hv
      exact hv
    have e1 : ((vs.filter fun s => s.start - s.start % 1000 = sec).map (·.val)) =
        (((vs.filter fun s => s.start - s.start % 1000 = sec).map (·.start)).map fun b => refW L h b b) := by
      rw [List.map_map]
      exact List.map_congr_left hval
    rw [e1]
    apply sum_map_eq_of_subset _ _ _ hnd1 hnd2
    · intro b hb
      obtain ⟨s, hs, rfl⟩ := List.mem_map.mp hb
      obtain ⟨hsv, hsec⟩ := List.mem_filter.mp hs
      obtain ⟨hsl, hdep, hlo, hhi⟩ := (hmemV s).mp hsv
      have hal := slot_aligned a inv.wf s hsl
      rw [r.L_eq] at hal
      have hle : s.start ≤ cbs L now := by
        have h1 := hdepLe _ hdep
        by_contra hc
        have := aligned_lt_step L _ _ (cbs_dvd L now) hal (Nat.lt_of_not_le hc)
        have := lt_cbs_add L now hL
        omega
      exact List.mem_filter.mpr ⟨(hmemS _).mpr ⟨⟨hal, hle, (HA s hsl hdep).1⟩, hlo, hhi⟩, hsec⟩
    · intro b hb hnb
      obtain ⟨hbs, hsec⟩ := List.mem_filter.mp hb
      obtain ⟨⟨hal, hle, hcnt⟩, hlo, hhi⟩ := (hmemS b).mp hbs
      obtain ⟨hdep, hy⟩ := HC b hal hle hcnt
      have hz := ref_zero_of_no_slot a h t0 latest inv b ?_ (by rw [r.L_eq, r.n_eq]; exact hy)
      · rw [r.L_eq] at hz; exact hz
      · intro s hsl he
        apply hnb
        subst he
        exact List.mem_map.mpr ⟨s, List.mem_filter.mpr ⟨(hmemV s).mpr ⟨hsl, hdep, hlo, hhi⟩, hsec⟩, rfl⟩
  · intro hns
    have : (starts.filter fun b => b - b % 1000 = sec) = [] := by
      rw [List.filter_eq_nil_iff]
      intro b hb hbs
      exact hns (List.mem_map.mpr ⟨b, hb, by simpa using hbs⟩)
    simp [this]
  · intro hns
    have : (vs.filter fun s => s.start - s.start % 1000 = sec) = [] := by
      rw [List.filter_eq_nil_iff]
      intro s hs hss
      exact hns (List.mem_map.mpr ⟨s, hs, by simpa using hss⟩)
    simp [this]

theorem not_deprecated_iff (I now b : Nat) : (!deprecated I now b) = true ↔ b ≤ now ∧ now ≤ b + I := by
  unfold deprecated
  by_cases hb : b ≤ now
  · simp only [hb, if_true, Bool.not_eq_true', decide_eq_false_iff_not, true_and]; omega
  · simp [hb]

/-- outside the boundary region every non-deprecated slot is strictly younger than one array cycle -/
theorem slot_young_of_touched (a : Arr Bucket) (n L : Nat) (h : List (Nat × Bucket)) (latest now : Nat)
    (r : Reach a n L h latest now) (hreg : now % L ≠ 0 ∨ cbs L latest = cbs L now)
    (s : Slot Bucket) (hs : s ∈ a.slots) (hdep : (!deprecated (n * L) now s.start) = true) :
    cbs L now < s.start + n * L := by
  obtain ⟨t0, inv⟩ := r.inv
  have hL := r.L_pos
  obtain ⟨hb, hnb⟩ := (not_deprecated_iff _ _ _).mp hdep
  by_contra hc
  have hce := cbs_le L now
  have hnow : now = s.start + n * L := by omega
  have hcn : cbs L now = now := by omega
  have hmod : now % L = 0 := by
    unfold cbs at hcn; have := Nat.mod_le now L; omega
  rcases hreg with h1 | h1
  · exact h1 hmod
  · obtain ⟨i, hi, rfl⟩ := mem_slots_index _ s hs
    obtain ⟨k, hk, hkr⟩ := inv.wf.2.2.2 i hi
    rw [r.L_eq] at hk; rw [r.n_eq] at hkr
    obtain ⟨hci, hcur⟩ := r.cur
    have hq : latest / L = k + n := by
      have : cbs L latest = (k + n) * L := by rw [h1, hcn, hnow, hk]; ring
      rw [cbs_eq] at this
      exact Nat.eq_of_mul_eq_mul_right hL this
    have hidx : idx a latest = i := by
      unfold idx; rw [r.L_eq, r.n_eq, hq, Nat.add_mod_right]; exact hkr
    subst hidx
    rw [r.L_eq, h1, hcn] at hcur
    have := Nat.mul_pos r.n_pos hL
    omega

/-- **items outside the boundary region** (`now` not on a bucket boundary, or the current bucket already touched):
    the reference window is the array-wide aligned window, the last `n` buckets ending at the current one -/
theorem items_of_reach (a : Arr Bucket) (n L : Nat) (h : List (Nat × Bucket)) (latest now : Nat)
    (r : Reach a n L h latest now) (hpos : 0 < now) (lo hi : Nat)
    (hreg : now % L ≠ 0 ∨ cbs L latest = cbs L now) (sec : Nat) :
    itemAt (secondItems a now lo hi) sec = itemAt (refItems L h (itemStarts L n now lo hi)) sec := by
  have hL := r.L_pos
  have hcl : cbs L latest ≤ cbs L now := cbs_mono L r.le
  apply items_of_reach_gen a n L h latest now r hpos n lo hi
  · intro s hs hdep
    have := slot_young_of_touched a n L h latest now r hreg s hs hdep
    exact ⟨this, by omega⟩
  · intro b hal hle hcnt
    have hstep := aligned_lt_step L _ _ (cbs_dvd L now) (Nat.dvd_add hal (Dvd.intro_left _ rfl)) hcnt
    have := lt_cbs_add L now hL
    have := cbs_le L now
    exact ⟨(not_deprecated_iff _ _ _).mpr ⟨by omega, by omega⟩, by omega⟩

/-- **items inside the boundary region** (`now` exactly on a bucket boundary and nothing has touched the current
    bucket yet): the strict deprecation test lets one more bucket through — the reference window is the last `n+1`
    buckets.  This is the exact content of the known finding `items-boundary-bucket`. -/
theorem items_of_reach_boundary (a : Arr Bucket) (n L : Nat) (h : List (Nat × Bucket)) (latest now : Nat)
    (r : Reach a n L h latest now) (hpos : 0 < now) (lo hi : Nat)
    (hb : now % L = 0) (hun : cbs L latest ≠ cbs L now) (sec : Nat) :
    itemAt (secondItems a now lo hi) sec = itemAt (refItems L h (itemStarts L (n + 1) now lo hi)) sec := by
  have hL := r.L_pos
  have hcl : cbs L latest ≤ cbs L now := cbs_mono L r.le
  have hcn : cbs L now = now := by unfold cbs; omega
  have e1 : (n + 1) * L = n * L + L := by ring
  apply items_of_reach_gen a n L h latest now r hpos (n + 1) lo hi
  · intro s hs hdep
    obtain ⟨_, h2⟩ := (not_deprecated_iff _ _ _).mp hdep
    exact ⟨by omega, by omega⟩
  · intro b hal hle hcnt
    have hstep := aligned_lt_step L _ _ (cbs_dvd L now) (Nat.dvd_add hal (Dvd.intro_left _ rfl)) hcnt
    exact ⟨(not_deprecated_iff _ _ _).mpr ⟨by omega, by omega⟩, by omega⟩

/-- the current bucket has been touched (created in it, or some call landed in it) ⇒ the last call is in it -/
theorem touched_last (L now0 : Nat) (ops : List (Op Bucket)) (mono : MonoOps now0 ops) (now : Nat)
    (hnow : ∀ o ∈ ops, o.time ≤ now) (hnow0 : now0 ≤ now)
    (ht : cbs L now0 = cbs L now ∨ ∃ o ∈ ops, cbs L o.time = cbs L now) :
    cbs L (lastTime now0 ops) = cbs L now := by
  obtain ⟨h1, h2⟩ := le_lastTime now0 ops mono
  have h3 := cbs_mono L (lastTime_le now0 now ops hnow0 hnow)
  rcases ht with h | ⟨o, ho, h⟩
  · have := cbs_mono L h1; omega
  · have := cbs_mono L (h2 o ho); omega

/-! ## what equality of the finite maps means for the lists the driver compares -/

theorem itemAt_eq_zero_of_no_key (l : List (Nat × Bucket)) (sec : Nat) (hno : ∀ p ∈ l, p.1 ≠ sec) :
    itemAt l sec = 0 := by
  unfold itemAt
  have : (l.filter fun p => p.1 = sec) = [] := by
    rw [List.filter_eq_nil_iff]
    intro p hp hps
    exact hno p hp (by simpa using hps)
  simp [this]

theorem itemAt_of_mem (l : List (Nat × Bucket)) (hnd : (l.map (·.1)).Nodup) (p : Nat × Bucket) (hp : p ∈ l) :
    itemAt l p.1 = p.2 := by
  induction l with
  | nil => simp at hp
  | cons q r ih =>
    simp only [List.map_cons, List.nodup_cons] at hnd
    obtain ⟨hq, hr⟩ := hnd
    have hcons : itemAt (q :: r) p.1 = (if q.1 = p.1 then q.2 else 0) + itemAt r p.1 := by
      unfold itemAt
      by_cases hqp : q.1 = p.1 <;> simp [hqp]
    rw [hcons]
    rcases List.mem_cons.mp hp with rfl | hp'
    · rw [itemAt_eq_zero_of_no_key r p.1 (fun x hx hxe => hq (List.mem_map.mpr ⟨x, hx, hxe⟩))]
      simp
    · have hne : q.1 ≠ p.1 := fun he => hq (he ▸ List.mem_map.mpr ⟨p, hp', rfl⟩)
      rw [ih hr hp']
      simp [hne]

/-- two item lists with distinct seconds that agree as finite maps have the same non-zero items: after dropping
    all-zero items and sorting by second (the driver's canonical form) they are the same list -/
theorem items_same_nonzero (l1 l2 : List (Nat × Bucket)) (h1 : (l1.map (·.1)).Nodup) (h2 : (l2.map (·.1)).Nodup)
    (heq : ∀ sec, itemAt l1 sec = itemAt l2 sec) (p : Nat × Bucket) (hp : p.2 ≠ 0) : p ∈ l1 ↔ p ∈ l2 := by
  have key : ∀ (la lb : List (Nat × Bucket)), (la.map (·.1)).Nodup → (lb.map (·.1)).Nodup →
      (∀ sec, itemAt la sec = itemAt lb sec) → p ∈ la → p ∈ lb := by
    intro la lb ha hb hab hpa
    have h3 : itemAt lb p.1 = p.2 := by rw [← hab, itemAt_of_mem la ha p hpa]
    by_contra hnb
    by_cases hex : ∃ q ∈ lb, q.1 = p.1
    · obtain ⟨q, hq, hqe⟩ := hex
      have := itemAt_of_mem lb hb q hq
      rw [hqe, h3] at this
      apply hnb
      have : q = p := Prod.ext hqe this.symm
      rw [← this]; exact hq
    · rw [itemAt_eq_zero_of_no_key lb p.1 (fun q hq he => hex ⟨q, hq, he⟩)] at h3
      exact hp h3.symm
  exact ⟨key l1 l2 h1 h2 heq, key l2 l1 h2 h1 (fun sec => (heq sec).symm)⟩

theorem secondItems_keys_nodup (a : Arr Bucket) (now lo hi : Nat) : ((secondItems a now lo hi).map (·.1)).Nodup := by
  unfold secondItems
  dsimp only
  rw [List.map_map]
  simp only [Function.comp_def, List.map_id']
  exact nodup_eraseDups _

theorem refItems_keys_nodup (L : Nat) (h : List (Nat × Bucket)) (starts : List Nat) :
    ((refItems L h starts).map (·.1)).Nodup := by
  unfold refItems
  dsimp only
  rw [List.map_map]
  simp only [Function.comp_def, List.map_id']
  exact nodup_eraseDups _

/-! ## `BucketLeapArray.Values(now)`: the valid buckets after a refresh, one by one -/

theorem aligned_le_cbs (L b now : Nat) (hL : 0 < L) (hal : L ∣ b) (hle : b ≤ now) : b ≤ cbs L now := by
  by_contra hc
  have := aligned_lt_step L _ _ (cbs_dvd L now) hal (Nat.lt_of_not_le hc)
  have := lt_cbs_add L now hL
  omega

/-- after the refresh at `now`, the valid buckets are exactly the slots of the last `n` aligned buckets, each
    holding the recordings of its own bucket; an aligned bucket of that window without a slot has no recordings -/
theorem values_of_reach (a : Arr Bucket) (n L : Nat) (h : List (Nat × Bucket)) (latest now : Nat)
    (r : Reach a n L h latest now) (hpos : 0 < now) :
    ((valuesAt (refresh a now) now).map (·.start)).Nodup ∧
    (∀ s ∈ valuesAt (refresh a now) now, L ∣ s.start ∧ cbs L now + L - n * L ≤ s.start ∧ s.start ≤ cbs L now ∧
      s.val = refW L h s.start s.start) ∧
    (∀ b, L ∣ b → cbs L now + L - n * L ≤ b → b ≤ cbs L now →
      (∃ s ∈ valuesAt (refresh a now) now, s.start = b) ∨ refW L h b b = 0) := by
  have r' := (total_of_reach a n L h latest now r hpos).1
  set a' := refresh a now with ha'
  obtain ⟨t0, inv⟩ := r'.inv
  have hL := r'.L_pos
  have hne : now ≠ 0 := Nat.ne_of_gt hpos
  have hmem : ∀ s, s ∈ valuesAt a' now ↔ s ∈ a'.slots ∧ (!deprecated (n * L) now s.start) = true := by
    intro s
    unfold valuesAt
    simp only [hne, if_false, List.mem_filter, r'.n_eq, r'.L_eq]
  have hltL := lt_cbs_add L now hL
  have hcle := cbs_le L now
  refine ⟨?_, ?_, ?_⟩
  · have hsub : (valuesAt a' now).Sublist a'.slots := by
      unfold valuesAt; simp only [hne, if_false]; exact List.filter_sublist
    exact (starts_nodup a' inv.wf).sublist (hsub.map _)
  · intro s hs
    obtain ⟨hsl, hdep⟩ := (hmem s).mp hs
    have hy := slot_young_of_touched a' n L h now now r' (Or.inr rfl) s hsl hdep
    obtain ⟨hb, _⟩ := (not_deprecated_iff _ _ _).mp hdep
    have hal := slot_aligned a' inv.wf s hsl
    rw [r'.L_eq] at hal
    have hle := aligned_le_cbs L s.start now hL hal hb
    have hstep := aligned_lt_step L _ _ (cbs_dvd L now) (Nat.dvd_add hal (Dvd.intro_left _ rfl)) hy
    have hv := slot_val_eq_ref a' h t0 now inv s hsl (by rw [r'.L_eq, r'.n_eq]; exact hy)
    rw [r'.L_eq] at hv
    exact ⟨hal, by omega, hle, hv⟩
  · intro b hal hlo hhi
    by_cases hex : ∃ s ∈ a'.slots, s.start = b
    · obtain ⟨s, hsl, rfl⟩ := hex
      left
      exact ⟨s, (hmem s).mpr ⟨hsl, (not_deprecated_iff _ _ _).mpr ⟨by omega, by omega⟩⟩, rfl⟩
    · right
      have hz := ref_zero_of_no_slot a' h t0 now inv b (fun s hs he => hex ⟨s, hs, he⟩)
        (by rw [r'.L_eq, r'.n_eq]; omega)
      rw [r'.L_eq] at hz
      exact hz

/-! ## the exact form of the per-second items: reference plus the boundary bucket -/

/-- the region of the known finding `items-boundary-bucket`: the read is issued exactly on a bucket boundary and no
    call (creation included) has landed in the current bucket yet -/
def BoundaryRegion (L now0 : Nat) (ops : List (Op Bucket)) (now : Nat) : Prop :=
  now % L = 0 ∧ cbs L (lastTime now0 ops) ≠ cbs L now

instance (L now0 : Nat) (ops : List (Op Bucket)) (now : Nat) : Decidable (BoundaryRegion L now0 ops now) := by
  unfold BoundaryRegion; infer_instance

/-- what the bucket that began exactly one array interval ago (`cbs now − n·L`, if it exists and satisfies the
    caller's predicate) contributes to second `sec` -/
def boundaryItem (L : Nat) (h : List (Nat × Bucket)) (n now lo hi sec : Nat) : Bucket :=
  if n * L ≤ cbs L now ∧ lo ≤ cbs L now - n * L ∧ cbs L now - n * L ≤ hi ∧
      (cbs L now - n * L) - (cbs L now - n * L) % 1000 = sec
  then refW L h (cbs L now - n * L) (cbs L now - n * L) else 0

theorem itemAt_refItems (L : Nat) (h : List (Nat × Bucket)) (starts : List Nat) (sec : Nat) :
    itemAt (refItems L h starts) sec =
      ((starts.filter fun b => b - b % 1000 = sec).map fun b => refW L h b b).sum := by
  have hS : refItems L h starts = groupItems (starts.map fun b => b - b % 1000)
      (fun sec => ((starts.filter fun b => b - b % 1000 = sec).map fun b => refW L h b b).sum) := rfl
  rw [hS, itemAt_groupItems]
  intro hns
  have : (starts.filter fun b => b - b % 1000 = sec) = [] := by
    rw [List.filter_eq_nil_iff]
    intro b hb hbs
    exact hns (List.mem_map.mpr ⟨b, hb, by simpa using hbs⟩)
  simp [this]

theorem lastStarts_succ (L cnt e : Nat) :
    lastStarts L (cnt + 1) e = lastStarts L cnt e ++ (if cnt * L ≤ e then [e - cnt * L] else []) := by
  unfold lastStarts
  rw [List.range_succ, List.filterMap_append]
  congr 1
  by_cases h : cnt * L ≤ e <;> simp [h]

theorem itemAt_refItems_succ (L : Nat) (h : List (Nat × Bucket)) (n now lo hi sec : Nat) :
    itemAt (refItems L h (itemStarts L (n + 1) now lo hi)) sec =
      itemAt (refItems L h (itemStarts L n now lo hi)) sec + boundaryItem L h n now lo hi sec := by
  rw [itemAt_refItems, itemAt_refItems]
  unfold itemStarts boundaryItem
  rw [lastStarts_succ, List.filter_append, List.filter_append, List.map_append, List.sum_append]
  congr 1
  by_cases h1 : n * L ≤ cbs L now
  · by_cases h2 : lo ≤ cbs L now - n * L ∧ cbs L now - n * L ≤ hi
    · by_cases h3 : (cbs L now - n * L) - (cbs L now - n * L) % 1000 = sec
      · simp [h1, h2, h3]
      · simp [h1, h2, h3]
    · have h2' : ¬ (lo ≤ cbs L now - n * L ∧ cbs L now - n * L ≤ hi ∧
          (cbs L now - n * L) - (cbs L now - n * L) % 1000 = sec) := fun hc => h2 ⟨hc.1, hc.2.1⟩
      have hd : decide (lo ≤ cbs L now - n * L ∧ cbs L now - n * L ≤ hi) = false := decide_eq_false h2
      have h1' : ¬ (n * L ≤ cbs L now ∧ lo ≤ cbs L now - n * L ∧ cbs L now - n * L ≤ hi ∧
          (cbs L now - n * L) - (cbs L now - n * L) % 1000 = sec) := fun hc => h2' hc.2
      rw [if_pos h1, if_neg h1']
      simp only [List.filter_cons, hd, Bool.false_eq_true, if_false, List.filter_nil, List.map_nil, List.sum_nil]
  · simp [h1]

theorem sum_map_zero (l : List Nat) (f : Nat → Bucket) (hz : ∀ b ∈ l, f b = 0) : (l.map f).sum = 0 := by
  apply List.sum_eq_zero
  intro x hx
  obtain ⟨b, hb, rfl⟩ := List.mem_map.mp hx
  exact hz b hb

end Sentinel.C08
