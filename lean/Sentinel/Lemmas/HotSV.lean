import Mathlib.Tactic
import Sentinel.Lemmas.Hot
/-!
# The one-value machines: token-bucket envelope, two-max, idle grant; leaky-bucket pacing, wait bound
-/
namespace Sentinel.Hot

theorem div_add_div_le (a b d : Int) (hd : 0 < d) : a / d + b / d ≤ (a + b) / d := by
  apply Int.le_ediv_of_mul_le hd
  have h1 := Int.ediv_mul_le a (ne_of_gt hd)
  have h2 := Int.ediv_mul_le b (ne_of_gt hd)
  nlinarith

/-- refill without wrap-around -/
theorem refill_exact {T maxC dms pt rest b : Int} (hT : 0 ≤ T) (hd : 0 < dms) (hpt : 0 ≤ pt) (hr : 0 ≤ rest)
    (hrm : rest ≤ maxC) (hfit : pt * T + maxC < two63) :
    refill T maxC dms pt rest b =
      if pt * T / dms + rest > maxC then maxC - b else pt * T / dms + rest - b := by
  unfold refill
  have h0 : 0 ≤ pt * T := mul_nonneg hpt hT
  have hw : w (pt * T) = pt * T := w_id (by unfold two63; omega) (by omega)
  have hdiv : (pt * T).tdiv dms = pt * T / dms := Int.tdiv_eq_ediv_of_nonneg h0
  have hle : pt * T / dms ≤ pt * T := Int.ediv_le_self _ h0
  have hge : 0 ≤ pt * T / dms := Int.ediv_nonneg h0 (le_of_lt hd)
  have hw2 : w (pt * T / dms + rest) = pt * T / dms + rest := w_id (by unfold two63; omega) (by omega)
  simp only [hw, hdiv, hw2]

/-- envelope invariant of the one-value reject machine.  `first` = time the episode started, `prev` = time
    of the latest request, `adm` = tokens admitted so far in the episode -/
def InvR (T maxC dms first prev adm : Int) : Option (Int × Int) → Prop
  | none => adm = 0
  | some (last, rest) =>
    first ≤ last ∧ last ≤ prev ∧ 0 ≤ rest ∧ rest ≤ maxC ∧ adm + rest ≤ maxC + (last - first) * T / dms

theorem svReject_inv {T maxC dms first prev adm : Int} {cell : Option (Int × Int)} {now b : Int}
    (hT : 0 ≤ T) (hd : 0 < dms) (hb : 0 ≤ b) (hfp : first ≤ prev) (hpn : prev ≤ now)
    (hfit : (now - first) * T + maxC < two63)
    (inv : InvR T maxC dms first prev adm cell) :
    InvR T maxC dms first now
      (adm + if (svReject T maxC dms cell now b).2 = .pass then b else 0) (svReject T maxC dms cell now b).1 := by
  unfold svReject
  by_cases h1 : T ≤ 0
  · simp only [h1, if_true]
    cases cell with
    | none => simpa [InvR] using inv
    | some c =>
      obtain ⟨last, rest⟩ := c
      obtain ⟨i1, i2, i3, i4, i5⟩ := inv
      simp only [InvR, reduceCtorEq, if_false, add_zero]
      exact ⟨i1, by omega, i3, i4, i5⟩
  simp only [h1, if_false]
  by_cases h2 : b > maxC
  · simp only [h2, if_true]
    cases cell with
    | none => simpa [InvR] using inv
    | some c =>
      obtain ⟨last, rest⟩ := c
      obtain ⟨i1, i2, i3, i4, i5⟩ := inv
      simp only [InvR, reduceCtorEq, if_false, add_zero]
      exact ⟨i1, by omega, i3, i4, i5⟩
  simp only [h2, if_false]
  cases cell with
  | none =>
    simp only [InvR] at inv
    subst inv
    simp only [InvR, if_true]
    have : 0 ≤ (now - first) * T / dms := Int.ediv_nonneg (mul_nonneg (by omega) hT) (le_of_lt hd)
    refine ⟨by omega, le_refl _, by omega, by omega, by omega⟩
  | some c =>
    obtain ⟨last, rest⟩ := c
    obtain ⟨i1, i2, i3, i4, i5⟩ := inv
    dsimp only
    by_cases h3 : now - last > dms
    · simp only [h3, if_true]
      have hpt : 0 ≤ now - last := by omega
      have hle : (now - last) * T ≤ (now - first) * T := mul_le_mul_of_nonneg_right (by omega) hT
      rw [refill_exact hT hd hpt i3 i4 (by omega)]
      have hsum : (last - first) * T / dms + (now - last) * T / dms ≤ (now - first) * T / dms := by
        have h := div_add_div_le ((last - first) * T) ((now - last) * T) dms hd
        have e : (last - first) * T + (now - last) * T = (now - first) * T := by ring
        rwa [e] at h
      by_cases h4 : (now - last) * T / dms + rest > maxC
      · simp only [h4, if_true]
        by_cases h5 : maxC - b < 0
        · exact absurd h5 (by omega)
        · simp only [h5, if_false, InvR, if_true]
          exact ⟨by omega, le_refl _, by omega, by omega, by omega⟩
      · simp only [h4, if_false]
        by_cases h5 : (now - last) * T / dms + rest - b < 0
        · simp only [h5, if_true, InvR, reduceCtorEq, if_false, add_zero]
          exact ⟨i1, by omega, i3, i4, i5⟩
        · simp only [h5, if_false, InvR, if_true]
          exact ⟨by omega, le_refl _, by omega, by omega, by omega⟩
    · simp only [h3, if_false]
      by_cases h5 : rest - b ≥ 0
      · simp only [h5, if_true, InvR]
        refine ⟨i1, by omega, ?_, ?_, ?_⟩ <;> first | trivial | omega
      · simp only [h5, if_false, InvR, reduceCtorEq, add_zero]
        exact ⟨i1, by omega, i3, i4, i5⟩

theorem admitted_cons (p : Req × Res) (l : List (Req × Res)) :
    admitted (p :: l) = (if p.2 = .pass then p.1.b else 0) + admitted l := rfl

theorem sv_envelope_aux {T maxC dms first tEnd : Int} (hT : 0 ≤ T) (hd : 0 < dms) (hm : 0 ≤ maxC) :
    ∀ (qs : List Req) (cell : Option (Int × Int)) (adm prev : Int),
      InvR T maxC dms first prev adm cell → first ≤ prev → Mono prev qs →
      (∀ q ∈ qs, 0 ≤ q.b ∧ q.t ≤ tEnd ∧ (q.t - first) * T + maxC < two63) → prev ≤ tEnd →
      adm + admitted (svRunReject T maxC dms cell qs) ≤ maxC + (tEnd - first) * T / dms := by
  intro qs
  induction qs with
  | nil =>
    intro cell adm prev inv hfp _ _ hpe
    simp only [svRunReject, admitted, add_zero]
    cases cell with
    | none =>
      simp only [InvR] at inv; subst inv
      have : 0 ≤ (tEnd - first) * T / dms := Int.ediv_nonneg (mul_nonneg (by omega) hT) (le_of_lt hd)
      omega
    | some c =>
      obtain ⟨last, rest⟩ := c
      obtain ⟨i1, i2, i3, i4, i5⟩ := inv
      have : (last - first) * T / dms ≤ (tEnd - first) * T / dms :=
        Int.ediv_le_ediv hd (mul_le_mul_of_nonneg_right (by omega) hT)
      omega
  | cons q qs ih =>
    intro cell adm prev inv hfp hmono hall hpe
    obtain ⟨hm1, hm2⟩ := hmono
    have hq := hall q (List.mem_cons_self)
    have inv' := svReject_inv (b := q.b) hT hd hq.1 hfp hm1 hq.2.2 inv
    have := ih _ _ q.t inv' (by omega) hm2 (fun x hx => hall x (List.mem_cons_of_mem _ hx)) hq.2.1
    simp only [svRunReject, admitted_cons]
    omega

/-- envelope of the one-value reject machine over every monotone history starting at first sight -/
theorem sv_envelope {T maxC dms : Int} (hT : 0 ≤ T) (hd : 0 < dms) (hm : 0 ≤ maxC)
    (q0 : Req) (qs : List Req) (tEnd : Int) (hmono : Mono q0.t qs)
    (hall : ∀ q ∈ q0 :: qs, 0 ≤ q.b ∧ q.t ≤ tEnd ∧ (q.t - q0.t) * T + maxC < two63) :
    admitted (svRunReject T maxC dms none (q0 :: qs)) ≤ maxC + (tEnd - q0.t) * T / dms := by
  have h := sv_envelope_aux (first := q0.t) (tEnd := tEnd) hT hd hm (q0 :: qs) none 0 q0.t
    (by simp [InvR]) (le_refl _) ⟨le_refl _, hmono⟩ hall (hall q0 List.mem_cons_self).2.1
  simpa using h

/-! ### at most twice the bucket inside one duration -/

theorem sv_window_no_refill {T maxC dms : Int} :
    ∀ (qs : List Req) (last rest : Int), 0 ≤ rest →
      (∀ q ∈ qs, q.t ≤ last + dms ∧ 0 ≤ q.b) →
      admitted (svRunReject T maxC dms (some (last, rest)) qs) ≤ rest := by
  intro qs
  induction qs with
  | nil => intro last rest h _; simpa [svRunReject, admitted] using h
  | cons q qs ih =>
    intro last rest hr hall
    have hq := hall q List.mem_cons_self
    have hrest := fun x hx => hall x (List.mem_cons_of_mem _ hx)
    simp only [svRunReject, admitted_cons]
    unfold svReject
    by_cases h1 : T ≤ 0
    · simp only [h1, if_true, reduceCtorEq, if_false, zero_add]; exact ih _ _ hr hrest
    simp only [h1, if_false]
    by_cases h2 : q.b > maxC
    · simp only [h2, if_true, reduceCtorEq, if_false, zero_add]; exact ih _ _ hr hrest
    simp only [h2, if_false]
    have h3 : ¬ q.t - last > dms := by omega
    simp only [h3, if_false]
    by_cases h5 : rest - q.b ≥ 0
    · simp only [h5, if_true]
      have := ih last (rest - q.b) h5 hrest
      omega
    · simp only [h5, if_false, reduceCtorEq, zero_add]; exact ih _ _ hr hrest

/-- tokens left in a cell, 0 when the value is not resident -/
def restOf : Option (Int × Int) → Int
  | none => 0
  | some (_, rest) => rest

theorem refill_le {T maxC dms pt rest b : Int} : refill T maxC dms pt rest b ≤ maxC - b := by
  unfold refill; dsimp only; split <;> omega

theorem sv_window_aux {T maxC dms a : Int} (hm : 0 ≤ maxC) :
    ∀ (qs : List Req) (cell : Option (Int × Int)), 0 ≤ restOf cell → restOf cell ≤ maxC →
      (∀ q ∈ qs, a ≤ q.t ∧ q.t ≤ a + dms ∧ 0 ≤ q.b) →
      admitted (svRunReject T maxC dms cell qs) ≤ restOf cell + maxC := by
  intro qs
  induction qs with
  | nil => intro cell h0 _ _; simp [svRunReject, admitted]; omega
  | cons q qs ih =>
    intro cell h0 h1 hall
    have hq := hall q List.mem_cons_self
    have hrest := fun x hx => hall x (List.mem_cons_of_mem _ hx)
    have hnr : ∀ x ∈ qs, x.t ≤ q.t + dms ∧ 0 ≤ x.b := fun x hx => ⟨by have := hrest x hx; omega, (hrest x hx).2.2⟩
    simp only [svRunReject, admitted_cons]
    unfold svReject
    by_cases c1 : T ≤ 0
    · simp only [c1, if_true, reduceCtorEq, if_false, zero_add]; exact ih _ h0 h1 hrest
    simp only [c1, if_false]
    by_cases c2 : q.b > maxC
    · simp only [c2, if_true, reduceCtorEq, if_false, zero_add]; exact ih _ h0 h1 hrest
    simp only [c2, if_false]
    cases cell with
    | none =>
      simp only [if_true]
      have := sv_window_no_refill (T := T) (maxC := maxC) (dms := dms) qs q.t (maxC - q.b) (by omega) hnr
      simp only [restOf]; omega
    | some c =>
      obtain ⟨last, rest⟩ := c
      simp only [restOf] at h0 h1 ⊢
      by_cases c3 : q.t - last > dms
      · simp only [c3, if_true]
        by_cases c4 : refill T maxC dms (q.t - last) rest q.b < 0
        · simp only [c4, if_true, reduceCtorEq, if_false, zero_add]
          exact ih (some (last, rest)) h0 h1 hrest
        · simp only [c4, if_false, if_true]
          have := sv_window_no_refill (T := T) (maxC := maxC) (dms := dms) qs q.t _ (not_lt.mp c4) hnr
          have := refill_le (T := T) (maxC := maxC) (dms := dms) (pt := q.t - last) (rest := rest) (b := q.b)
          omega
      · simp only [c3, if_false]
        by_cases c5 : rest - q.b ≥ 0
        · simp only [c5, if_true]
          have := ih (some (last, rest - q.b)) (by simpa [restOf] using c5) (by simp only [restOf]; omega) hrest
          simp only [restOf] at this
          omega
        · simp only [c5, if_false, reduceCtorEq, zero_add]
          exact ih (some (last, rest)) h0 h1 hrest

/-- idle for longer than the duration ⇒ a batch up to the threshold is granted -/
theorem sv_idle_grant {T maxC dms now b : Int} {cell : Option (Int × Int)} (hT : 0 < T) (hd : 0 < dms)
    (hb0 : 0 ≤ b) (hbT : b ≤ T) (hTm : T ≤ maxC)
    (hidle : ∀ last rest, cell = some (last, rest) →
      now - last > dms ∧ 0 ≤ rest ∧ rest ≤ maxC ∧ (now - last) * T + maxC < two63) :
    (svReject T maxC dms cell now b).2 = .pass := by
  unfold svReject
  have c1 : ¬ T ≤ 0 := by omega
  have c2 : ¬ b > maxC := by omega
  simp only [c1, c2, if_false]
  cases cell with
  | none => rfl
  | some c =>
    obtain ⟨last, rest⟩ := c
    obtain ⟨h1, h2, h3, h4⟩ := hidle last rest rfl
    dsimp only
    simp only [h1, if_true]
    rw [refill_exact (le_of_lt hT) hd (by omega) h2 h3 h4]
    have hge : T ≤ (now - last) * T / dms := by
      apply Int.le_ediv_of_mul_le hd
      have : dms ≤ now - last := by omega
      nlinarith
    have : ¬ ((if (now - last) * T / dms + rest > maxC then maxC - b else (now - last) * T / dms + rest - b) < 0) := by
      split <;> omega
    simp only [this, if_false]

/-! ## throttling: the one-value leaky bucket -/

/-- the code's interval is the floor of `b·D·1000/T` whole ms (inside the int64 / 2^53 range) -/
theorem interval_floor {T D b : Int} (hT : 0 < T) (hD : 0 ≤ D) (hb : 0 ≤ b) (hfit : b * D * 1000 < 9007199254740992) :
    interval T D b = b * D * 1000 / T := by
  unfold interval
  have h0 : 0 ≤ b * D := mul_nonneg hb hD
  have hw1 : w (b * D) = b * D := w_id (by unfold two63; omega) (by unfold two63; omega)
  rw [hw1]
  have hw2 : w (b * D * 1000) = b * D * 1000 := w_id (by unfold two63; omega) (by unfold two63; omega)
  rw [hw2, Int.tdiv_eq_ediv_of_nonneg (by omega)]
  have h1 : 0 ≤ b * D * 1000 / T := Int.ediv_nonneg (by omega) (le_of_lt hT)
  have h2 : b * D * 1000 / T ≤ b * D * 1000 := Int.ediv_le_self _ (by omega)
  exact f64int_id h1 (by omega)

/-- … which is the real-valued spacing exactly when the threshold divides `b·D·1000` -/
theorem interval_real_of_dvd {T D b : Int} (hT : 0 < T) (hD : 0 ≤ D) (hb : 0 ≤ b)
    (hfit : b * D * 1000 < 9007199254740992) (hdvd : T ∣ b * D * 1000) :
    interval T D b * T = b * D * 1000 := by
  rw [interval_floor hT hD hb hfit]
  exact Int.ediv_mul_cancel hdvd

/-- scheduled-time invariant: the cell is the scheduled pass time of the latest admitted request -/
def Paced (T D : Int) : Option Int → List (Req × Res) → Prop
  | _, [] => True
  | last, p :: l =>
    match p.2 with
    | .pass => (∀ s, last = some s → interval T D p.1.b ≤ p.1.t - s) ∧ Paced T D (some p.1.t) l
    | .wait ms => (∀ s, last = some s → interval T D p.1.b ≤ p.1.t + ms - s) ∧ Paced T D (some (p.1.t + ms)) l
    | _ => Paced T D last l

/-- every requested wait is positive and shorter than the maximum queueing time -/
def WaitsBelow (mq : Int) : List (Req × Res) → Prop
  | [] => True
  | p :: l => (∀ ms, p.2 = .wait ms → 0 < ms ∧ ms < mq) ∧ WaitsBelow mq l

/-- one step of the throttling machine under the no-wrap guard -/
theorem svThrottle_step {T iv mq now H : Int} {cell : Option Int} (hmq : 0 ≤ mq) (hiv : 0 ≤ iv)
    (hnow : 0 ≤ now ∧ now ≤ H) (hfit : H + mq + iv < two63)
    (hc : ∀ s, cell = some s → 0 ≤ s ∧ s ≤ H + mq) :
    (∀ s, (svThrottle T iv mq cell now).1 = some s → 0 ≤ s ∧ s ≤ H + mq) ∧
    (match (svThrottle T iv mq cell now).2 with
      | .pass => (∀ s, cell = some s → iv ≤ now - s) ∧ (svThrottle T iv mq cell now).1 = some now
      | .wait ms => 0 < ms ∧ ms < mq ∧ (∀ s, cell = some s → iv ≤ now + ms - s) ∧
          (svThrottle T iv mq cell now).1 = some (now + ms)
      | _ => (svThrottle T iv mq cell now).1 = cell) := by
  unfold svThrottle
  by_cases h1 : T ≤ 0
  · simp only [h1, if_true]; exact ⟨hc, trivial⟩
  simp only [h1, if_false]
  cases cell with
  | none =>
    dsimp only
    refine ⟨?_, ?_, rfl⟩
    · intro s hs; cases hs; omega
    · intro s hs; cases hs
  | some last =>
    obtain ⟨l0, l1⟩ := hc last rfl
    dsimp only
    have hw1 : w (last + iv) = last + iv := w_id (by unfold two63; omega) (by omega)
    have hw2 : w (last + iv - now) = last + iv - now := w_id (by unfold two63 at *; omega) (by omega)
    rw [hw1, hw2]
    by_cases h2 : last + iv ≤ now ∨ last + iv - now < mq
    · simp only [h2, if_true]
      by_cases h3 : last + iv - now > 0
      · simp only [h3, if_true]
        refine ⟨?_, ?_, ?_, ?_, ?_⟩
        all_goals first | trivial | omega | (intro s hs; cases hs; omega) | (congr 1; omega) | skip
      · simp only [h3, if_false]
        refine ⟨?_, ?_, ?_⟩
        all_goals first | trivial | omega | (intro s hs; cases hs; omega) | skip
    · simp only [h2, if_false]
      exact ⟨fun s hs => by cases hs; exact ⟨l0, l1⟩, trivial⟩

theorem sv_pacing_aux {T D mq H : Int} (hmq : 0 ≤ mq) :
    ∀ (qs : List Req) (cell : Option Int), (∀ s, cell = some s → 0 ≤ s ∧ s ≤ H + mq) →
      (∀ q ∈ qs, 0 ≤ q.t ∧ q.t ≤ H ∧ 0 ≤ interval T D q.b ∧ H + mq + interval T D q.b < two63) →
      Paced T D cell (svRunThrottle T D mq cell qs) ∧ WaitsBelow mq (svRunThrottle T D mq cell qs) := by
  intro qs
  induction qs with
  | nil => intro _ _ _; exact ⟨trivial, trivial⟩
  | cons q qs ih =>
    intro cell hc hall
    obtain ⟨q1, q2, q3, q4⟩ := hall q List.mem_cons_self
    have hrest := fun x hx => hall x (List.mem_cons_of_mem _ hx)
    obtain ⟨s1, s2⟩ := svThrottle_step (T := T) hmq q3 ⟨q1, q2⟩ q4 hc
    have ih' := ih _ s1 hrest
    simp only [svRunThrottle, Paced, WaitsBelow]
    cases hres : (svThrottle T (interval T D q.b) mq cell q.t).2 with
    | pass =>
      rw [hres] at s2
      simp only [reduceCtorEq, false_implies, implies_true, true_and]
      rw [s2.2] at ih' ⊢
      exact ⟨⟨s2.1, ih'.1⟩, ih'.2⟩
    | wait ms =>
      rw [hres] at s2
      simp only [Res.wait.injEq, forall_eq']
      rw [s2.2.2.2] at ih' ⊢
      exact ⟨⟨s2.2.2.1, ih'.1⟩, ⟨s2.1, s2.2.1⟩, ih'.2⟩
    | block =>
      rw [hres] at s2
      simp only [reduceCtorEq, false_implies, implies_true, true_and]
      rw [s2] at ih' ⊢
      exact ih'
    | spin =>
      rw [hres] at s2
      simp only [reduceCtorEq, false_implies, implies_true, true_and]
      rw [s2] at ih' ⊢
      exact ih'

end Sentinel.Hot
