import Mathlib.Tactic
import Sentinel.Model.Rules
/-! Lemmas about the rule-manager model: the laws each module's constructor write-back obeys, and the
invariant that ties the manager state to the raw lists handed over (`latest`). -/
namespace Sentinel.Rules

/-- what the proofs need to know about a module's `IsValidRule` / generator table / constructor write-back -/
structure Lawful {R : Type} (M : RuleMod R) : Prop where
  norm_idem : ∀ r, M.norm (M.norm r) = M.norm r
  valid_norm : ∀ r, M.valid r = true → M.valid (M.norm r) = true
  build_norm : ∀ r, M.buildable r = true → M.buildable (M.norm r) = true
  res_norm : ∀ r, M.res (M.norm r) = M.res r
  pub_norm : M.pubValid = true → ∀ r, M.norm r = r
  sim_refl : ∀ r, M.sim r r = true
  sim_res : ∀ a b, M.sim a b = true → M.res a = M.res b
  equals_sim : ∀ o r, M.equals o r = true → M.norm o = o → M.sim o (M.norm r) = true
  equals_buildable : ∀ o r, M.equals o r = true → M.buildable o = M.buildable r

theorem firstTrue_eq_zero (l : List Bool) (i : Nat) (hi : i ≠ 0) : firstTrue i l = 0 ↔ ∀ b ∈ l, b = false := by
  induction l generalizing i with
  | nil => simp [firstTrue]
  | cons b l ih =>
    cases b with
    | true => simp [firstTrue, hi]
    | false => simp [firstTrue, ih (i + 1) (by omega)]

theorem flowClause_norm (tm : Int) (r : FlowRule) (h : flowClause tm r = 0) : flowClause tm (flowNorm r) = 0 := by
  unfold flowNorm
  split_ifs with hc
  · obtain ⟨h1, h2⟩ := hc
    unfold flowClause at h ⊢
    rw [firstTrue_eq_zero _ _ (by decide)] at h ⊢
    simp only [List.mem_cons, List.not_mem_nil, or_false, forall_eq_or_imp, forall_eq, decide_eq_false_iff_not] at h ⊢
    simp only [h1] at h ⊢
    refine ⟨h.1, h.2.1, by omega, h.2.2.2.1, h.2.2.2.2.1, h.2.2.2.2.2.1, h.2.2.2.2.2.2.1, by omega, ?_⟩
    simp
  · exact h

/-- a reused flow controller is bound to a rule equal, on every recorded field, to the one just handed over -/
theorem f64Equals_refl (x : Int) : f64Equals x x = true := by simp [f64Equals]

theorem flowIsEqualsTo_iff (a b : FlowRule) : flowIsEqualsTo a b = true ↔ flowSim a b = true := by
  cases a; cases b
  simp only [flowIsEqualsTo, flowSim, flowCanon, Bool.and_eq_true, beq_iff_eq, decide_eq_true_eq, FlowRule.mk.injEq]
  tauto

/-- a reused hotspot controller is bound to a rule that prints like the one just handed over -/
theorem hotEquals_canon (a b : HotRule) (h : hotEquals a b = true) : hotCanon a = hotCanon b := by
  cases a; cases b
  simp only [hotEquals, Bool.and_eq_true, beq_iff_eq] at h
  simp only [hotCanon, HotRule.mk.injEq]
  obtain ⟨⟨⟨⟨⟨⟨⟨⟨⟨h1, h2⟩, h3⟩, h4⟩, h5⟩, h6⟩, h7⟩, h8⟩, h9⟩, h10⟩ := h
  subst h1 h2 h3 h4 h5 h6 h7 h8 h9
  split_ifs at h10 ⊢ <;> simp_all

theorem flow_lawful (tm : Int) : Lawful (flowMod tm) where
  norm_idem r := by
    simp only [flowMod, flowNorm]; split_ifs <;> simp_all
  valid_norm r h := by
    simp only [flowMod, decide_eq_true_eq] at h ⊢
    exact flowClause_norm tm r h
  build_norm r h := by
    simp only [flowMod, flowBuildable, flowNorm] at h ⊢; split_ifs <;> simpa using h
  res_norm r := by simp only [flowMod, flowNorm]; split_ifs <;> rfl
  pub_norm h := by simp [flowMod] at h
  sim_refl r := by simp [flowMod, flowSim, f64Equals_refl]
  sim_res a b h := by
    simp only [flowMod, flowSim, Bool.and_eq_true, decide_eq_true_eq] at h
    have := congrArg FlowRule.res h.1
    simp only [flowCanon] at this
    exact this
  equals_sim o r h hn := by
    have hs := (flowIsEqualsTo_iff o r).mp h
    have hc : flowCanon o = flowCanon r := by
      simp only [flowSim, Bool.and_eq_true, decide_eq_true_eq] at hs; exact hs.1
    suffices hr : flowNorm r = r by simp only [flowMod]; rw [hr]; exact hs
    cases o; cases r
    simp only [flowCanon, FlowRule.mk.injEq] at hc
    simp only [flowMod, flowNorm] at hn ⊢
    obtain ⟨-, -, h1, -, -, -, -, -, -, h2, -⟩ := hc
    subst h1 h2
    split_ifs at hn ⊢ with hcond
    · simp only [FlowRule.mk.injEq] at hn; omega
    · rfl
  equals_buildable o r h := by
    have hs := (flowIsEqualsTo_iff o r).mp h
    have this : flowCanon o = flowCanon r := by
      simp only [flowSim, Bool.and_eq_true, decide_eq_true_eq] at hs; exact hs.1
    cases o; cases r
    simp only [flowCanon, FlowRule.mk.injEq] at this
    simp only [flowMod, flowBuildable]
    obtain ⟨-, -, h1, h2, -⟩ := this
    subst h1 h2; rfl

theorem iso_lawful : Lawful isoMod where
  norm_idem _ := rfl
  valid_norm _ h := h
  build_norm _ h := h
  res_norm _ := rfl
  pub_norm _ _ := rfl
  sim_refl r := by simp [isoMod]
  sim_res a b h := by simp only [isoMod, decide_eq_true_eq] at h; rw [h]
  equals_sim _ _ h := by simp [isoMod] at h
  equals_buildable _ _ h := by simp [isoMod] at h

theorem hot_lawful : Lawful hotMod where
  norm_idem r := by simp only [hotMod, hotNorm]; split_ifs <;> simp_all
  valid_norm r h := by
    simp only [hotMod, decide_eq_true_eq] at h ⊢
    unfold hotNorm; split_ifs
    · exact h
    · exact h
  build_norm r h := by
    simp only [hotMod, hotBuildable, hotNorm] at h ⊢; split_ifs <;> simpa using h
  res_norm r := by simp only [hotMod, hotNorm]; split_ifs <;> rfl
  pub_norm h := by simp [hotMod] at h
  sim_refl r := by simp [hotMod]
  sim_res a b h := by
    simp only [hotMod, decide_eq_true_eq] at h
    have := congrArg HotRule.res h
    simp only [hotCanon] at this
    exact this
  equals_sim o r h hn := by
    have hc := hotEquals_canon o r h
    suffices hr : hotNorm r = r by simp only [hotMod]; rw [hr]; simpa using hc
    cases o; cases r
    simp only [hotCanon, HotRule.mk.injEq] at hc
    simp only [hotMod, hotNorm] at hn ⊢
    obtain ⟨-, -, -, -, -, -, -, -, -, -, -, h1⟩ := hc
    subst h1
    split_ifs at hn ⊢ with hcond
    · simp only [HotRule.mk.injEq] at hn; omega
    · rfl
  equals_buildable o r h := by
    cases o; cases r
    simp only [hotMod, hotEquals, Bool.and_eq_true, beq_iff_eq] at h
    simp only [hotMod, hotBuildable]
    obtain ⟨⟨⟨⟨⟨⟨⟨⟨⟨-, h2⟩, h3⟩, -⟩, -⟩, -⟩, -⟩, -⟩, -⟩, -⟩ := h
    subst h2 h3; rfl

theorem cb_lawful : Lawful cbMod where
  norm_idem _ := rfl
  valid_norm _ h := h
  build_norm _ h := h
  res_norm _ := rfl
  pub_norm _ _ := rfl
  sim_refl r := by simp [cbMod, cbSim, f64Equals_refl]
  sim_res a b h := by
    simp only [cbMod, cbSim, Bool.and_eq_true, decide_eq_true_eq] at h
    have := congrArg CbRule.res h.1
    simp only [cbCanon] at this
    exact this
  equals_sim o r h _ := by
    cases o; cases r
    simp only [cbMod, cbIsEqualsTo, Bool.and_eq_true, beq_iff_eq] at h
    simp only [cbMod, cbSim, cbCanon, id, Bool.and_eq_true, decide_eq_true_eq, CbRule.mk.injEq]
    obtain ⟨⟨⟨⟨⟨⟨⟨h1, h2⟩, h3⟩, h4⟩, h5⟩, h6⟩, h7⟩, h8⟩ := h
    subst h1 h2 h3 h4 h5 h6 h7
    split_ifs at h8 ⊢ <;> simp_all
  equals_buildable o r h := by
    cases o; cases r
    simp only [cbMod, cbIsEqualsTo, Bool.and_eq_true, beq_iff_eq] at h
    simp only [cbMod, cbBuildable]
    obtain ⟨⟨⟨⟨⟨⟨⟨-, h2⟩, -⟩, -⟩, -⟩, -⟩, -⟩, -⟩ := h
    subst h2; rfl

section
variable {R : Type} [DecidableEq R] {M : RuleMod R}

theorem built_norm (hM : Lawful M) {k : String} {r : R} (h : built M k r = true) : built M k (M.norm r) = true := by
  simp only [built, Bool.and_eq_true, Bool.or_eq_true] at h ⊢
  obtain ⟨⟨h1, h2⟩, h3⟩ := h
  exact ⟨⟨hM.valid_norm r h1, by rw [hM.res_norm]; exact h2⟩, hM.build_norm r h3⟩

theorem normIn_idem (hM : Lawful M) (k : String) (o : Option R) : normIn M k (normIn M k o) = normIn M k o := by
  cases o with
  | none => rfl
  | some r =>
    simp only [normIn, Option.map_some]
    by_cases h : built M k r = true
    · simp [h, built_norm hM h, hM.norm_idem]
    · simp [h]

theorem map_normIn_idem (hM : Lawful M) (k : String) (l : List (Option R)) :
    (l.map (normIn M k)).map (normIn M k) = l.map (normIn M k) := by
  simp [List.map_map, Function.comp_def, normIn_idem hM]

theorem buildList_cons_none (k : String) (l : List (Option R)) : buildList M k (none :: l) = buildList M k l := by
  simp [buildList]

theorem buildList_cons_some (k : String) (r : R) (l : List (Option R)) :
    buildList M k (some r :: l) = if built M k r = true then M.norm r :: buildList M k l else buildList M k l := by
  by_cases h : built M k r = true <;> simp [buildList, h]

theorem buildList_map_normIn (hM : Lawful M) (k : String) (l : List (Option R)) :
    buildList M k (l.map (normIn M k)) = buildList M k l := by
  induction l with
  | nil => rfl
  | cons o l ih =>
    cases o with
    | none => rw [List.map_cons]; show buildList M k (none :: _) = _; rw [buildList_cons_none, buildList_cons_none, ih]
    | some r =>
      rw [List.map_cons]
      by_cases h : built M k r = true
      · have e : normIn M k (some r) = some (M.norm r) := by simp [normIn, h]
        rw [e]
        simp only [buildList_cons_some, if_pos h, if_pos (built_norm hM h), hM.norm_idem, ih]
      · have e : normIn M k (some r) = some r := by simp [normIn, h]
        rw [e]
        simp only [buildList_cons_some, if_neg h, ih]

theorem normIn_eq_self_of_pub (hM : Lawful M) (hp : M.pubValid = true) (k : String) (l : List (Option R)) :
    l.map (normIn M k) = l := by
  have : ∀ o : Option R, normIn M k o = o := by
    intro o; cases o <;> simp [normIn, hM.pub_norm hp]
  have e : normIn M k = id := funext this
  rw [e, List.map_id]

theorem proj_nil_of_not_mem (k : String) (rules : List (Option R)) (h : k ∉ ruleKeys M rules) : proj M k rules = [] := by
  unfold proj
  rw [List.filter_eq_nil_iff]
  intro o ho
  cases o with
  | none => simp
  | some r =>
    simp only [beq_iff_eq]
    have : M.res r ≠ k := by
      intro e; apply h
      simp only [ruleKeys, List.mem_filterMap]
      exact ⟨some r, ho, by simp [e]⟩
    simpa using this

/-- every element the controllers are built from is accepted, and the list is what `filter`/`map` say -/
theorem mem_buildList {k : String} {l : List (Option R)} {r : R} :
    r ∈ buildList M k l ↔ ∃ r0, some r0 ∈ l ∧ built M k r0 = true ∧ r = M.norm r0 := by
  simp only [buildList, List.mem_map, List.mem_filter, List.mem_filterMap, id]
  constructor
  · rintro ⟨r0, ⟨⟨o, ho, rfl⟩, hb⟩, rfl⟩; exact ⟨r0, ho, hb, rfl⟩
  · rintro ⟨r0, ho, hb, rfl⟩; exact ⟨r0, ⟨⟨some r0, ho, rfl⟩, hb⟩, rfl⟩

/-! ### controller reuse: the bound objects equal the wanted rules up to what `equals` ignores -/

theorem findEq_some {r o : R} {old rest : List R} (h : findEq M r old = some (o, rest)) :
    o ∈ old ∧ M.equals o r = true ∧ ∀ x ∈ rest, x ∈ old := by
  induction old generalizing o rest with
  | nil => simp [findEq] at h
  | cons a os ih =>
    unfold findEq at h
    by_cases he : M.equals a r = true
    · rw [if_pos he] at h
      simp only [Option.some.injEq, Prod.mk.injEq] at h
      obtain ⟨rfl, rfl⟩ := h
      exact ⟨List.mem_cons_self, he, fun x hx => List.mem_cons_of_mem _ hx⟩
    · rw [if_neg he] at h
      cases hf : findEq M r os with
      | none => rw [hf] at h; simp at h
      | some p =>
        obtain ⟨o', rest'⟩ := p
        rw [hf] at h
        simp only [Option.map_some, Option.some.injEq, Prod.mk.injEq] at h
        obtain ⟨rfl, rfl⟩ := h
        obtain ⟨h1, h2, h3⟩ := ih hf
        refine ⟨List.mem_cons_of_mem _ h1, h2, fun x hx => ?_⟩
        rcases List.mem_cons.mp hx with rfl | hx
        · exact List.mem_cons_self
        · exact List.mem_cons_of_mem _ (h3 x hx)

theorem dropStat_subset (r : R) (old : List R) : ∀ x ∈ dropStat M r old, x ∈ old := by
  induction old with
  | nil => simp [dropStat]
  | cons a os ih =>
    intro x hx
    unfold dropStat at hx
    split_ifs at hx
    · exact List.mem_cons_of_mem _ hx
    · rcases List.mem_cons.mp hx with rfl | hx
      · exact List.mem_cons_self
      · exact List.mem_cons_of_mem _ (ih x hx)

/-- old objects that can be met: left as their constructor left them, and built by a registered generator -/
def OldOk (M : RuleMod R) (old : List R) : Prop := ∀ o ∈ old, M.norm o = o ∧ M.buildable o = true

theorem buildReuse_canon (hM : Lawful M) (k : String) (rules : List R) (hv : ∀ r ∈ rules, M.valid r = true) :
    ∀ old, OldOk M old →
      List.Forall₂ (fun a b => M.sim a b = true) (buildReuse M k rules old) ((rules.filter (built M k)).map M.norm) ∧
      OldOk M (buildReuse M k rules old) := by
  induction rules with
  | nil => intro old _; exact ⟨List.Forall₂.nil, fun _ h => by simp [buildReuse] at h⟩
  | cons r rs ih =>
    intro old ho
    have hvr : M.valid r = true := hv r List.mem_cons_self
    have ih' := ih (fun x hx => hv x (List.mem_cons_of_mem _ hx))
    unfold buildReuse
    by_cases hs : (M.scopedRes && M.res r != k) = true
    · rw [if_pos hs]
      have hb : built M k r = false := by
        simp only [Bool.and_eq_true, bne_iff_ne, ne_eq] at hs
        simp [built, hs.1, hs.2]
      rw [List.filter_cons_of_neg (by simp [hb])]
      exact ih' old ho
    · rw [if_neg hs]
      have hres : (!M.scopedRes || M.res r == k) = true := by
        cases h1 : M.scopedRes <;> simp_all
      cases hf : findEq M r old with
      | some p =>
        obtain ⟨o, rest⟩ := p
        obtain ⟨hmem, heq, hsub⟩ := findEq_some hf
        have hbo := ho o hmem
        have hbr : M.buildable r = true := by rw [← hM.equals_buildable o r heq]; exact hbo.2
        have hb : built M k r = true := by simp [built, hvr, hres, hbr]
        have hrest : OldOk M rest := fun x hx => ho x (hsub x hx)
        obtain ⟨e1, e2⟩ := ih' rest hrest
        dsimp only
        rw [List.filter_cons_of_pos hb]
        refine ⟨?_, ?_⟩
        · simp only [List.map_cons]
          exact List.Forall₂.cons (hM.equals_sim o r heq hbo.1) e1
        · intro x hx
          rcases List.mem_cons.mp hx with rfl | hx
          · exact hbo
          · exact e2 x hx
      | none =>
        dsimp only
        by_cases hbr : M.buildable r = true
        · rw [if_pos hbr]
          have hb : built M k r = true := by simp [built, hvr, hres, hbr]
          have hd : OldOk M (dropStat M r old) := fun x hx => ho x (dropStat_subset r old x hx)
          obtain ⟨e1, e2⟩ := ih' _ hd
          rw [List.filter_cons_of_pos hb]
          refine ⟨by simp only [List.map_cons]; exact List.Forall₂.cons (hM.sim_refl _) e1, ?_⟩
          intro x hx
          rcases List.mem_cons.mp hx with rfl | hx
          · exact ⟨hM.norm_idem r, hM.build_norm r hbr⟩
          · exact e2 x hx
        · rw [if_neg hbr]
          have hb : built M k r = false := by
            simp only [Bool.not_eq_true] at hbr
            simp [built, hbr]
          rw [List.filter_cons_of_neg (by simp [hb])]
          exact ih' old ho

theorem validList_filter_built (k : String) (l : List (Option R)) :
    (validList M l).filter (built M k) = (l.filterMap id).filter (built M k) := by
  unfold validList
  rw [List.filter_filter]
  apply List.filter_congr
  intro r _
  by_cases hv : M.valid r = true <;> simp_all [built]

theorem buildReuse_spec (hM : Lawful M) (k : String) (l : List (Option R)) (old : List R) (ho : OldOk M old) :
    List.Forall₂ (fun a b => M.sim a b = true) (buildReuse M k (validList M l) old) (buildList M k l) ∧
    OldOk M (buildReuse M k (validList M l) old) := by
  have hv : ∀ r ∈ validList M l, M.valid r = true := fun r hr => (List.mem_filter.mp hr).2
  have := buildReuse_canon hM k (validList M l) hv old ho
  rw [validList_filter_built] at this
  exact this

/-- without reuse (isolation, circuit breaker) the bound objects are exactly the wanted rules -/
theorem buildReuse_of_no_equals (hne : ∀ a b, M.equals a b = false) (k : String) (rules : List R) (hv : ∀ r ∈ rules, M.valid r = true) :
    ∀ old, buildReuse M k rules old = (rules.filter (built M k)).map M.norm := by
  have hfe : ∀ r old, findEq M r old = none := by
    intro r old
    induction old with
    | nil => rfl
    | cons a os ih => simp [findEq, hne, ih]
  induction rules with
  | nil => intro old; rfl
  | cons r rs ih =>
    intro old
    have hvr : M.valid r = true := hv r List.mem_cons_self
    have ih' := ih (fun x hx => hv x (List.mem_cons_of_mem _ hx))
    unfold buildReuse
    by_cases hs : (M.scopedRes && M.res r != k) = true
    · rw [if_pos hs]
      have hb : built M k r = false := by
        simp only [Bool.and_eq_true, bne_iff_ne, ne_eq] at hs
        simp [built, hs.1, hs.2]
      rw [List.filter_cons_of_neg (by simp [hb])]
      exact ih' old
    · rw [if_neg hs, hfe]
      have hres : (!M.scopedRes || M.res r == k) = true := by
        cases h1 : M.scopedRes <;> simp_all
      dsimp only
      by_cases hbr : M.buildable r = true
      · rw [if_pos hbr]
        have hb : built M k r = true := by simp [built, hvr, hres, hbr]
        rw [List.filter_cons_of_pos hb, List.map_cons, ih']
      · rw [if_neg hbr]
        have hb : built M k r = false := by
          simp only [Bool.not_eq_true] at hbr
          simp [built, hbr]
        rw [List.filter_cons_of_neg (by simp [hb])]
        exact ih' old

/-- the invariant relating a manager state to the raw lists in force -/
structure Inv (M : RuleMod R) (s : MState R) (L : String → List (Option R)) : Prop where
  cache : ∀ k, s.cache k = (L k).map (normIn M k)
  enf : ∀ k, s.enf k = buildList M k (L k)
  keys : ∀ k, k ∉ s.keys → L k = []
  bound : ∀ k, List.Forall₂ (fun a b => M.sim a b = true) (s.bound k) (s.enf k)
  boundOk : ∀ k, OldOk M (s.bound k)
  boundEq : (∀ a b, M.equals a b = false) → ∀ k, s.bound k = s.enf k
  pub : ∀ k, (M.pubValid = false ∧ s.pub k = s.bound k) ∨
    (M.pubValid = true ∧ (s.pub k = validList M (L k) ∨ (s.pub k = [] ∧ s.enf k = [])))

theorem inv_init : Inv M (MState.init : MState R) (fun _ => []) :=
  ⟨fun _ => rfl, fun _ => rfl, fun _ _ => rfl, fun _ => List.Forall₂.nil, fun _ _ h => by simp [MState.init] at h,
   fun _ _ => rfl, fun _ => by cases h : M.pubValid <;> simp [MState.init]⟩

theorem upd_same {α : Type} (f : String → α) (k : String) (v : α) : upd f k v k = v := by simp [upd]
theorem upd_other {α : Type} (f : String → α) {k x : String} (v : α) (h : x ≠ k) : upd f k v x = f x := by simp [upd, h]

/-- when the whole-set `DeepEqual` test succeeds the cache is, key by key, the new grouped input -/
theorem cache_eq_of_all {s : MState R} {L : String → List (Option R)} (hI : Inv M s L) (rules : List (Option R))
    (h : (s.keys ++ ruleKeys M rules).all (fun k => s.cache k == proj M k rules) = true) (k : String) :
    s.cache k = proj M k rules := by
  by_cases hk : k ∈ s.keys ++ ruleKeys M rules
  · have := List.all_eq_true.mp h k hk
    simpa using this
  · simp only [List.mem_append, not_or] at hk
    rw [hI.cache k, hI.keys k hk.1, proj_nil_of_not_mem k rules hk.2]; rfl

theorem loadAll_unchanged {s : MState R} {rules : List (Option R)}
    (h : (s.keys ++ ruleKeys M rules).all (fun k => s.cache k == proj M k rules) = true) :
    loadAll M s rules = (s, .unchanged) := by
  unfold loadAll; dsimp only; rw [if_pos h]

theorem loadAll_changed {s : MState R} {rules : List (Option R)}
    (h : ¬ (s.keys ++ ruleKeys M rules).all (fun k => s.cache k == proj M k rules) = true) :
    loadAll M s rules =
      (MState.mk (ruleKeys M rules)
         (fun k => (proj M k rules).map (normIn M k))
         (fun k => buildList M k (proj M k rules))
         (fun k => buildReuse M k (validList M (proj M k rules)) (s.bound k))
         (fun k => if M.pubValid then validList M (proj M k rules)
                   else buildReuse M k (validList M (proj M k rules)) (s.bound k)), .changed) := by
  unfold loadAll; dsimp only; rw [if_neg h]

theorem loadRes_noRes {s : MState R} {rules : List (Option R)} : loadRes M s "" rules = (s, .err) := by
  unfold loadRes; simp

theorem loadRes_clear {s : MState R} {res : String} (h0 : res ≠ "") :
    loadRes M s res [] =
      (MState.mk s.keys (upd s.cache res []) (upd s.enf res []) (upd s.bound res []) (upd s.pub res []), .changed) := by
  unfold loadRes; simp [h0]

theorem loadRes_unchanged {s : MState R} {res : String} {rules : List (Option R)} (h0 : res ≠ "") (h1 : rules ≠ [])
    (h2 : s.cache res = rules) : loadRes M s res rules = (s, .unchanged) := by
  unfold loadRes; simp [h0, h1, h2]

theorem loadRes_changed {s : MState R} {res : String} {rules : List (Option R)} (h0 : res ≠ "") (h1 : rules ≠ [])
    (h2 : s.cache res ≠ rules) :
    loadRes M s res rules =
      (MState.mk (res :: s.keys)
         (upd s.cache res (rules.map (normIn M res)))
         (upd s.enf res (buildList M res rules))
         (upd s.bound res (buildReuse M res (validList M rules) (s.bound res)))
         (upd s.pub res (if M.pubValid then (if buildList M res rules = [] then [] else validList M rules)
                         else buildReuse M res (validList M rules) (s.bound res))), .changed) := by
  unfold loadRes; simp [h0, h1, h2]

theorem buildReuse_eq_of_no_equals (hne : ∀ a b, M.equals a b = false) (k : String) (l : List (Option R)) (old : List R) :
    buildReuse M k (validList M l) old = buildList M k l := by
  have hv : ∀ r ∈ validList M l, M.valid r = true := fun r hr => (List.mem_filter.mp hr).2
  rw [buildReuse_of_no_equals hne k _ hv, validList_filter_built]; rfl

theorem inv_loadAll (hM : Lawful M) {s : MState R} {L : String → List (Option R)} (hI : Inv M s L) (rules : List (Option R)) :
    Inv M (loadAll M s rules).1 (fun k => proj M k rules) := by
  by_cases h : (s.keys ++ ruleKeys M rules).all (fun k => s.cache k == proj M k rules) = true
  · rw [loadAll_unchanged h]
    have hc := cache_eq_of_all hI rules h
    refine ⟨fun k => ?_, fun k => ?_, fun k hk => ?_, hI.bound, hI.boundOk, hI.boundEq, fun k => ?_⟩
    · show s.cache k = _
      rw [← hc k, hI.cache k, map_normIn_idem hM]
    · show s.enf k = _
      rw [← hc k, hI.enf k, hI.cache k, buildList_map_normIn hM]
    · show proj M k rules = []
      rw [← hc k, hI.cache k, hI.keys k hk]; rfl
    · show (M.pubValid = false ∧ s.pub k = s.bound k) ∨ _
      rcases hI.pub k with hp | ⟨hp, hv | hv⟩
      · exact Or.inl hp
      · refine Or.inr ⟨hp, Or.inl ?_⟩
        show s.pub k = validList M (proj M k rules)
        rw [hv, ← hc k, hI.cache k, normIn_eq_self_of_pub hM hp]
      · exact Or.inr ⟨hp, Or.inr hv⟩
  · rw [loadAll_changed h]
    refine ⟨fun k => rfl, fun k => rfl, fun k hk => proj_nil_of_not_mem k rules hk,
            fun k => (buildReuse_spec hM k _ _ (hI.boundOk k)).1, fun k => (buildReuse_spec hM k _ _ (hI.boundOk k)).2,
            fun hne k => buildReuse_eq_of_no_equals hne k _ _, fun k => ?_⟩
    by_cases hp : M.pubValid = true
    · exact Or.inr ⟨hp, Or.inl (by simp [hp])⟩
    · exact Or.inl ⟨by simpa using hp, by simp [hp]⟩

theorem inv_upd_nil {s : MState R} {L : String → List (Option R)} (hI : Inv M s L) (res : String) :
    Inv M (MState.mk s.keys (upd s.cache res []) (upd s.enf res []) (upd s.bound res []) (upd s.pub res [])) (upd L res []) := by
  refine ⟨fun k => ?_, fun k => ?_, fun k hk => ?_, fun k => ?_, fun k => ?_, fun hne k => ?_, fun k => ?_⟩
  all_goals by_cases hk' : k = res
  · subst hk'; simp [upd_same]
  · simp only [upd_other _ _ hk']; exact hI.cache k
  · subst hk'; simp [upd_same, buildList]
  · simp only [upd_other _ _ hk']; exact hI.enf k
  · subst hk'; simp [upd_same]
  · simp only [upd_other _ _ hk']; exact hI.keys k hk
  · subst hk'; simp [upd_same]
  · simp only [upd_other _ _ hk']; exact hI.bound k
  · subst hk'; simp [upd_same, OldOk]
  · simp only [upd_other _ _ hk']; exact hI.boundOk k
  · subst hk'; simp [upd_same]
  · simp only [upd_other _ _ hk']; exact hI.boundEq hne k
  · subst hk'; cases h : M.pubValid <;> simp [upd_same]
  · simp only [upd_other _ _ hk']; exact hI.pub k

theorem inv_loadRes (hM : Lawful M) {s : MState R} {L : String → List (Option R)} (hI : Inv M s L) (res : String)
    (rules : List (Option R)) :
    Inv M (loadRes M s res rules).1 (if res = "" then L else upd L res rules) := by
  by_cases h0 : res = ""
  · subst h0; rw [loadRes_noRes]; simpa using hI
  rw [if_neg h0]
  by_cases h1 : rules = []
  · subst h1; rw [loadRes_clear h0]; exact inv_upd_nil hI res
  by_cases hc : s.cache res = rules
  · rw [loadRes_unchanged h0 h1 hc]
    refine ⟨fun k => ?_, fun k => ?_, fun k hk => ?_, hI.bound, hI.boundOk, hI.boundEq, fun k => ?_⟩
    all_goals by_cases hk' : k = res
    · subst hk'; rw [upd_same, ← hc, hI.cache k, map_normIn_idem hM]
    · rw [upd_other _ _ hk']; exact hI.cache k
    · subst hk'; rw [upd_same, ← hc, hI.enf k, hI.cache k, buildList_map_normIn hM]
    · rw [upd_other _ _ hk']; exact hI.enf k
    · subst hk'; rw [upd_same, ← hc, hI.cache k, hI.keys k hk]; rfl
    · rw [upd_other _ _ hk']; exact hI.keys k hk
    · subst hk'
      rcases hI.pub k with hp | ⟨hp, hv | hv⟩
      · exact Or.inl hp
      · refine Or.inr ⟨hp, Or.inl ?_⟩
        rw [upd_same, hv, ← hc, hI.cache k, normIn_eq_self_of_pub hM hp]
      · exact Or.inr ⟨hp, Or.inr hv⟩
    · rw [upd_other _ _ hk']; exact hI.pub k
  · rw [loadRes_changed h0 h1 hc]
    refine ⟨fun k => ?_, fun k => ?_, fun k hk => ?_, fun k => ?_, fun k => ?_, fun hne k => ?_, fun k => ?_⟩
    all_goals by_cases hk' : k = res
    · subst hk'; simp [upd_same]
    · simp only [upd_other _ _ hk']; exact hI.cache k
    · subst hk'; simp [upd_same]
    · simp only [upd_other _ _ hk']; exact hI.enf k
    · subst hk'; simp at hk
    · simp only [upd_other _ _ hk']
      exact hI.keys k (fun hm => hk (List.mem_cons_of_mem _ hm))
    · subst hk'; simp only [upd_same]; exact (buildReuse_spec hM k _ _ (hI.boundOk k)).1
    · simp only [upd_other _ _ hk']; exact hI.bound k
    · subst hk'; simp only [upd_same]; exact (buildReuse_spec hM k _ _ (hI.boundOk k)).2
    · simp only [upd_other _ _ hk']; exact hI.boundOk k
    · subst hk'; simp only [upd_same]; exact buildReuse_eq_of_no_equals hne k _ _
    · simp only [upd_other _ _ hk']; exact hI.boundEq hne k
    · subst hk'
      simp only [upd_same]
      by_cases hp : M.pubValid = true
      · by_cases hb : buildList M k rules = []
        · exact Or.inr ⟨hp, Or.inr ⟨by simp [hp, hb], hb⟩⟩
        · exact Or.inr ⟨hp, Or.inl (by simp [hp, hb])⟩
      · exact Or.inl ⟨by simpa using hp, by simp [hp]⟩
    · simp only [upd_other _ _ hk']; exact hI.pub k

theorem inv_step (hM : Lawful M) {s : MState R} {L : String → List (Option R)} (hI : Inv M s L) (op : Op R) :
    Inv M (step M s op).1 (latestStep M L op) := by
  cases op with
  | loadAll rules => exact inv_loadAll hM hI rules
  | loadRes res rules => exact inv_loadRes hM hI res rules
  | clearAll => exact inv_loadAll hM hI []
  | clearRes res => exact inv_loadRes hM hI res []

theorem inv_foldl (hM : Lawful M) (ops : List (Op R)) {s : MState R} {L : String → List (Option R)} (hI : Inv M s L) :
    Inv M (ops.foldl (fun s op => (step M s op).1) s) (ops.foldl (latestStep M) L) := by
  induction ops generalizing s L with
  | nil => exact hI
  | cons op ops ih => exact ih (inv_step hM hI op)

theorem inv_run (hM : Lawful M) (ops : List (Op R)) : Inv M (run M ops) (latest M ops) :=
  inv_foldl hM ops inv_init

/-! ### controller identities -/

theorem findP_perm {α : Type} {p : α → Bool} {l : List α} {x : α} {rest : List α} (h : findP p l = some (x, rest)) :
    l.Perm (x :: rest) := by
  induction l generalizing x rest with
  | nil => simp [findP] at h
  | cons a os ih =>
    unfold findP at h
    by_cases hp : p a = true
    · rw [if_pos hp] at h
      simp only [Option.some.injEq, Prod.mk.injEq] at h
      obtain ⟨rfl, rfl⟩ := h
      exact List.Perm.refl _
    · rw [if_neg hp] at h
      cases hf : findP p os with
      | none => rw [hf] at h; simp at h
      | some q =>
        obtain ⟨x', rest'⟩ := q
        rw [hf] at h
        simp only [Option.map_some, Option.some.injEq, Prod.mk.injEq] at h
        obtain ⟨rfl, rfl⟩ := h
        exact ((ih hf).cons a).trans (List.Perm.swap _ _ _)

theorem dropP_sublist {α : Type} (p : α → Bool) (l : List α) : (dropP p l).Sublist l := by
  induction l with
  | nil => exact List.Sublist.refl _
  | cons a os ih =>
    unfold dropP
    split_ifs
    · exact List.sublist_cons_self _ _
    · exact ih.cons_cons a

theorem findEq_map_fst (r : R) (z : List (R × Nat)) :
    findEq M r (z.map Prod.fst) = (findP (fun x => M.equals x.1 r) z).map fun y => (y.1.1, y.2.map Prod.fst) := by
  induction z with
  | nil => rfl
  | cons a os ih =>
    simp only [List.map_cons, findEq, findP]
    by_cases h : M.equals a.1 r = true
    · simp [h]
    · simp only [h, if_false, Bool.false_eq_true]
      rw [ih]
      cases findP (fun x => M.equals x.1 r) os <;> simp

theorem dropStat_map_fst (r : R) (z : List (R × Nat)) :
    dropStat M r (z.map Prod.fst) = (dropP (fun x => M.statReusable x.1 r) z).map Prod.fst := by
  induction z with
  | nil => rfl
  | cons a os ih =>
    simp only [List.map_cons, dropStat, dropP]
    by_cases h : M.statReusable a.1 r = true
    · simp [h]
    · simp [h, ih]

/-- the identity layer carries exactly the rule objects of `buildReuse` -/
theorem buildZ_fst (k : String) (rules : List R) : ∀ (z : List (R × Nat)) (n : Nat),
    (buildZ M k rules z n).map Prod.fst = buildReuse M k rules (z.map Prod.fst) := by
  induction rules with
  | nil => intro z n; rfl
  | cons r rs ih =>
    intro z n
    unfold buildZ buildReuse
    by_cases hs : (M.scopedRes && M.res r != k) = true
    · rw [if_pos hs, if_pos hs]; exact ih z n
    · rw [if_neg hs, if_neg hs, findEq_map_fst]
      cases hf : findP (fun x => M.equals x.1 r) z with
      | some q =>
        obtain ⟨x, rest⟩ := q
        simp only [Option.map_some, List.map_cons]
        rw [ih rest n]
      | none =>
        simp only [Option.map_none]
        by_cases hb : M.buildable r = true
        · simp only [hb, if_true, List.map_cons]
          rw [ih, dropStat_map_fst]
        · simp only [hb, if_false, Bool.false_eq_true]
          exact ih z n

/-- ids of the controllers in force: pairwise distinct, and each either an old controller's or a fresh one -/
theorem buildZ_ids (k : String) (rules : List R) : ∀ (z : List (R × Nat)) (n : Nat),
    (z.map Prod.snd).Nodup → (∀ x ∈ z, x.2 < n) →
    ((buildZ M k rules z n).map Prod.snd).Nodup ∧
    ∀ y ∈ buildZ M k rules z n, (y ∈ z ∨ n ≤ y.2) ∧ y.2 < n + rules.length := by
  induction rules with
  | nil => intro z n _ _; exact ⟨List.nodup_nil, fun y hy => by simp [buildZ] at hy⟩
  | cons r rs ih =>
    intro z n hnd hlt
    unfold buildZ
    have widen : ∀ {out : List (R × Nat)} {z' : List (R × Nat)} {n' : Nat}, (∀ x ∈ z', x ∈ z) → n ≤ n' → n' + rs.length ≤ n + (r :: rs).length →
        (∀ y ∈ out, (y ∈ z' ∨ n' ≤ y.2) ∧ y.2 < n' + rs.length) → ∀ y ∈ out, (y ∈ z ∨ n ≤ y.2) ∧ y.2 < n + (r :: rs).length := by
      intro out z' n' hsub hn hn' h y hy
      obtain ⟨h1, h2⟩ := h y hy
      refine ⟨?_, by omega⟩
      rcases h1 with h1 | h1
      · exact Or.inl (hsub y h1)
      · exact Or.inr (by omega)
    by_cases hs : (M.scopedRes && M.res r != k) = true
    · rw [if_pos hs]
      obtain ⟨h1, h2⟩ := ih z n hnd hlt
      exact ⟨h1, widen (fun x hx => hx) (le_refl _) (by simp) h2⟩
    · rw [if_neg hs]
      cases hf : findP (fun x => M.equals x.1 r) z with
      | some q =>
        obtain ⟨x, rest⟩ := q
        dsimp only
        have hperm := findP_perm hf
        have hnd' : ((x :: rest).map Prod.snd).Nodup := (hperm.map Prod.snd).nodup_iff.mp hnd
        simp only [List.map_cons, List.nodup_cons] at hnd'
        have hsub : ∀ y ∈ rest, y ∈ z := fun y hy => hperm.mem_iff.mpr (List.mem_cons_of_mem _ hy)
        have hx : x ∈ z := hperm.mem_iff.mpr List.mem_cons_self
        obtain ⟨h1, h2⟩ := ih rest n hnd'.2 (fun y hy => hlt y (hsub y hy))
        refine ⟨?_, ?_⟩
        · simp only [List.map_cons, List.nodup_cons]
          refine ⟨?_, h1⟩
          intro hmem
          obtain ⟨y, hy, hyx⟩ := List.mem_map.mp hmem
          rcases (h2 y hy).1 with hy' | hy'
          · exact hnd'.1 (List.mem_map.mpr ⟨y, hy', hyx⟩)
          · have := hlt x hx; omega
        · intro y hy
          rcases List.mem_cons.mp hy with rfl | hy
          · exact ⟨Or.inl hx, by have := hlt y hx; simp; omega⟩
          · exact widen hsub (le_refl _) (by simp) h2 y hy
      | none =>
        dsimp only
        by_cases hb : M.buildable r = true
        · rw [if_pos hb]
          have hsl := dropP_sublist (fun x : R × Nat => M.statReusable x.1 r) z
          have hsub : ∀ y ∈ dropP (fun x : R × Nat => M.statReusable x.1 r) z, y ∈ z := fun y hy => hsl.subset hy
          obtain ⟨h1, h2⟩ := ih _ (n + 1) ((hsl.map Prod.snd).nodup hnd) (fun y hy => by have := hlt y (hsub y hy); omega)
          refine ⟨?_, ?_⟩
          · simp only [List.map_cons, List.nodup_cons]
            refine ⟨?_, h1⟩
            intro hmem
            obtain ⟨y, hy, hyx⟩ := List.mem_map.mp hmem
            rcases (h2 y hy).1 with hy' | hy'
            · have := hlt y (hsub y hy'); omega
            · omega
          · intro y hy
            rcases List.mem_cons.mp hy with rfl | hy
            · exact ⟨Or.inr (le_refl _), by simp⟩
            · exact widen hsub (by omega) (by simp; omega) h2 y hy
        · rw [if_neg hb]
          obtain ⟨h1, h2⟩ := ih z n hnd hlt
          exact ⟨h1, widen (fun x hx => hx) (le_refl _) (by simp) h2⟩

/-- invariant of the identity layer -/
structure CInv (s : MState R) (c : CState R) : Prop where
  fst : ∀ k, (c.ctrl k).map Prod.fst = s.bound k
  nodup : ∀ k, ((c.ctrl k).map Prod.snd).Nodup
  lt : ∀ k, ∀ x ∈ c.ctrl k, x.2 < c.next

theorem cinv_step {s : MState R} {c : CState R} (hI : CInv s c) (op : Op R) :
    CInv (step M s op).1 (cstep M s c op) := by
  have hA : ∀ rules, CInv (loadAll M s rules).1
      (if (loadAll M s rules).2 = .changed then
        { ctrl := fun k => buildZ M k (validList M (proj M k rules)) (c.ctrl k) c.next, next := c.next + rules.length } else c) := by
    intro rules
    by_cases h : (s.keys ++ ruleKeys M rules).all (fun k => s.cache k == proj M k rules) = true
    · rw [loadAll_unchanged h]; simpa using hI
    · rw [loadAll_changed h]
      simp only [if_true]
      refine ⟨fun k => ?_, fun k => ?_, fun k x hx => ?_⟩
      · show (buildZ M k _ (c.ctrl k) c.next).map Prod.fst = buildReuse M k _ (s.bound k)
        rw [buildZ_fst, hI.fst k]
      · exact (buildZ_ids k _ _ _ (hI.nodup k) (hI.lt k)).1
      · have := ((buildZ_ids (M := M) k _ _ _ (hI.nodup k) (hI.lt k)).2 x hx).2
        have hl : (validList M (proj M k rules)).length ≤ rules.length :=
          (List.length_filter_le _ _).trans ((List.length_filterMap_le _ _).trans (List.length_filter_le _ _))
        show x.2 < c.next + rules.length
        omega
  have hR : ∀ res rules, CInv (loadRes M s res rules).1
      (if (loadRes M s res rules).2 = .changed then
        { ctrl := upd c.ctrl res (buildZ M res (validList M rules) (c.ctrl res) c.next), next := c.next + rules.length } else c) := by
    intro res rules
    by_cases h0 : res = ""
    · subst h0; rw [loadRes_noRes]; simpa using hI
    by_cases h1 : rules = []
    · subst h1; rw [loadRes_clear h0]
      simp only [if_true]
      refine ⟨fun k => ?_, fun k => ?_, fun k x hx => ?_⟩
      all_goals by_cases hk : k = res
      · subst hk; simp [upd_same, validList, buildZ]
      · simp only [upd_other _ _ hk]; exact hI.fst k
      · subst hk; simp [upd_same, validList, buildZ]
      · simp only [upd_other _ _ hk]; exact hI.nodup k
      · subst hk; simp [upd_same, validList, buildZ] at hx
      · simp only [upd_other _ _ hk] at hx; have := hI.lt k x hx; simpa using this
    by_cases hc : s.cache res = rules
    · rw [loadRes_unchanged h0 h1 hc]; simpa using hI
    · rw [loadRes_changed h0 h1 hc]
      simp only [if_true]
      refine ⟨fun k => ?_, fun k => ?_, fun k x hx => ?_⟩
      all_goals by_cases hk : k = res
      · subst hk; simp only [upd_same]; rw [buildZ_fst, hI.fst k]
      · simp only [upd_other _ _ hk]; exact hI.fst k
      · subst hk; simp only [upd_same]; exact (buildZ_ids k _ _ _ (hI.nodup k) (hI.lt k)).1
      · simp only [upd_other _ _ hk]; exact hI.nodup k
      · subst hk
        simp only [upd_same] at hx
        have := ((buildZ_ids (M := M) k _ _ _ (hI.nodup k) (hI.lt k)).2 x hx).2
        have hl : (validList M rules).length ≤ rules.length :=
          (List.length_filter_le _ _).trans (List.length_filterMap_le _ _)
        show x.2 < c.next + rules.length
        omega
      · simp only [upd_other _ _ hk] at hx
        have := hI.lt k x hx
        show x.2 < c.next + rules.length
        omega
  cases op with
  | loadAll rules => exact hA rules
  | loadRes res rules => exact hR res rules
  | clearAll =>
    have := hA []
    simp only [step, cstep]
    split_ifs at this ⊢ with h
    · refine ⟨fun k => ?_, fun k => ?_, fun k x hx => ?_⟩
      · rw [← this.fst k]; simp [validList, proj, buildZ]
      · simp
      · simp at hx
    · exact this
  | clearRes res =>
    have := hR res []
    simp only [step, cstep]
    split_ifs at this ⊢ with h
    · refine ⟨fun k => ?_, fun k => ?_, fun k x hx => ?_⟩
      all_goals by_cases hk : k = res
      · subst hk; rw [← this.fst k]; simp [upd_same, validList, buildZ]
      · rw [← this.fst k]; simp [upd_other _ _ hk]
      · subst hk; simp [upd_same]
      · simp only [upd_other _ _ hk]; exact hI.nodup k
      · subst hk; simp [upd_same] at hx
      · simp only [upd_other _ _ hk] at hx; exact hI.lt k x hx
    · exact this

theorem cinv_run (ops : List (Op R)) : CInv (runC M ops).1 (runC M ops).2 := by
  have gen : ∀ (ops : List (Op R)) (sc : MState R × CState R), CInv sc.1 sc.2 →
      CInv (ops.foldl (fun sc op => ((step M sc.1 op).1, cstep M sc.1 sc.2 op)) sc).1
           (ops.foldl (fun sc op => ((step M sc.1 op).1, cstep M sc.1 sc.2 op)) sc).2 := by
    intro ops
    induction ops with
    | nil => intro sc h; exact h
    | cons op ops ih => intro sc h; exact ih _ (cinv_step h op)
  exact gen ops _ ⟨fun _ => rfl, fun _ => List.nodup_nil, fun _ _ hx => by simp [CState.init] at hx⟩

theorem runC_fst (ops : List (Op R)) : (runC M ops).1 = run M ops := by
  have gen : ∀ (ops : List (Op R)) (sc : MState R × CState R),
      (ops.foldl (fun sc op => ((step M sc.1 op).1, cstep M sc.1 sc.2 op)) sc).1 = ops.foldl (fun s op => (step M s op).1) sc.1 := by
    intro ops
    induction ops with
    | nil => intro sc; rfl
    | cons op ops ih => intro sc; exact ih _
  exact gen ops _

/-! ### the generator table as part of the history: `withGen` against the plain module -/

/-- while the custom generator does not return errors the module is the plain one -/
theorem withGen_eq (custom : R → Bool) {g : GenMode} (hg : g ≠ .fail) : withGen M custom g = M := by
  cases M
  simp only [withGen, RuleMod.mk.injEq, true_and, and_true]
  funext r
  have : (g != GenMode.fail) = true := by simpa using hg
  split_ifs <;> simp [this]

theorem findEq_withGen (custom : R → Bool) (g : GenMode) (r : R) (old : List R) :
    findEq (withGen M custom g) r old = findEq M r old := by
  induction old with
  | nil => rfl
  | cons a os ih => simp only [findEq, ih]; rfl

theorem dropStat_withGen (custom : R → Bool) (g : GenMode) (r : R) (old : List R) :
    dropStat (withGen M custom g) r old = dropStat M r old := by
  induction old with
  | nil => rfl
  | cons a os ih => simp only [dropStat, ih]; rfl

theorem built_withGen (custom : R → Bool) (g : GenMode) (k : String) (r : R) (h : M.valid r = true → custom r = false) :
    built (withGen M custom g) k r = built M k r := by
  by_cases hv : M.valid r = true
  · have hc := h hv
    simp [built, withGen, hc]
  · simp only [Bool.not_eq_true] at hv
    simp [built, withGen, hv]

/-- a list without valid custom rules is built alike whatever the custom generator does -/
theorem buildList_withGen (custom : R → Bool) (g : GenMode) (k : String) (l : List (Option R))
    (h : ∀ r, some r ∈ l → M.valid r = true → custom r = false) :
    buildList (withGen M custom g) k l = buildList M k l := by
  unfold buildList
  have e : (l.filterMap id).filter (built (withGen M custom g) k) = (l.filterMap id).filter (built M k) := by
    apply List.filter_congr
    intro r hr
    have : some r ∈ l := by
      simp only [List.mem_filterMap, id] at hr
      obtain ⟨o, ho, rfl⟩ := hr; exact ho
    exact built_withGen custom g k r (h r this)
  rw [e]; rfl

theorem map_normIn_withGen (custom : R → Bool) (g : GenMode) (k : String) (l : List (Option R))
    (h : ∀ r, some r ∈ l → M.valid r = true → custom r = false) :
    l.map (normIn (withGen M custom g) k) = l.map (normIn M k) := by
  apply List.map_congr_left
  intro o ho
  cases o with
  | none => rfl
  | some r =>
    simp only [normIn, Option.map_some]
    rw [built_withGen custom g k r (h r ho)]; rfl

theorem buildReuse_withGen (custom : R → Bool) (g : GenMode) (k : String) (rules : List R) (h : ∀ r ∈ rules, custom r = false) :
    ∀ old, buildReuse (withGen M custom g) k rules old = buildReuse M k rules old := by
  induction rules with
  | nil => intro old; rfl
  | cons r rs ih =>
    intro old
    have ih' := ih (fun x hx => h x (List.mem_cons_of_mem _ hx))
    have hc : custom r = false := h r List.mem_cons_self
    unfold buildReuse
    rw [findEq_withGen, dropStat_withGen]
    have hb : (withGen M custom g).buildable r = M.buildable r := by simp [withGen, hc]
    simp only [hb, ih']
    rfl

theorem validList_withGen (custom : R → Bool) (g : GenMode) (l : List (Option R)) :
    validList (withGen M custom g) l = validList M l := rfl

theorem validList_noCustom (custom : R → Bool) (l : List (Option R))
    (h : ∀ r, some r ∈ l → M.valid r = true → custom r = false) : ∀ r ∈ validList M l, custom r = false := by
  intro r hr
  obtain ⟨h1, h2⟩ := List.mem_filter.mp hr
  simp only [List.mem_filterMap, id] at h1
  obtain ⟨o, ho, rfl⟩ := h1
  exact h r ho h2

theorem mem_proj {k : String} {rules : List (Option R)} {o : Option R} (h : o ∈ proj M k rules) : o ∈ rules :=
  (List.mem_filter.mp h).1

/-- a whole-set load without valid custom rules does the same whatever the custom generator does -/
theorem loadAll_withGen (custom : R → Bool) (g : GenMode) (s : MState R) (rules : List (Option R))
    (h : ∀ r, some r ∈ rules → M.valid r = true → custom r = false) :
    loadAll (withGen M custom g) s rules = loadAll M s rules := by
  have hp : ∀ k r, some r ∈ proj M k rules → M.valid r = true → custom r = false :=
    fun k r hr hv => h r (mem_proj hr) hv
  unfold loadAll
  show (if (s.keys ++ ruleKeys M rules).all (fun k => s.cache k == proj M k rules) = true then _ else _) = _
  by_cases hc : (s.keys ++ ruleKeys M rules).all (fun k => s.cache k == proj M k rules) = true
  · rw [if_pos hc]; dsimp only; rw [if_pos hc]
  · rw [if_neg hc]; dsimp only; rw [if_neg hc]
    have e1 : ∀ k, (proj (withGen M custom g) k rules).map (normIn (withGen M custom g) k) = (proj M k rules).map (normIn M k) :=
      fun k => map_normIn_withGen custom g k _ (hp k)
    have e2 : ∀ k, buildList (withGen M custom g) k (proj (withGen M custom g) k rules) = buildList M k (proj M k rules) :=
      fun k => buildList_withGen custom g k _ (hp k)
    have e3 : ∀ k, buildReuse (withGen M custom g) k (validList (withGen M custom g) (proj (withGen M custom g) k rules)) (s.bound k) =
        buildReuse M k (validList M (proj M k rules)) (s.bound k) :=
      fun k => buildReuse_withGen custom g k _ (validList_noCustom custom _ (hp k)) _
    simp only [e1, e2, e3]
    rfl

theorem loadRes_withGen (custom : R → Bool) (g : GenMode) (s : MState R) (res : String) (rules : List (Option R))
    (h : ∀ r, some r ∈ rules → M.valid r = true → custom r = false) :
    loadRes (withGen M custom g) s res rules = loadRes M s res rules := by
  by_cases h0 : res = ""
  · subst h0; rw [loadRes_noRes, loadRes_noRes]
  by_cases h1 : rules = []
  · subst h1; rw [loadRes_clear h0, loadRes_clear h0]
  by_cases hc : s.cache res = rules
  · rw [loadRes_unchanged h0 h1 hc, loadRes_unchanged h0 h1 hc]
  · rw [loadRes_changed h0 h1 hc, loadRes_changed h0 h1 hc]
    rw [map_normIn_withGen custom g res rules h, buildList_withGen custom g res rules h, validList_withGen,
        buildReuse_withGen custom g res _ (validList_noCustom custom rules h)]
    rfl

/-! ### `GetRules` grouped by resource -/

theorem nodup_eraseDups_str (l : List String) : l.eraseDups.Nodup := by
  induction hn : l.length using Nat.strong_induction_on generalizing l with
  | _ n ih =>
    cases l with
    | nil => simp
    | cons a as =>
      rw [List.eraseDups_cons]
      refine List.nodup_cons.mpr ⟨?_, ?_⟩
      · simp [List.mem_eraseDups]
      · exact ih _ (by subst hn; simp only [List.length_cons]; exact Nat.lt_succ_of_le (List.length_filter_le _ _)) _ rfl

/-- picking the elements of key `k` out of a concatenation of per-key lists gives that key's list -/
theorem filter_flatMap_key {α : Type} (key : α → String) (f : String → List α) (k : String) :
    ∀ ks : List String, ks.Nodup → (∀ k' ∈ ks, ∀ x ∈ f k', key x = k') →
      (ks.flatMap f).filter (fun x => key x == k) = if k ∈ ks then f k else [] := by
  intro ks
  induction ks with
  | nil => intro _ _; rfl
  | cons a r ih =>
    intro hnd hkey
    obtain ⟨ha, hr⟩ := List.nodup_cons.mp hnd
    have ih' := ih hr (fun k' hk' => hkey k' (List.mem_cons_of_mem _ hk'))
    rw [List.flatMap_cons, List.filter_append, ih']
    by_cases hak : a = k
    · subst hak
      have e : (f a).filter (fun x => key x == a) = f a := by
        rw [List.filter_eq_self]; intro x hx; simp [hkey a List.mem_cons_self x hx]
      simp [e, ha]
    · have e : (f a).filter (fun x => key x == k) = [] := by
        rw [List.filter_eq_nil_iff]; intro x hx
        have := hkey a List.mem_cons_self x hx
        simp [this, hak]
      have hka : ¬ k = a := fun h => hak h.symm
      simp [e, hka]

theorem res_of_mem_buildList (hM : Lawful M) {k : String} {rules : List (Option R)} {r : R}
    (h : r ∈ buildList M k (proj M k rules)) : M.res r = k := by
  rw [mem_buildList] at h
  obtain ⟨r0, hm, _, rfl⟩ := h
  rw [hM.res_norm]
  have := (List.mem_filter.mp hm).2
  simpa using this

theorem res_of_forall₂ (hM : Lawful M) {k : String} {a b : List R}
    (h : List.Forall₂ (fun x y => M.sim x y = true) a b) (hb : ∀ y ∈ b, M.res y = k) : ∀ x ∈ a, M.res x = k := by
  induction h with
  | nil => intro x hx; simp at hx
  | cons hxy _ ih =>
    intro x hx
    rcases List.mem_cons.mp hx with rfl | hx
    · rw [hM.sim_res _ _ hxy]; exact hb _ List.mem_cons_self
    · exact ih (fun y hy => hb y (List.mem_cons_of_mem _ hy)) x hx

theorem run_snoc (ops : List (Op R)) (op : Op R) : run M (ops ++ [op]) = (step M (run M ops) op).1 := by
  simp [run, List.foldl_append]

theorem latest_snoc (ops : List (Op R)) (op : Op R) : latest M (ops ++ [op]) = latestStep M (latest M ops) op := by
  simp [latest, List.foldl_append]

end

/-! ### outlier and system -/

/-- outlier: what holds of every reachable state (`all`), and what holds of the untainted resources -/
structure OInv (s : OState) (L : String → Option OutRule) (T : List String) : Prop where
  all : ∀ k, s.enf k = outAccept (s.cache k)
  keys : ∀ k, k ∉ s.keys → s.cache k = none
  good : ∀ k, k ∉ T → s.cache k = L k

theorem outProj_none_of_not_mem (k : String) (rules : List (Option OutRule)) (h : k ∉ outKeys rules) : outProj k rules = none := by
  unfold outProj
  rw [List.getLast?_eq_none_iff, List.filter_eq_nil_iff]
  intro r hr
  simp only [Bool.and_eq_true, beq_iff_eq, not_and]
  intro hi e
  apply h
  simp only [outKeys, List.mem_map, List.mem_filter]
  exact ⟨r, ⟨hr, hi⟩, e⟩

theorem loadResOut_refused {s : OState} {res : String} {r : OutRule} (h0 : res ≠ "") (h2 : s.cache res ≠ some r)
    (hr : outCheck r ≠ .ok) : loadResOut s res (some r) = (s, .changedErr) := by
  unfold loadResOut outResBody
  simp only [h0, if_false]
  have : (s.cache res == some r) = false := by simpa using h2
  simp only [this]
  cases h : outCheck r with
  | panics => rfl
  | invalid => rfl
  | ok => exact absurd h hr

theorem loadResOut_ok {s : OState} {res : String} {r : OutRule} (h0 : res ≠ "") (h2 : s.cache res ≠ some r)
    (hr : outCheck r = .ok) :
    loadResOut s res (some r) =
      (OState.mk (res :: s.keys) (upd s.cache res (some r)) (upd s.enf res (some r)), .changed) := by
  unfold loadResOut outResBody
  have : (s.cache res == some r) = false := by simpa using h2
  simp [h0, this, hr]

theorem loadResOut_same {s : OState} {res : String} {r : OutRule} (h0 : res ≠ "") (h2 : s.cache res = some r) :
    loadResOut s res (some r) = (s, .unchanged) := by
  unfold loadResOut
  simp [h0, h2]

theorem loadResOut_nil {s : OState} {res : String} (h0 : res ≠ "") :
    loadResOut s res none = ({ s with cache := upd s.cache res none, enf := upd s.enf res none }, .changed) := by
  unfold loadResOut
  simp [h0]

theorem oinv_step {s : OState} {L : String → Option OutRule} {T : List String} (hI : OInv s L T) (op : OOp) :
    OInv (stepOut s op).1 (latestOutStep L op) (taintStep T op) := by
  cases op with
  | loadAll rules =>
    simp only [stepOut, loadAllOut, latestOutStep, taintStep]
    split_ifs with h
    · have hc : ∀ k, s.cache k = outProj k rules := by
        intro k
        by_cases hk : k ∈ s.keys ++ outKeys rules
        · simpa using List.all_eq_true.mp h k hk
        · simp only [List.mem_append, not_or] at hk
          rw [hI.keys k hk.1, outProj_none_of_not_mem k rules hk.2]
      exact ⟨hI.all, hI.keys, fun k _ => hc k⟩
    · exact ⟨fun _ => rfl, fun k hk => outProj_none_of_not_mem k rules hk, fun _ _ => rfl⟩
  | loadRes res rule =>
    simp only [stepOut, latestOutStep, taintStep]
    by_cases h0 : res = ""
    · subst h0
      have : loadResOut s "" rule = (s, .err) := by unfold loadResOut; simp
      rw [this]; simpa using hI
    simp only [h0, if_false]
    cases rule with
    | none =>
      rw [loadResOut_nil h0]
      have hT : outRefused none = false := rfl
      simp only [hT]
      refine ⟨fun k => ?_, fun k hk => ?_, fun k hk => ?_⟩
      all_goals by_cases hk' : k = res
      · subst hk'; simp [upd_same, outAccept]
      · simp only [upd_other _ _ hk']; exact hI.all k
      · subst hk'; simp [upd_same]
      · simp only [upd_other _ _ hk']; exact hI.keys k hk
      · subst hk'; simp [upd_same]
      · simp only [upd_other _ _ hk']
        exact hI.good k (fun hm => hk (by simp [List.mem_filter, hm, hk']))
    | some r =>
      by_cases h2 : s.cache res = some r
      · rw [loadResOut_same h0 h2]
        refine ⟨hI.all, hI.keys, fun k hk => ?_⟩
        by_cases hk' : k = res
        · subst hk'; rw [upd_same]; exact h2
        · rw [upd_other _ _ hk']
          apply hI.good k
          intro hm; apply hk
          by_cases hr : outRefused (some r) = true
          · simp [hr, hm]
          · simp [hr, List.mem_filter, hm, hk']
      · by_cases hr : outCheck r = .ok
        · rw [loadResOut_ok h0 h2 hr]
          have hT : outRefused (some r) = false := by simp [outRefused, hr]
          simp only [hT]
          refine ⟨fun k => ?_, fun k hk => ?_, fun k hk => ?_⟩
          all_goals by_cases hk' : k = res
          · subst hk'; simp [upd_same, outAccept, Option.filter, hr]
          · simp only [upd_other _ _ hk']; exact hI.all k
          · subst hk'; simp at hk
          · simp only [upd_other _ _ hk']
            exact hI.keys k (fun hm => hk (List.mem_cons_of_mem _ hm))
          · subst hk'; simp [upd_same]
          · simp only [upd_other _ _ hk']
            exact hI.good k (fun hm => hk (by simp [List.mem_filter, hm, hk']))
        · rw [loadResOut_refused h0 h2 hr]
          have hT : outRefused (some r) = true := by simp [outRefused, hr]
          simp only [hT, if_true]
          refine ⟨hI.all, hI.keys, fun k hk => ?_⟩
          simp only [List.mem_cons, not_or] at hk
          rw [upd_other _ _ hk.1]
          exact hI.good k hk.2

theorem oinv_foldl (ops : List OOp) {s : OState} {L : String → Option OutRule} {T : List String} (hI : OInv s L T) :
    OInv (ops.foldl (fun s op => (stepOut s op).1) s) (ops.foldl latestOutStep L) (ops.foldl taintStep T) := by
  induction ops generalizing s L T with
  | nil => exact hI
  | cons op ops ih => exact ih (oinv_step hI op)

theorem oinv_run (ops : List OOp) : OInv (runOut ops) (latestOut ops) (taintOut ops) :=
  oinv_foldl ops ⟨fun _ => rfl, fun _ _ => rfl, fun _ _ => rfl⟩

structure SInv (s : SysState) (last : List (Option SysRule)) : Prop where
  cache : s.cache = last
  enf : s.enf = sysBuild last
  nil : last = [] → s.cacheNil = true

theorem sinv_step {s : SysState} {last : List (Option SysRule)} (hI : SInv s last) (rules : List (Option SysRule)) :
    SInv (loadSys s rules).1 rules := by
  unfold loadSys
  split_ifs with h
  · simp only [Bool.and_eq_true, beq_iff_eq] at h
    refine ⟨h.1, ?_, fun he => ?_⟩
    · rw [hI.enf, ← hI.cache, h.1]
    · exact hI.nil (by rw [← hI.cache, h.1, he])
  · exact ⟨rfl, rfl, fun he => by simp [he]⟩

theorem getLast_getD_cons {α : Type} (a : α) (l : List α) (d : α) : (a :: l).getLast?.getD d = l.getLast?.getD a := by
  cases l with
  | nil => simp
  | cons b l =>
    rw [List.getLast?_cons_cons]
    cases h : (b :: l).getLast? with
    | none => simp at h
    | some x => simp

theorem sinv_run (loads : List (List (Option SysRule))) : SInv (runSys loads) (loads.getLast?.getD []) := by
  have gen : ∀ (loads : List (List (Option SysRule))) (s : SysState) (last : List (Option SysRule)), SInv s last →
      SInv (loads.foldl (fun s l => (loadSys s l).1) s) (loads.getLast?.getD last) := by
    intro loads
    induction loads with
    | nil => intro s last h; simpa using h
    | cons l ls ih =>
      intro s last h
      have := ih (loadSys s l).1 l (sinv_step h l)
      rw [List.foldl_cons, getLast_getD_cons]
      exact this
  exact gen loads SysState.init [] ⟨rfl, rfl, fun _ => rfl⟩

end Sentinel.Rules
