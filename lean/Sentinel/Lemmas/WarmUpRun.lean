import Mathlib.Tactic
import Sentinel.Lemmas.WarmUp
namespace Sentinel.WU.R
open Sentinel.WU Sentinel.WU.L Sentinel.LA

/-! # Histories of the model the driver runs: every op of `Drv/C11.lean` as a structured `Op`, `runOps` = the driver's `step`
on `Sys ℚ` (same model functions: `loadRuleG`, `reqsG`, `probe`), and the invariant that carries the step-level envelope
through arbitrary request / clock / reload / memory sequences. -/

/-- the ops of the C11 line protocol (the view `(sc, Iv)` and the standalone flag `sa` are what `viewOf` computes from
    `StatIntervalInMs`; here they are arbitrary, which is more general) -/
inductive Op where
  | clock (t : ℕ)
  | mem (x : ℤ)
  | loadWu (T : ℚ) (p cf iv : ℕ) (q : Option ℕ) (sc Iv : ℕ) (sa : Bool)
  | loadMa (m : MemCfg) (iv : ℕ) (q : Option ℕ) (sc Iv : ℕ) (sa : Bool)
  | req (n b : ℕ)
  | probe (b : ℕ)

/-- one driver step on `(state, clock in ns)`; `total` = the host's memory size entering `IsValidRule` -/
def stepOp (total : ℤ) (x : Sys ℚ × ℕ) : Op → Sys ℚ × ℕ
  | .clock t => if x.2 ≤ t * 1000000 then (x.1, t * 1000000) else x
  | .mem v => ({ x.1 with mem := v }, x.2)
  | .loadWu T p cf iv q sc Iv sa =>
      (loadRuleG x.1 (x.2 / 1000000) (.wu T p cf iv) q (!(decide (T < 0) || p == 0 || cf == 1)) sc Iv sa, x.2)
  | .loadMa m iv q sc Iv sa => (loadRuleG x.1 (x.2 / 1000000) (.ma m iv) q (m.valid total) sc Iv sa, x.2)
  | .req n b => if x.1.behav.isSome && x.1.rule.isSome then x else ((reqsG x.1 (x.2 / 1000000) b n).1, x.2)
  | .probe b => if x.1.behav.isNone || x.1.rule.isNone then x else ((probe x.1 x.2 b).1, (probe x.1 x.2 b).2.2)

def runOps (total : ℤ) (x : Sys ℚ × ℕ) : List Op → Sys ℚ × ℕ
  | [] => x
  | o :: r => runOps total (stepOp total x o) r

/-- what every reachable state satisfies -/
structure RInv (total : ℤ) (s : Sys ℚ) : Prop where
  wu : ∀ c sc Iv, s.rule = some (.warmup c, sc, Iv) →
    (∃ T p cf, c = mkCfg T p cf) ∧ 0 ≤ s.tok.tokens ∧ s.tok.tokens ≤ c.max
  ma : ∀ m sc Iv, s.rule = some (.adaptive m, sc, Iv) → m.valid total = true

theorem rinv_init (total : ℤ) : RInv total ({} : Sys ℚ) :=
  ⟨fun _ _ _ h => by simp at h, fun _ _ _ h => by simp at h⟩

theorem rinv_of_rule_tok {total : ℤ} {s s' : Sys ℚ} (h : RInv total s) (hr : s'.rule = s.rule) (ht : s'.tok = s.tok) :
    RInv total s' :=
  ⟨fun c sc Iv e => by rw [hr] at e; rw [ht]; exact h.wu c sc Iv e, fun m sc Iv e => by rw [hr] at e; exact h.ma m sc Iv e⟩

theorem touch_rule_tok (s : Sys ℚ) (t : ℕ) : (s.touch t).rule = s.rule ∧ (s.touch t).tok = s.tok ∧ (s.touch t).mem = s.mem := by
  unfold Sys.touch; cases s.arr <;> exact ⟨rfl, rfl, rfl⟩

/-- the token part of `threshold` keeps the invariant, whatever array is read -/
theorem threshold_tok {total : ℤ} {s : Sys ℚ} (h : RInv total s) (a : Arr Bucket) (now : ℕ) :
    ∀ c sc Iv, s.rule = some (.warmup c, sc, Iv) →
      0 ≤ (threshold s a now).1.tokens ∧ (threshold s a now).1.tokens ≤ c.max := by
  intro c sc Iv hr
  obtain ⟨_, h0, h1⟩ := h.wu c sc Iv hr
  unfold threshold
  rw [hr]
  exact sync_bounds c s.tok now (prevQps a sc Iv now) (prevQps_nonneg a sc Iv now) h0 h1

/-- a state that differs from an invariant state only in the token state produced by `threshold` (and in statistics) -/
theorem rinv_threshold {total : ℤ} {s s' : Sys ℚ} (h : RInv total s) (a : Arr Bucket) (now : ℕ)
    (hr : s'.rule = s.rule) (ht : s'.tok = (threshold s a now).1) : RInv total s' := by
  refine ⟨fun c sc Iv e => ?_, fun m sc Iv e => by rw [hr] at e; exact h.ma m sc Iv e⟩
  rw [hr] at e
  rw [ht]
  exact ⟨(h.wu c sc Iv e).1, threshold_tok h a now c sc Iv e⟩

theorem req_rinv {total : ℤ} {s : Sys ℚ} (h : RInv total s) (t b : ℕ) : RInv total (req s t b).1 := by
  obtain ⟨a, ha, hr, htk, _⟩ := touch_arr s t
  have ht := rinv_of_rule_tok h hr htk
  unfold req
  simp only [ha]
  rcases hthr : threshold (s.touch t) a t with ⟨tk, thr⟩
  exact rinv_threshold ht a t rfl (by rw [hthr])

theorem reqOwn_rinv {total : ℤ} {s : Sys ℚ} (h : RInv total s) (o : Arr Bucket) (t b : ℕ) : RInv total (reqOwn s o t b).1 := by
  obtain ⟨a, ha, hr, htk, _⟩ := touch_arr s t
  have ht := rinv_of_rule_tok h hr htk
  unfold reqOwn
  simp only [ha]
  rcases hthr : threshold (s.touch t) o t with ⟨tk, thr⟩
  exact rinv_threshold ht o t rfl (by rw [hthr])

theorem reqG_rinv {total : ℤ} {s : Sys ℚ} (h : RInv total s) (t b : ℕ) : RInv total (reqG s t b).1 := by
  unfold reqG
  cases s.own with
  | none => exact req_rinv h t b
  | some o => exact reqOwn_rinv h o t b

theorem reqsG_rinv {total : ℤ} (t b n : ℕ) : ∀ {s : Sys ℚ}, RInv total s → RInv total (reqsG s t b n).1 := by
  induction n with
  | zero => intro s h; exact h
  | succ n ih => intro s h; simp only [reqsG]; exact ih (reqG_rinv h t b)

theorem probe_rinv {total : ℤ} {s : Sys ℚ} (h : RInv total s) (ns b : ℕ) : RInv total (probe s ns b).1 := by
  obtain ⟨hr, htk, _⟩ := touch_rule_tok s (ns / 1000000)
  have ht := rinv_of_rule_tok h hr htk
  unfold probe
  dsimp only
  split
  · rename_i a c sc Iv maxQ h1 h2 h3
    rcases hthr : threshold (s.touch (ns / 1000000)) ((s.touch (ns / 1000000)).own.getD a) (ns / 1000000) with ⟨tk, thr⟩
    exact rinv_threshold ht _ _ rfl (by rw [hthr])
  · exact ht


/-- what a load does to the rule in force and the token state -/
theorem loadRule_rule_tok (s : Sys ℚ) (now : ℕ) (r : RuleP ℚ) (q : Option ℕ) (valid : Bool) (sc Iv : ℕ) :
    ((loadRule s now r q valid sc Iv).rule = none) ∨
    ((loadRule s now r q valid sc Iv).rule = s.rule ∧ (loadRule s now r q valid sc Iv).tok = s.tok) ∨
    ((loadRule s now r q valid sc Iv).tok = {} ∧ valid = true ∧
      ((∃ T p cf iv, r = .wu T p cf iv ∧ (loadRule s now r q valid sc Iv).rule = some (.warmup (mkCfg T p cf), sc, Iv)) ∨
       (∃ m iv, r = .ma m iv ∧ (loadRule s now r q valid sc Iv).rule = some (.adaptive m, sc, Iv)))) := by
  unfold loadRule
  cases valid with
  | false => left; rfl
  | true =>
    simp only [Bool.not_true, Bool.false_eq_true, if_false]
    cases r with
    | wu T p cf iv =>
      cases s.bound with
      | none => right; right; exact ⟨rfl, trivial, Or.inl ⟨T, p, cf, iv, rfl, rfl⟩⟩
      | some b =>
        dsimp only
        split_ifs
        · right; left; exact ⟨rfl, rfl⟩
        · right; right; exact ⟨rfl, trivial, Or.inl ⟨T, p, cf, iv, rfl, rfl⟩⟩
    | ma m iv =>
      cases s.bound with
      | none => right; right; cases q <;> exact ⟨rfl, trivial, Or.inr ⟨m, iv, rfl, rfl⟩⟩
      | some b =>
        dsimp only
        by_cases hk : (b.same (RuleP.ma m iv) && s.behav == q) = true
        · rw [if_pos hk]; right; left; exact ⟨rfl, rfl⟩
        · rw [if_neg hk]; right; right; cases q <;> exact ⟨rfl, trivial, Or.inr ⟨m, iv, rfl, rfl⟩⟩

theorem loadRule_rinv {total : ℤ} {s : Sys ℚ} (h : RInv total s) (now : ℕ) (r : RuleP ℚ) (q : Option ℕ) (valid : Bool)
    (sc Iv : ℕ) (hv : ∀ m iv, r = .ma m iv → valid = true → m.valid total = true) :
    RInv total (loadRule s now r q valid sc Iv) := by
  rcases loadRule_rule_tok s now r q valid sc Iv with h1 | ⟨h1, h2⟩ | ⟨h1, hval, ⟨T, p, cf, iv, rfl, h2⟩ | ⟨m, iv, rfl, h2⟩⟩
  · exact ⟨fun _ _ _ e => by rw [h1] at e; simp at e, fun _ _ _ e => by rw [h1] at e; simp at e⟩
  · exact rinv_of_rule_tok h h1 h2
  · refine ⟨fun c sc' Iv' e => ?_, fun m sc' Iv' e => ?_⟩
    · rw [h2] at e
      simp only [Option.some.injEq, Prod.mk.injEq, Calc.warmup.injEq] at e
      obtain ⟨hc, _, _⟩ := e
      subst hc
      rw [h1]
      exact ⟨⟨T, p, cf, rfl⟩, le_refl _, by show (0 : ℤ) ≤ _; positivity⟩
    · rw [h2] at e; simp at e
  · refine ⟨fun c sc' Iv' e => ?_, fun m' sc' Iv' e => ?_⟩
    · rw [h2] at e; simp at e
    · rw [h2] at e
      simp only [Option.some.injEq, Prod.mk.injEq, Calc.adaptive.injEq] at e
      rw [← e.1]; exact hv m iv rfl hval

theorem loadRuleG_rinv {total : ℤ} {s : Sys ℚ} (h : RInv total s) (now : ℕ) (r : RuleP ℚ) (q : Option ℕ) (valid : Bool)
    (sc Iv : ℕ) (sa : Bool) (hv : ∀ m iv, r = .ma m iv → valid = true → m.valid total = true) :
    RInv total (loadRuleG s now r q valid sc Iv sa) := by
  have h1 := loadRule_rinv h now r q valid sc Iv hv
  unfold loadRuleG
  dsimp only
  split_ifs <;> first | exact h1 | exact rinv_of_rule_tok h1 rfl rfl

theorem stepOp_rinv {total : ℤ} {x : Sys ℚ × ℕ} (h : RInv total x.1) (o : Op) : RInv total (stepOp total x o).1 := by
  cases o with
  | clock t =>
    simp only [stepOp]
    split_ifs
    · exact h
    · exact h
  | mem v => exact rinv_of_rule_tok h rfl rfl
  | loadWu T p cf iv q sc Iv sa =>
    exact loadRuleG_rinv h _ _ _ _ _ _ _ (fun m iv' e _ => by cases e)
  | loadMa m iv q sc Iv sa =>
    exact loadRuleG_rinv h _ _ _ _ _ _ _ (fun m' iv' e hv => by cases e; exact hv)
  | req n b =>
    simp only [stepOp]
    split_ifs
    · exact h
    · exact reqsG_rinv _ _ _ h
  | probe b =>
    simp only [stepOp]
    split_ifs
    · exact h
    · exact probe_rinv h _ _

/-- every state reachable by the driver's ops satisfies the invariant -/
theorem runOps_rinv (total : ℤ) (ops : List Op) : ∀ {x : Sys ℚ × ℕ}, RInv total x.1 → RInv total (runOps total x ops).1 := by
  induction ops with
  | nil => intro x h; exact h
  | cons o r ih => intro x h; exact ih (stepOp_rinv h o)

/-! ## the envelope of the threshold a decision is checked against, in every reachable state -/

/-- warm-up (Reject and Throttling alike, any view, any statistic the rule reads): outside `warmup-nan` the threshold computed
    for a decision at any instant lies in `[T / coldFactor, T]` -/
theorem threshold_envelope_warmup {total : ℤ} {s : Sys ℚ} (h : RInv total s) (a : Arr Bucket) (now : ℕ)
    (c : Cfg ℚ) (sc Iv : ℕ) (hr : s.rule = some (.warmup c, sc, Iv)) (hnd : Known.degenerateNaN c = false) :
    ∃ q, (threshold s a now).2 = some (some q) ∧ c.T / c.cf ≤ q ∧ q ≤ c.T ∧ 0 < q := by
  obtain ⟨⟨T, p, cf, rfl⟩, _, _⟩ := h.wu c sc Iv hr
  have hwf := mkCfg_wf T p cf hnd
  have hb := threshold_tok h a now _ sc Iv hr
  have e : (threshold s a now).2 = some (allowed (mkCfg T p cf) (threshold s a now).1.tokens) := by
    unfold threshold; rw [hr]
  refine ⟨_, by rw [e, allowed_closed_form hwf], T_div_cf_le_val hwf _ hb.2, val_le_T hwf _, ?_⟩
  have hcf : (0 : ℚ) < (mkCfg T p cf).cf := by
    have : (2 : ℚ) ≤ (mkCfg T p cf).cf := by exact_mod_cast hwf.cf2
    linarith
  exact lt_of_lt_of_le (div_pos hwf.Tpos hcf) (T_div_cf_le_val hwf _ hb.2)

/-- memory-adaptive (Reject and Throttling alike), **every** memory reading incl. `-1`, negative and huge ones: the threshold lies
    in `[HighMemUsageThreshold, LowMemUsageThreshold]` and is positive -/
theorem threshold_envelope_adaptive {total : ℤ} {s : Sys ℚ} (h : RInv total s) (a : Arr Bucket) (now : ℕ)
    (m : MemCfg) (sc Iv : ℕ) (hr : s.rule = some (.adaptive m, sc, Iv)) :
    ∃ q : ℚ, (threshold s a now).2 = some (some q) ∧ (m.highT : ℚ) ≤ q ∧ q ≤ m.lowT ∧ 0 < q ∧ q = memAllowed m s.mem := by
  have hv := h.ma m sc Iv hr
  have hb : (0 : ℚ) < memAllowed m s.mem ∧ (m.highT : ℚ) ≤ memAllowed m s.mem ∧ (memAllowed m s.mem : ℚ) ≤ m.lowT := by
    obtain ⟨_, hh, ht, hl, _, _, hlh⟩ := (valid_iff m total).1 hv
    have hhq : (0 : ℚ) < m.highT := by exact_mod_cast hh
    have htq : (m.highT : ℚ) < m.lowT := by exact_mod_cast ht
    rw [memAllowed_eq m hl]
    split_ifs with h1 h2
    · exact ⟨by linarith, le_of_lt htq, le_refl _⟩
    · exact ⟨hhq, le_refl _, le_of_lt htq⟩
    · have := interp_bounds m ht hlh s.mem (by omega) (by omega)
      exact ⟨by linarith [this.1], le_of_lt this.1, le_of_lt this.2⟩
  refine ⟨memAllowed m s.mem, ?_, hb.2.1, hb.2.2, hb.1, rfl⟩
  unfold threshold; rw [hr]


theorem threshold_touch (s : Sys ℚ) (t : ℕ) (a : Arr Bucket) (now : ℕ) : threshold (s.touch t) a now = threshold s a now := by
  obtain ⟨hr, htk, hm⟩ := touch_rule_tok s t
  unfold threshold
  rw [hr, htk, hm]

/-- Reject, resource statistic: an admitted request leaves the window it was checked against within the threshold of that decision -/
theorem req_admits_within (s : Sys ℚ) (t b : ℕ) (a : Arr Bucket) (ha : (s.touch t).arr = some a)
    (cl : Calc ℚ) (sc Iv : ℕ) (hr : s.rule = some (cl, sc, Iv)) (q : ℚ) (hq : (threshold s a t).2 = some (some q))
    (hadm : (req s t b).2 = true) : ((vSum a Iv t .pass + b : ℕ) : ℚ) ≤ q := by
  have hr' : (s.touch t).rule = some (cl, sc, Iv) := by rw [(touch_rule_tok s t).1]; exact hr
  rw [← threshold_touch s t] at hq
  unfold req at hadm
  simp only [ha] at hadm
  rcases hthr : threshold (s.touch t) a t with ⟨tk, thr⟩
  rw [hthr] at hadm hq
  simp only at hq
  subst hq
  simp only [hr', rejects, c_ofNat, c_ltb, Bool.not_eq_true', decide_eq_false_iff_not, not_lt] at hadm
  exact hadm

/-- Reject, the rule's own statistic -/
theorem reqOwn_admits_within (s : Sys ℚ) (o : Arr Bucket) (t b : ℕ) (a : Arr Bucket) (ha : (s.touch t).arr = some a)
    (cl : Calc ℚ) (sc Iv : ℕ) (hr : s.rule = some (cl, sc, Iv)) (q : ℚ) (hq : (threshold s o t).2 = some (some q))
    (hadm : (reqOwn s o t b).2 = true) : ((vSum o Iv t .pass + b : ℕ) : ℚ) ≤ q := by
  have hr' : (s.touch t).rule = some (cl, sc, Iv) := by rw [(touch_rule_tok s t).1]; exact hr
  rw [← threshold_touch s t] at hq
  unfold reqOwn at hadm
  simp only [ha] at hadm
  rcases hthr : threshold (s.touch t) o t with ⟨tk, thr⟩
  rw [hthr] at hadm hq
  simp only at hq
  subst hq
  simp only [hr', rejects, c_ofNat, c_ltb, Bool.not_eq_true', decide_eq_false_iff_not, not_lt] at hadm
  exact hadm

/-- the statistic a Reject decision at `t` reads: the rule's own one if it has one, else the resource's -/
def readArr (s : Sys ℚ) (t : ℕ) : Option (Arr Bucket) :=
  match s.own with
  | some o => some o
  | none => (s.touch t).arr

/-- **per decision, what the driver executes (`reqG`)**: an admitted request leaves the window of the statistic its rule reads
    within the threshold computed for that very decision (slack 0) -/
theorem reqG_admits_within (s : Sys ℚ) (t b : ℕ) (ra : Arr Bucket) (hra : readArr s t = some ra)
    (cl : Calc ℚ) (sc Iv : ℕ) (hr : s.rule = some (cl, sc, Iv)) (q : ℚ) (hq : (threshold s ra t).2 = some (some q))
    (hadm : (reqG s t b).2 = true) : ((vSum ra Iv t .pass + b : ℕ) : ℚ) ≤ q := by
  unfold readArr at hra
  unfold reqG at hadm
  cases ho : s.own with
  | none =>
    rw [ho] at hra hadm
    exact req_admits_within s t b ra hra cl sc Iv hr q hq hadm
  | some o =>
    rw [ho] at hra hadm
    simp only [Option.some.injEq] at hra
    subst hra
    obtain ⟨a, ha, _⟩ := touch_arr s t
    exact reqOwn_admits_within s o t b a ha cl sc Iv hr q hq hadm

/-! ## Throttling: what an admitted probe says about the threshold -/

theorem throttleClass_not_excess (thr : Option ℚ) (b statNs : ℕ) (h : throttleClass thr b statNs ≠ .excess) (hb : 0 < b) :
    ∃ q, thr = some q ∧ 0 < q ∧ (b : ℚ) ≤ q := by
  unfold throttleClass at h
  rw [if_neg (by omega)] at h
  cases thr with
  | none => exact absurd rfl h
  | some q =>
    simp only [c_ofNat, c_ltb, Nat.cast_zero] at h
    by_cases h1 : (0 : ℚ) < q
    · by_cases h2 : q < (b : ℚ)
      · simp [h1, h2] at h
      · exact ⟨q, rfl, h1, not_lt.1 h2⟩
    · simp [h1] at h

theorem doCheck_block_of_excess (maxQ last now : ℤ) : (Throttle.doCheck maxQ last now .excess).2 = .block := rfl

theorem doCheck_wait_le (maxQ last now : ℤ) (r : Throttle.Req) (w : ℤ)
    (h : (Throttle.doCheck maxQ last now r).2 = .wait w) : w ≤ maxQ ∧ 0 < w := by
  cases r with
  | zero => simp [Throttle.doCheck] at h
  | excess => simp [Throttle.doCheck] at h
  | norm iv =>
    unfold Throttle.doCheck at h
    dsimp only at h
    split_ifs at h with h1 h2 h3
    all_goals first
      | (simp at h; done)
      | (simp only [Throttle.Res.wait.injEq] at h; omega)

/-- **per decision, Throttling (`probe`)**: a request that is not blocked had a positive threshold at least as large as its batch,
    and a wait never exceeds the queueing limit -/
theorem probe_admitted (s : Sys ℚ) (ns b : ℕ) (hb : 0 < b) (a : Arr Bucket) (ha : (s.touch (ns / 1000000)).arr = some a)
    (cl : Calc ℚ) (sc Iv maxQ : ℕ) (hr : s.rule = some (cl, sc, Iv)) (hq : s.behav = some maxQ)
    (hadm : (probe s ns b).2.1 ≠ .block) :
    (∃ q, (threshold s ((s.touch (ns / 1000000)).own.getD a) (ns / 1000000)).2 = some (some q) ∧ 0 < q ∧ (b : ℚ) ≤ q) ∧
    (∀ w, (probe s ns b).2.1 = .wait w → w ≤ (maxQ : ℤ) * 1000000) := by
  have hr' : (s.touch (ns / 1000000)).rule = some (cl, sc, Iv) := by rw [(touch_rule_tok s _).1]; exact hr
  have hq' : (s.touch (ns / 1000000)).behav = some maxQ := by
    unfold Sys.touch; cases s.arr <;> exact hq
  have e : (probe s ns b).2.1 =
      (Throttle.doCheck ((maxQ : ℤ) * 1000000) (s.touch (ns / 1000000)).last ns
        (throttleClass ((threshold (s.touch (ns / 1000000)) ((s.touch (ns / 1000000)).own.getD a) (ns / 1000000)).2.getD none)
          b (Iv * 1000000))).2 := by
    unfold probe
    simp only [ha, hr', hq']
  rw [e] at hadm
  rw [threshold_touch] at e hadm
  constructor
  · have hne : throttleClass ((threshold s ((s.touch (ns / 1000000)).own.getD a) (ns / 1000000)).2.getD none) b (Iv * 1000000) ≠ .excess := by
      intro hex
      rw [hex] at hadm
      exact hadm rfl
    obtain ⟨q, h1, h2, h3⟩ := throttleClass_not_excess _ b _ hne hb
    refine ⟨q, ?_, h2, h3⟩
    cases hth : (threshold s ((s.touch (ns / 1000000)).own.getD a) (ns / 1000000)).2 with
    | none => rw [hth] at h1; simp at h1
    | some x => rw [hth] at h1; simp only [Option.getD_some] at h1; rw [h1]
  · intro w hw
    rw [e] at hw
    exact (doCheck_wait_le _ _ _ _ w hw).1

end Sentinel.WU.R
