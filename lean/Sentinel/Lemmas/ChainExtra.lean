import Sentinel.Lemmas.ChainSim
/-! Further lemmas for C16: idempotence of `Exit`, transparency of the global-chain preamble, the pass-through hazard. -/
namespace Sentinel.Chain

/-! ## `Exit` is idempotent -/

theorem findEntry_setEntry_self (T : State) (m m' : EntryRec) (e : String) (hf : findEntry T e = some m)
    (hn : m'.name = m.name) : findEntry (setEntry T m') e = some m' := by
  obtain ⟨_, hme⟩ := find_name_mem EntryRec.name T.entries e m hf
  obtain ⟨y, hy1, hy2⟩ := find_map_replace T.entries m' e m hf
  have : e = m'.name := by rw [hn]; exact hme.symm
  simp only [this, if_true] at hy2
  subst hy2
  exact hy1

/-- a second `Exit` on the same entry changes nothing but the (now empty) call log: same heap — in particular the same pool,
    so the context is handed back exactly once —, same entries, chains and context notes, same answer -/
theorem stepExit_idem (s : State) (e : String) :
    (stepExit (stepExit s e).1 e).2 = (stepExit s e).2 ∧
    (stepExit (stepExit s e).1 e).1.h = (stepExit s e).1.h ∧
    (stepExit (stepExit s e).1 e).1.entries = (stepExit s e).1.entries ∧
    (stepExit (stepExit s e).1 e).1.chains = (stepExit s e).1.chains ∧
    (stepExit (stepExit s e).1 e).1.cnote = (stepExit s e).1.cnote ∧
    ((stepExit s e).2 = .ok → (stepExit (stepExit s e).1 e).1.lastLog = []) ∧
    ((stepExit s e).2 = .bad → (stepExit (stepExit s e).1 e).1 = s) := by
  cases hf : findEntry s e with
  | none =>
    have h1 : stepExit s e = (s, .bad) := by simp [stepExit, hf]
    rw [h1]; simp only; rw [h1]; simp
  | some m =>
    by_cases hb : m.blockAt.isSome = true
    · have h1 : stepExit s e = (s, .bad) := by simp [stepExit, hf, hb]
      rw [h1]; simp only; rw [h1]; simp
    · by_cases hx : m.exited = true
      · have h1 : stepExit s e = ({ s with lastLog := [] }, .ok) := by simp [stepExit, hf, hb, hx]
        have hf' : findEntry ({ s with lastLog := [] } : State) e = some m := hf
        have h2 : stepExit ({ s with lastLog := [] } : State) e = ({ s with lastLog := [] }, .ok) := by
          simp [stepExit, hf', hb, hx]
        rw [h1]; simp only; rw [h2]; simp
      · cases hc : findChain s m.chain with
        | none =>
          have h1 : stepExit s e = (s, .bad) := by simp [stepExit, hf, hb, hx, hc]
          rw [h1]; simp only; rw [h1]; simp
        | some ch =>
          have hst : ∃ T : State, T = { s with h := (exitBody ch.ss m.hooks m.ctx s.h).1, lastLog := (exitBody ch.ss m.hooks m.ctx s.h).2, cnote := upd s.cnote m.ctx {} } := ⟨_, rfl⟩
          obtain ⟨T, hT⟩ := hst
          have hfT : findEntry T e = some m := by rw [hT]; exact hf
          have h1 : stepExit s e = (setEntry T { m with exited := true }, .ok) := by
            rw [hT]; simp [stepExit, hf, hb, hx, hc]
          have hf' := findEntry_setEntry_self T m { m with exited := true } e hfT rfl
          rw [h1]; simp only
          have h2 : ∀ U : State, findEntry U e = some ({ m with exited := true } : EntryRec) →
              stepExit U e = ({ U with lastLog := [] }, .ok) := by
            intro U hU
            have hb' : ({ m with exited := true } : EntryRec).blockAt.isSome = false := by simpa using hb
            simp [stepExit, hU, hb']
          rw [h2 _ hf']
          simp

/-! ## the global-chain preamble is transparent -/

/-- `api`'s global chain as the harness sees it: one recording slot of each kind with id 0 (the built-in slots are silent) -/
def preamble : Op :=
  .chain "*" [.p { id := 0, order := 0, beh := .ok }, .r { id := 0, order := 0, beh := .nil }, .s { id := 0, order := 0, beh := .ok }]

/-- the op does not name the chain `*` -/
def avoidsStar : Op → Bool
  | .chain n _ => n != "*"
  | .add n _ => n != "*"
  | .entry _ n => n != "*"
  | _ => true

/-- `t` is `s` plus a chain called `*` that no entry uses -/
structure StarExt (s t : State) : Prop where
  h : t.h = s.h
  entries : t.entries = s.entries
  lastLog : t.lastLog = s.lastLog
  cnote : t.cnote = s.cnote
  chains : ∀ n, n ≠ "*" → findChain t n = findChain s n
  nostar : ∀ m ∈ s.entries, m.chain ≠ "*"

theorem StarExt.findEntry {s t : State} (x : StarExt s t) (e : String) : findEntry t e = findEntry s e := by
  simp [Sentinel.Chain.findEntry, x.entries]

theorem step_starExt {s t : State} (x : StarExt s t) (op : Op) (ha : avoidsStar op = true) :
    StarExt (step s op).1 (step t op).1 ∧ (step t op).2 = (step s op).2 := by
  cases op with
  | chain n slots =>
    have hn : n ≠ "*" := by simpa [avoidsStar] using ha
    simp only [step, stepChain, x.chains n hn, x.h]
    cases findChain s n with
    | some _ => exact ⟨x, rfl⟩
    | none =>
      refine ⟨⟨rfl, x.entries, x.lastLog, x.cnote, ?_, x.nostar⟩, rfl⟩
      intro k hk
      rw [findChain_setChain, findChain_setChain]
      by_cases e : n = k
      · simp [e]
      · simp only [e, if_false]; exact x.chains k hk
  | add n slot =>
    have hn : n ≠ "*" := by simpa [avoidsStar] using ha
    simp only [step, stepAdd, x.chains n hn, x.h]
    cases findChain s n with
    | none => exact ⟨x, rfl⟩
    | some ch =>
      refine ⟨⟨rfl, x.entries, x.lastLog, x.cnote, ?_, x.nostar⟩, rfl⟩
      intro k hk
      rw [findChain_setChain, findChain_setChain]
      by_cases e : n = k
      · simp [e]
      · simp only [e, if_false]; exact x.chains k hk
  | entry e n =>
    have hn : n ≠ "*" := by simpa [avoidsStar] using ha
    simp only [step, stepEntry, x.findEntry e, x.chains n hn, x.h]
    cases findEntry s e with
    | some _ => exact ⟨x, rfl⟩
    | none =>
      cases findChain s n with
      | none => exact ⟨x, rfl⟩
      | some ch =>
        simp only [recordEntry]
        cases (apiEntry ch s.h).2.2 with
        | passed c ks =>
          refine ⟨⟨rfl, by simp [x.entries], rfl, by simp [x.cnote], x.chains, ?_⟩, rfl⟩
          intro m hm
          simp only [List.mem_append, List.mem_singleton] at hm
          rcases hm with hm | rfl
          · exact x.nostar m hm
          · exact hn
        | blocked c a b =>
          refine ⟨⟨rfl, by simp [x.entries], rfl, by simp [x.cnote], x.chains, ?_⟩, rfl⟩
          intro m hm
          simp only [List.mem_append, List.mem_singleton] at hm
          rcases hm with hm | rfl
          · exact x.nostar m hm
          · exact hn
        | escaped => exact ⟨⟨rfl, x.entries, rfl, x.cnote, x.chains, x.nostar⟩, rfl⟩
  | whenexit e id b =>
    simp only [step, stepWhenExit, x.findEntry e]
    cases hf : findEntry s e with
    | none => exact ⟨x, rfl⟩
    | some r =>
      dsimp only
      split_ifs
      · exact ⟨x, rfl⟩
      · refine ⟨⟨x.h, by simp [setEntry, x.entries], x.lastLog, x.cnote, x.chains, ?_⟩, rfl⟩
        intro m hm
        rcases (mem_setEntry s _ m).mp hm with ⟨rfl, _⟩ | ⟨h1, _⟩
        · exact x.nostar r (find_name_mem EntryRec.name s.entries e r hf).1
        · exact x.nostar m h1
  | exit e =>
    simp only [step, stepExit, x.findEntry e]
    cases hf : findEntry s e with
    | none => exact ⟨x, rfl⟩
    | some r =>
      dsimp only
      have hrc : r.chain ≠ "*" := x.nostar r (find_name_mem EntryRec.name s.entries e r hf).1
      by_cases h1 : r.blockAt.isSome = true
      · simp only [h1, if_true]; exact ⟨x, by first | rfl | trivial⟩
      · by_cases h2 : r.exited = true
        · simp only [h1, h2, if_true, Bool.false_eq_true, if_false]
          exact ⟨⟨x.h, x.entries, rfl, x.cnote, x.chains, x.nostar⟩, by first | rfl | trivial⟩
        · simp only [h1, h2, Bool.false_eq_true, if_false, x.chains r.chain hrc, x.h, x.cnote]
          cases findChain s r.chain with
          | none => exact ⟨x, rfl⟩
          | some ch =>
            refine ⟨⟨rfl, by simp [setEntry, x.entries], rfl, rfl, x.chains, ?_⟩, rfl⟩
            intro m hm
            rcases (mem_setEntry _ _ m).mp hm with ⟨rfl, _⟩ | ⟨h3, _⟩
            · exact hrc
            · exact x.nostar m h3
  | log => simp only [step, x.lastLog]; exact ⟨x, by first | rfl | trivial⟩
  | ident e =>
    simp only [step, x.findEntry e]
    cases findEntry s e <;> exact ⟨x, rfl⟩
  | blockerr e =>
    simp only [step, stepBlockErr, x.findEntry e, x.h]
    cases findEntry s e with
    | none => exact ⟨x, rfl⟩
    | some r => dsimp only; cases r.blockAt <;> exact ⟨x, rfl⟩
  | globalorder => exact ⟨x, rfl⟩
  | ctxq e p =>
    simp only [step, x.findEntry e, x.cnote]
    cases findEntry s e <;> exact ⟨x, rfl⟩
  | clock t => exact ⟨x, rfl⟩

theorem runOuts_starExt (ops : List Op) {s t : State} (x : StarExt s t) (ha : ∀ o ∈ ops, avoidsStar o = true) :
    runOuts t ops = runOuts s ops := by
  induction ops generalizing s t with
  | nil => rfl
  | cons o r ih =>
    obtain ⟨x1, o1⟩ := step_starExt x o (ha o (List.mem_cons_self ..))
    simp only [runOuts, o1, ih x1 (fun o' ho' => ha o' (List.mem_cons_of_mem _ ho'))]

theorem preamble_starExt : StarExt {} (step {} preamble).1 := by
  refine ⟨rfl, rfl, rfl, rfl, ?_, fun m hm => by simp at hm⟩
  intro n hn
  have : (step {} preamble).1 = setChain {} "*" (addSlots _ ({} : State).h {}).2 := rfl
  rw [this, findChain_setChain]
  have : ¬ "*" = n := fun e => hn e.symm
  simp [this]

/-! ## the pass-through hazard (notes/C16.md, observation 5)

The built-in rule slots start from `result := ctx.RuleCheckResult` and return it untouched.  The executable model the driver
runs has no such behaviour (the harness's passing slots return fresh results or nil); the extension below exists only for the
two theorems: `XSlot.thru` is a rule slot that hands the pooled result back as it is. -/

inductive XSlot
  | std (s : RSlot)
  | thru (id : Nat)          -- `return ctx.RuleCheckResult` (flow / system / isolation / hotspot / circuit-breaker slots with nothing to do)
deriving Repr

/-- what the chain sees if every pass-through slot simply returned nil -/
def XSlot.toStd : XSlot → RSlot
  | .std s => s
  | .thru id => { id := id, order := 0, beh := .nil }

/-- the rule loop over extended slots: a pass-through slot blocks exactly when the pooled result it returns is marked blocked -/
def runRulesX (c : Nat) : List XSlot → Heap → Heap × List Call × Hooks × RuleOut
  | [], h => (h, [], [], .allPass)
  | .thru id :: rest, h =>
    if isBlockedTR h (h.ctxs c) then (h, [.check id], [], .blocked (h.ctxs c))
    else
      let (h, l, k, o) := runRulesX c rest h
      (h, .check id :: l, k, o)
  | .std s :: rest, h =>
    match s.beh with
    | .panic => (h, [.check s.id], hookOf s.id s.hook, .panic)
    | .block st typ =>
      let (h, t) := doBlock c s st typ h
      (h, [.check s.id], hookOf s.id s.hook, .blocked t)
    | .wait =>
      let (h, _) := newTokenResult h 2 {}
      let (h, l, k, o) := runRulesX c rest h
      (h, .check s.id :: l, hookOf s.id s.hook ++ k, o)
    | .pass =>
      let (h, _) := newTokenResult h 0 {}
      let (h, l, k, o) := runRulesX c rest h
      (h, .check s.id :: l, hookOf s.id s.hook ++ k, o)
    | .nil =>
      let (h, l, k, o) := runRulesX c rest h
      (h, .check s.id :: l, hookOf s.id s.hook ++ k, o)

/-- `SlotChain.Entry` with the rule loop as a parameter (the same text as `chainEntry`) -/
def chainEntryWith (rr : Nat → Heap → Heap × List Call × Hooks × RuleOut) (ch : ChainDef) (c : Nat) (h : Heap) :
    Heap × List Call × Hooks × Option Nat :=
  let (l1, k1, p1) := runPrep ch.ps
  if p1 then (h, l1, k1, none) else
  let (h, l2, k2, ro) := rr c h
  match ro with
  | .panic => (h, l1 ++ l2, k1 ++ k2, none)
  | .allPass =>
    let h := resetToPass h (h.ctxs c)
    let (l3, p3) := runStats none ch.ss
    (h, l1 ++ l2 ++ l3, k1 ++ k2, if p3 then none else some (h.ctxs c))
  | .blocked t =>
    let h := { h with ctxs := upd h.ctxs c t }
    let blk := if isBlockedTR h t then some (getBE h t) else none
    let (l3, p3) := runStats blk ch.ss
    (h, l1 ++ l2 ++ l3, k1 ++ k2, if p3 then none else some t)

/-- `api.entry` with the rule loop as a parameter (the same text as `apiEntry`) -/
def apiEntryWith (rr : Nat → Heap → Heap × List Call × Hooks × RuleOut) (ch : ChainDef) (h : Heap) :
    Heap × List Call × EntryRes :=
  let (h, c) := poolGet h
  let (h, l, ks, r) := chainEntryWith rr ch c h
  match r with
  | none => (h, l, .passed c ks)
  | some t =>
    if isBlockedTR h t then
      match getBE h t with
      | none => (h, l, .escaped)
      | some b =>
        let (h, a) := allocBE h b
        let h := { h with held := a :: h.held }
        let (h, l4) := exitBody ch.ss ks c h
        (h, l ++ l4, .blocked c a b)
    else (h, l, .passed c ks)

theorem chainEntryWith_std (ch : ChainDef) (c : Nat) (h : Heap) :
    chainEntryWith (fun c h => runRules c ch.rs h) ch c h = chainEntry ch c h := rfl

theorem apiEntryWith_std (ch : ChainDef) (h : Heap) :
    apiEntryWith (fun c h => runRules c ch.rs h) ch h = apiEntry ch h := rfl

/-- only the value of the rule loop at the context taken from the pool matters -/
theorem apiEntryWith_congr (rr rr' : Nat → Heap → Heap × List Call × Hooks × RuleOut) (ch : ChainDef) (h : Heap)
    (e : rr (poolGet h).2 (poolGet h).1 = rr' (poolGet h).2 (poolGet h).1) :
    apiEntryWith rr ch h = apiEntryWith rr' ch h := by
  unfold apiEntryWith chainEntryWith
  rcases hpg : poolGet h with ⟨h1, c⟩
  rw [hpg] at e
  simp only at e
  simp only [e]

/-- on a context whose pooled result is not marked blocked, pass-through slots are indistinguishable from slots returning nil -/
theorem runRulesX_clean (c : Nat) (xs : List XSlot) (h : Heap) (hc : isBlockedTR h (h.ctxs c) = false) :
    runRulesX c xs h = runRules c (xs.map XSlot.toStd) h := by
  induction xs generalizing h with
  | nil => rfl
  | cons x r ih =>
    cases x with
    | thru id =>
      simp only [runRulesX, hc, Bool.false_eq_true, if_false, List.map_cons, XSlot.toStd, runRules, ih h hc]
      simp [hookOf]
    | std s =>
      simp only [List.map_cons, XSlot.toStd]
      cases hb : s.beh with
      | panic => simp [runRulesX, runRules, hb]
      | block st typ => simp [runRulesX, runRules, hb]
      | wait =>
        have hk : isBlockedTR (newTokenResult h 2 {}).1 ((newTokenResult h 2 {}).1.ctxs c) = false := by
          by_contra hbk
          have h1 : ((newTokenResult h 2 {}).1.trs (h.ctxs c)).status = 1 := by
            simpa [isBlockedTR, newTokenResult, allocBE, allocTR] using hbk
          have := newTokenResult_status1 h 2 {} (by decide) _ h1
          simp [isBlockedTR, this] at hc
        simp [runRulesX, runRules, hb, ih _ hk]
      | pass =>
        have hk : isBlockedTR (newTokenResult h 0 {}).1 ((newTokenResult h 0 {}).1.ctxs c) = false := by
          by_contra hbk
          have h1 : ((newTokenResult h 0 {}).1.trs (h.ctxs c)).status = 1 := by
            simpa [isBlockedTR, newTokenResult, allocBE, allocTR] using hbk
          have := newTokenResult_status1 h 0 {} (by decide) _ h1
          simp [isBlockedTR, this] at hc
        simp [runRulesX, runRules, hb, ih _ hk]
      | nil => simp [runRulesX, runRules, hb, ih h hc]

/-- the hazard region for an `Entry`, as the reference computes it (decidable): some rule slot of the case reuses one result
    object and some entry admitted by a panic after a block has not exited yet -/
def SState.entryHazard (s' : SState) : Bool :=
  s'.hasOwn && s'.entries.any fun x => x.blockPanic && !x.exited

/-- outside the hazard the context the pool hands out is never marked blocked -/
theorem Sim.pool_clean {s : State} {s' : SState} (x : Sim s s') (hz : s'.entryHazard = false) :
    isBlockedTR (poolGet s.h).1 ((poolGet s.h).1.ctxs (poolGet s.h).2) = false := by
  by_contra hb
  have hd : ((poolGet s.h).1.trs ((poolGet s.h).1.ctxs (poolGet s.h).2)).status = 1 := by simpa [isBlockedTR] using hb
  -- a dirty result belongs to a live entry admitted by a panic after a block …
  have key : ∀ t, (s.h.trs t).status = 1 → s'.hasOwn = false ∧
      ∃ y ∈ s.entries, y.exited = false ∧ s.h.ctxs y.ctx = t := by
    intro t ht
    obtain ⟨y, hy, yl, yt, z, hz', _, zb, zx⟩ := x.dirty t ht
    refine ⟨?_, y, hy, yl, yt⟩
    cases ho : s'.hasOwn with
    | false => rfl
    | true =>
      have : s'.entryHazard = true := by
        simp only [SState.entryHazard, ho, Bool.true_and, List.any_eq_true]
        exact ⟨z, hz', by simp [zb, zx]⟩
      rw [this] at hz; exact absurd hz (by simp)
  rcases poolGet_spec s.h with ⟨e1, e2, _, _, e5⟩ | ⟨_, _, e3, _, e5, _, e7⟩
  · -- … so, without shared results, it is not the result of a pooled context
    rw [e5, e2] at hd
    obtain ⟨hno, y, hy, yl, yt⟩ := key _ hd
    obtain ⟨hinj, _⟩ := x.inj hno
    have hcin : (poolGet s.h).2 ∈ poolList s.h := by rw [e1]; simp
    have := hinj y.ctx (poolGet s.h).2 (x.live_sep y hy yl).2 (x.pool_lt _ hcin) yt
    exact (x.live_sep y hy yl).1 (this ▸ hcin)
  · -- a brand-new context carries a brand-new result
    have hd' := e7 _ hd
    rw [e5, e3] at hd'
    simp only [upd, if_true] at hd'
    obtain ⟨hno, y, hy, yl, yt⟩ := key _ hd'
    obtain ⟨_, hlt⟩ := x.inj hno
    have := hlt y.ctx (x.live_sep y hy yl).2
    omega

end Sentinel.Chain
