import Mathlib.Tactic
import Sentinel.Model.LeapArrayRace
import Sentinel.Lemmas.LeapArrayRaceTerm
/-!
# The ghost total is bounded by the adds that have started (C09)

`Shared.performed ev` (Σ amounts of the executed `AddInt64` on event `ev`) never exceeds
`Cfg.started ev`: the amounts of the `add ev` operations that have begun — completed ones and the ones
in progress.  Proof: it is even bounded by `cred`, the completed ones plus those in progress that are
already past their atomic add.
-/
namespace Sentinel.LAR

/-- amount an operation records for event `ev` -/
def opAmt (ev : Nat) : OpSpec → Nat
  | .add e a => if e = ev then a else 0
  | _ => 0

def resAmt (ev : Nat) (res : List Res) : Nat := (res.map fun r => opAmt ev r.op).sum

/-- in progress and past the atomic add (`AddRt` goes on to the min-RT update) -/
def pcPast : Pc → Bool
  | .minrtLoad | .minrtStore => true
  | _ => false

def curCred (ev : Nat) : Option Frame → Nat
  | some f => if pcPast f.pc then opAmt ev f.op else 0
  | none => 0

def curStarted (ev : Nat) : Option Frame → Nat
  | some f => opAmt ev f.op
  | none => 0

def Th.cred (ev : Nat) (t : Th) : Nat := resAmt ev t.res + curCred ev t.cur
/-- amounts of the `add ev` operations this thread has started (completed or in progress) -/
def Th.started (ev : Nat) (t : Th) : Nat := resAmt ev t.res + curStarted ev t.cur

def Cfg.cred (ev : Nat) (c : Cfg) : Nat := (c.th.map (Th.cred ev)).sum
/-- Σ amounts of the `add ev` operations that have started, over all threads -/
def Cfg.started (ev : Nat) (c : Cfg) : Nat := (c.th.map (Th.started ev)).sum

theorem cred_le_started (ev : Nat) (t : Th) : t.cred ev ≤ t.started ev := by
  unfold Th.cred Th.started curCred curStarted
  cases t.cur with
  | none => exact le_refl _
  | some f => simp only []; split_ifs <;> omega

theorem cfg_cred_le_started (ev : Nat) (c : Cfg) : c.cred ev ≤ c.started ev := by
  unfold Cfg.cred Cfg.started
  induction c.th with
  | nil => simp
  | cons t r ih => simp only [List.map_cons, List.sum_cons]; have := cred_le_started ev t; omega

def actAmt (ev : Nat) : Act → Nat
  | .addCnt _ k a => if k = ev then a else 0
  | _ => 0

def nxCred (ev : Nat) (op : OpSpec) : Next → Nat
  | .pc p => if pcPast p then opAmt ev op else 0
  | .fin _ => opAmt ev op

theorem sumTo_upd_le (f : Nat → Nat) (i0 a n : Nat) :
    sumTo (fun i => if i = i0 then f i + a else f i) n ≤ sumTo f n + a
    ∧ (n ≤ i0 → sumTo (fun i => if i = i0 then f i + a else f i) n = sumTo f n) := by
  induction n with
  | zero => simp [sumTo]
  | succ n ih =>
    simp only [sumTo]
    obtain ⟨h1, h2⟩ := ih
    by_cases h : n = i0
    · subst h
      have := h2 (le_refl _)
      simp only [if_true]
      exact ⟨by omega, fun hh => by omega⟩
    · simp only [h, if_false]
      refine ⟨by omega, fun hh => ?_⟩
      have := h2 (by omega); omega

theorem performed_apply (sh : Shared) (a : Act) (ev : Nat) :
    (sh.apply a).performed ev ≤ sh.performed ev + actAmt ev a := by
  cases a <;> simp only [Shared.apply, Shared.performed, actAmt] <;> try exact Nat.le_add_right _ _
  case addCnt i k a =>
    by_cases hk : k = ev
    · subst hk
      simp only [if_true]
      have := (sumTo_upd_le (fun j => sh.tot j k) i a sh.n).1
      refine le_trans (le_of_eq ?_) this
      congr 1
      funext j
      simp only [upd2]
      by_cases hj : j = i
      · subst hj; simp
      · simp [hj]
    · simp only [hk, if_false, Nat.add_zero]
      apply le_of_eq
      congr 1
      funext j
      simp only [upd2]
      have : ¬ (j = i ∧ ev = k) := fun h => hk h.2.symm
      simp [this]

/-- a step inside an operation: what it adds to the ghost total is covered by the credit it gains -/
theorem decide_cred (sh : Shared) (op : OpSpec) (now : Nat) (pc : Pc) (ev : Nat) :
    actAmt ev (decideStep sh op now pc).1 + (if pcPast pc then opAmt ev op else 0)
      ≤ nxCred ev op (decideStep sh op now pc).2 := by
  cases pc <;> simp only [decideStep, pcPast, Bool.false_eq_true, if_false, if_true, Nat.add_zero]
  case curLoad => split_ifs <;> simp [actAmt]
  case tryLock => split_ifs <;> simp [actAmt]
  case spin => simp [actAmt]
  case resetStart => simp [actAmt]
  case resetCnt k => simp [actAmt]
  case resetMinRt => simp [actAmt]
  case resetMaxConc => simp [actAmt]
  case unlock => simp [actAmt]
  case mbAdd =>
    cases op <;> simp only [] <;> (try split_ifs) <;> simp [actAmt, nxCred, opAmt, pcPast]
  case minrtLoad =>
    cases op <;> simp only [] <;> (try split_ifs) <;> simp [actAmt, nxCred, opAmt, pcPast]
  case minrtStore =>
    cases op <;> simp [actAmt, nxCred, opAmt]
  case maxconcLoad => cases op <;> simp only [] <;> (try split_ifs) <;> simp [actAmt]
  case maxconcStore => cases op <;> simp [actAmt]
  case valGet j col => simp [actAmt]
  case depLoad j col => simp [actAmt]
  case mbGet rem acc => cases rem <;> simp [actAmt]

theorem resAmt_append (ev : Nat) (res : List Res) (r : Res) : resAmt ev (res ++ [r]) = resAmt ev res + opAmt ev r.op := by
  simp [resAmt]

theorem startNext_cred (ev : Nat) (sh : Shared) (clock : Nat) (prog : List OpSpec) (res : List Res) :
    resAmt ev res ≤ (startNext sh clock prog res).cred ev := by
  induction prog generalizing res with
  | nil => simp [startNext, Th.cred, curCred]
  | cons op rest ih =>
    simp only [startNext]
    split_ifs
    · have := ih (res ++ [mkRes sh op 0 (zeroRes op)])
      rw [resAmt_append] at this; omega
    · cases firstPc sh op with
      | pc p => simp [Th.cred]
      | fin r =>
        have := ih (res ++ [mkRes sh op clock r])
        rw [resAmt_append] at this
        simp only []; omega

theorem stepTh_cred (sh : Shared) (clock : Nat) (t : Th) (ev : Nat) :
    (stepTh sh clock t).1.performed ev + t.cred ev ≤ sh.performed ev + (stepTh sh clock t).2.cred ev := by
  cases hc : t.cur with
  | none =>
    rw [stepTh_none _ _ _ hc]
    have := startNext_cred ev sh clock t.prog t.res
    simp only [Th.cred, hc, curCred] at this ⊢
    omega
  | some f =>
    rw [stepTh_some _ _ _ f hc]
    simp only []
    have h1 := performed_apply sh (decideStep sh f.op f.now f.pc).1 ev
    have h2 := decide_cred sh f.op f.now f.pc ev
    have hct : t.cred ev = resAmt ev t.res + (if pcPast f.pc then opAmt ev f.op else 0) := by
      simp [Th.cred, hc, curCred]
    cases hn : (decideStep sh f.op f.now f.pc).2 with
    | pc p =>
      rw [hn] at h2
      simp only [nxCred] at h2
      have : (adv (sh.apply (decideStep sh f.op f.now f.pc).1) clock t f (.pc p)).cred ev
          = resAmt ev t.res + (if pcPast p then opAmt ev f.op else 0) := by
        simp [adv, Th.cred, curCred]
      rw [this, hct]; omega
    | fin r =>
      rw [hn] at h2
      simp only [nxCred] at h2
      have := startNext_cred ev (sh.apply (decideStep sh f.op f.now f.pc).1) clock t.prog
        (t.res ++ [mkRes (sh.apply (decideStep sh f.op f.now f.pc).1) f.op f.now r])
      rw [resAmt_append] at this
      simp only [adv, mkRes] at this ⊢
      rw [hct]; omega

theorem sum_set {α : Type} (f : α → Nat) (l : List α) (i : Nat) (t t' : α) (h : l[i]? = some t) :
    ((l.set i t').map f).sum + f t = (l.map f).sum + f t' := by
  induction l generalizing i with
  | nil => simp at h
  | cons a r ih =>
    cases i with
    | zero => simp at h; subst h; simp; omega
    | succ i =>
      simp at h
      have := ih i h
      simp only [List.set_cons_succ, List.map_cons, List.sum_cons]
      omega

theorem exec_cred (c : Cfg) (e : Entry) (ev : Nat) (h : c.sh.performed ev ≤ c.cred ev) :
    (c.exec e).sh.performed ev ≤ (c.exec e).cred ev := by
  cases e with
  | tick d => exact h
  | step i =>
    simp only [Cfg.exec]
    cases hth : c.th[i]? with
    | none => exact h
    | some t =>
      simp only [Cfg.cred] at h ⊢
      have h1 := stepTh_cred c.sh c.clock t ev
      have h2 := sum_set (Th.cred ev) c.th i t (stepTh c.sh c.clock t).2 hth
      omega

theorem run_cred (c : Cfg) (s : List Entry) (ev : Nat) (h : c.sh.performed ev ≤ c.cred ev) :
    (run c s).sh.performed ev ≤ (run c s).cred ev := by
  induction s generalizing c with
  | nil => exact h
  | cons e r ih => exact ih _ (exec_cred c e ev h)

theorem sumTo_zero (n : Nat) : sumTo (fun _ => 0) n = 0 := by
  induction n with
  | zero => rfl
  | succ n ih => simp [sumTo, ih]

end Sentinel.LAR
