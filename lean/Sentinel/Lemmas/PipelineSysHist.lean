import Mathlib.Tactic
import Sentinel.Lemmas.PipelineFlow
/-!
# History-form projection onto the system module

Everything the system slot reads — the loaded rules, the load / cpu readings and the **inbound node** (leap array + gauge,
which in the integrated state is the inbound node of `ent`, shared with `stat.Slot`) — is, after any integrated history, what
the system model holds after replaying the projected history (`run_sys`, relation `SysRel`).  The replay uses only the system
model's own transition functions: `System.step` for clock / load / readings, `System.onPassed` / `System.onBlocked` /
`System.onExit` for the entries (exactly what `System.step` does on `.entry` / `.exit`: `sysApply_entry_is_step`,
`sysApply_exit_is_step`), plus two kinds of extra recordings that `System.step` cannot produce by itself because the system
model knows no other slot: the *block* count of an inbound request that passed the system slot and was blocked by a later
slot (`onBlocked`), and the *error* count of an inbound completion (`record … error`).  Neither counter is read by the
system slot's view.

Interface: `System.St`, `step … false` on `clock/load/sysLoad/sysCpu`, `onPassed`, `onBlocked`, `onExit`, `record`,
`blockedBy`, `viewOf`, `modelView`, `check`, `Entry` (structure).
-/
namespace Sentinel.Pipe
open Sentinel.LA

variable {R : Type}

/-- one move of the system model -/
inductive SysMove (R : Type)
  | op (o : System.Op R)                 -- clock / load / sysLoad / sysCpu, through `System.step`
  | passed (e : System.Entry)            -- the chain admitted the request
  | blocked (batch : Nat)                -- an inbound request was blocked (by the system slot or by a later one)
  | errorMark (batch : Nat)              -- an inbound completion carried an error
  | exited (e : System.Entry)            -- completion of an admitted request

section apply
variable [LT R] [LE R] [∀ a b : R, Decidable (a < b)] [∀ a b : R, Decidable (a ≤ b)]

def sysApply (A : System.Arith R) (m : System.St R) : SysMove R → System.St R
  | .op o => (System.step A false m o).1
  | .passed e => System.onPassed m e
  | .blocked b => System.onBlocked m b
  | .errorMark b => System.record m (evBucket .error b)
  | .exited e => System.onExit m e

def sysRun (A : System.Arith R) (m : System.St R) (ms : List (SysMove R)) : System.St R := ms.foldl (sysApply A) m

/-- an `entry` op of the system model is the `passed` / `blocked` move, according to the model's own verdict -/
theorem sysApply_entry_is_step (A : System.Arith R) (m : System.St R) (id : String) (inbound : Bool) (batch : Nat)
    (hs : m.started = true) (hid : m.live.any (·.id == id) = false) :
    System.step A false m (.entry id inbound batch) =
      if System.blockedBy A false m inbound then (sysApply A m (.blocked batch), System.Res.blockSys)
      else (sysApply A m (.passed { id := id, inbound := inbound, start := m.now, batch := batch }), System.Res.pass) := by
  simp [System.step, hs, hid, sysApply]

/-- an `exit` op of the system model is the `exited` move of the entry it finds -/
theorem sysApply_exit_is_step (A : System.Arith R) (m : System.St R) (id : String) (e : System.Entry)
    (hs : m.started = true) (hf : m.live.find? (·.id == id) = some e) :
    (System.step A false m (.exit id)).1 = sysApply A m (.exited e) := by
  simp [System.step, hs, hf, sysApply]

end apply

/-- the inputs of the system slot in the integrated state `s` are those of the system model's state `m` -/
structure SysRel (s : St R) (m : System.St R) : Prop where
  rules : m.rules = s.sysRules
  load : m.load = s.load
  cpu : m.cpu = s.cpu
  now : m.now = s.now
  started : m.started = s.started
  conc : m.conc = s.ent.inb.conc
  arr : s.started = true → m.arr = s.ent.inb.arr
  pre : s.started = false → m.conc = 0

/-- the moves an integrated op amounts to -/
def sysMoves (s : St R) (o : Op R) (out : Out) : List (SysMove R) :=
  match o, out with
  | .clock t, .none => [.op (.clock t)]
  | .loadSys rs, .none => [.op (.load rs)]
  | .sysLoad x, .none => [.op (.sysLoad x)]
  | .sysCpu x, .none => [.op (.sysCpu x)]
  | .entry q, .dec none => [.passed { id := toString q.id, inbound := q.inbound, start := s.now, batch := q.batch }]
  | .entry q, .dec (some _) => if q.inbound then [.blocked q.batch] else []
  | .exit id err, .none =>
    match Entry.findE s.ent.ents (rid id) with
    | some c =>
      if c.exited then [] else
        (if c.e.inbound && ctxErr s id err then [.errorMark c.e.batch] else []) ++
          [.exited { id := toString id, inbound := c.e.inbound, start := c.start, batch := c.e.batch }]
    | none => []
  | _, _ => []

section step
variable [LT R] [LE R] [∀ a b : R, Decidable (a < b)] [∀ a b : R, Decidable (a ≤ b)]

theorem sysRel_congr {s s' : St R} {m : System.St R} (r : SysRel s m) (h1 : s'.sysRules = s.sysRules) (h2 : s'.load = s.load)
    (h3 : s'.cpu = s.cpu) (h4 : s'.now = s.now) (h5 : s'.started = s.started) (h6 : s'.ent.inb = s.ent.inb) : SysRel s' m :=
  ⟨by rw [h1]; exact r.rules, by rw [h2]; exact r.load, by rw [h3]; exact r.cpu, by rw [h4]; exact r.now,
   by rw [h5]; exact r.started, by rw [h6]; exact r.conc, by rw [h5, h6]; exact r.arr, by rw [h5]; exact r.pre⟩

/-- the verdict of the system slot is the system model's own verdict in the related state -/
theorem sys_verdict_rel (A : System.Arith R) (s : St R) (m : System.St R) (r : SysRel s m) (hst : s.started = true) (q : Req) :
    (verdict A s q .sys).isSome = System.blockedBy A false m q.inbound := by
  simp only [verdict, Option.isSome_map, System.blockedBy, Bool.false_eq_true, if_false, System.viewOf, sysView,
    r.rules, r.arr hst, r.conc, r.now, r.load, r.cpu]

theorem ghostNodes_inb (rs : List FlowReject.Rule) (s : St R) (hc : CtxSync s) (hst : s.started = true) :
    (ghostNodes s rs).ent.inb = s.ent.inb := by
  induction rs generalizing s with
  | nil => rfl
  | cons r rs ih =>
    simp only [ghostNodes]
    split_ifs
    · obtain ⟨c1, e1⟩ := ctxSync_ghost s hc hst (rname r.src)
      refine (ih _ c1 hst).trans ?_
      show (entStep s (.entry (ghostE (2 * s.ghosts) (rname r.src)))).ent.inb = _
      rw [e1]
    · exact ih s hc hst

theorem step_sys (A : System.Arith R) (s : St R) (o : Op R) (m : System.St R) (r : SysRel s m) (hc : CtxSync s) :
    SysRel (step A s o).1 (sysRun A m (sysMoves s o (step A s o).2)) := by
  cases o with
  | clock t =>
    simp only [step]
    split_ifs with h0 h1 h2
    · exact r
    · have hs : s.started = false := by simpa using h1
      have hms : m.started = false := by rw [r.started]; exact hs
      simp only [sysMoves, sysRun, List.foldl, sysApply, System.step, h0, hms, Bool.not_false, if_true, if_false]
      exact ⟨r.rules, r.load, r.cpu, rfl, rfl, r.pre hs, fun _ => rfl, fun h => by simp at h⟩
    · exact r
    · have hs : s.started = true := by
        cases hh : s.started
        · simp [hh] at h1
        · rfl
      have hms : m.started = true := by rw [r.started]; exact hs
      have hlt : ¬ t < m.now := by rw [r.now]; exact h2
      simp only [sysMoves, sysRun, List.foldl, sysApply, System.step, h0, hms, Bool.not_true, Bool.false_eq_true, if_false, hlt]
      exact ⟨r.rules, r.load, r.cpu, rfl, hs.symm, r.conc, fun _ => r.arr hs,
             fun h => by rw [hs] at h; cases h⟩
  | loadSys rs =>
    simp only [step]
    split_ifs
    · exact r
    · simp only [sysMoves, sysRun, List.foldl, sysApply, System.step]
      exact ⟨by rfl, r.load, r.cpu, r.now, r.started, r.conc, r.arr, r.pre⟩
  | sysLoad x =>
    simp only [step, sysMoves, sysRun, List.foldl, sysApply, System.step]
    exact ⟨r.rules, rfl, r.cpu, r.now, r.started, r.conc, r.arr, r.pre⟩
  | sysCpu x =>
    simp only [step, sysMoves, sysRun, List.foldl, sysApply, System.step]
    exact ⟨r.rules, r.load, rfl, r.now, r.started, r.conc, r.arr, r.pre⟩
  | loadIso rs => simp only [step]; split_ifs <;> first | exact r | exact sysRel_congr r rfl rfl rfl rfl rfl rfl
  | loadHot rs => simp only [step]; split_ifs <;> first | exact r | exact sysRel_congr r rfl rfl rfl rfl rfl rfl
  | loadCb rs => simp only [step]; split_ifs <;> first | exact r | exact sysRel_congr r rfl rfl rfl rfl rfl rfl
  | log => exact sysRel_congr r rfl rfl rfl rfl rfl rfl
  | loadFlow rs =>
    simp only [step]
    split_ifs with hcnd
    · exact r
    · have hst : s.started = true := by
        cases hh : s.started
        · simp [hh] at hcnd
        · rfl
      obtain ⟨a, b, _, d, e, f, _⟩ := ghostNodes_frame2 rs s
      exact sysRel_congr r d e f a b (ghostNodes_inb rs s hc hst)
  | trace id =>
    simp only [step]
    split_ifs with hcnd
    · exact r
    · have hst : s.started = true := by simpa using hcnd
      obtain ⟨e1, _, _⟩ := ctxSync_trace s id hc hst
      exact sysRel_congr r rfl rfl rfl rfl rfl e1
  | exit id err =>
    simp only [step]
    split_ifs with hcnd
    · exact r
    · have hst : s.started = true := by simpa using hcnd
      have hfr : (exit s id err).sysRules = s.sysRules ∧ (exit s id err).load = s.load ∧ (exit s id err).cpu = s.cpu ∧
          (exit s id err).now = s.now ∧ (exit s id err).started = s.started := ⟨rfl, rfl, rfl, rfl, rfl⟩
      obtain ⟨f1, f2, f3, f4, f5⟩ := hfr
      cases hf : s.reqs.find? (·.id = id) with
      | none =>
        have hno : ∀ q ∈ s.reqs, q.id ≠ id := by
          intro q hq
          have := List.find?_eq_none.mp hf q hq
          simpa using this
        obtain ⟨e1, _, _⟩ := ctxSync_exit_dead s id err hc hst hno
        have hmv : sysMoves s (.exit id err) Out.none = ([] : List (SysMove R)) := by
          simp only [sysMoves]
          cases hx : Entry.findE s.ent.ents (rid id) with
          | none => rfl
          | some c => simp [hc.dead id hno c hx]
        rw [hmv]
        exact sysRel_congr r f1 f2 f3 f4 f5 (by rw [e1])
      | some q =>
        have hq : q ∈ s.reqs := List.mem_of_find?_eq_some hf
        have hid : q.id = id := by simpa using List.find?_some hf
        obtain ⟨t0, e0, hfe, _, e1, _⟩ := ctxSync_exit_live s id err hc hst q hq hid
        subst hid
        have hmv : sysMoves s (.exit q.id err) Out.none =
            ((if q.inbound && ctxErr s q.id err then [SysMove.errorMark q.batch] else []) ++
              [SysMove.exited { id := toString q.id, inbound := q.inbound, start := t0, batch := q.batch }] : List (SysMove R)) := by
          simp [sysMoves, hfe, entryCtx, entryE]
        rw [hmv]
        have hms : m.started = true := by rw [r.started]; exact hst
        have harr := r.arr hst
        cases hi : q.inbound
        · -- outbound: the inbound node is untouched
          simp only [Bool.false_and, Bool.false_eq_true, if_false, List.nil_append, sysRun, List.foldl, sysApply,
            System.onExit]
          refine ⟨by rw [f1]; exact r.rules, by rw [f2]; exact r.load, by rw [f3]; exact r.cpu, by rw [f4]; exact r.now,
            by rw [f5]; exact r.started, ?_, ?_, fun h => by rw [f5, hst] at h; cases h⟩
          · rw [e1]; simpa [hi] using r.conc
          · intro _; rw [e1]; simpa [hi] using harr
        · cases he : ctxErr s q.id err
          · simp only [Bool.true_and, Bool.false_eq_true, if_false, List.nil_append, sysRun, List.foldl, sysApply,
              System.onExit, System.record, if_true]
            refine ⟨by rw [f1]; exact r.rules, by rw [f2]; exact r.load, by rw [f3]; exact r.cpu, by rw [f4]; exact r.now,
              by rw [f5]; exact r.started, ?_, ?_, fun h => by rw [f5, hst] at h; cases h⟩
            · rw [e1]
              simp [hi, he, doneFn, Entry.recordComplete, Entry.recordN, r.conc]
            · intro _
              rw [e1]
              simp [hi, he, doneFn, Entry.recordComplete, Entry.recordN, harr, r.now]
          · simp only [Bool.true_and, if_true, List.cons_append, List.nil_append, sysRun, List.foldl, sysApply,
              System.onExit, System.record]
            refine ⟨by rw [f1]; exact r.rules, by rw [f2]; exact r.load, by rw [f3]; exact r.cpu, by rw [f4]; exact r.now,
              by rw [f5]; exact r.started, ?_, ?_, fun h => by rw [f5, hst] at h; cases h⟩
            · rw [e1]
              simp [hi, he, doneFn, Entry.recordComplete, Entry.recordN, r.conc]
            · intro _
              rw [e1]
              simp [hi, he, doneFn, Entry.recordComplete, Entry.recordN, harr, r.now]
  | entry q =>
    simp only [step]
    split_ifs with hcnd
    · exact r
    · have hst : s.started = true := by
        cases hh : s.started
        · simp [hh] at hcnd
        · rfl
      have hu : q.id ∉ s.used := by
        intro hm
        apply hcnd
        simp [usedId, hm]
      obtain ⟨_, e1⟩ := ctxSync_entry A s q hc hst hu
      obtain ⟨es1, es2, es3, es4, _, es6, _⟩ := entry_static A s q
      have harr := r.arr hst
      simp only [entry_snd]
      cases hd : decision A s q with
      | none =>
        simp only [sysMoves, sysRun, List.foldl, sysApply, System.onPassed]
        cases hi : q.inbound
        · simp only [Bool.false_eq_true, if_false]
          refine ⟨by rw [es1]; exact r.rules, by rw [es2]; exact r.load, by rw [es3]; exact r.cpu, by rw [es4]; exact r.now,
            by rw [es6]; exact r.started, ?_, ?_, fun h => by rw [es6, hst] at h; cases h⟩
          · rw [e1]; simpa [hi] using r.conc
          · intro _; rw [e1]; simpa [hi] using harr
        · simp only [if_true, System.record]
          refine ⟨by rw [es1]; exact r.rules, by rw [es2]; exact r.load, by rw [es3]; exact r.cpu, by rw [es4]; exact r.now,
            by rw [es6]; exact r.started, ?_, ?_, fun h => by rw [es6, hst] at h; cases h⟩
          · rw [e1]
            simp [hi, hd, statFn, Entry.recordPass, Entry.recordN, r.conc]
          · intro _
            rw [e1]
            simp [hi, hd, statFn, Entry.recordPass, Entry.recordN, harr, r.now, r.conc]
      | some b =>
        cases hi : q.inbound
        · simp only [sysMoves, hi, Bool.false_eq_true, if_false, sysRun, List.foldl]
          refine ⟨by rw [es1]; exact r.rules, by rw [es2]; exact r.load, by rw [es3]; exact r.cpu, by rw [es4]; exact r.now,
            by rw [es6]; exact r.started, ?_, ?_, fun h => by rw [es6, hst] at h; cases h⟩
          · rw [e1]; simpa [hi] using r.conc
          · intro _; rw [e1]; simpa [hi] using harr
        · simp only [sysMoves, hi, if_true, sysRun, List.foldl, sysApply, System.onBlocked, System.record]
          refine ⟨by rw [es1]; exact r.rules, by rw [es2]; exact r.load, by rw [es3]; exact r.cpu, by rw [es4]; exact r.now,
            by rw [es6]; exact r.started, ?_, ?_, fun h => by rw [es6, hst] at h; cases h⟩
          · rw [e1]
            simp [hi, hd, statFn, Entry.recordBlock, Entry.recordN, r.conc]
          · intro _
            rw [e1]
            simp [hi, hd, statFn, Entry.recordBlock, Entry.recordN, harr, r.now]

/-- the system-model moves an integrated history amounts to -/
def sysHist (A : System.Arith R) (s : St R) : List (Op R) → List (SysMove R)
  | [] => []
  | o :: os => sysMoves s o (step A s o).2 ++ sysHist A (step A s o).1 os

theorem run_sys (A : System.Arith R) (s : St R) (os : List (Op R)) (m : System.St R) (r : SysRel s m) (hs : Sync s) :
    SysRel (run A s os).1 (sysRun A m (sysHist A s os)) := by
  induction os generalizing s m with
  | nil => exact r
  | cons o os ih =>
    have h1 := step_sys A s o m r hs.ctx
    have := ih (step A s o).1 _ h1 (sync_step A s o hs)
    simpa [sysHist, run, sysRun, List.foldl_append] using this

end step

end Sentinel.Pipe
