import Mathlib.Tactic
import Sentinel.Model.Outlier
/-!
# Helper lemmas for C20: closed form of the `checkAllNodes` loop, recycler-map facts, the exact
binary64 product `capF64`.
-/
namespace Sentinel.Outlier

/-- rejecting views in iteration order -/
def rejAddrs (vs : List View) : List String := (vs.filter fun v => !v.pass).map (·.addr)

/-- passively probed views in iteration order -/
def halfAddrs (active : Bool) (vs : List View) : List String :=
  (vs.filter fun v => v.pass && (!active && v.state == .halfOpen)).map (·.addr)

theorem collect_closed (active : Bool) (cap : Nat) (vs : List View) (acc : CheckOut) :
    collect active cap vs acc =
      { filters := acc.filters ++ (rejAddrs vs).take (cap - acc.filters.length),
        outliers := acc.outliers ++ rejAddrs vs,
        halfs := acc.halfs ++ halfAddrs active vs } := by
  induction vs generalizing acc with
  | nil => simp [collect, rejAddrs, halfAddrs]
  | cons v vs ih =>
    rw [collect, ih]
    unfold checkStep
    by_cases hp : v.pass = true
    · by_cases hh : (!active && v.state == .halfOpen) = true
      · simp [hp, hh, rejAddrs, halfAddrs]
      · simp only [Bool.not_eq_true] at hh
        simp [hp, hh, rejAddrs, halfAddrs]
    · simp only [Bool.not_eq_true] at hp
      by_cases hl : acc.filters.length < cap
      · obtain ⟨k, hk⟩ : ∃ k, cap - acc.filters.length = k + 1 := ⟨cap - acc.filters.length - 1, by omega⟩
        have hk' : cap - (acc.filters.length + 1) = k := by omega
        simp [hp, hl, rejAddrs, halfAddrs, hk, hk', List.take_succ_cons]
      · have h0 : cap - acc.filters.length = 0 := by omega
        simp [hp, hl, rejAddrs, halfAddrs, h0]

theorem collect_filters (active : Bool) (cap : Nat) (vs : List View) :
    (collect active cap vs {}).filters = (rejAddrs vs).take cap := by
  rw [collect_closed]; simp

theorem collect_outliers (active : Bool) (cap : Nat) (vs : List View) :
    (collect active cap vs {}).outliers = rejAddrs vs := by
  rw [collect_closed]; simp

theorem collect_halfs (active : Bool) (cap : Nat) (vs : List View) :
    (collect active cap vs {}).halfs = halfAddrs active vs := by
  rw [collect_closed]; simp

theorem rejAddrs_perm {vs ws : List View} (h : vs.Perm ws) : (rejAddrs vs).Perm (rejAddrs ws) :=
  (h.filter _).map _

theorem halfAddrs_perm (active : Bool) {vs ws : List View} (h : vs.Perm ws) :
    (halfAddrs active vs).Perm (halfAddrs active ws) :=
  (h.filter _).map _

/-! ## recycler map -/

theorem hasKey_append {α} (l₁ l₂ : List (String × α)) (a : String) :
    hasKey (l₁ ++ l₂) a = (hasKey l₁ a || hasKey l₂ a) := by
  simp [hasKey]

/-- `true` entries survive scheduling -/
theorem mem_stSchedule_of_mem {st : Status} {p : String × Bool} (h : p ∈ st) (l : List String) :
    p ∈ stSchedule st l := by
  induction l generalizing st with
  | nil => exact h
  | cons a r ih =>
    rw [stSchedule]
    apply ih
    split
    · exact h
    · exact List.mem_append_left _ h

/-- scheduling never enters a second pair for a key that is present, and only enters `false` -/
theorem stSchedule_new {st : Status} (l : List String) {p : String × Bool} (h : p ∈ stSchedule st l) :
    p ∈ st ∨ (p.2 = false ∧ hasKey st p.1 = false) := by
  induction l generalizing st with
  | nil => exact Or.inl h
  | cons a r ih =>
    rw [stSchedule] at h
    split at h
    · exact ih h
    · rename_i hk
      rcases ih h with h1 | ⟨h2, h3⟩
      · rcases List.mem_append.1 h1 with h1 | h1
        · exact Or.inl h1
        · simp only [List.mem_singleton] at h1
          subst h1
          right
          simpa using hk
      · right
        refine ⟨h2, ?_⟩
        rw [hasKey_append] at h3
        simp only [Bool.or_eq_false_iff] at h3
        exact h3.1

/-! ## the set of known nodes -/

/-- addresses of the known nodes (the keys of the node-breaker map), in map order -/
def keys (ns : Nodes) : List String := ns.map (·.1)

theorem hasKey_iff_mem_keys (ns : Nodes) (a : String) : hasKey ns a = true ↔ a ∈ keys ns := by
  simp [hasKey, keys, List.any_eq_true]

theorem keys_updNode (ns : Nodes) (a : String) (f : Breaker → Breaker) : keys (updNode ns a f) = keys ns := by
  unfold keys updNode
  rw [List.map_map]
  apply List.map_congr_left
  intro p _
  simp only [Function.comp]
  split <;> rfl

theorem keys_check (r : Res) (now : Nat) (ord : Nodes) : keys (r.check now ord).1.nodes = keys r.nodes := by
  unfold Res.check keys
  simp only [List.map_map]
  rfl

theorem keys_completed (r : Res) (now : Nat) (a : String) (rt : Nat) (err : Bool) :
    keys (r.completed now a rt err).nodes =
      if a = "" ∨ a ∈ keys r.nodes then keys r.nodes else keys r.nodes ++ [a] := by
  unfold Res.completed
  by_cases ha : a = ""
  · simp [ha]
  · simp only [ha, if_false, false_or]
    rw [keys_updNode]
    by_cases hk : hasKey r.nodes a = true
    · have := (hasKey_iff_mem_keys _ _).1 hk
      simp [hk, this]
    · have hm : a ∉ keys r.nodes := fun h => hk ((hasKey_iff_mem_keys _ _).2 h)
      simp only [Bool.not_eq_true] at hk
      rw [if_neg hm]
      simp [hk, keys]

theorem keys_retryOk (r : Res) (now : Nat) (a : String) (rt : Nat) : keys (r.retryOk now a rt).nodes = keys r.nodes := by
  unfold Res.retryOk; simp only; exact keys_updNode _ _ _

theorem keys_rebuild (r : Res) (rule : Rule) (now : Nat) (reuse : Bool) :
    keys (r.rebuild rule now reuse).nodes = keys r.nodes := by
  unfold Res.rebuild keys
  simp only [List.map_map]
  rfl

theorem keys_recycle (r : Res) (a : String) :
    keys (r.recycle a).nodes = if (stRecycle r.status a).2 then (keys r.nodes).filter (fun k => !(k == a)) else keys r.nodes := by
  unfold Res.recycle
  simp only
  split
  · unfold keys
    rw [List.filter_map]
    rfl
  · rfl

/-! ## the binary64 product -/

theorem div_succ_le (q k : Nat) (hk : 0 < k) : (q + 1) / k ≤ q / k + 1 := by
  have h1 : (q + 1) / k ≤ (q + k) / k := Nat.div_le_div_right (by omega)
  have h2 : (q + k) / k = q / k + 1 := Nat.add_div_right q hk
  omega

end Sentinel.Outlier
