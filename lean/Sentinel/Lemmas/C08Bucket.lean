import Sentinel.Lemmas.LeapArray
import Sentinel.Model.Bucket
/-!
# The `MetricBucket` payload is a commutative monoid

Projection lemmas and the `AddCommMonoid Bucket` instance: what allows the generic leap-array theorems
(any commutative-monoid payload) to be applied to the five counters, the minimum-RT headroom (`max`) and the
peak concurrency (`max`) at once.
-/
namespace Sentinel.C08
open Sentinel.LA

@[ext] theorem Bucket.ext' {a b : Bucket} (h1 : a.pass = b.pass) (h2 : a.block = b.block)
    (h3 : a.complete = b.complete) (h4 : a.error = b.error) (h5 : a.rt = b.rt) (h6 : a.hr = b.hr)
    (h7 : a.mc = b.mc) : a = b := by
  cases a; cases b; simp_all

@[simp] theorem add_pass (a b : Bucket) : (a + b).pass = a.pass + b.pass := rfl
@[simp] theorem add_block (a b : Bucket) : (a + b).block = a.block + b.block := rfl
@[simp] theorem add_complete (a b : Bucket) : (a + b).complete = a.complete + b.complete := rfl
@[simp] theorem add_error (a b : Bucket) : (a + b).error = a.error + b.error := rfl
@[simp] theorem add_rt (a b : Bucket) : (a + b).rt = a.rt + b.rt := rfl
@[simp] theorem add_hr (a b : Bucket) : (a + b).hr = max a.hr b.hr := rfl
@[simp] theorem add_mc (a b : Bucket) : (a + b).mc = max a.mc b.mc := rfl
@[simp] theorem zero_pass : (0 : Bucket).pass = 0 := rfl
@[simp] theorem zero_block : (0 : Bucket).block = 0 := rfl
@[simp] theorem zero_complete : (0 : Bucket).complete = 0 := rfl
@[simp] theorem zero_error : (0 : Bucket).error = 0 := rfl
@[simp] theorem zero_rt : (0 : Bucket).rt = 0 := rfl
@[simp] theorem zero_hr : (0 : Bucket).hr = 0 := rfl
@[simp] theorem zero_mc : (0 : Bucket).mc = 0 := rfl

instance : AddCommMonoid Bucket where
  add_assoc a b c := by ext <;> simp [Nat.add_assoc, max_assoc]
  zero_add a := by ext <;> simp
  add_zero a := by ext <;> simp
  add_comm a b := by ext <;> simp [Nat.add_comm, max_comm]
  nsmul := nsmulRec

@[simp] theorem zero_get (ev : Ev) : (0 : Bucket).get ev = 0 := by cases ev <;> rfl

theorem add_get (a b : Bucket) (ev : Ev) : (a + b).get ev = a.get ev + b.get ev := by
  cases ev <;> rfl

end Sentinel.C08
