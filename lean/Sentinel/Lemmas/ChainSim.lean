import Sentinel.Lemmas.Chain
/-! Simulation between the pooled model (`step`) and the abstract reference (`sstep`) over whole op histories (C16). -/
namespace Sentinel.Chain

/-! ## frames: what the chain traversal leaves alone -/

/-- the contexts in the pool -/
def poolList (h : Heap) : List Nat := h.priv.toList ++ h.shared

structure Frame (h h' : Heap) : Prop where
  ctxs : h'.ctxs = h.ctxs
  nctx : h'.nctx = h.nctx
  priv : h'.priv = h.priv
  shared : h'.shared = h.shared
  ntr : h.ntr ≤ h'.ntr

theorem Frame.refl (h : Heap) : Frame h h := ⟨rfl, rfl, rfl, rfl, le_refl _⟩

theorem Frame.trans {a b c : Heap} (x : Frame a b) (y : Frame b c) : Frame a c :=
  ⟨y.ctxs.trans x.ctxs, y.nctx.trans x.nctx, y.priv.trans x.priv, y.shared.trans x.shared, le_trans x.ntr y.ntr⟩

theorem newTokenResult_frame (h : Heap) (st : Nat) (b : BErr) :
    Frame h (newTokenResult h st b).1 ∧ (newTokenResult h st b).2 = h.ntr ∧ (newTokenResult h st b).1.ntr = h.ntr + 1 := by
  refine ⟨⟨rfl, rfl, rfl, rfl, ?_⟩, rfl, rfl⟩
  simp [newTokenResult, allocBE, allocTR]

theorem resetToBlockedWith_frame (h : Heap) (t : Nat) (b : BErr) :
    Frame h (resetToBlockedWith h t b) ∧ (resetToBlockedWith h t b).ntr = h.ntr := by
  unfold resetToBlockedWith
  cases (h.trs t).be <;> exact ⟨⟨rfl, rfl, rfl, rfl, le_refl _⟩, rfl⟩

theorem resetToPass_frame (h : Heap) (t : Nat) : Frame h (resetToPass h t) := ⟨rfl, rfl, rfl, rfl, le_refl _⟩

/-- where the result object of a blocking slot comes from -/
def TOrigin (h h' : Heap) (c : Nat) (rs : List RSlot) (t : Nat) : Prop :=
  t = h.ctxs c ∨ (h.ntr ≤ t ∧ t < h'.ntr) ∨ ∃ s ∈ rs, s.beh.needsOwn = true ∧ t = s.own

theorem doBlock_frame (c : Nat) (s : RSlot) (st : Style) (typ : Nat) (h : Heap) (hb : s.beh = .block st typ) :
    Frame h (doBlock c s st typ h).1 ∧ TOrigin h (doBlock c s st typ h).1 c [s] (doBlock c s st typ h).2 := by
  have hfresh : Frame h (newTokenResult h 1 (blockVal s typ)).1 ∧
      TOrigin h (newTokenResult h 1 (blockVal s typ)).1 c [s] (newTokenResult h 1 (blockVal s typ)).2 := by
    obtain ⟨f, e1, e2⟩ := newTokenResult_frame h 1 (blockVal s typ)
    refine ⟨f, Or.inr (Or.inl ?_)⟩
    simp only [e1, e2]; omega
  cases st with
  | ctx => exact ⟨(resetToBlockedWith_frame h _ _).1, Or.inl rfl⟩
  | own =>
    refine ⟨(resetToBlockedWith_frame h _ _).1, Or.inr (Or.inr ⟨s, by simp, ?_, rfl⟩)⟩
    simp [hb, RB.needsOwn]
  | fresh => exact hfresh
  | bare => exact hfresh
  | typed => exact hfresh
  | plain => exact hfresh
  | msg => exact hfresh
  | ctxT =>
    exact ⟨(resetToPass_frame h _).trans (resetToBlockedWith_frame _ _ _).1, Or.inl rfl⟩
  | ctxM =>
    exact ⟨(resetToPass_frame h _).trans (resetToBlockedWith_frame _ _ _).1, Or.inl rfl⟩

theorem TOrigin.mono {h h1 h' : Heap} {c : Nat} {rs rs' : List RSlot} {t : Nat} (f0 : Frame h h1)
    (ho : TOrigin h1 h' c rs t) (hsub : ∀ s ∈ rs, s ∈ rs') : TOrigin h h' c rs' t := by
  rcases ho with e | ⟨e1, e2⟩ | ⟨s, hs, e1, e2⟩
  · left; rw [e, f0.ctxs]
  · right; left; exact ⟨le_trans f0.ntr e1, e2⟩
  · right; right; exact ⟨s, hsub s hs, e1, e2⟩

theorem runRules_frame (c : Nat) (rs : List RSlot) (h : Heap) :
    Frame h (runRules c rs h).1 ∧
    ∀ t, (runRules c rs h).2.2.2 = .blocked t → TOrigin h (runRules c rs h).1 c rs t := by
  induction rs generalizing h with
  | nil => exact ⟨Frame.refl h, fun t ht => by simp [runRules] at ht⟩
  | cons s r ih =>
    cases hb : s.beh with
    | panic => exact ⟨by simpa [runRules, hb] using Frame.refl h, fun t ht => by simp [runRules, hb] at ht⟩
    | block st typ =>
      obtain ⟨f, o⟩ := doBlock_frame c s st typ h hb
      refine ⟨by simpa [runRules, hb] using f, fun t ht => ?_⟩
      simp only [runRules, hb, RuleOut.blocked.injEq] at ht ⊢
      subst ht
      exact TOrigin.mono (Frame.refl h) o (fun x hx => by simp at hx; simp [hx])
    | wait =>
      obtain ⟨f0, _, _⟩ := newTokenResult_frame h 2 {}
      obtain ⟨f, o⟩ := ih (newTokenResult h 2 {}).1
      refine ⟨by simpa [runRules, hb] using f0.trans f, fun t ht => ?_⟩
      simp only [runRules, hb] at ht ⊢
      exact TOrigin.mono f0 (o t ht) (fun x hx => List.mem_cons_of_mem _ hx)
    | pass =>
      obtain ⟨f0, _, _⟩ := newTokenResult_frame h 0 {}
      obtain ⟨f, o⟩ := ih (newTokenResult h 0 {}).1
      refine ⟨by simpa [runRules, hb] using f0.trans f, fun t ht => ?_⟩
      simp only [runRules, hb] at ht ⊢
      exact TOrigin.mono f0 (o t ht) (fun x hx => List.mem_cons_of_mem _ hx)
    | nil =>
      obtain ⟨f, o⟩ := ih h
      refine ⟨by simpa [runRules, hb] using f, fun t ht => ?_⟩
      simp only [runRules, hb] at ht ⊢
      exact TOrigin.mono (Frame.refl h) (o t ht) (fun x hx => List.mem_cons_of_mem _ hx)

/-- `SlotChain.Entry` touches, outside the result objects, only `ctx.RuleCheckResult` of its own context -/
structure CFrame (c : Nat) (rs : List RSlot) (h h' : Heap) : Prop where
  other : ∀ c', c' ≠ c → h'.ctxs c' = h.ctxs c'
  nctx : h'.nctx = h.nctx
  priv : h'.priv = h.priv
  shared : h'.shared = h.shared
  ntr : h.ntr ≤ h'.ntr
  own : TOrigin h h' c rs (h'.ctxs c)

theorem chainEntry_frame (ch : ChainDef) (c : Nat) (h : Heap) : CFrame c ch.rs h (chainEntry ch c h).1 := by
  unfold chainEntry
  rcases runPrep ch.ps with ⟨l1, k1, p1⟩
  dsimp only
  cases p1 with
  | true => simp only [if_true]; exact ⟨fun _ _ => rfl, rfl, rfl, rfl, le_refl _, Or.inl rfl⟩
  | false =>
    simp only [Bool.false_eq_true, if_false]
    obtain ⟨f, o⟩ := runRules_frame c ch.rs h
    rcases hrr : runRules c ch.rs h with ⟨h2, l2, k2, ro⟩
    rw [hrr] at f o
    dsimp only at f o
    cases ro with
    | panic => exact ⟨fun _ _ => by rw [f.ctxs], f.nctx, f.priv, f.shared, f.ntr, Or.inl (by rw [f.ctxs])⟩
    | allPass =>
      exact ⟨fun _ _ => by simp [resetToPass, f.ctxs], f.nctx, f.priv, f.shared, f.ntr,
        Or.inl (by simp [resetToPass, f.ctxs])⟩
    | blocked t =>
      refine ⟨fun c' hc' => by simp [upd, hc', f.ctxs], f.nctx, f.priv, f.shared, f.ntr, ?_⟩
      have := o t rfl
      unfold TOrigin at this ⊢
      simp only [upd, if_true]
      exact this

/-- generalisation of `chainEntry_status1` to heaps that are not quiet -/
theorem chainEntry_dirty (ch : ChainDef) (c : Nat) (h : Heap) (t : Nat)
    (h1 : ((chainEntry ch c h).1.trs t).status = 1) :
    (h.trs t).status = 1 ∨
      ((chainEntry ch c h).1.ctxs c = t ∧ prepPanics ch.ps = false ∧ (stopOf ch.rs).verdict.isSome = true) := by
  unfold chainEntry at h1 ⊢
  by_cases hp : prepPanics ch.ps = true
  · have := runPrep_panic _ hp
    rcases hrp : runPrep ch.ps with ⟨l1, k1, p1⟩
    rw [hrp] at this h1
    simp only at this
    subst this
    simp only [if_true] at h1
    exact Or.inl h1
  · simp only [Bool.not_eq_true] at hp
    simp only [runPrep_noPanic _ hp, Bool.false_eq_true, if_false] at h1 ⊢
    have hs1 := runRules_status1 c ch.rs h t
    have hbs := runRules_blocked_stop c ch.rs h
    rcases hrr : runRules c ch.rs h with ⟨h2, l2, k2, ro⟩
    rw [hrr] at h1 hs1 hbs
    simp only at h1 hs1 hbs
    cases ro with
    | panic =>
      simp only at h1
      rcases hs1 h1 with h' | h'
      · exact Or.inl h'
      · simp at h'
    | allPass =>
      simp only at h1
      by_cases e : t = h2.ctxs c
      · simp [resetToPass, upd, e] at h1
      · have : (h2.trs t).status = 1 := by simpa [resetToPass, upd, e] using h1
        rcases hs1 this with h' | h'
        · exact Or.inl h'
        · simp at h'
    | blocked t0 =>
      simp only at h1 ⊢
      rcases hs1 h1 with h' | h'
      · exact Or.inl h'
      · simp only [RuleOut.blocked.injEq] at h'
        subst h'
        exact Or.inr ⟨by simp [upd], hp, hbs t0 rfl⟩

/-! ## the pool -/

theorem mem_poolPut (h : Heap) (c x : Nat) : x ∈ poolList (poolPut h c) ↔ x = c ∨ x ∈ poolList h := by
  unfold poolPut poolList
  cases h.priv with
  | none => simp
  | some p => simp; tauto

theorem nodup_poolPut (h : Heap) (c : Nat) (hn : (poolList h).Nodup) (hc : c ∉ poolList h) :
    (poolList (poolPut h c)).Nodup := by
  unfold poolPut poolList at *
  cases hp : h.priv with
  | none => simp [hp] at hn hc ⊢; exact ⟨hc, hn⟩
  | some p =>
    simp only [hp, Option.toList_some, List.singleton_append, List.nodup_cons, List.mem_cons, not_or] at hn hc ⊢
    exact ⟨⟨fun e => hc.1 e.symm, hn.1⟩, hc.2, hn.2⟩

theorem poolPut_same (h : Heap) (c : Nat) :
    (poolPut h c).ctxs = h.ctxs ∧ (poolPut h c).nctx = h.nctx ∧ (poolPut h c).ntr = h.ntr ∧ (poolPut h c).trs = h.trs := by
  unfold poolPut
  cases h.priv <;> exact ⟨rfl, rfl, rfl, rfl⟩

theorem poolGet_spec (h : Heap) :
    (poolList h = (poolGet h).2 :: poolList (poolGet h).1 ∧ (poolGet h).1.ctxs = h.ctxs ∧ (poolGet h).1.nctx = h.nctx ∧
      (poolGet h).1.ntr = h.ntr ∧ (poolGet h).1.trs = h.trs) ∨
    (poolList h = [] ∧ poolList (poolGet h).1 = [] ∧ (poolGet h).2 = h.nctx ∧ (poolGet h).1.nctx = h.nctx + 1 ∧
      (poolGet h).1.ctxs = upd h.ctxs h.nctx h.ntr ∧ (poolGet h).1.ntr = h.ntr + 1 ∧
      ∀ t, ((poolGet h).1.trs t).status = 1 → (h.trs t).status = 1) := by
  unfold poolGet poolList
  cases hp : h.priv with
  | some c => left; simp
  | none =>
    cases hs : h.shared with
    | cons c r => left; simp
    | nil =>
      right
      refine ⟨by simp, by simp [newTokenResult, allocBE, allocTR]; exact ⟨hp, hs⟩, rfl, rfl, ?_, ?_, ?_⟩
      · simp [newTokenResult, allocBE, allocTR]
      · simp [newTokenResult, allocBE, allocTR]
      · intro t ht
        exact newTokenResult_status1 h 0 {} (by decide) t (by simpa using ht)

/-! ## `api.entry`, summarised -/

theorem apiEntry_summary (ch : ChainDef) (h : Heap) :
    ∃ h2 : Heap,
      CFrame (poolGet h).2 ch.rs (poolGet h).1 h2 ∧
      (∀ t, (h2.trs t).status = 1 → (((poolGet h).1.trs t).status = 1 ∨
        (h2.ctxs (poolGet h).2 = t ∧ prepPanics ch.ps = false ∧ (stopOf ch.rs).verdict.isSome = true))) ∧
      ((∃ ks, (apiEntry ch h).2.2 = .passed (poolGet h).2 ks ∧ (apiEntry ch h).1 = h2) ∨
       (∃ a b H, (apiEntry ch h).2.2 = .blocked (poolGet h).2 a b ∧ (apiEntry ch h).1 = refurbish H (poolGet h).2 ∧
          H.trs = h2.trs ∧ H.ctxs = h2.ctxs ∧ H.nctx = h2.nctx ∧ H.ntr = h2.ntr ∧ H.priv = h2.priv ∧ H.shared = h2.shared)) := by
  have hne := apiEntry_no_escape ch h
  unfold apiEntry at hne ⊢
  rcases hpg : poolGet h with ⟨h1, c⟩
  rw [hpg] at hne
  dsimp only at hne ⊢
  have hf := chainEntry_frame ch c h1
  have hd := chainEntry_dirty ch c h1
  rcases hce : chainEntry ch c h1 with ⟨h2, l, ks, r⟩
  rw [hce] at hf hd hne
  dsimp only at hf hd hne ⊢
  refine ⟨h2, hf, hd, ?_⟩
  cases r with
  | none => exact Or.inl ⟨ks, by simp, by simp⟩
  | some t =>
    dsimp only at hne ⊢
    by_cases hb : isBlockedTR h2 t = true
    · simp only [hb, if_true] at hne ⊢
      cases hg : getBE h2 t with
      | none => simp [hg] at hne
      | some b =>
        right
        refine ⟨h2.nbe, b, { (allocBE h2 b).1 with held := h2.nbe :: h2.held }, ?_, ?_, rfl, rfl, rfl, rfl, rfl, rfl⟩
        · simp [allocBE]
        · simp [exitBody, allocBE]
    · simp only [hb, Bool.false_eq_true, if_false]
      exact Or.inl ⟨ks, by simp, by simp⟩

theorem passed_block_is_blockPanic (ch : ChainDef) (h : Heap) (c : Nat) (ks : Hooks)
    (h1 : prepPanics ch.ps = false) (h2 : (stopOf ch.rs).verdict.isSome = true)
    (hr : (apiEntry ch h).2.2 = .passed c ks) : blockPanics ch = true := by
  by_contra hb
  simp only [Bool.not_eq_true] at hb
  have h3 : statPanics (stopOf ch.rs).blk ch.ss = false := by simpa [blockPanics, h1, h2] using hb
  cases hs : stopOf ch.rs with
  | allPass => simp [hs, Stop.verdict] at h2
  | panic => simp [hs, Stop.verdict] at h2
  | block s typ =>
    have hp : entryPanics ch = false := by simp only [entryPanics, h1, h3]; simp [hs, Stop.isPanic]
    obtain ⟨_, a, e, _⟩ := apiEntry_block ch h s typ hp hs
    rw [e] at hr; simp at hr

/-! ## lookups by name -/

theorem find_name_mem {β : Type} (nm : β → String) (l : List β) (e : String) (r : β)
    (h : l.find? (fun x => decide (nm x = e)) = some r) : r ∈ l ∧ nm r = e :=
  ⟨List.mem_of_find?_eq_some h, by simpa using List.find?_some h⟩

theorem find_name_none {β : Type} (nm : β → String) (l : List β) (e : String)
    (h : l.find? (fun x => decide (nm x = e)) = none) : ∀ x ∈ l, nm x ≠ e := by
  intro x hx
  have := List.find?_eq_none.mp h x hx
  simpa using this

theorem unique_by_name {β : Type} (nm : β → String) (l : List β) (hn : (l.map nm).Nodup) (a b : β)
    (ha : a ∈ l) (hb : b ∈ l) (e : nm a = nm b) : a = b := by
  induction l with
  | nil => simp at ha
  | cons y ys ih =>
    rw [List.map_cons, List.nodup_cons] at hn
    rcases List.mem_cons.mp ha with rfl | ha' <;> rcases List.mem_cons.mp hb with rfl | hb'
    · rfl
    · exact absurd (List.mem_map.mpr ⟨b, hb', e.symm⟩) hn.1
    · exact absurd (List.mem_map.mpr ⟨a, ha', e⟩) hn.1
    · exact ih hn.2 ha' hb'

theorem find_of_mem_nodup {β : Type} (nm : β → String) (l : List β) (hn : (l.map nm).Nodup) (r : β) (hr : r ∈ l) :
    l.find? (fun x => decide (nm x = nm r)) = some r := by
  cases hf : l.find? (fun x => decide (nm x = nm r)) with
  | none => exact absurd rfl (find_name_none nm l _ hf r hr)
  | some x =>
    obtain ⟨hx, hxe⟩ := find_name_mem nm l _ x hf
    rw [unique_by_name nm l hn x r hx hr hxe]

theorem mem_replace {β : Type} (nm : β → String) (l : List β) (r x : β) :
    x ∈ l.map (fun y => if nm y = nm r then r else y) ↔ (x = r ∧ ∃ y ∈ l, nm y = nm r) ∨ (x ∈ l ∧ nm x ≠ nm r) := by
  simp only [List.mem_map]
  constructor
  · rintro ⟨y, hy, rfl⟩
    by_cases e : nm y = nm r
    · left; simp only [e, if_true]; exact ⟨trivial, y, hy, e⟩
    · right; simp only [e, if_false]; exact ⟨hy, e⟩
  · rintro (⟨rfl, y, hy, e⟩ | ⟨hx, e⟩)
    · exact ⟨y, hy, by simp [e]⟩
    · exact ⟨x, hx, by simp [e]⟩

theorem mem_setEntry (s : State) (r x : EntryRec) :
    x ∈ (setEntry s r).entries ↔ (x = r ∧ ∃ y ∈ s.entries, y.name = r.name) ∨ (x ∈ s.entries ∧ x.name ≠ r.name) :=
  mem_replace EntryRec.name s.entries r x

theorem smem_setEntry (s : SState) (r x : SEntry) :
    x ∈ (s.setEntry r).entries ↔ (x = r ∧ ∃ y ∈ s.entries, y.name = r.name) ∨ (x ∈ s.entries ∧ x.name ≠ r.name) :=
  mem_replace SEntry.name s.entries r x

/-! ## the simulation relation -/

structure EntRel (h : Heap) (m : EntryRec) (r : SEntry) : Prop where
  chain : m.chain = r.chain
  exited : m.exited = r.exited
  blk : m.blockAt.isSome = r.verdict.isSome
  hooks : r.panicked = false → m.hooks = r.hooks
  held : ∀ a, m.blockAt = some a → a ∈ h.held ∧ r.verdict = some (h.bes a)

theorem EntRel.ext {h h' : Heap} {m : EntryRec} {r : SEntry} (x : EntRel h m r)
    (hx : ∀ a ∈ h.held, a ∈ h'.held ∧ h'.bes a = h.bes a) : EntRel h' m r :=
  ⟨x.chain, x.exited, x.blk, x.hooks, fun a ha => by
    obtain ⟨h1, h2⟩ := x.held a ha
    exact ⟨(hx a h1).1, by rw [(hx a h1).2]; exact h2⟩⟩

structure SpecOk (r : SEntry) : Prop where
  bp : r.blockPanic = true → r.panicked = true
  bx : r.verdict.isSome = true → r.exited = true

structure Sim (s : State) (s' : SState) : Prop where
  chains : ChainsAgree s s'
  cnames : (s'.chains.map (·.1)).Nodup
  names : NamesAgree s s'
  nodup : (s.entries.map (·.name)).Nodup
  ents : ∀ m ∈ s.entries, ∀ r ∈ s'.entries, m.name = r.name → EntRel s.h m r
  sok : ∀ r ∈ s'.entries, SpecOk r
  log : ∀ l, s'.lastLog = some l → s.lastLog = l
  inv : s.h.Inv
  pool_nodup : (poolList s.h).Nodup
  pool_lt : ∀ c ∈ poolList s.h, c < s.h.nctx
  live_sep : ∀ m ∈ s.entries, m.exited = false → m.ctx ∉ poolList s.h ∧ m.ctx < s.h.nctx
  live_inj : ∀ m1 ∈ s.entries, ∀ m2 ∈ s.entries, m1.exited = false → m2.exited = false → m1.ctx = m2.ctx →
    m1.name = m2.name
  inj : s'.hasOwn = false →
    (∀ c1 c2, c1 < s.h.nctx → c2 < s.h.nctx → s.h.ctxs c1 = s.h.ctxs c2 → c1 = c2) ∧
    (∀ c, c < s.h.nctx → s.h.ctxs c < s.h.ntr)
  dirty : ∀ t, (s.h.trs t).status = 1 → ∃ m ∈ s.entries, m.exited = false ∧ s.h.ctxs m.ctx = t ∧
    ∃ r ∈ s'.entries, r.name = m.name ∧ r.blockPanic = true ∧ r.exited = false
  notes : ∀ m ∈ s.entries, ∀ r ∈ s'.entries, m.name = r.name → m.exited = false → s.cnote m.ctx = r.note

theorem Sim.snodup {s : State} {s' : SState} (x : Sim s s') : (s'.entries.map (·.name)).Nodup := by
  rw [← x.names]; exact x.nodup

/-- outside the hazard region the context of an admitted, not yet exited entry whose `Entry` raised no panic is not
    marked blocked -/
theorem Sim.clean {s : State} {s' : SState} (x : Sim s s') (e : String) (m : EntryRec) (r : SEntry)
    (hm : findEntry s e = some m) (hr : s'.findEntry e = some r) (hlive : m.exited = false)
    (hnp : r.panicked = false) (hz : s'.hazard e = false) : isBlockedTR s.h (s.h.ctxs m.ctx) = false := by
  by_contra hb
  have hd : (s.h.trs (s.h.ctxs m.ctx)).status = 1 := by simpa [isBlockedTR] using hb
  obtain ⟨hmm, hme⟩ := find_name_mem EntryRec.name s.entries e m hm
  obtain ⟨hrm, hre⟩ := find_name_mem SEntry.name s'.entries e r hr
  obtain ⟨y, hy, hyl, hyt, ry, hry, hryn, hrybp, hryx⟩ := x.dirty _ hd
  by_cases hn : y.name = e
  · -- the witness is `e` itself: then `e` panicked
    have : ry = r := unique_by_name SEntry.name s'.entries x.snodup ry r hry hrm (by rw [hryn, hn, hre])
    subst this
    have := (x.sok ry hry).bp hrybp
    rw [this] at hnp; exact absurd hnp (by simp)
  · cases ho : s'.hasOwn with
    | true =>
      have : s'.hazard e = true := by
        simp only [SState.hazard, ho, Bool.true_and, List.any_eq_true]
        exact ⟨ry, hry, by simp [hryn, hn, hrybp, hryx]⟩
      rw [this] at hz; exact absurd hz (by simp)
    | false =>
      obtain ⟨hinj, _⟩ := x.inj ho
      have e1 := hinj y.ctx m.ctx (x.live_sep y hy hyl).2 (x.live_sep m hmm hlive).2 hyt
      have := x.live_inj y hy m hmm hyl hlive e1
      exact hn (this.trans hme)

/-! ## slot-owned result objects on the reference side -/

theorem sfindChain_mem (s' : SState) (n : String) (ins : List SlotSpec) (h : s'.findChain n = some ins) :
    (n, ins) ∈ s'.chains := by
  unfold SState.findChain at h
  cases hf : s'.chains.find? (fun x => decide (x.1 = n)) with
  | none => simp [hf] at h
  | some p =>
    simp only [hf, Option.map_some, Option.some.injEq] at h
    obtain ⟨h1, h2⟩ := find_name_mem Prod.fst s'.chains n p hf
    have : p = (n, ins) := by cases p; simp_all
    rw [← this]; exact h1

theorem sfindChain_of_mem (s' : SState) (hn : (s'.chains.map (·.1)).Nodup) (n : String) (ins : List SlotSpec)
    (h : (n, ins) ∈ s'.chains) : s'.findChain n = some ins := by
  unfold SState.findChain
  have := find_of_mem_nodup Prod.fst s'.chains hn (n, ins) h
  simp only at this
  rw [this]; rfl

theorem cnames_setChain (s' : SState) (hn : (s'.chains.map (·.1)).Nodup) (n : String) (ins : List SlotSpec) :
    ((s'.setChain n ins).chains.map (·.1)).Nodup := by
  simp only [SState.setChain, List.map_cons, List.nodup_cons]
  refine ⟨?_, (List.filter_sublist.map _).nodup hn⟩
  intro hmem
  obtain ⟨p, hp, he⟩ := List.mem_map.mp hmem
  have := (List.mem_filter.mp hp).2
  simp at this
  exact this he

theorem hasOwn_setChain_false (s' : SState) (hn : (s'.chains.map (·.1)).Nodup) (n : String) (ins' : List SlotSpec)
    (hsub : ∀ ins, s'.findChain n = some ins → ∀ x ∈ ins, x ∈ ins')
    (h : (s'.setChain n ins').hasOwn = false) : s'.hasOwn = false := by
  simp only [SState.hasOwn, SState.setChain, List.any_cons, Bool.or_eq_false_iff] at h
  obtain ⟨h1, h2⟩ := h
  simp only [SState.hasOwn]
  rw [List.any_eq_false]
  intro c hc
  by_cases e : c.1 = n
  · have hfc : s'.findChain n = some c.2 := sfindChain_of_mem s' hn n c.2 (by cases c; simp_all)
    rw [List.any_eq_true]
    rintro ⟨x, hx, hxo⟩
    have : ins'.any isOwn = true := List.any_eq_true.mpr ⟨x, hsub c.2 hfc x hx, hxo⟩
    rw [this] at h1; exact absurd h1 (by simp)
  · rw [List.any_eq_false] at h2
    exact h2 c (List.mem_filter.mpr ⟨hc, by simp [e]⟩)

theorem hasOwn_false_chain (s' : SState) (n : String) (ins : List SlotSpec) (hf : s'.findChain n = some ins)
    (h : s'.hasOwn = false) : ∀ x ∈ ins, isOwn x = false := by
  have hm := sfindChain_mem s' n ins hf
  simp only [SState.hasOwn] at h
  rw [List.any_eq_false] at h
  have := h _ hm
  simp only [Bool.not_eq_true] at this
  intro x hx
  rw [List.any_eq_false] at this
  simpa using this x hx

theorem noOwn_of_core (ch : ChainDef) (ins : List SlotSpec) (hcore : ch.core = (specChain ins).core)
    (h : ∀ x ∈ ins, isOwn x = false) : ∀ s ∈ ch.rs, s.beh.needsOwn = false := by
  intro s hs
  have h1 : s.core ∈ ch.core.rs := List.mem_map.mpr ⟨s, hs, rfl⟩
  rw [hcore] at h1
  obtain ⟨s2, hs2, e⟩ := List.mem_map.mp h1
  have hs3 : s2 ∈ insR ins := by
    have : s2 ∈ stableSort (·.order) (insR ins) := hs2
    exact (List.mergeSort_perm _ _).mem_iff.mp this
  have hs4 : SlotSpec.r s2 ∈ ins := by
    simp only [insR, List.mem_filterMap] at hs3
    obtain ⟨x, hx, hxe⟩ := hs3
    cases x with
    | r y => simp only [Option.some.injEq] at hxe; subst hxe; exact hx
    | p y => simp at hxe
    | s y => simp at hxe
  have := h _ hs4
  have hbeh : s.beh = s2.beh := by
    have : (RSlot.core s).beh = (RSlot.core s2).beh := by rw [e]
    exact this
  rw [hbeh]
  simp only [isOwn] at this
  cases hb : s2.beh with
  | block st typ =>
    cases st <;> first | rfl | (simp [hb] at this)
  | pass => rfl
  | nil => rfl
  | wait => rfl
  | panic => rfl

/-! ## ops that only grow the heap (chain, add) -/

theorem addSlot_frame (h : Heap) (ch : ChainDef) (x : SlotSpec) :
    Frame h (addSlot h ch x).1 ∧ ∀ u, ((addSlot h ch x).1.trs u).status = 1 → (h.trs u).status = 1 := by
  cases x with
  | p x => exact ⟨Frame.refl h, fun _ hu => hu⟩
  | s x => exact ⟨Frame.refl h, fun _ hu => hu⟩
  | r x =>
    simp only [addSlot]
    split_ifs
    · exact ⟨(newTokenResult_frame h 0 {}).1, fun u hu => newTokenResult_status1 h 0 {} (by decide) u hu⟩
    · exact ⟨Frame.refl h, fun _ hu => hu⟩

theorem addSlots_frame (xs : List SlotSpec) (h : Heap) (ch : ChainDef) :
    Frame h (addSlots xs h ch).1 ∧ ∀ u, ((addSlots xs h ch).1.trs u).status = 1 → (h.trs u).status = 1 := by
  induction xs generalizing h ch with
  | nil => exact ⟨Frame.refl h, fun _ hu => hu⟩
  | cons x r ih =>
    unfold addSlots
    have h1 := addSlot_frame h ch x
    rcases hx : addSlot h ch x with ⟨h2, ch2⟩
    rw [hx] at h1
    obtain ⟨f2, d2⟩ := ih h2 ch2
    exact ⟨h1.1.trans f2, fun u hu => h1.2 u (d2 u hu)⟩

theorem poolList_frame {h h' : Heap} (f : Frame h h') : poolList h' = poolList h := by
  simp [poolList, f.priv, f.shared]

theorem Sim.grow {s : State} {s' : SState} (x : Sim s s') (t : State) (t' : SState)
    (he : t.entries = s.entries) (hl : t.lastLog = s.lastLog) (he' : t'.entries = s'.entries)
    (hl' : t'.lastLog = s'.lastLog) (hext : s.h.Ext t.h) (hf : Frame s.h t.h)
    (hst : ∀ u, (t.h.trs u).status = 1 → (s.h.trs u).status = 1)
    (hc : ChainsAgree t t') (hcn : (t'.chains.map (·.1)).Nodup) (ho : t'.hasOwn = false → s'.hasOwn = false)
    (hnote : t.cnote = s.cnote) :
    Sim t t' := by
  obtain ⟨inv', hx⟩ := hext x.inv
  have hp := poolList_frame hf
  refine ⟨hc, hcn, ?_, ?_, ?_, ?_, ?_, inv', ?_, ?_, ?_, ?_, ?_, ?_, ?_⟩
  · simp only [NamesAgree, he, he']; exact x.names
  · rw [he]; exact x.nodup
  · intro m hm r hr e; rw [he] at hm; rw [he'] at hr; exact (x.ents m hm r hr e).ext hx
  · intro r hr; rw [he'] at hr; exact x.sok r hr
  · intro l h1; rw [hl'] at h1; rw [hl]; exact x.log l h1
  · rw [hp]; exact x.pool_nodup
  · intro c hcm; rw [hp] at hcm; rw [hf.nctx]; exact x.pool_lt c hcm
  · intro m hm hl; rw [he] at hm; rw [hp, hf.nctx]; exact x.live_sep m hm hl
  · intro m1 h1 m2 h2; rw [he] at h1 h2; exact x.live_inj m1 h1 m2 h2
  · intro hno
    obtain ⟨i1, i2⟩ := x.inj (ho hno)
    rw [hf.nctx, hf.ctxs]
    exact ⟨i1, fun c hc' => lt_of_lt_of_le (i2 c hc') hf.ntr⟩
  · intro u hu
    obtain ⟨m, hm, h1, h2, r, hr, h3⟩ := x.dirty u (hst u hu)
    exact ⟨m, by rw [he]; exact hm, h1, by rw [hf.ctxs]; exact h2, r, by rw [he']; exact hr, h3⟩
  · intro m hm r hr e hl; rw [he] at hm; rw [he'] at hr; rw [hnote]; exact x.notes m hm r hr e hl

/-! ## per-op simulation -/

/-- the model's answer is the reference's answer unless the reference makes no claim -/
def OutRel (m r : Out) : Prop := r = .unknown ∨ m = r

theorem sortedOut_of_core (ch ch' : ChainDef) (h : ch.core = ch'.core) : sortedOut ch = sortedOut ch' := by
  have h1 : ch.ps = ch'.ps := (congrArg ChainDef.ps h : ch.core.ps = ch'.core.ps)
  have h2 : ch.ss = ch'.ss := (congrArg ChainDef.ss h : ch.core.ss = ch'.core.ss)
  have h3 : ch.rs.map RSlot.core = ch'.rs.map RSlot.core := congrArg ChainDef.rs h
  have h4 : ch.rs.map (·.id) = ch'.rs.map (·.id) := by
    have := congrArg (List.map (·.id)) h3
    simpa [List.map_map, Function.comp_def, RSlot.core] using this
  simp [sortedOut, h1, h2, h4]

theorem addSlots_core_spec (slots : List SlotSpec) (h : Heap) :
    (addSlots slots h {}).2.core = (specChain slots).core := by
  rw [addSlots_core, ← pureChain_nil, foldl_addPure, ← pureChain_eq_spec]; simp

theorem findChain_agree_none {s : State} {s' : SState} (hc : ChainsAgree s s') (n : String) :
    findChain s n = none ↔ s'.findChain n = none := by
  have := hc n
  cases h1 : findChain s n <;> cases h2 : s'.findChain n <;> simp_all

theorem sim_chain {s : State} {s' : SState} (x : Sim s s') (n : String) (slots : List SlotSpec) :
    Sim (step s (.chain n slots)).1 (sstep s' (.chain n slots)).1 ∧
    OutRel (step s (.chain n slots)).2 (sstep s' (.chain n slots)).2 := by
  have hagree := step_agree s s' (.chain n slots) x.chains
  simp only [step, stepChain, sstep] at hagree ⊢
  cases h1 : findChain s n with
  | some ch =>
    cases h2 : s'.findChain n with
    | none => have := (findChain_agree_none x.chains n).mpr h2; rw [h1] at this; simp at this
    | some ins => exact ⟨x, Or.inr rfl⟩
  | none =>
    have h2 := (findChain_agree_none x.chains n).mp h1
    simp only [h1, h2] at hagree ⊢
    refine ⟨x.grow _ _ rfl rfl rfl rfl (addSlots_ext slots s.h {}) (addSlots_frame slots s.h {}).1
      (addSlots_frame slots s.h {}).2 hagree (cnames_setChain s' x.cnames n slots) ?_ rfl, Or.inr ?_⟩
    · exact hasOwn_setChain_false s' x.cnames n slots (fun ins hi => by rw [h2] at hi; simp at hi)
    · exact sortedOut_of_core _ _ (addSlots_core_spec slots s.h)

theorem sim_add {s : State} {s' : SState} (x : Sim s s') (n : String) (slot : SlotSpec) :
    Sim (step s (.add n slot)).1 (sstep s' (.add n slot)).1 ∧
    OutRel (step s (.add n slot)).2 (sstep s' (.add n slot)).2 := by
  have hagree := step_agree s s' (.add n slot) x.chains
  simp only [step, stepAdd, sstep] at hagree ⊢
  cases h1 : findChain s n with
  | none =>
    have h2 := (findChain_agree_none x.chains n).mp h1
    simp only [h2]
    exact ⟨x, Or.inr rfl⟩
  | some ch =>
    cases h2 : s'.findChain n with
    | none => have := (findChain_agree_none x.chains n).mpr h2; rw [h1] at this; simp at this
    | some ins =>
      simp only [h1, h2] at hagree ⊢
      have hcore : ch.core = pureChain ins := by
        have := x.chains n; rw [h1, h2] at this; simpa using this
      refine ⟨x.grow _ _ rfl rfl rfl rfl (addSlot_ext s.h ch slot) (addSlot_frame s.h ch slot).1
        (addSlot_frame s.h ch slot).2 hagree (cnames_setChain s' x.cnames n _) ?_ rfl, Or.inr ?_⟩
      · refine hasOwn_setChain_false s' x.cnames n _ (fun ins2 hi => ?_)
        rw [h2] at hi; simp only [Option.some.injEq] at hi; subst hi
        intro y hy; exact List.mem_append_left _ hy
      · refine sortedOut_of_core _ _ ?_
        rw [addSlot_core, hcore, ← pureChain_snoc, pureChain_eq_spec]

theorem findEntry_agree {s : State} {s' : SState} (x : Sim s s') (e : String) :
    (findEntry s e = none ∧ s'.findEntry e = none) ∨
    (∃ m r, findEntry s e = some m ∧ s'.findEntry e = some r ∧ m ∈ s.entries ∧ r ∈ s'.entries ∧ m.name = e ∧ r.name = e ∧
      EntRel s.h m r) := by
  have := x.names.find e
  cases h1 : findEntry s e with
  | none =>
    cases h2 : s'.findEntry e with
    | none => exact Or.inl ⟨rfl, rfl⟩
    | some r => rw [h1, h2] at this; simp at this
  | some m =>
    cases h2 : s'.findEntry e with
    | none => rw [h1, h2] at this; simp at this
    | some r =>
      obtain ⟨a1, a2⟩ := find_name_mem EntryRec.name s.entries e m h1
      obtain ⟨b1, b2⟩ := find_name_mem SEntry.name s'.entries e r h2
      exact Or.inr ⟨m, r, rfl, rfl, a1, b1, a2, b2, x.ents m a1 r b1 (a2.trans b2.symm)⟩

theorem sim_whenexit {s : State} {s' : SState} (x : Sim s s') (e : String) (id : Nat) (b : HB) :
    Sim (step s (.whenexit e id b)).1 (sstep s' (.whenexit e id b)).1 ∧
    OutRel (step s (.whenexit e id b)).2 (sstep s' (.whenexit e id b)).2 := by
  have hnames := step_names s s' (.whenexit e id b) x.chains x.names
  simp only [step, stepWhenExit, sstep] at hnames ⊢
  rcases findEntry_agree x e with ⟨h1, h2⟩ | ⟨m, r, h1, h2, hm, hr, hme, hre, rel⟩
  · simp only [h1, h2]; exact ⟨x, Or.inr rfl⟩
  · simp only [h1, h2] at hnames ⊢
    by_cases hb : m.blockAt.isSome = true
    · have hb' : r.verdict.isSome = true := by rw [← rel.blk]; exact hb
      simp only [hb, hb', if_true]; exact ⟨x, Or.inr rfl⟩
    · have hb' : ¬ r.verdict.isSome = true := by rw [← rel.blk]; exact hb
      simp only [hb, hb', Bool.false_eq_true, if_false] at hnames ⊢
      refine ⟨?_, Or.inr rfl⟩
      have hmem : ∀ y, y ∈ (setEntry s { m with hooks := m.hooks ++ [(id, b)] }).entries →
          (y = { m with hooks := m.hooks ++ [(id, b)] }) ∨ (y ∈ s.entries ∧ y.name ≠ e) := by
        intro y hy
        rcases (mem_setEntry s _ y).mp hy with ⟨h, _⟩ | ⟨h, h'⟩
        · exact Or.inl h
        · exact Or.inr ⟨h, by simpa [hme] using h'⟩
      have hmem' : ∀ y, y ∈ (s'.setEntry { r with hooks := r.hooks ++ [(id, b)] }).entries →
          (y = { r with hooks := r.hooks ++ [(id, b)] }) ∨ (y ∈ s'.entries ∧ y.name ≠ e) := by
        intro y hy
        rcases (smem_setEntry s' _ y).mp hy with ⟨h, _⟩ | ⟨h, h'⟩
        · exact Or.inl h
        · exact Or.inr ⟨h, by simpa [hre] using h'⟩
      refine ⟨x.chains, x.cnames, hnames, ?_, ?_, ?_, x.log, x.inv, x.pool_nodup, x.pool_lt, ?_, ?_, x.inj, ?_, ?_⟩
      · rw [show (setEntry s { m with hooks := m.hooks ++ [(id, b)] }).entries.map (·.name) = s.entries.map (·.name) from
          map_replace_names s.entries _]
        exact x.nodup
      · intro y hy z hz hyz
        rcases hmem y hy with rfl | ⟨hy1, hy2⟩ <;> rcases hmem' z hz with rfl | ⟨hz1, hz2⟩
        · exact ⟨rel.chain, rel.exited, rel.blk, fun hp => by simp only; rw [rel.hooks hp], rel.held⟩
        · exact absurd (hyz.symm.trans hme) hz2
        · exact absurd (hyz.trans hre) hy2
        · exact x.ents y hy1 z hz1 hyz
      · intro z hz
        rcases hmem' z hz with rfl | ⟨hz1, _⟩
        · exact ⟨(x.sok r hr).bp, (x.sok r hr).bx⟩
        · exact x.sok z hz1
      · intro y hy hl
        rcases hmem y hy with rfl | ⟨hy1, _⟩
        · exact x.live_sep m hm hl
        · exact x.live_sep y hy1 hl
      · intro y1 h1' y2 h2' l1 l2 hc
        have key : ∀ y, y ∈ (setEntry s { m with hooks := m.hooks ++ [(id, b)] }).entries →
            ∃ y0 ∈ s.entries, y0.name = y.name ∧ y0.ctx = y.ctx ∧ y0.exited = y.exited := by
          intro y hy
          rcases hmem y hy with rfl | ⟨hy1, _⟩
          · exact ⟨m, hm, rfl, rfl, rfl⟩
          · exact ⟨y, hy1, rfl, rfl, rfl⟩
        obtain ⟨a, ha, an, ac, ax⟩ := key y1 h1'
        obtain ⟨c, hc', cn, cc, cx⟩ := key y2 h2'
        rw [← an, ← cn]
        exact x.live_inj a ha c hc' (by rw [ax]; exact l1) (by rw [cx]; exact l2) (by rw [ac, cc]; exact hc)
      · intro t ht
        obtain ⟨y, hy, yl, yt, z, hz, zn, zb, zx⟩ := x.dirty t ht
        have hy' : ∃ y' ∈ (setEntry s { m with hooks := m.hooks ++ [(id, b)] }).entries,
            y'.name = y.name ∧ y'.ctx = y.ctx ∧ y'.exited = y.exited := by
          by_cases hye : y.name = e
          · refine ⟨{ m with hooks := m.hooks ++ [(id, b)] }, (mem_setEntry s _ _).mpr (Or.inl ⟨rfl, m, hm, rfl⟩), ?_⟩
            have : y = m := unique_by_name EntryRec.name s.entries x.nodup y m hy hm (hye.trans hme.symm)
            subst this; exact ⟨rfl, rfl, rfl⟩
          · exact ⟨y, (mem_setEntry s _ _).mpr (Or.inr ⟨hy, by simpa [hme] using hye⟩), rfl, rfl, rfl⟩
        have hz' : ∃ z' ∈ (s'.setEntry { r with hooks := r.hooks ++ [(id, b)] }).entries,
            z'.name = z.name ∧ z'.blockPanic = z.blockPanic ∧ z'.exited = z.exited := by
          by_cases hze : z.name = e
          · refine ⟨{ r with hooks := r.hooks ++ [(id, b)] }, (smem_setEntry s' _ _).mpr (Or.inl ⟨rfl, r, hr, rfl⟩), ?_⟩
            have : z = r := unique_by_name SEntry.name s'.entries x.snodup z r hz hr (hze.trans hre.symm)
            subst this; exact ⟨rfl, rfl, rfl⟩
          · exact ⟨z, (smem_setEntry s' _ _).mpr (Or.inr ⟨hz, by simpa [hre] using hze⟩), rfl, rfl, rfl⟩
        obtain ⟨y', hy'm, e1, e2, e3⟩ := hy'
        obtain ⟨z', hz'm, f1, f2, f3⟩ := hz'
        exact ⟨y', hy'm, by rw [e3]; exact yl, by rw [e2]; exact yt, z', hz'm, by rw [f1, e1]; exact zn,
          by rw [f2]; exact zb, by rw [f3]; exact zx⟩
      · intro y hy z hz hyz hl
        rcases hmem y hy with rfl | ⟨hy1, hy2⟩ <;> rcases hmem' z hz with rfl | ⟨hz1, hz2⟩
        · exact x.notes m hm r hr (hme.trans hre.symm) hl
        · exact absurd (hyz.symm.trans hme) hz2
        · exact absurd (hyz.trans hre) hy2
        · exact x.notes y hy1 z hz1 hyz hl

theorem exitBody_heap (ss : List SSlot) (hooks : Hooks) (c : Nat) (h : Heap) :
    (exitBody ss hooks c h).1 = refurbish h c := by simp [exitBody]

theorem refurbish_same (h : Heap) (c : Nat) :
    (refurbish h c).ctxs = h.ctxs ∧ (refurbish h c).nctx = h.nctx ∧ (refurbish h c).ntr = h.ntr := by
  obtain ⟨a, b, c', _⟩ := poolPut_same (resetToPass h (h.ctxs c)) c
  exact ⟨a, b, c'⟩

theorem mem_pool_refurbish (h : Heap) (c x : Nat) : x ∈ poolList (refurbish h c) ↔ x = c ∨ x ∈ poolList h :=
  mem_poolPut (resetToPass h (h.ctxs c)) c x

theorem nodup_pool_refurbish (h : Heap) (c : Nat) (hn : (poolList h).Nodup) (hc : c ∉ poolList h) :
    (poolList (refurbish h c)).Nodup :=
  nodup_poolPut (resetToPass h (h.ctxs c)) c hn hc

theorem sim_exit {s : State} {s' : SState} (x : Sim s s') (e : String) :
    Sim (step s (.exit e)).1 (sstep s' (.exit e)).1 ∧ OutRel (step s (.exit e)).2 (sstep s' (.exit e)).2 := by
  have hnames := step_names s s' (.exit e) x.chains x.names
  simp only [step, stepExit, sstep] at hnames ⊢
  rcases findEntry_agree x e with ⟨h1, h2⟩ | ⟨m, r, h1, h2, hm, hr, hme, hre, rel⟩
  · simp only [h1, h2]; exact ⟨x, Or.inr rfl⟩
  · simp only [h1, h2] at hnames ⊢
    by_cases hb : m.blockAt.isSome = true
    · have hb' : r.verdict.isSome = true := by rw [← rel.blk]; exact hb
      simp only [hb, hb', if_true]; exact ⟨x, Or.inr rfl⟩
    · have hb' : ¬ r.verdict.isSome = true := by rw [← rel.blk]; exact hb
      simp only [hb, hb', Bool.false_eq_true, if_false] at hnames ⊢
      by_cases hx : m.exited = true
      · have hx' : r.exited = true := by rw [← rel.exited]; exact hx
        simp only [hx, hx', if_true]
        refine ⟨⟨x.chains, x.cnames, x.names, x.nodup, x.ents, x.sok, ?_, x.inv, x.pool_nodup, x.pool_lt, x.live_sep,
          x.live_inj, x.inj, x.dirty, x.notes⟩, Or.inr rfl⟩
        intro l hl; simp only [Option.some.injEq] at hl; exact hl
      · have hx' : ¬ r.exited = true := by rw [← rel.exited]; exact hx
        simp only [hx, hx', Bool.false_eq_true, if_false] at hnames ⊢
        have hlive : m.exited = false := by simpa using hx
        rw [← rel.chain] at hnames ⊢
        cases hc1 : findChain s m.chain with
        | none =>
          have hc2 := (findChain_agree_none x.chains m.chain).mp hc1
          simp only [hc2]; exact ⟨x, Or.inr rfl⟩
        | some ch =>
          cases hc2 : s'.findChain m.chain with
          | none => have := (findChain_agree_none x.chains m.chain).mpr hc2; rw [hc1] at this; simp at this
          | some ins =>
            simp only [hc1, hc2] at hnames ⊢
            refine ⟨?_, Or.inr rfl⟩
            have hcore : ch.core = (specChain ins).core := by
              have := x.chains m.chain; rw [hc1, hc2] at this
              simp only [Option.map_some, Option.some.injEq] at this
              rw [this, pureChain_eq_spec]
            have hss : ch.ss = (specChain ins).ss := (congrArg ChainDef.ss hcore : ch.core.ss = (specChain ins).core.ss)
            rw [exitBody_heap]
            obtain ⟨inv', hext⟩ := refurbish_ext s.h m.ctx x.inv
            obtain ⟨rc, rn, rt⟩ := refurbish_same s.h m.ctx
            obtain ⟨msep, mlt⟩ := x.live_sep m hm hlive
            have hmem : ∀ (T : State) (m2 : EntryRec) y, y ∈ (setEntry T m2).entries → T.entries = s.entries → m2.name = e →
                y = m2 ∨ (y ∈ s.entries ∧ y.name ≠ e) := by
              intro T m2 y hy hT hn
              rcases (mem_setEntry _ _ y).mp hy with ⟨h, _⟩ | ⟨h, h'⟩
              · exact Or.inl h
              · exact Or.inr ⟨by rw [← hT]; exact h, by simpa [hn] using h'⟩
            have hmem' : ∀ (T : SState) (r2 : SEntry) y, y ∈ (T.setEntry r2).entries → T.entries = s'.entries → r2.name = e →
                y = r2 ∨ (y ∈ s'.entries ∧ y.name ≠ e) := by
              intro T r2 y hy hT hn
              rcases (smem_setEntry _ _ y).mp hy with ⟨h, _⟩ | ⟨h, h'⟩
              · exact Or.inl h
              · exact Or.inr ⟨by rw [← hT]; exact h, by simpa [hn] using h'⟩
            refine ⟨x.chains, x.cnames, hnames, ?_, ?_, ?_, ?_, inv', ?_, ?_, ?_, ?_, ?_, ?_, ?_⟩
            · have : ∀ (T : State) (m2 : EntryRec), T.entries = s.entries → (setEntry T m2).entries.map (·.name) = s.entries.map (·.name) := by
                intro T m2 hT; simp only [setEntry, hT]; exact map_replace_names s.entries _
              convert x.nodup using 1
              exact this _ _ rfl
            · intro y hy z hz hyz
              rcases hmem _ _ y hy rfl hme with rfl | ⟨hy1, hy2⟩ <;> rcases hmem' _ _ z hz rfl hre with rfl | ⟨hz1, hz2⟩
              · exact ⟨rfl, rfl, rel.blk, rel.hooks, fun a ha => by
                  obtain ⟨q1, q2⟩ := rel.held a ha
                  exact ⟨(hext a q1).1, q2.trans (congrArg some (hext a q1).2.symm)⟩⟩
              · exact absurd (hyz.symm.trans hme) hz2
              · exact absurd (hyz.trans hre) hy2
              · exact (x.ents y hy1 z hz1 hyz).ext hext
            · intro z hz
              rcases hmem' _ _ z hz rfl hre with rfl | ⟨hz1, _⟩
              · exact ⟨(x.sok r hr).bp, fun _ => rfl⟩
              · exact x.sok z hz1
            · -- the call log
              intro l hl
              simp only [SState.setEntry] at hl
              split_ifs at hl with hq
              · simp only [Bool.or_eq_true, not_or, Bool.not_eq_true] at hq
                have hclean := x.clean e m r h1 h2 hlive hq.1 hq.2
                rw [← hss, ← rel.hooks hq.1] at hl
                exact exitBody_log ch.ss m.hooks m.ctx s.h hclean l hl
            · exact nodup_pool_refurbish s.h m.ctx x.pool_nodup msep
            · intro c hc
              simp only [setEntry_h] at hc ⊢
              rw [rn]
              rcases (mem_pool_refurbish s.h m.ctx c).mp hc with rfl | hc'
              · exact mlt
              · exact x.pool_lt c hc'
            · intro y hy hl
              simp only [setEntry_h]
              rcases hmem _ _ y hy rfl hme with rfl | ⟨hy1, hy2⟩
              · simp at hl
              · obtain ⟨q1, q2⟩ := x.live_sep y hy1 hl
                refine ⟨fun hin => ?_, by rw [rn]; exact q2⟩
                rcases (mem_pool_refurbish s.h m.ctx y.ctx).mp hin with hc | hc
                · exact hy2 ((x.live_inj y hy1 m hm hl hlive hc).trans hme)
                · exact q1 hc
            · intro y1 hy1 y2 hy2 l1 l2 hc
              rcases hmem _ _ y1 hy1 rfl hme with rfl | ⟨a1, _⟩
              · simp at l1
              · rcases hmem _ _ y2 hy2 rfl hme with rfl | ⟨a2, _⟩
                · simp at l2
                · exact x.live_inj y1 a1 y2 a2 l1 l2 hc
            · intro hno
              obtain ⟨i1, i2⟩ := x.inj hno
              simp only [setEntry_h]
              rw [rc, rn, rt]; exact ⟨i1, i2⟩
            · intro t ht
              simp only [setEntry_h] at ht ⊢
              rw [refurbish_trs] at ht
              have hne : t ≠ s.h.ctxs m.ctx := by
                intro he; simp [upd, he] at ht
              have ht' : (s.h.trs t).status = 1 := by simpa [upd, hne] using ht
              obtain ⟨y, hy, yl, yt, z, hz, zn, zb, zx⟩ := x.dirty t ht'
              have hyn : y.name ≠ e := by
                intro hye
                have : y = m := unique_by_name EntryRec.name s.entries x.nodup y m hy hm (hye.trans hme.symm)
                subst this; exact hne yt.symm
              refine ⟨y, (mem_setEntry _ _ _).mpr (Or.inr ⟨hy, by simpa [hme] using hyn⟩), yl, by rw [rc]; exact yt,
                z, (smem_setEntry _ _ _).mpr (Or.inr ⟨hz, by rw [zn]; simpa [hre] using hyn⟩), zn, zb, zx⟩
            · intro y hy z hz hyz hl
              rcases hmem _ _ y hy rfl hme with rfl | ⟨hy1, hy2⟩
              · simp at hl
              · rcases hmem' _ _ z hz rfl hre with rfl | ⟨hz1, hz2⟩
                · exact absurd (hyz.trans hre) hy2
                · have hne : y.ctx ≠ m.ctx := fun hc => hy2 ((x.live_inj y hy1 m hm hl hlive hc).trans hme)
                  show (upd s.cnote m.ctx {}) y.ctx = z.note
                  simp only [upd, hne, if_false]
                  exact x.notes y hy1 z hz1 hyz hl

/-! ## what `api.entry` does to the pool and to the contexts -/

structure EntryFacts (h H : Heap) (c : Nat) (ch : ChainDef) (blocked : Bool) : Prop where
  nctx : (c ∈ poolList h ∧ H.nctx = h.nctx) ∨ (c = h.nctx ∧ H.nctx = h.nctx + 1)
  other : ∀ c', c' ≠ c → H.ctxs c' = h.ctxs c'
  pool_pass : blocked = false → ∀ x, x ∈ poolList H ↔ (x ∈ poolList h ∧ x ≠ c)
  pool_block : blocked = true → ∀ x, x ∈ poolList H ↔ (x ∈ poolList h ∨ x = c)
  pool_nodup : (poolList H).Nodup
  ntr : h.ntr ≤ H.ntr
  dirty : ∀ t, (H.trs t).status = 1 → (h.trs t).status = 1 ∨
    (H.ctxs c = t ∧ blocked = false ∧ prepPanics ch.ps = false ∧ (stopOf ch.rs).verdict.isSome = true)
  own : (c ∈ poolList h ∧ H.ctxs c = h.ctxs c) ∨ (h.ntr ≤ H.ctxs c ∧ H.ctxs c < H.ntr) ∨
    ∃ s ∈ ch.rs, s.beh.needsOwn = true ∧ H.ctxs c = s.own

theorem apiEntry_facts (ch : ChainDef) (h : Heap) (hnd : (poolList h).Nodup) :
    ∃ blocked, EntryFacts h (apiEntry ch h).1 (poolGet h).2 ch blocked ∧
      ((blocked = false ∧ ∃ ks, (apiEntry ch h).2.2 = .passed (poolGet h).2 ks) ∨
       (blocked = true ∧ ∃ a b, (apiEntry ch h).2.2 = .blocked (poolGet h).2 a b)) := by
  obtain ⟨h2, cf, hd, hres⟩ := apiEntry_summary ch h
  have hp2 : poolList h2 = poolList (poolGet h).1 := by simp [poolList, cf.priv, cf.shared]
  -- facts about the context taken from the pool
  have hget : ((poolGet h).2 ∈ poolList h ∧ (poolGet h).1.nctx = h.nctx ∧ (poolGet h).1.ctxs = h.ctxs ∧
        (poolGet h).1.ntr = h.ntr ∧ (∀ x, x ∈ poolList (poolGet h).1 ↔ (x ∈ poolList h ∧ x ≠ (poolGet h).2)) ∧
        (poolGet h).2 ∉ poolList (poolGet h).1 ∧ (poolList (poolGet h).1).Nodup ∧
        ∀ t, ((poolGet h).1.trs t).status = 1 → (h.trs t).status = 1) ∨
      ((poolGet h).2 = h.nctx ∧ (poolGet h).1.nctx = h.nctx + 1 ∧ (poolGet h).1.ctxs = upd h.ctxs h.nctx h.ntr ∧
        (poolGet h).1.ntr = h.ntr + 1 ∧ poolList h = [] ∧ poolList (poolGet h).1 = [] ∧
        ∀ t, ((poolGet h).1.trs t).status = 1 → (h.trs t).status = 1) := by
    rcases poolGet_spec h with ⟨e1, e2, e3, e4, e5⟩ | ⟨e1, e2, e3, e4, e5, e6, e7⟩
    · left
      rw [e1] at hnd
      rw [List.nodup_cons] at hnd
      refine ⟨by rw [e1]; simp, e3, e2, e4, ?_, hnd.1, hnd.2, fun t ht => by rw [e5] at ht; exact ht⟩
      intro x; rw [e1]; simp only [List.mem_cons]
      constructor
      · intro hx; exact ⟨Or.inr hx, fun he => hnd.1 (he ▸ hx)⟩
      · rintro ⟨hx | hx, hne⟩
        · exact absurd hx hne
        · exact hx
    · right; exact ⟨e3, e4, e5, e6, e1, e2, e7⟩
  have hother : ∀ c', c' ≠ (poolGet h).2 → (poolGet h).1.ctxs c' = h.ctxs c' := by
    intro c' hc'
    rcases hget with ⟨_, _, e, _⟩ | ⟨e0, _, e, _⟩
    · rw [e]
    · rw [e, ← e0]; simp [upd, hc']
  have hntr : h.ntr ≤ (poolGet h).1.ntr := by
    rcases hget with ⟨_, _, _, e, _⟩ | ⟨_, _, _, e, _⟩ <;> omega
  have hdirty1 : ∀ t, ((poolGet h).1.trs t).status = 1 → (h.trs t).status = 1 := by
    rcases hget with ⟨_, _, _, _, _, _, _, e⟩ | ⟨_, _, _, _, _, _, e⟩ <;> exact e
  have hnctx : ((poolGet h).2 ∈ poolList h ∧ (poolGet h).1.nctx = h.nctx) ∨
      ((poolGet h).2 = h.nctx ∧ (poolGet h).1.nctx = h.nctx + 1) := by
    rcases hget with ⟨a, b, _⟩ | ⟨a, b, _⟩
    · exact Or.inl ⟨a, b⟩
    · exact Or.inr ⟨a, b⟩
  have hown : ((poolGet h).2 ∈ poolList h ∧ h2.ctxs (poolGet h).2 = h.ctxs (poolGet h).2) ∨
      (h.ntr ≤ h2.ctxs (poolGet h).2 ∧ h2.ctxs (poolGet h).2 < h2.ntr) ∨
      ∃ s ∈ ch.rs, s.beh.needsOwn = true ∧ h2.ctxs (poolGet h).2 = s.own := by
    rcases cf.own with e | ⟨e1, e2⟩ | e
    · rcases hget with ⟨a, _, e3, _⟩ | ⟨a, _, e3, e4, _⟩
      · left; exact ⟨a, by rw [e, e3]⟩
      · right; left
        have : h2.ctxs (poolGet h).2 = h.ntr := by rw [e, e3, a]; simp [upd]
        rw [this]; have := cf.ntr; omega
    · right; left; exact ⟨le_trans hntr e1, e2⟩
    · right; right; exact e
  rcases hres with ⟨ks, hr, hH⟩ | ⟨a, b, Hh, hr, hH, t1, t2, t3, t4, t5, t6⟩
  · refine ⟨false, ⟨?_, ?_, ?_, by simp, ?_, ?_, ?_, ?_⟩, Or.inl ⟨rfl, ks, hr⟩⟩
    · rw [hH, cf.nctx]; exact hnctx
    · intro c' hc'; rw [hH, cf.other c' hc']; exact hother c' hc'
    · intro _ x; rw [hH, hp2]
      rcases hget with ⟨_, _, _, _, e, _⟩ | ⟨_, _, _, _, e1, e2, _⟩
      · exact e x
      · rw [e1, e2]; simp
    · rw [hH, hp2]
      rcases hget with ⟨_, _, _, _, _, _, e, _⟩ | ⟨_, _, _, _, _, e, _⟩
      · exact e
      · rw [e]; exact List.nodup_nil
    · rw [hH]; exact le_trans hntr cf.ntr
    · intro t ht; rw [hH] at ht ⊢
      rcases hd t ht with h' | ⟨e1, e2, e3⟩
      · exact Or.inl (hdirty1 t h')
      · exact Or.inr ⟨e1, rfl, e2, e3⟩
    · rw [hH]; exact hown
  · have hpH : poolList Hh = poolList (poolGet h).1 := by rw [← hp2]; simp [poolList, t5, t6]
    have hcnot : (poolGet h).2 ∉ poolList (poolGet h).1 := by
      rcases hget with ⟨_, _, _, _, _, e, _⟩ | ⟨_, _, _, _, _, e, _⟩
      · exact e
      · rw [e]; simp
    have hnd1 : (poolList (poolGet h).1).Nodup := by
      rcases hget with ⟨_, _, _, _, _, _, e, _⟩ | ⟨_, _, _, _, _, e, _⟩
      · exact e
      · rw [e]; exact List.nodup_nil
    obtain ⟨rc, rn, rt⟩ := refurbish_same Hh (poolGet h).2
    refine ⟨true, ⟨?_, ?_, by simp, ?_, ?_, ?_, ?_, ?_⟩, Or.inr ⟨rfl, a, b, hr⟩⟩
    · rw [hH, rn, t3, cf.nctx]; exact hnctx
    · intro c' hc'; rw [hH, rc, t2, cf.other c' hc']; exact hother c' hc'
    · intro _ x; rw [hH, mem_pool_refurbish, hpH]
      rcases hget with ⟨e0, _, _, _, e, _⟩ | ⟨_, _, _, _, e1, e2, _⟩
      · rw [e x]
        constructor
        · rintro (rfl | ⟨h1, _⟩)
          · exact Or.inl e0
          · exact Or.inl h1
        · rintro (h1 | rfl)
          · by_cases hx : x = (poolGet h).2
            · exact Or.inl hx
            · exact Or.inr ⟨h1, hx⟩
          · exact Or.inl rfl
      · rw [e1, e2]; simp
    · rw [hH]; exact nodup_pool_refurbish Hh _ (by rw [hpH]; exact hnd1) (by rw [hpH]; exact hcnot)
    · rw [hH, rt, t4]; exact le_trans hntr cf.ntr
    · intro t ht
      rw [hH, refurbish_trs] at ht
      have hne : t ≠ Hh.ctxs (poolGet h).2 := by intro he; simp [upd, he] at ht
      have ht' : (h2.trs t).status = 1 := by rw [← t1]; simpa [upd, hne] using ht
      rcases hd t ht' with h' | ⟨e1, _, _⟩
      · exact Or.inl (hdirty1 t h')
      · exact absurd (by rw [t2]; exact e1.symm) hne
    · rw [hH, rc, t2, rt, t4]; exact hown

/-! ## the `entry` op -/

theorem Sim.push {s : State} {s' : SState} (x : Sim s s') (H : Heap) (c : Nat) (ch : ChainDef) (blocked : Bool)
    (mNew : EntryRec) (rNew : SEntry) (L : List Call) (L' : Option (List Call)) (e : String) (N : Nat → CtxNote)
    (hN : ∀ k, k ≠ c → N k = s.cnote k) (hNc : blocked = false → N c = rNew.note)
    (hF : EntryFacts s.h H c ch blocked) (hext : s.h.Ext H) (hfresh : ∀ y ∈ s.entries, y.name ≠ e)
    (hmn : mNew.name = e) (hrn : rNew.name = e) (hmc : mNew.ctx = c) (hmx : mNew.exited = blocked)
    (hrel : EntRel H mNew rNew) (hsok : SpecOk rNew) (hlog : ∀ l, L' = some l → L = l)
    (hnoown : s'.hasOwn = false → ∀ sl ∈ ch.rs, sl.beh.needsOwn = false)
    (hbp : blocked = false → prepPanics ch.ps = false → (stopOf ch.rs).verdict.isSome = true →
      rNew.blockPanic = true ∧ rNew.exited = false) :
    Sim { s with h := H, lastLog := L, entries := s.entries ++ [mNew], cnote := N }
        { s' with lastLog := L', entries := s'.entries ++ [rNew] } := by
  obtain ⟨inv', hx⟩ := hext x.inv
  have hfresh' : ∀ y ∈ s'.entries, y.name ≠ e := by
    intro y hy hye
    have : e ∈ s'.entries.map (·.name) := List.mem_map.mpr ⟨y, hy, hye⟩
    rw [← x.names] at this
    obtain ⟨z, hz, hze⟩ := List.mem_map.mp this
    exact hfresh z hz hze
  -- the context handed out is not held by any live entry
  have hcfresh : ∀ y ∈ s.entries, y.exited = false → y.ctx ≠ c := by
    intro y hy hl hyc
    obtain ⟨q1, q2⟩ := x.live_sep y hy hl
    rcases hF.nctx with ⟨a, _⟩ | ⟨a, _⟩
    · exact q1 (hyc ▸ a)
    · omega
  have hclt : c < H.nctx := by
    rcases hF.nctx with ⟨a, b⟩ | ⟨a, b⟩
    · rw [b]; exact x.pool_lt c a
    · omega
  have hnle : s.h.nctx ≤ H.nctx := by
    rcases hF.nctx with ⟨_, b⟩ | ⟨_, b⟩ <;> omega
  refine ⟨fun k => x.chains k, x.cnames, ?_, ?_, ?_, ?_, hlog, inv', hF.pool_nodup, ?_, ?_, ?_, ?_, ?_, ?_⟩
  · simp only [NamesAgree, List.map_append, List.map_cons, List.map_nil, hmn, hrn]
    exact congrArg (· ++ [e]) x.names
  · simp only [List.map_append, List.map_cons, List.map_nil, hmn]
    refine List.Nodup.append x.nodup (List.nodup_singleton e) ?_
    intro a ha hb
    simp only [List.mem_singleton] at hb
    subst hb
    obtain ⟨z, hz, hze⟩ := List.mem_map.mp ha
    exact hfresh z hz hze
  · intro m hm r hr hmr
    simp only [List.mem_append, List.mem_singleton] at hm hr
    rcases hm with hm | rfl <;> rcases hr with hr | rfl
    · exact (x.ents m hm r hr hmr).ext hx
    · exact absurd (hmr.trans hrn) (hfresh m hm)
    · exact absurd (hmr.symm.trans hmn) (hfresh' r hr)
    · exact hrel
  · intro r hr
    simp only [List.mem_append, List.mem_singleton] at hr
    rcases hr with hr | rfl
    · exact x.sok r hr
    · exact hsok
  · intro k hk
    cases hb : blocked with
    | false =>
      have := (hF.pool_pass hb k).mp hk
      exact lt_of_lt_of_le (x.pool_lt k this.1) hnle
    | true =>
      rcases (hF.pool_block hb k).mp hk with h1 | rfl
      · exact lt_of_lt_of_le (x.pool_lt k h1) hnle
      · exact hclt
  · intro y hy hl
    simp only [List.mem_append, List.mem_singleton] at hy
    rcases hy with hy | rfl
    · obtain ⟨q1, q2⟩ := x.live_sep y hy hl
      refine ⟨fun hin => ?_, lt_of_lt_of_le q2 hnle⟩
      cases hb : blocked with
      | false => exact q1 ((hF.pool_pass hb _).mp hin).1
      | true =>
        rcases (hF.pool_block hb _).mp hin with h1 | h1
        · exact q1 h1
        · exact hcfresh y hy hl h1
    · have hb : blocked = false := by rw [← hmx]; exact hl
      rw [hmc]
      exact ⟨fun hin => ((hF.pool_pass hb c).mp hin).2 rfl, hclt⟩
  · intro y1 h1 y2 h2 l1 l2 hc
    simp only [List.mem_append, List.mem_singleton] at h1 h2
    rcases h1 with h1 | rfl <;> rcases h2 with h2 | rfl
    · exact x.live_inj y1 h1 y2 h2 l1 l2 hc
    · exact absurd (hc.trans hmc) (hcfresh y1 h1 l1)
    · exact absurd (hc.symm.trans hmc) (hcfresh y2 h2 l2)
    · rfl
  · intro hno
    obtain ⟨i1, i2⟩ := x.inj hno
    have hnoo := hnoown hno
    -- the value stored for `c`
    have hcval : (c < s.h.nctx ∧ H.ctxs c = s.h.ctxs c) ∨ (s.h.ntr ≤ H.ctxs c ∧ H.ctxs c < H.ntr) := by
      rcases hF.own with ⟨a, b⟩ | b | ⟨sl, hsl, q, _⟩
      · exact Or.inl ⟨x.pool_lt c a, b⟩
      · exact Or.inr b
      · rw [hnoo sl hsl] at q; exact absurd q (by simp)
    have hlt_old : ∀ k, k < H.nctx → k ≠ c → k < s.h.nctx := by
      intro k hk hkc
      rcases hF.nctx with ⟨_, b⟩ | ⟨a, b⟩ <;> omega
    constructor
    · intro c1 c2 h1 h2 he
      dsimp only at h1 h2 he ⊢
      by_cases e1 : c1 = c <;> by_cases e2 : c2 = c
      · rw [e1, e2]
      · exfalso
        rw [e1, hF.other c2 e2] at he
        have l2 := hlt_old c2 h2 e2
        rcases hcval with ⟨a, b⟩ | ⟨a, _⟩
        · rw [b] at he; exact e2 (i1 c c2 a l2 he).symm
        · have := i2 c2 l2; omega
      · exfalso
        rw [e2, hF.other c1 e1] at he
        have l1 := hlt_old c1 h1 e1
        rcases hcval with ⟨a, b⟩ | ⟨a, _⟩
        · rw [b] at he; exact e1 (i1 c1 c l1 a he)
        · have := i2 c1 l1; omega
      · rw [hF.other c1 e1, hF.other c2 e2] at he
        exact i1 c1 c2 (hlt_old c1 h1 e1) (hlt_old c2 h2 e2) he
    · intro k hk
      dsimp only at hk ⊢
      by_cases e1 : k = c
      · rw [e1]
        rcases hcval with ⟨a, b⟩ | ⟨_, b⟩
        · rw [b]; exact lt_of_lt_of_le (i2 c a) hF.ntr
        · exact b
      · rw [hF.other k e1]; exact lt_of_lt_of_le (i2 k (hlt_old k hk e1)) hF.ntr
  · intro t ht
    rcases hF.dirty t ht with h1 | ⟨h1, h2, h3, h4⟩
    · obtain ⟨y, hy, yl, yt, z, hz, zr⟩ := x.dirty t h1
      refine ⟨y, List.mem_append_left _ hy, yl, ?_, z, List.mem_append_left _ hz, zr⟩
      rw [hF.other y.ctx (hcfresh y hy yl)]; exact yt
    · obtain ⟨b1, b2⟩ := hbp h2 h3 h4
      exact ⟨mNew, by simp, by rw [hmx]; exact h2, by rw [hmc]; exact h1, rNew, by simp, by rw [hrn, hmn], b1, b2⟩
  · intro m hm r hr hmr hl
    simp only [List.mem_append, List.mem_singleton] at hm hr
    rcases hm with hm | rfl <;> rcases hr with hr | rfl
    · show N m.ctx = r.note
      rw [hN m.ctx (hcfresh m hm hl)]; exact x.notes m hm r hr hmr hl
    · exact absurd (hmr.trans hrn) (hfresh m hm)
    · exact absurd (hmr.symm.trans hmn) (hfresh' r hr)
    · show N m.ctx = r.note
      rw [hmc]; exact hNc (by rw [← hmx]; exact hl)

theorem ruleNotes_core (rs : List RSlot) (n : CtxNote) : ruleNotes (rs.map RSlot.core) n = ruleNotes rs n := by
  induction rs generalizing n with
  | nil => rfl
  | cons s r ih =>
    have hb : (RSlot.core s).beh = s.beh := rfl
    have hi : (RSlot.core s).id = s.id := rfl
    have hn : (RSlot.core s).note = s.note := rfl
    simp only [List.map_cons, ruleNotes, hb, hi, hn]
    cases s.beh <;> simp [ih]

theorem entryNote_core (ch : ChainDef) : entryNote ch.core = entryNote ch := by
  simp only [entryNote, ChainDef.core, ruleNotes_core]

theorem blockPanics_entryPanics (ch : ChainDef) (h : blockPanics ch = true) : entryPanics ch = true := by
  simp only [blockPanics, Bool.and_eq_true] at h
  simp [entryPanics, h.2]

theorem passed_hooks (ch : ChainDef) (h : Heap) (c : Nat) (ks : Hooks) (hp : entryPanics ch = false)
    (hr : (apiEntry ch h).2.2 = .passed c ks) : ks = specHooks ch := by
  cases hs : stopOf ch.rs with
  | allPass =>
    have := (apiEntry_pass ch h hp hs).2.1
    rw [this] at hr
    simp only [EntryRes.passed.injEq] at hr
    exact hr.2.symm
  | block sl typ =>
    obtain ⟨_, a, e, _⟩ := apiEntry_block ch h sl typ hp hs
    rw [e] at hr; simp at hr
  | panic => have := (entryPanics_false ch hp).2.1; simp [hs, Stop.isPanic] at this

theorem sim_entry {s : State} {s' : SState} (x : Sim s s') (e n : String) :
    Sim (step s (.entry e n)).1 (sstep s' (.entry e n)).1 ∧
    OutRel (step s (.entry e n)).2 (sstep s' (.entry e n)).2 := by
  obtain ⟨hout, _, _⟩ := stepEntry_matches s s' e n x.chains x.names
  refine ⟨?_, Or.inr (by simpa [step] using hout)⟩
  simp only [step, stepEntry, sstep]
  rcases findEntry_agree x e with ⟨h1, h2⟩ | ⟨m, r, h1, h2, _⟩
  · simp only [h1, h2]
    cases hc1 : findChain s n with
    | none =>
      have hc2 := (findChain_agree_none x.chains n).mp hc1
      simp only [hc2]; exact x
    | some ch =>
      cases hc2 : s'.findChain n with
      | none => have := (findChain_agree_none x.chains n).mpr hc2; rw [hc1] at this; simp at this
      | some ins =>
        dsimp only
        have hcore : ch.core = (specChain ins).core := by
          have := x.chains n; rw [hc1, hc2] at this
          simp only [Option.map_some, Option.some.injEq] at this
          rw [this, pureChain_eq_spec]
        have hv : specVerdict (specChain ins) = specVerdict ch := by
          rw [← specVerdict_core, ← hcore, specVerdict_core]
        have hl : specEntryLog (specChain ins) = specEntryLog ch := by
          rw [← specEntryLog_core, ← hcore, specEntryLog_core]
        have hbpc : blockPanics (specChain ins) = blockPanics ch := by
          rw [← blockPanics_core, ← hcore, blockPanics_core]
        have hep : entryPanics (specChain ins) = entryPanics ch := by
          rw [← entryPanics_core, ← hcore, entryPanics_core]
        have hhk : specHooks (specChain ins) = specHooks ch := by
          rw [← specHooks_core, ← hcore, specHooks_core]
        have hen : entryNote (specChain ins) = entryNote ch := by
          rw [← entryNote_core, ← hcore, entryNote_core]
        obtain ⟨blocked, F, hres⟩ := apiEntry_facts ch s.h x.pool_nodup
        have hver := apiEntry_verdict ch s.h
        have hfresh := find_name_none EntryRec.name s.entries e h1
        have hnoown : s'.hasOwn = false → ∀ sl ∈ ch.rs, sl.beh.needsOwn = false :=
          fun hno => noOwn_of_core ch ins hcore (hasOwn_false_chain s' n ins hc2 hno)
        rw [hv, hl, hbpc, hep, hhk, hen]
        rcases hres with ⟨hb, ks, hr⟩ | ⟨hb, a, b, hr⟩
        · subst hb
          have hvn : specVerdict ch = none := by rw [← hver, hr]; rfl
          simp only [hvn, recordEntry, hr]
          refine x.push _ _ ch false _ _ _ _ e _ (fun k hk => by simp [upd, hk]) (fun _ => by simp [upd]) F
            (apiEntry_ext ch s.h) hfresh rfl rfl rfl rfl ?_ ?_ ?_ hnoown ?_
          · exact ⟨rfl, rfl, rfl, fun hp => passed_hooks ch s.h _ ks hp hr, fun a ha => by simp at ha⟩
          · exact ⟨fun hbp => blockPanics_entryPanics ch hbp, fun hv => by simp at hv⟩
          · intro l hl'; exact apiEntry_log_spec ch s.h l hl'
          · intro _ h3 h4
            exact ⟨passed_block_is_blockPanic ch s.h _ ks h3 h4 hr, rfl⟩
        · subst hb
          have hvn : specVerdict ch = some b := by rw [← hver, hr]; rfl
          simp only [hvn, recordEntry, hr]
          refine x.push _ _ ch true _ _ _ _ e _ (fun k hk => by simp [upd, hk]) (fun hf => by simp at hf) F
            (apiEntry_ext ch s.h) hfresh rfl rfl rfl rfl ?_ ?_ ?_ hnoown ?_
          · refine ⟨rfl, rfl, rfl, fun _ => rfl, fun a' ha => ?_⟩
            simp only [Option.some.injEq] at ha
            subst ha
            obtain ⟨q1, q2⟩ := apiEntry_blocked_held ch s.h _ _ b hr
            exact ⟨q1, by rw [q2]⟩
          · exact ⟨fun hbp => by simp at hbp, fun _ => rfl⟩
          · intro l hl'; exact apiEntry_log_spec ch s.h l hl'
          · intro hf; simp at hf
  · simp only [h1, h2]; exact x

/-! ## every op, whole histories -/

theorem defaultOrder_eq : defaultOrder = defaultOrderSpec := by
  simp [defaultOrder, defaultOrderSpec, addAll_eq_stableSort]

theorem step_sim {s : State} {s' : SState} (x : Sim s s') (op : Op) :
    Sim (step s op).1 (sstep s' op).1 ∧ OutRel (step s op).2 (sstep s' op).2 := by
  cases op with
  | chain n slots => exact sim_chain x n slots
  | add n slot => exact sim_add x n slot
  | entry e n => exact sim_entry x e n
  | whenexit e id b => exact sim_whenexit x e id b
  | exit e => exact sim_exit x e
  | log =>
    simp only [step, sstep]
    refine ⟨x, ?_⟩
    cases hl : s'.lastLog with
    | none => exact Or.inl rfl
    | some l => right; simp only [olog]; rw [x.log l hl]
  | ident e =>
    simp only [step, sstep]
    rcases findEntry_agree x e with ⟨h1, h2⟩ | ⟨m, r, h1, h2, _⟩
    · simp only [h1, h2]; exact ⟨x, Or.inr rfl⟩
    · simp only [h1, h2]; exact ⟨x, Or.inl rfl⟩
  | blockerr e =>
    simp only [step, stepBlockErr, sstep]
    rcases findEntry_agree x e with ⟨h1, h2⟩ | ⟨m, r, h1, h2, _, _, _, _, rel⟩
    · simp only [h1, h2]; exact ⟨x, Or.inr rfl⟩
    · simp only [h1, h2]
      cases hb : m.blockAt with
      | none =>
        have : r.verdict = none := by
          have := rel.blk; rw [hb] at this
          cases hv : r.verdict with
          | none => rfl
          | some b => rw [hv] at this; simp at this
        simp only [this]; exact ⟨x, Or.inr rfl⟩
      | some a =>
        obtain ⟨_, q⟩ := rel.held a hb
        simp only [q]; exact ⟨x, Or.inr rfl⟩
  | globalorder =>
    simp only [step, sstep]
    exact ⟨x, Or.inr defaultOrder_eq⟩
  | ctxq e p =>
    simp only [step, sstep]
    rcases findEntry_agree x e with ⟨h1, h2⟩ | ⟨m, r, h1, h2, hm, hr, hme, hre, rel⟩
    · simp only [h1, h2]; exact ⟨x, Or.inr rfl⟩
    · simp only [h1, h2]
      by_cases hq : (r.verdict.isSome || r.exited) = true
      · simp only [hq, if_true]; exact ⟨x, Or.inl rfl⟩
      · simp only [hq, Bool.false_eq_true, if_false]
        simp only [Bool.or_eq_true, not_or, Bool.not_eq_true] at hq
        have hl : m.exited = false := by rw [rel.exited]; exact hq.2
        rw [x.notes m hm r hr (hme.trans hre.symm) hl]
        exact ⟨x, Or.inr rfl⟩
  | clock t => exact ⟨x, Or.inr rfl⟩

theorem init_sim : Sim {} {} := by
  refine ⟨init_agree, List.nodup_nil, rfl, List.nodup_nil, ?_, ?_, ?_, init_inv, List.nodup_nil, ?_, ?_, ?_, ?_, ?_, ?_⟩
  · intro m hm; simp at hm
  · intro r hr; simp at hr
  · intro l hl; simp at hl; exact hl.symm
  · intro c hc; simp [poolList] at hc
  · intro m hm; simp at hm
  · intro m hm; simp at hm
  · intro _; exact ⟨fun c1 c2 h1 _ => by simp at h1, fun c hc => by simp at hc⟩
  · intro t ht; simp at ht
  · intro m hm; simp at hm

/-- the answers of the model over an op history -/
def runOuts (s : State) : List Op → List Out
  | [] => []
  | o :: r => (step s o).2 :: runOuts (step s o).1 r

/-- the answers of the reference over an op history -/
def srunOuts (s : SState) : List Op → List Out
  | [] => []
  | o :: r => (sstep s o).2 :: srunOuts (sstep s o).1 r

theorem run_sim (ops : List Op) {s : State} {s' : SState} (x : Sim s s') :
    Sim (runOps s ops) (srunOps s' ops) ∧ List.Forall₂ OutRel (runOuts s ops) (srunOuts s' ops) := by
  induction ops generalizing s s' with
  | nil => exact ⟨x, List.Forall₂.nil⟩
  | cons o r ih =>
    obtain ⟨x1, o1⟩ := step_sim x o
    obtain ⟨x2, o2⟩ := ih x1
    exact ⟨x2, List.Forall₂.cons o1 o2⟩

end Sentinel.Chain
