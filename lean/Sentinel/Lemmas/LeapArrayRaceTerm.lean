import Mathlib.Tactic
import Sentinel.Model.LeapArrayRace
/-!
# Lock discipline and termination measures of the small-step leap-array model (C09)

* `MutexInv` — the try-lock word is set exactly while one thread is between `TryLock` and `Unlock`
  (`Pc.inCrit`), and at most one thread is.  Preserved by every step (`exec_mutex`, `run_mutex`).
* `critMeas` — a thread inside the reset section leaves it within `critMeas ≤ 9` of its own steps.
* `thMeas` — explicit measure: a step of a thread strictly decreases it unless the step is a failed
  `TryLock` (the lock is held by another thread).
-/
namespace Sentinel.LAR

def Pc.inCrit : Pc → Bool
  | .resetStart | .resetCnt _ | .resetMinRt | .resetMaxConc | .unlock => true
  | _ => false

def Th.inCrit (t : Th) : Bool :=
  match t.cur with
  | some f => f.pc.inCrit
  | none => false

/-- own steps left inside the reset section -/
def critMeas : Pc → Nat
  | .resetStart => 9 | .resetCnt k => 4 + (4 - k) | .resetMinRt => 3 | .resetMaxConc => 2 | .unlock => 1
  | _ => 0

def Th.critMeas (t : Th) : Nat :=
  match t.cur with
  | some f => Sentinel.LAR.critMeas f.pc
  | none => 0

/-! ## which steps touch the lock -/

/-- the thread after a step inside operation `f` whose outcome is `nx` -/
def adv (sh' : Shared) (clock : Nat) (t : Th) (f : Frame) : Next → Th
  | .pc p => { t with cur := some { f with pc := p } }
  | .fin r => startNext sh' clock t.prog (t.res ++ [mkRes sh' f.op f.now r])

theorem stepTh_some (sh : Shared) (clock : Nat) (t : Th) (f : Frame) (h : t.cur = some f) :
    stepTh sh clock t = ((sh.apply (decideStep sh f.op f.now f.pc).1),
      adv (sh.apply (decideStep sh f.op f.now f.pc).1) clock t f (decideStep sh f.op f.now f.pc).2) := by
  unfold stepTh
  rw [h]
  simp only []
  cases (decideStep sh f.op f.now f.pc).2 <;> rfl

theorem stepTh_none (sh : Shared) (clock : Nat) (t : Th) (h : t.cur = none) :
    stepTh sh clock t = (sh, startNext sh clock t.prog t.res) := by
  unfold stepTh; rw [h]

def nxCrit : Next → Bool
  | .pc p => p.inCrit
  | .fin _ => false

def nxMeas : Next → Nat
  | .pc p => critMeas p
  | .fin _ => 0

theorem startNext_notCrit (sh : Shared) (clock : Nat) (prog : List OpSpec) (res : List Res) :
    (startNext sh clock prog res).inCrit = false := by
  induction prog generalizing res with
  | nil => simp [startNext, Th.inCrit]
  | cons op rest ih =>
    simp only [startNext]
    split_ifs
    · exact ih _
    · cases op <;> simp only [firstPc, firstVal] <;> (try split_ifs) <;> first | exact ih _ | simp [Th.inCrit, Pc.inCrit]

theorem adv_inCrit (sh' : Shared) (clock : Nat) (t : Th) (f : Frame) (nx : Next) :
    (adv sh' clock t f nx).inCrit = nxCrit nx := by
  cases nx with
  | pc p => simp [adv, Th.inCrit, nxCrit]
  | fin r => simp [adv, nxCrit, startNext_notCrit]

theorem adv_critMeas (sh' : Shared) (clock : Nat) (t : Th) (f : Frame) (nx : Next) (h : nxCrit nx = true) :
    (adv sh' clock t f nx).critMeas = nxMeas nx := by
  cases nx with
  | pc p => simp [adv, Th.critMeas, nxMeas]
  | fin r => simp [nxCrit] at h

theorem firstVal_nxCrit (sh : Shared) : nxCrit (firstVal sh) = false := by
  unfold firstVal; split_ifs <;> rfl

theorem afterCur_nxCrit (sh : Shared) (op : OpSpec) (ok : Bool) : nxCrit (afterCur sh op ok) = false := by
  cases op <;> simp only [afterCur] <;> (try split_ifs) <;> first | rfl | exact firstVal_nxCrit sh

theorem afterScan_nxCrit (col : List Nat) : nxCrit (afterScan col) = false := by
  cases col <;> rfl

def Act.isLock : Act → Bool | .lock => true | _ => false
def Act.isUnlock : Act → Bool | .unlock => true | _ => false

theorem apply_lock (sh : Shared) (a : Act) :
    (sh.apply a).lock = if a.isLock then true else if a.isUnlock then false else sh.lock := by
  cases a <;> simp [Shared.apply, Act.isLock, Act.isUnlock]

/-- classification of a step inside an operation with respect to the lock: acquire, release, or neither -/
theorem decide_lock (sh : Shared) (op : OpSpec) (now : Nat) (pc : Pc) :
    let an := decideStep sh op now pc
    (pc.inCrit = false ∧ nxCrit an.2 = true ∧ sh.lock = false ∧ an.1.isLock = true)
    ∨ (pc.inCrit = true ∧ nxCrit an.2 = false ∧ an.1.isUnlock = true ∧ an.1.isLock = false)
    ∨ (nxCrit an.2 = pc.inCrit ∧ an.1.isLock = false ∧ an.1.isUnlock = false
        ∧ (pc.inCrit = true → nxMeas an.2 < critMeas pc)) := by
  cases pc <;> simp only [decideStep]
  case tryLock =>
    by_cases hl : sh.lock = true
    · right; right; simp [hl, nxCrit, Pc.inCrit, Act.isLock, Act.isUnlock]
    · left; simp [hl, nxCrit, Pc.inCrit, Act.isLock]
  case unlock =>
    right; left
    exact ⟨rfl, afterCur_nxCrit sh op true, rfl, rfl⟩
  case curLoad =>
    right; right
    split_ifs
    · exact ⟨afterCur_nxCrit sh op _, rfl, rfl, by simp [Pc.inCrit]⟩
    · exact ⟨rfl, rfl, rfl, by simp [Pc.inCrit]⟩
    · exact ⟨afterCur_nxCrit sh op _, rfl, rfl, by simp [Pc.inCrit]⟩
    · exact ⟨afterCur_nxCrit sh op _, rfl, rfl, by simp [Pc.inCrit]⟩
  case spin => right; right; simp [nxCrit, Pc.inCrit, Act.isLock, Act.isUnlock]
  case resetStart => right; right; simp [nxCrit, nxMeas, critMeas, Pc.inCrit, Act.isLock, Act.isUnlock]
  case resetCnt k =>
    right; right
    split_ifs with hk
    · simp [nxCrit, nxMeas, critMeas, Pc.inCrit, Act.isLock, Act.isUnlock]; simp [nEv] at hk; omega
    · simp [nxCrit, nxMeas, critMeas, Pc.inCrit, Act.isLock, Act.isUnlock]; omega
  case resetMinRt => right; right; simp [nxCrit, nxMeas, critMeas, Pc.inCrit, Act.isLock, Act.isUnlock]
  case resetMaxConc => right; right; simp [nxCrit, nxMeas, critMeas, Pc.inCrit, Act.isLock, Act.isUnlock]
  case mbAdd =>
    right; right
    cases op <;> simp only [] <;> (try split_ifs) <;> simp [nxCrit, Pc.inCrit, Act.isLock, Act.isUnlock]
  case minrtLoad =>
    right; right
    cases op <;> simp only [] <;> (try split_ifs) <;> simp [nxCrit, Pc.inCrit, Act.isLock, Act.isUnlock]
  case minrtStore =>
    right; right
    cases op <;> simp [nxCrit, Pc.inCrit, Act.isLock, Act.isUnlock]
  case maxconcLoad =>
    right; right
    cases op <;> simp only [] <;> (try split_ifs) <;> simp [nxCrit, Pc.inCrit, Act.isLock, Act.isUnlock]
  case maxconcStore =>
    right; right
    cases op <;> simp [nxCrit, Pc.inCrit, Act.isLock, Act.isUnlock]
  case valGet j col => right; right; simp [nxCrit, Pc.inCrit, Act.isLock, Act.isUnlock]
  case depLoad j col =>
    right; right
    by_cases hn : j + 1 < sh.n
    · simp [hn, nxCrit, Pc.inCrit, Act.isLock, Act.isUnlock]
    · rw [if_neg hn]; exact ⟨afterScan_nxCrit _, rfl, rfl, by simp [Pc.inCrit]⟩
  case mbGet rem acc =>
    right; right
    cases rem with
    | nil => simp [nxCrit, Pc.inCrit, Act.isLock, Act.isUnlock]
    | cons j r => cases r <;> simp [nxCrit, Pc.inCrit, Act.isLock, Act.isUnlock]

/-- classification of a granted step of a thread: acquire, release, or neither -/
theorem stepTh_lock (sh : Shared) (clock : Nat) (t : Th) :
    (t.inCrit = false ∧ (stepTh sh clock t).2.inCrit = true ∧ sh.lock = false ∧ (stepTh sh clock t).1.lock = true)
    ∨ (t.inCrit = true ∧ (stepTh sh clock t).2.inCrit = false ∧ (stepTh sh clock t).1.lock = false)
    ∨ ((stepTh sh clock t).2.inCrit = t.inCrit ∧ (stepTh sh clock t).1.lock = sh.lock
        ∧ (t.inCrit = true → (stepTh sh clock t).2.critMeas < t.critMeas)) := by
  cases hc : t.cur with
  | none =>
    right; right
    rw [stepTh_none sh clock t hc]
    refine ⟨?_, rfl, ?_⟩
    · rw [startNext_notCrit]; simp [Th.inCrit, hc]
    · simp [Th.inCrit, hc]
  | some f =>
    rw [stepTh_some sh clock t f hc]
    have hin : t.inCrit = f.pc.inCrit := by simp [Th.inCrit, hc]
    have hm : t.critMeas = critMeas f.pc := by simp [Th.critMeas, hc]
    simp only [adv_inCrit, apply_lock, hin, hm]
    rcases decide_lock sh f.op f.now f.pc with h | h | h
    · left; obtain ⟨h1, h2, h3, h4⟩ := h
      exact ⟨h1, h2, h3, by simp [h4]⟩
    · right; left; obtain ⟨h1, h2, h3, h4⟩ := h
      exact ⟨h1, h2, by simp [h3, h4]⟩
    · right; right; obtain ⟨h1, h2, h3, h4⟩ := h
      refine ⟨h1, by simp [h2, h3], fun hcr => ?_⟩
      rw [adv_critMeas _ _ _ _ _ (by rw [h1]; exact hcr)]
      exact h4 hcr

/-! ## mutual exclusion of the reset section -/

structure MutexInv (c : Cfg) : Prop where
  /-- lock word clear ⇒ nobody is inside the reset section -/
  free : c.sh.lock = false → ∀ (j : Nat) (t : Th), c.th[j]? = some t → t.inCrit = false
  /-- at most one thread is inside the reset section -/
  one : ∀ (i j : Nat) (ti tj : Th), c.th[i]? = some ti → c.th[j]? = some tj → ti.inCrit = true → tj.inCrit = true → i = j
  /-- lock word set ⇒ its holder exists (and will release it: `critMeas`) -/
  held : c.sh.lock = true → ∃ (i : Nat) (t : Th), c.th[i]? = some t ∧ t.inCrit = true

theorem set_get {α : Type} (l : List α) (i : Nat) (t t' : α) (h : l[i]? = some t) (j : Nat) :
    (l.set i t')[j]? = if i = j then some t' else l[j]? := by
  rw [List.getElem?_set]
  have : i < l.length := by
    rcases Nat.lt_or_ge i l.length with h1 | h1
    · exact h1
    · rw [List.getElem?_eq_none h1] at h; cases h
  simp [this]

theorem exec_mutex (c : Cfg) (e : Entry) (inv : MutexInv c) : MutexInv (c.exec e) := by
  cases e with
  | tick d => exact ⟨inv.free, inv.one, inv.held⟩
  | step i =>
    simp only [Cfg.exec]
    cases hth : c.th[i]? with
    | none => exact inv
    | some t =>
      simp only []
      have hget := set_get c.th i t (stepTh c.sh c.clock t).2 hth
      rcases stepTh_lock c.sh c.clock t with ⟨h1, h2, h3, h4⟩ | ⟨h1, h2, h3⟩ | ⟨h1, h2, _⟩
      · -- acquire: nobody was inside before
        have old := inv.free h3
        refine ⟨fun hf => by simp [h4] at hf, ?_, fun _ => ⟨i, (stepTh c.sh c.clock t).2, by rw [hget]; simp, h2⟩⟩
        intro a b ta tb ha hb hca hcb
        rw [hget] at ha hb
        by_cases hia : i = a
        · by_cases hib : i = b
          · omega
          · simp [hib] at hb; have := old b tb hb; simp [this] at hcb
        · simp [hia] at ha; have := old a ta ha; simp [this] at hca
      · -- release: the stepping thread was the only one inside
        refine ⟨fun _ j u hu => ?_, ?_, fun hf => by simp [h3] at hf⟩
        · rw [hget] at hu
          by_cases hij : i = j
          · simp [hij] at hu; subst hu; exact h2
          · simp [hij] at hu
            by_contra hcr
            have hcr' : u.inCrit = true := by simpa using hcr
            exact hij (inv.one i j t u hth hu h1 hcr')
        · intro a b ta tb ha hb hca hcb
          rw [hget] at ha hb
          by_cases hia : i = a
          · simp [hia] at ha; subst ha; simp [h2] at hca
          · by_cases hib : i = b
            · simp [hib] at hb; subst hb; simp [h2] at hcb
            · simp [hia] at ha; simp [hib] at hb
              exact inv.one a b ta tb ha hb hca hcb
      · -- neither: the stepping thread keeps its side, the lock word is unchanged
        -- every thread of the new configuration has an old counterpart with the same `inCrit`
        have back : ∀ (j : Nat) (u : Th), (c.th.set i (stepTh c.sh c.clock t).2)[j]? = some u →
            ∃ u0 : Th, c.th[j]? = some u0 ∧ u0.inCrit = u.inCrit := by
          intro j u hu
          rw [hget] at hu
          by_cases hij : i = j
          · simp [hij] at hu; subst hu; exact ⟨t, by rw [← hij]; exact hth, h1.symm⟩
          · simp [hij] at hu; exact ⟨u, hu, rfl⟩
        refine ⟨fun hf j u hu => ?_, ?_, fun hf => ?_⟩
        · obtain ⟨u0, hu0, he⟩ := back j u hu
          rw [← he]; exact inv.free (by rw [← h2]; exact hf) j u0 hu0
        · intro a b ta tb ha hb hca hcb
          obtain ⟨a0, ha0, hea⟩ := back a ta ha
          obtain ⟨b0, hb0, heb⟩ := back b tb hb
          exact inv.one a b a0 b0 ha0 hb0 (by rw [hea]; exact hca) (by rw [heb]; exact hcb)
        · obtain ⟨j, u, hu, hcr⟩ := inv.held (by rw [← h2]; exact hf)
          by_cases hij : i = j
          · subst hij
            rw [hth] at hu; cases hu
            exact ⟨i, (stepTh c.sh c.clock t).2, by rw [hget]; simp, by rw [h1]; exact hcr⟩
          · exact ⟨j, u, by rw [hget]; simp [hij]; exact hu, hcr⟩

theorem run_mutex (c : Cfg) (s : List Entry) (inv : MutexInv c) : MutexInv (run c s) := by
  induction s generalizing c with
  | nil => exact inv
  | cons e r ih => exact ih _ (exec_mutex c e inv)

theorem mutex_init (sh : Shared) (clock : Nat) (progs : List (List OpSpec)) (h : sh.lock = false) :
    MutexInv { sh := sh, clock := clock, th := progs.map mkThread } := by
  have nc : ∀ (j : Nat) (t : Th), (progs.map mkThread)[j]? = some t → t.inCrit = false := by
    intro j t ht
    have := List.mem_of_getElem? ht
    simp only [List.mem_map] at this
    obtain ⟨p, _, rfl⟩ := this
    rfl
  refine ⟨fun _ => nc, ?_, fun hf => by simp [h] at hf⟩
  intro a b ta tb ha hb hca _
  have := nc a ta ha
  simp [this] at hca

/-! ## progress measure -/

/-- steps an operation needs after `currentBucketOfTime` has returned (upper bound) -/
def cont (n : Nat) : OpSpec → Nat
  | .add _ _ => 3 | .conc _ => 2 | .count _ => 3 * n + 4 | .viewsum _ => 3 * n + 4

/-- upper bound on the own steps an operation at `pc` still needs, provided it never fails a `TryLock` -/
def pcMeas (n : Nat) (op : OpSpec) : Pc → Nat
  | .spin => cont n op + 12 | .curLoad => cont n op + 11 | .tryLock => cont n op + 10
  | .resetStart => cont n op + 9 | .resetCnt k => cont n op + 4 + (4 - k)
  | .resetMinRt => cont n op + 3 | .resetMaxConc => cont n op + 2 | .unlock => cont n op + 1
  | .mbAdd => 3 | .minrtLoad => 2 | .minrtStore => 1 | .maxconcLoad => 2 | .maxconcStore => 1
  | .valGet j col => 3 * (n - j) + col.length + 4 | .depLoad j col => 3 * (n - j) + col.length + 3
  | .mbGet rem _ => rem.length + 1

def nxPcMeas (n : Nat) (op : OpSpec) : Next → Nat
  | .pc p => pcMeas n op p
  | .fin _ => 0

/-- bound for a whole operation (including the step that starts it) -/
def opMax (n : Nat) (op : OpSpec) : Nat := cont n op + 12

def Th.meas (n : Nat) (t : Th) : Nat :=
  (match t.cur with | some f => pcMeas n f.op f.pc | none => 0) + (t.prog.map (opMax n)).sum

theorem apply_n (sh : Shared) (a : Act) : (sh.apply a).n = sh.n := by cases a <;> rfl

theorem firstVal_meas (sh : Shared) (op : OpSpec) : nxPcMeas sh.n op (firstVal sh) ≤ 3 * sh.n + 4 := by
  unfold firstVal; split_ifs <;> simp [nxPcMeas, pcMeas]

theorem afterCur_meas (sh : Shared) (op : OpSpec) (ok : Bool) : nxPcMeas sh.n op (afterCur sh op ok) ≤ cont sh.n op := by
  cases op <;> simp only [afterCur, cont]
  case add => split_ifs <;> simp [nxPcMeas, pcMeas]
  case conc => split_ifs <;> simp [nxPcMeas, pcMeas]
  case count => exact firstVal_meas sh _
  case viewsum => exact firstVal_meas sh _

theorem afterScan_meas (n : Nat) (op : OpSpec) (col : List Nat) : nxPcMeas n op (afterScan col) ≤ col.length + 1 := by
  cases col <;> simp [afterScan, nxPcMeas, pcMeas]

/-- a step inside an operation strictly decreases the measure, unless it is a failed `TryLock` -/
theorem decide_meas (sh : Shared) (op : OpSpec) (now : Nat) (pc : Pc) (hl : pc = .tryLock → sh.lock = false) :
    nxPcMeas sh.n op (decideStep sh op now pc).2 < pcMeas sh.n op pc := by
  cases pc <;> simp only [decideStep]
  case curLoad =>
    split_ifs
    · have := afterCur_meas sh op true; simp only [pcMeas]; omega
    · simp [nxPcMeas, pcMeas]
    · have := afterCur_meas sh op true; simp only [pcMeas]; omega
    · have := afterCur_meas sh op false; simp only [pcMeas]; omega
  case tryLock => simp [hl rfl, nxPcMeas, pcMeas]
  case spin => simp [nxPcMeas, pcMeas]
  case resetStart => simp [nxPcMeas, pcMeas]
  case resetCnt k =>
    split_ifs with hk
    · simp [nxPcMeas, pcMeas]; simp [nEv] at hk; omega
    · simp [nxPcMeas, pcMeas]; omega
  case resetMinRt => simp [nxPcMeas, pcMeas]
  case resetMaxConc => simp [nxPcMeas, pcMeas]
  case unlock => have := afterCur_meas sh op true; simp only [pcMeas]; omega
  case mbAdd => cases op <;> simp only [] <;> (try split_ifs) <;> simp [nxPcMeas, pcMeas]
  case minrtLoad => cases op <;> simp only [] <;> (try split_ifs) <;> simp [nxPcMeas, pcMeas]
  case minrtStore => cases op <;> simp [nxPcMeas, pcMeas]
  case maxconcLoad => cases op <;> simp only [] <;> (try split_ifs) <;> simp [nxPcMeas, pcMeas]
  case maxconcStore => cases op <;> simp [nxPcMeas, pcMeas]
  case valGet j col => simp [nxPcMeas, pcMeas]
  case depLoad j col =>
    have key : ∀ col' : List Nat, col'.length ≤ col.length + 1 →
        nxPcMeas sh.n op (if j + 1 < sh.n then .pc (.valGet (j + 1) col') else afterScan col') < pcMeas sh.n op (.depLoad j col) := by
      intro col' hc
      by_cases hn : j + 1 < sh.n
      · rw [if_pos hn]; simp only [nxPcMeas, pcMeas]; omega
      · rw [if_neg hn]; have := afterScan_meas sh.n op col'; simp only [pcMeas]; omega
    apply key
    split_ifs <;> simp
  case mbGet rem acc =>
    cases rem with
    | nil => simp [nxPcMeas, pcMeas]
    | cons j r => cases r <;> simp [nxPcMeas, pcMeas]

theorem firstPc_meas (sh : Shared) (op : OpSpec) : nxPcMeas sh.n op (firstPc sh op) < opMax sh.n op := by
  cases op <;> simp only [firstPc, opMax, cont]
  case viewsum => have := firstVal_meas sh (.viewsum ‹_›); omega
  all_goals simp [nxPcMeas, pcMeas, cont]

theorem opMax_pos (n : Nat) (op : OpSpec) : 0 < opMax n op := by unfold opMax; omega

theorem startNext_meas (sh : Shared) (clock : Nat) (prog : List OpSpec) (res : List Res) :
    (startNext sh clock prog res).meas sh.n ≤ (prog.map (opMax sh.n)).sum
      ∧ (prog ≠ [] → (startNext sh clock prog res).meas sh.n < (prog.map (opMax sh.n)).sum) := by
  induction prog generalizing res with
  | nil => simp [startNext, Th.meas]
  | cons op rest ih =>
    simp only [startNext, List.map_cons, List.sum_cons]
    have hp := opMax_pos sh.n op
    split_ifs with hc
    · have := (ih (res ++ [mkRes sh op 0 (zeroRes op)])).1
      exact ⟨by omega, fun _ => by omega⟩
    · have hf := firstPc_meas sh op
      cases hfp : firstPc sh op with
      | pc p =>
        rw [hfp] at hf
        simp only [nxPcMeas] at hf
        simp only [Th.meas]
        exact ⟨by omega, fun _ => by omega⟩
      | fin r =>
        have := (ih (res ++ [mkRes sh op clock r])).1
        simp only []
        exact ⟨by omega, fun _ => by omega⟩

theorem pcMeas_pos (n : Nat) (op : OpSpec) (pc : Pc) : 0 < pcMeas n op pc := by
  cases pc <;> simp [pcMeas]

/-- **progress**: a granted step strictly decreases the thread's measure unless it is a failed `TryLock` -/
theorem stepTh_meas (sh : Shared) (clock : Nat) (t : Th) (hnf : t.finished = false)
    (hl : ∀ f, t.cur = some f → f.pc = .tryLock → sh.lock = false) :
    (stepTh sh clock t).2.meas sh.n < t.meas sh.n := by
  cases hc : t.cur with
  | none =>
    rw [stepTh_none sh clock t hc]
    have hp : t.prog ≠ [] := by
      intro h; simp [Th.finished, hc, h] at hnf
    have := (startNext_meas sh clock t.prog t.res).2 hp
    simpa [Th.meas, hc] using this
  | some f =>
    rw [stepTh_some sh clock t f hc]
    have hd := decide_meas sh f.op f.now f.pc (hl f hc)
    simp only [Th.meas, hc]
    cases hn : (decideStep sh f.op f.now f.pc).2 with
    | pc p =>
      rw [hn] at hd
      simp only [adv, nxPcMeas] at hd ⊢
      omega
    | fin r =>
      simp only [adv]
      have h1 := (startNext_meas (sh.apply (decideStep sh f.op f.now f.pc).1) clock t.prog
        (t.res ++ [mkRes (sh.apply (decideStep sh f.op f.now f.pc).1) f.op f.now r])).1
      rw [apply_n] at h1
      have h2 := pcMeas_pos sh.n f.op f.pc
      simp only [Th.meas] at h1
      omega

theorem meas_zero_finished (n : Nat) (t : Th) (h : t.meas n = 0) : t.finished = true := by
  unfold Th.meas at h
  cases hc : t.cur with
  | some f => rw [hc] at h; have := pcMeas_pos n f.op f.pc; simp only [] at h; omega
  | none =>
    cases hp : t.prog with
    | nil => simp [Th.finished, hc, hp]
    | cons op rest => rw [hp] at h; have := opMax_pos n op; simp at h; omega

theorem stepTh_finished (sh : Shared) (clock : Nat) (t : Th) (h : t.finished = true) :
    (stepTh sh clock t) = (sh, t) := by
  obtain ⟨prog, cur, res⟩ := t
  simp [Th.finished] at h
  obtain ⟨h1, h2⟩ := h
  subst h1; subst h2
  simp [stepTh, startNext]

theorem critMeas_pos (pc : Pc) (h : pc.inCrit = true) : 0 < critMeas pc := by
  cases pc <;> simp [Pc.inCrit] at h <;> simp [critMeas]

theorem critMeas_le (pc : Pc) : critMeas pc ≤ 9 := by
  cases pc <;> simp [critMeas]; omega

/-- number of steps granted to thread `i` by a schedule -/
def stepsOf (i : Nat) : List Entry → Nat
  | [] => 0
  | .step j :: r => (if j = i then 1 else 0) + stepsOf i r
  | .tick _ :: r => stepsOf i r

theorem exec_other (c : Cfg) (i : Nat) (e : Entry) (h : e ≠ .step i) : (c.exec e).th[i]? = c.th[i]? := by
  cases e with
  | tick d => rfl
  | step j =>
    simp only [Cfg.exec]
    cases hj : c.th[j]? with
    | none => rfl
    | some u =>
      simp only []
      rw [set_get c.th j u _ hj]
      have : j ≠ i := fun hji => h (by rw [hji])
      simp [this]


end Sentinel.LAR
