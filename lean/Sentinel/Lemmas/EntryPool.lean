import Mathlib.Tactic
import Sentinel.Lemmas.Entry
import Sentinel.Model.EntryPool
/-!
# The pooled model refines the pool-free model, whatever object the pool hands out
-/
namespace Sentinel.EntryPool
open Sentinel.LA Sentinel.Entry

/-! ## the statistic machinery never looks at the entry table -/

theorem onStat_ents (s : St) (c : Ctx) (f : Node → Node) (l : List (Nat × Ctx)) :
    onStat { s with ents := l } c f = { onStat s c f with ents := l } := by
  unfold onStat; split_ifs <;> rfl

theorem statPassed_ents (s : St) (c : Ctx) (t : Nat) (l : List (Nat × Ctx)) :
    statPassed { s with ents := l } c t = { statPassed s c t with ents := l } := by
  unfold statPassed; simp only [onStat_ents]; split_ifs <;> rfl

theorem statBlocked_ents (s : St) (c : Ctx) (t : Nat) (l : List (Nat × Ctx)) :
    statBlocked { s with ents := l } c t = { statBlocked s c t with ents := l } := by
  unfold statBlocked; simp only [onStat_ents]; split_ifs <;> rfl

theorem statCompleted_ents (s : St) (c : Ctx) (t : Nat) (l : List (Nat × Ctx)) :
    statCompleted { s with ents := l } c t = { statCompleted s c t with ents := l } := by
  unfold statCompleted; simp only [onStat_ents]; split_ifs <;> rfl

theorem chainEntry_ents (fix : Bool) (s : St) (c : Ctx) (t : Nat) (l : List (Nat × Ctx)) :
    chainEntry fix { s with ents := l } c t =
      ({ (chainEntry fix s c t).1 with ents := l }, (chainEntry fix s c t).2) := by
  rw [chainEntry_eq, chainEntry_eq]
  have h1 : (if attached c.e.chain = true then
        ({ ({ s with ents := l } : St) with nodes := getOrCreate ({ s with ents := l } : St).nodes c.e.res t } : St)
      else { s with ents := l }) =
      { (if attached c.e.chain = true then ({ s with nodes := getOrCreate s.nodes c.e.res t } : St) else s) with ents := l } := by
    split_ifs <;> rfl
  simp only [h1]
  cases outcome c.e.chain with
  | pass => simp only [statPassed_ents]
  | block => simp only [statBlocked_ents]
  | panic => cases fix <;> simp only [recoverPanic, statPassed_ents] <;> rfl

/-! ## list plumbing -/

theorem getD_set_eq (l : List Ctx) (i : Nat) (v d : Ctx) (h : i < l.length) : (l.set i v).getD i d = v := by
  simp [List.getD, h]

theorem getD_set_ne (l : List Ctx) (i j : Nat) (v d : Ctx) (h : i ≠ j) : (l.set i v).getD j d = l.getD j d := by
  simp [List.getD, List.getElem?_set_ne h]

theorem getD_append_left (l m : List Ctx) (j : Nat) (d : Ctx) (h : j < l.length) : (l ++ m).getD j d = l.getD j d := by
  simp [List.getD, List.getElem?_append_left h]

theorem getD_append_new (l : List Ctx) (v d : Ctx) : (l ++ [v]).getD l.length d = v := by
  simp [List.getD]

@[simp] theorem findP_cons (id : Nat) (c : PEnt) (l : List (Nat × PEnt)) (id' : Nat) :
    findP ((id, c) :: l) id' = if id = id' then some c else findP l id' := rfl

/-! ## the relation -/

/-- the state `EntryContext.Reset` leaves behind (and `ctxPool.New` creates), as far as `api.entry` relies on it -/
def isReset (c : Ctx) : Prop :=
  c.err = none ∧ c.hasNode = false ∧ c.blocked = false ∧ c.e.args = [] ∧ c.e.atts = [] ∧ c.exited = false

theorem isReset_fresh : isReset freshCtx := ⟨rfl, rfl, rfl, rfl, rfl, rfl⟩
theorem isReset_reset (c : Ctx) (h : c.exited = false) : isReset (resetCtx c) := ⟨rfl, rfl, rfl, rfl, rfl, h⟩

structure Rel (p : PSt) (s : St) : Prop where
  inb : p.inb = s.inb
  nodes : p.nodes = s.nodes
  log : p.log = s.log
  exited : ∀ id, (findP p.ents id).map (·.exited) = (findE s.ents id).map (·.exited)
  isnil : ∀ id, (findP p.ents id).map (·.isNil) = (findE s.ents id).map (·.blocked)
  live : ∀ id pe, findP p.ents id = some pe → pe.exited = false →
      pe.ctx < p.store.length ∧ findE s.ents id = some (p.store.getD pe.ctx freshCtx)
  free_ok : ∀ i ∈ p.free, i < p.store.length ∧ isReset (p.store.getD i freshCtx)
  free_nd : p.free.Nodup
  live_nf : ∀ id pe, findP p.ents id = some pe → pe.exited = false → pe.ctx ∉ p.free
  live_inj : ∀ id id' pe pe', findP p.ents id = some pe → findP p.ents id' = some pe' →
      pe.exited = false → pe'.exited = false → id ≠ id' → pe.ctx ≠ pe'.ctx

theorem rel_init (t0 : Nat) : Rel (init t0) (Entry.init t0) :=
  ⟨rfl, rfl, rfl, fun _ => rfl, fun _ => rfl, fun _ _ h => by simp [init, findP] at h, fun _ h => by simp [init] at h,
   List.nodup_nil, fun _ _ h => by simp [init, findP] at h, fun _ _ _ _ h => by simp [init, findP] at h⟩

theorem core_eq {p : PSt} {s : St} (r : Rel p s) : p.core = { s with ents := [] } := by
  unfold PSt.core; rw [r.inb, r.nodes, r.log]

/-- a live entry's context is not marked exited -/
theorem live_ctx_not_exited {p : PSt} {s : St} (r : Rel p s) (id : Nat) (pe : PEnt)
    (h : findP p.ents id = some pe) (hl : pe.exited = false) : (p.store.getD pe.ctx freshCtx).exited = false := by
  have h1 := r.exited id
  have h2 := (r.live id pe h hl).2
  rw [h, h2] at h1
  simpa [hl] using h1.symm

/-- `api.TraceError` -/
theorem rel_trace {p : PSt} {s : St} (r : Rel p s) (id : Nat) (err : Option String) :
    Rel (apiTrace p id err) (Entry.apiTrace s id err) := by
  unfold apiTrace Entry.apiTrace
  have hex := r.exited id
  cases hp : findP p.ents id with
  | none =>
    rw [hp] at hex
    cases hs : findE s.ents id with
    | none => exact r
    | some c => rw [hs] at hex; simp at hex
  | some pe =>
    rw [hp] at hex
    cases hs : findE s.ents id with
    | none => rw [hs] at hex; simp at hex
    | some c =>
      rw [hs] at hex
      have hexi : pe.exited = c.exited := by simpa using hex
      simp only []
      by_cases hx : pe.exited = true
      · have : c.exited = true := hexi ▸ hx
        simp only [hx, this, if_true]; exact r
      · have hpf : pe.exited = false := by simpa using hx
        have hcf : c.exited = false := hexi ▸ hpf
        simp only [hpf, hcf, Bool.false_eq_true, if_false]
        cases err with
        | none => exact r
        | some x =>
          obtain ⟨hlen, hfe⟩ := r.live id pe hp hpf
          have hc : c = p.store.getD pe.ctx freshCtx := by rw [hs] at hfe; exact Option.some.inj hfe
          simp only []
          refine ⟨r.inb, r.nodes, r.log, ?_, ?_, ?_, ?_, r.free_nd, r.live_nf, r.live_inj⟩
          · intro id'
            by_cases hid : id = id'
            · subst hid; simp [hp, hpf, hcf]
            · simp only [Entry.findE_cons, hid, if_false]; exact r.exited id'
          · intro id'
            by_cases hid : id = id'
            · subst hid
              have := r.isnil id
              rw [hp, hs] at this
              simpa [hp] using this
            · simp only [Entry.findE_cons, hid, if_false]; exact r.isnil id'
          · intro id' pe' hp' hl'
            by_cases hid : id = id'
            · subst hid
              have : pe' = pe := by rw [hp] at hp'; exact (Option.some.inj hp').symm
              subst this
              refine ⟨by simpa using hlen, ?_⟩
              simp only [Entry.findE_cons, if_true]
              rw [getD_set_eq _ _ _ _ hlen]
              have hcf' : (p.store.getD pe'.ctx freshCtx).exited = false := hc ▸ hcf
              rw [hc]; simp only [Option.some.injEq]
              rw [hcf']
            · have hne := r.live_inj id id' pe pe' hp hp' hpf hl' hid
              obtain ⟨hlen', hfe'⟩ := r.live id' pe' hp' hl'
              refine ⟨by simpa using hlen', ?_⟩
              simp only [Entry.findE_cons, hid, if_false]
              rw [getD_set_ne _ _ _ _ _ hne]; exact hfe'
          · intro i hi
            have hne : pe.ctx ≠ i := fun e => r.live_nf id pe hp hpf (e ▸ hi)
            obtain ⟨h1, h2⟩ := r.free_ok i hi
            refine ⟨by simpa using h1, ?_⟩
            rw [getD_set_ne _ _ _ _ _ hne]; exact h2

theorem withCore_store (p : PSt) (s : St) : (p.withCore s).store = p.store := rfl
theorem withCore_free (p : PSt) (s : St) : (p.withCore s).free = p.free := rfl
theorem withCore_ents (p : PSt) (s : St) : (p.withCore s).ents = p.ents := rfl

/-- `SentinelEntry.Exit` -/
theorem rel_exit {p : PSt} {s : St} (r : Rel p s) (t id : Nat) (err : Option String) :
    Rel (apiExit p t id err) (Entry.apiExit s t id err) := by
  unfold apiExit Entry.apiExit
  have hex := r.exited id
  cases hp : findP p.ents id with
  | none =>
    rw [hp] at hex
    cases hs : findE s.ents id with
    | none => exact r
    | some c => rw [hs] at hex; simp at hex
  | some pe =>
    rw [hp] at hex
    cases hs : findE s.ents id with
    | none => rw [hs] at hex; simp at hex
    | some c =>
      rw [hs] at hex
      have hexi : pe.exited = c.exited := by simpa using hex
      simp only []
      by_cases hx : pe.exited = true
      · have : c.exited = true := hexi ▸ hx
        simp only [hx, this, if_true]; exact r
      · have hpf : pe.exited = false := by simpa using hx
        have hcf : c.exited = false := hexi ▸ hpf
        obtain ⟨hlen, hfe⟩ := r.live id pe hp hpf
        have hc : p.store.getD pe.ctx freshCtx = c := by rw [hs] at hfe; exact (Option.some.inj hfe).symm
        simp only [hpf, hcf, Bool.false_eq_true, if_false, hc]
        -- the statistic part is the same function of (inb, nodes, log)
        set c1 : Ctx := { e := c.e, start := c.start, err := orErr err c.err, hasNode := c.hasNode, blocked := c.blocked, exited := false } with hc1
        have hcore : (if c.blocked = true then p.core else statCompleted p.core c1 t) =
            { (if c.blocked = true then s else statCompleted s c1 t) with ents := [] } := by
          rw [core_eq r]; split_ifs
          · rfl
          · rw [statCompleted_ents]
        have hsents : (if c.blocked = true then s else statCompleted s c1 t).ents = s.ents := by
          split_ifs
          · rfl
          · unfold statCompleted onStat; split_ifs <;> rfl
        rw [hcore]
        unfold poolPut
        simp only [withCore_store, withCore_free, withCore_ents, PSt.withCore]
        refine ⟨rfl, rfl, rfl, ?_, ?_, ?_, ?_, ?_, ?_, ?_⟩
        · intro id'
          by_cases hid : id = id'
          · subst hid; simp
          · simp only [findP_cons, Entry.findE_cons, hid, if_false, hsents]; exact r.exited id'
        · intro id'
          by_cases hid : id = id'
          · subst hid
            have := r.isnil id
            rw [hp, hs] at this
            simpa [c1] using this
          · simp only [findP_cons, Entry.findE_cons, hid, if_false, hsents]; exact r.isnil id'
        · intro id' pe' hp' hl'
          by_cases hid : id = id'
          · subst hid; simp at hp'; subst hp'; simp at hl'
          · simp only [findP_cons, hid, if_false] at hp'
            have hne := r.live_inj id id' pe pe' hp hp' hpf hl' hid
            obtain ⟨hlen', hfe'⟩ := r.live id' pe' hp' hl'
            refine ⟨by simpa using hlen', ?_⟩
            simp only [Entry.findE_cons, hid, if_false, hsents]
            rw [getD_set_ne _ _ _ _ _ hne, getD_set_ne _ _ _ _ _ hne]; exact hfe'
        · intro i hi
          rcases List.mem_cons.mp hi with rfl | hi
          · refine ⟨by simpa using hlen, ?_⟩
            rw [getD_set_eq _ _ _ _ (by simpa using hlen)]
            apply isReset_reset
            rw [getD_set_eq _ _ _ _ hlen]
          · have hne : pe.ctx ≠ i := fun e => r.live_nf id pe hp hpf (e ▸ hi)
            obtain ⟨h1, h2⟩ := r.free_ok i hi
            refine ⟨by simpa using h1, ?_⟩
            rw [getD_set_ne _ _ _ _ _ hne, getD_set_ne _ _ _ _ _ hne]; exact h2
        · exact List.nodup_cons.mpr ⟨r.live_nf id pe hp hpf, r.free_nd⟩
        · intro id' pe' hp' hl'
          by_cases hid : id = id'
          · subst hid; simp at hp'; subst hp'; simp at hl'
          · simp only [findP_cons, hid, if_false] at hp'
            intro hm
            rcases List.mem_cons.mp hm with h1 | h1
            · exact r.live_inj id id' pe pe' hp hp' hpf hl' hid h1.symm
            · exact r.live_nf id' pe' hp' hl' h1
        · intro id1 id2 pe1 pe2 hp1 hp2 hl1 hl2 hne
          by_cases h1 : id = id1
          · subst h1; simp at hp1; subst hp1; simp at hl1
          · by_cases h2 : id = id2
            · subst h2; simp at hp2; subst hp2; simp at hl2
            · simp only [findP_cons, h1, h2, if_false] at hp1 hp2
              exact r.live_inj id1 id2 pe1 pe2 hp1 hp2 hl1 hl2 hne

/-! ## `ctxPool.Get` -/

theorem not_mem_eraseIdx_of_nodup {l : List Nat} {k a : Nat} (hn : l.Nodup) (hk : l[k]? = some a) :
    a ∉ l.eraseIdx k := by
  induction l generalizing k with
  | nil => simp at hk
  | cons b r ih =>
    rw [List.nodup_cons] at hn
    cases k with
    | zero => simp at hk; subst hk; simpa using hn.1
    | succ j =>
      simp only [List.getElem?_cons_succ] at hk
      simp only [List.eraseIdx_cons_succ, List.mem_cons, not_or]
      refine ⟨?_, ih hn.2 hk⟩
      intro e; subst e; exact hn.1 (List.mem_of_getElem? hk)

/-- the object in hand between `Get` and the end of `api.Entry`: allocated, reset, in nobody's possession -/
structure Hand (p : PSt) (s : St) (i : Nat) : Prop where
  rel : Rel p s
  lt : i < p.store.length
  reset : isReset (p.store.getD i freshCtx)
  nf : i ∉ p.free
  nl : ∀ id pe, findP p.ents id = some pe → pe.exited = false → pe.ctx ≠ i

theorem poolGet_spec {p : PSt} {s : St} (r : Rel p s) (pick : Nat) :
    Hand (poolGet p pick).2 s (poolGet p pick).1 := by
  unfold poolGet
  cases hg : p.free[pick]? with
  | some i =>
    have hi : i ∈ p.free := List.mem_of_getElem? hg
    simp only []
    refine ⟨⟨r.inb, r.nodes, r.log, r.exited, r.isnil, r.live, ?_, r.free_nd.eraseIdx pick, ?_, r.live_inj⟩,
      (r.free_ok i hi).1, (r.free_ok i hi).2, not_mem_eraseIdx_of_nodup r.free_nd hg, ?_⟩
    · intro j hj; exact r.free_ok j (List.mem_of_mem_eraseIdx hj)
    · intro id pe hp hl hm; exact r.live_nf id pe hp hl (List.mem_of_mem_eraseIdx hm)
    · intro id pe hp hl e; exact r.live_nf id pe hp hl (e ▸ hi)
  | none =>
    simp only []
    refine ⟨⟨r.inb, r.nodes, r.log, r.exited, r.isnil, ?_, ?_, r.free_nd, r.live_nf, r.live_inj⟩, by simp, ?_, ?_, ?_⟩
    · intro id pe hp hl
      obtain ⟨h1, h2⟩ := r.live id pe hp hl
      refine ⟨by simp; omega, ?_⟩
      rw [getD_append_left _ _ _ _ h1]; exact h2
    · intro j hj
      obtain ⟨h1, h2⟩ := r.free_ok j hj
      refine ⟨by simp; omega, ?_⟩
      rw [getD_append_left _ _ _ _ h1]; exact h2
    · rw [getD_append_new]; exact isReset_fresh
    · intro hm; have := (r.free_ok _ hm).1; omega
    · intro id pe hp hl e; have := (r.live id pe hp hl).1; omega

theorem chainEntry_exited (fix : Bool) (s : St) (c : Ctx) (t : Nat) : (chainEntry fix s c t).2.1.exited = c.exited := by
  rw [chainEntry_eq]
  cases outcome c.e.chain with
  | pass => rfl
  | block => rfl
  | panic => cases fix <;> rfl

theorem chainEntry_blocked (fix : Bool) (s : St) (c : Ctx) (t : Nat) (hb : c.blocked = false) :
    (chainEntry fix s c t).2.1.blocked = decide ((chainEntry fix s c t).2.2 = some Out.block) := by
  rw [chainEntry_eq]
  cases outcome c.e.chain with
  | pass => simp
  | block => simp
  | panic => cases fix <;> simp [recoverPanic, hb]

theorem statPassed_keeps_ents (s : St) (c : Ctx) (t : Nat) : (statPassed s c t).ents = s.ents := by
  unfold statPassed onStat; split_ifs <;> rfl
theorem statBlocked_keeps_ents (s : St) (c : Ctx) (t : Nat) : (statBlocked s c t).ents = s.ents := by
  unfold statBlocked onStat; split_ifs <;> rfl

theorem chainEntry_keeps_ents (fix : Bool) (s : St) (c : Ctx) (t : Nat) : (chainEntry fix s c t).1.ents = s.ents := by
  rw [chainEntry_eq]
  have h1 : (if attached c.e.chain = true then ({ s with nodes := getOrCreate s.nodes c.e.res t } : St) else s).ents = s.ents := by
    split_ifs <;> rfl
  cases outcome c.e.chain with
  | pass => simp only [statPassed_keeps_ents, h1]
  | block => simp only [statBlocked_keeps_ents, h1]
  | panic =>
    cases fix with
    | true => simp only [recoverPanic, if_true]; rw [statPassed_keeps_ents]; exact h1
    | false => simp only [recoverPanic, Bool.false_eq_true, if_false]; exact h1

/-- what `api.entry` builds from a reset object is what the pool-free model starts from -/
theorem ctx0_eq (pc : Ctx) (h : isReset pc) (e : EntryOp) (t : Nat) :
    ({ pc with e := inputOf e pc, start := t } : Ctx) =
      { e := e, start := t, err := none, hasNode := false, blocked := false, exited := false } := by
  obtain ⟨h1, h2, h3, h4, h4', h5⟩ := h
  have ha : (if e.args.isEmpty then pc.e.args else e.args) = e.args := by
    rw [h4]; cases he : e.args <;> simp
  have hb : (if e.atts.isEmpty then pc.e.atts else e.atts) = e.atts := by
    rw [h4']; cases he : e.atts <;> simp
  have hi : inputOf e pc = e := by
    unfold inputOf; simp only [ha, hb]
  rw [hi, h1, h2, h3, h5]

theorem poolGet_ents (p : PSt) (pick : Nat) : (poolGet p pick).2.ents = p.ents := by
  unfold poolGet; cases p.free[pick]? <;> rfl

/-- `api.Entry` -/
theorem rel_entry {p : PSt} {s : St} (r : Rel p s) (fix : Bool) (t : Nat) (e : EntryOp) (pick : Nat) :
    Rel (apiEntry fix p t e pick) (Entry.apiEntry fix s t e) := by
  unfold apiEntry Entry.apiEntry
  have hex := r.exited e.id
  cases hp : findP p.ents e.id with
  | some pe =>
    rw [hp] at hex
    cases hs : findE s.ents e.id with
    | none => rw [hs] at hex; simp at hex
    | some c => exact r
  | none =>
    rw [hp] at hex
    cases hs : findE s.ents e.id with
    | some c => rw [hs] at hex; simp at hex
    | none =>
      simp only []
      have H := poolGet_spec r pick
      have hents := poolGet_ents p pick
      generalize poolGet p pick = g at H hents ⊢
      obtain ⟨i, p1⟩ := g
      simp only at H hents ⊢
      have hfresh : findP p1.ents e.id = none := by rw [hents]; exact hp
      rw [ctx0_eq (p1.store.getD i freshCtx) H.reset e t, core_eq H.rel, chainEntry_ents]
      set c0 : Ctx := { e := e, start := t, err := none, hasNode := false, blocked := false, exited := false } with hc0
      have hRex : (chainEntry fix s c0 t).2.1.exited = false := chainEntry_exited fix s c0 t
      have hRents : (chainEntry fix s c0 t).1.ents = s.ents := chainEntry_keeps_ents fix s c0 t
      have hRb := chainEntry_blocked fix s c0 t rfl
      generalize chainEntry fix s c0 t = R at hRex hRents hRb ⊢
      obtain ⟨s2, c2, res⟩ := R
      simp only at hRex hRents hRb ⊢
      have rr := H.rel
      have hblockcase : ∀ (b : Bool), c2.blocked = b →
          Rel (if b then poolPut { (p1.withCore { s2 with ents := [] }) with
                  store := (p1.withCore { s2 with ents := [] }).store.set i c2,
                  ents := (e.id, { ctx := i, exited := true, isNil := true }) :: p1.ents } i
               else { (p1.withCore { s2 with ents := [] }) with
                  store := (p1.withCore { s2 with ents := [] }).store.set i c2,
                  ents := (e.id, { ctx := i, exited := false }) :: p1.ents })
              (if b then { s2 with ents := (e.id, { c2 with exited := true }) :: s2.ents }
               else { s2 with ents := (e.id, c2) :: s2.ents }) := by
        intro b hcb
        cases b with
        | true =>
          simp only [if_true]
          unfold poolPut
          simp only [PSt.withCore]
          refine ⟨rfl, rfl, rfl, ?_, ?_, ?_, ?_, ?_, ?_, ?_⟩
          · intro id'
            by_cases hid : e.id = id'
            · subst hid; simp
            · simp only [findP_cons, Entry.findE_cons, hid, if_false, hRents]; exact rr.exited id'
          · intro id'
            by_cases hid : e.id = id'
            · subst hid; simp [hcb]
            · simp only [findP_cons, Entry.findE_cons, hid, if_false, hRents]; exact rr.isnil id'
          · intro id' pe' hp' hl'
            by_cases hid : e.id = id'
            · subst hid; simp at hp'; subst hp'; simp at hl'
            · simp only [findP_cons, hid, if_false] at hp'
              have hne : i ≠ pe'.ctx := fun h => H.nl id' pe' hp' hl' h.symm
              obtain ⟨hlen', hfe'⟩ := rr.live id' pe' hp' hl'
              refine ⟨by simpa using hlen', ?_⟩
              simp only [Entry.findE_cons, hid, if_false, hRents]
              rw [getD_set_ne _ _ _ _ _ hne, getD_set_ne _ _ _ _ _ hne]; exact hfe'
          · intro j hj
            rcases List.mem_cons.mp hj with rfl | hj
            · refine ⟨by simpa using H.lt, ?_⟩
              rw [getD_set_eq _ _ _ _ (by simpa using H.lt)]
              apply isReset_reset
              rw [getD_set_eq _ _ _ _ H.lt]; exact hRex
            · have hne : i ≠ j := fun h => H.nf (h ▸ hj)
              obtain ⟨h1, h2⟩ := rr.free_ok j hj
              refine ⟨by simpa using h1, ?_⟩
              rw [getD_set_ne _ _ _ _ _ hne, getD_set_ne _ _ _ _ _ hne]; exact h2
          · exact List.nodup_cons.mpr ⟨H.nf, rr.free_nd⟩
          · intro id' pe' hp' hl'
            by_cases hid : e.id = id'
            · subst hid; simp at hp'; subst hp'; simp at hl'
            · simp only [findP_cons, hid, if_false] at hp'
              intro hm
              rcases List.mem_cons.mp hm with h1 | h1
              · exact H.nl id' pe' hp' hl' h1
              · exact rr.live_nf id' pe' hp' hl' h1
          · intro id1 id2 pe1 pe2 hp1 hp2 hl1 hl2 hne
            by_cases h1 : e.id = id1
            · subst h1; simp at hp1; subst hp1; simp at hl1
            · by_cases h2 : e.id = id2
              · subst h2; simp at hp2; subst hp2; simp at hl2
              · simp only [findP_cons, h1, h2, if_false] at hp1 hp2
                exact rr.live_inj id1 id2 pe1 pe2 hp1 hp2 hl1 hl2 hne
        | false =>
          simp only [Bool.false_eq_true, if_false, PSt.withCore]
          refine ⟨rfl, rfl, rfl, ?_, ?_, ?_, ?_, rr.free_nd, ?_, ?_⟩
          · intro id'
            by_cases hid : e.id = id'
            · subst hid; simp [hRex]
            · simp only [findP_cons, Entry.findE_cons, hid, if_false, hRents]; exact rr.exited id'
          · intro id'
            by_cases hid : e.id = id'
            · subst hid; simp [hcb]
            · simp only [findP_cons, Entry.findE_cons, hid, if_false, hRents]; exact rr.isnil id'
          · intro id' pe' hp' hl'
            by_cases hid : e.id = id'
            · subst hid; simp at hp'; subst hp'
              refine ⟨by simpa using H.lt, ?_⟩
              simp only [Entry.findE_cons, if_true]
              rw [getD_set_eq _ _ _ _ H.lt]
            · simp only [findP_cons, hid, if_false] at hp'
              have hne : i ≠ pe'.ctx := fun h => H.nl id' pe' hp' hl' h.symm
              obtain ⟨hlen', hfe'⟩ := rr.live id' pe' hp' hl'
              refine ⟨by simpa using hlen', ?_⟩
              simp only [Entry.findE_cons, hid, if_false, hRents]
              rw [getD_set_ne _ _ _ _ _ hne]; exact hfe'
          · intro j hj
            have hne : i ≠ j := fun h => H.nf (h ▸ hj)
            obtain ⟨h1, h2⟩ := rr.free_ok j hj
            refine ⟨by simpa using h1, ?_⟩
            rw [getD_set_ne _ _ _ _ _ hne]; exact h2
          · intro id' pe' hp' hl'
            by_cases hid : e.id = id'
            · subst hid; simp at hp'; subst hp'; exact H.nf
            · simp only [findP_cons, hid, if_false] at hp'; exact rr.live_nf id' pe' hp' hl'
          · intro id1 id2 pe1 pe2 hp1 hp2 hl1 hl2 hne
            by_cases h1 : e.id = id1
            · subst h1; simp at hp1; subst hp1
              have h2 : ¬ e.id = id2 := hne
              simp only [findP_cons, h2, if_false] at hp2
              exact fun h => H.nl id2 pe2 hp2 hl2 h.symm
            · by_cases h2 : e.id = id2
              · subst h2; simp at hp2; subst hp2
                simp only [findP_cons, h1, if_false] at hp1
                exact H.nl id1 pe1 hp1 hl1
              · simp only [findP_cons, h1, h2, if_false] at hp1 hp2
                exact rr.live_inj id1 id2 pe1 pe2 hp1 hp2 hl1 hl2 hne
      cases res with
      | none => simpa [PSt.withCore] using hblockcase false (by simpa using hRb)
      | some o =>
        cases o with
        | block => simpa [PSt.withCore] using hblockcase true (by simpa using hRb)
        | pass => simpa [PSt.withCore] using hblockcase false (by simpa using hRb)
        | panic => simpa [PSt.withCore] using hblockcase false (by simpa using hRb)

theorem rel_step {p : PSt} {s : St} (r : Rel p s) (fix : Bool) (x : TOp) (pick : Nat) :
    Rel (step fix p x pick) (Entry.step fix s x) := by
  obtain ⟨t, op⟩ := x
  cases op with
  | entry e => exact rel_entry r fix t e pick
  | trace id err => exact rel_trace r id err
  | exit id err => exact rel_exit r t id err

/-- along every history, for every sequence of pool choices -/
theorem rel_runR (fix : Bool) (t0 : Nat) (h : List (TOp × Nat)) :
    Rel (runR fix t0 h) (Entry.runR fix t0 (h.map (·.1))) := by
  induction h with
  | nil => exact rel_init t0
  | cons x r ih => exact rel_step ih fix x.1 x.2

end Sentinel.EntryPool
